//! Engine E4: crash-isolated, fork-based worker pool.
//!
//! The parent never touches the subject.  It forks N children; each child builds its
//! own world (`make_worker`), claims chunks of the case space from a shared atomic
//! counter and runs every case of the chunk.  Before each case the child publishes the
//! case index in shared memory, so when a child dies (SIGABRT from a panic inside an
//! `extern "sysv64"` bus helper, SIGSEGV/SIGBUS from translated code or an over-mapped
//! ROM) the parent knows exactly which case killed it.  The case is then replayed
//! twice, alone, in fresh children: if it dies both times the crash is a verdict about
//! the subject (recorded as a violation under `crash_key`), otherwise it is a machinery
//! error.  A replacement child resumes the interrupted chunk after the crashing case.
//!
//! Counters and the "distinct outcome class" bitmap live in MAP_SHARED memory; children
//! flush local counters at chunk boundaries.  Violations are de-duplicated per key in
//! the child and appended to a per-child file as soon as a key is first seen.

use crate::util::json::{self, J};
use std::collections::BTreeMap;
use std::io::Write;
use std::sync::atomic::{AtomicU64, Ordering};
use std::time::{Duration, Instant};

pub const NCOUNTERS: usize = 64;
const MAX_WORKERS: usize = 64;
const SLOT_WORDS: usize = 8;

#[repr(C)]
struct Header {
  next_chunk: AtomicU64,
  cases_done: AtomicU64,
  stop: AtomicU64,
  counters: [AtomicU64; NCOUNTERS],
  // per worker: [cur_case+1 (0 = idle), chunk+1, generation, spare...]
  slots: [[AtomicU64; SLOT_WORDS]; MAX_WORKERS],
}

pub struct Shared {
  base: *mut u8,
  len: usize,
  bitmap_words: usize,
  result_words: usize,
}

unsafe impl Sync for Shared {}

impl Shared {
  fn new(bitmap_bits: usize, result_words: usize) -> Shared {
    let bitmap_words = (bitmap_bits + 63) / 64;
    let len = std::mem::size_of::<Header>() + bitmap_words * 8 + result_words * 8;
    let base = unsafe {
      libc::mmap(
        std::ptr::null_mut(),
        len,
        libc::PROT_READ | libc::PROT_WRITE,
        libc::MAP_SHARED | libc::MAP_ANONYMOUS,
        -1,
        0,
      )
    };
    if base == libc::MAP_FAILED {
      panic!("pool: mmap of shared region failed");
    }
    Shared { base: base as *mut u8, len, bitmap_words, result_words }
  }
  fn hdr(&self) -> &Header {
    unsafe { &*(self.base as *const Header) }
  }
  fn bitmap(&self) -> &[AtomicU64] {
    unsafe {
      std::slice::from_raw_parts(
        self.base.add(std::mem::size_of::<Header>()) as *const AtomicU64,
        self.bitmap_words,
      )
    }
  }
}

impl Shared {
  fn results(&self) -> &[AtomicU64] {
    unsafe {
      std::slice::from_raw_parts(
        self.base.add(std::mem::size_of::<Header>() + self.bitmap_words * 8) as *const AtomicU64,
        self.result_words,
      )
    }
  }
}

impl Drop for Shared {
  fn drop(&mut self) {
    unsafe {
      libc::munmap(self.base as *mut libc::c_void, self.len);
    }
  }
}

/// Per-case context handed to the job.
pub struct Ctx<'a> {
  shared: &'a Shared,
  local: [u64; NCOUNTERS],
  seen: BTreeMap<String, u64>,
  out: std::fs::File,
  max_keys: usize,
  samples_left: usize,
  pub slot: usize,
}

impl<'a> Ctx<'a> {
  #[inline]
  pub fn count(&mut self, id: usize, n: u64) {
    self.local[id] += n;
  }
  /// Mark outcome class `bit` as seen (exact index if the class space fits the bitmap,
  /// otherwise hash it yourself; collisions only ever under-count).
  #[inline]
  pub fn class(&mut self, bit: u64) {
    let bm = self.shared.bitmap();
    let nbits = (bm.len() * 64) as u64;
    let b = bit % nbits;
    let w = &bm[(b / 64) as usize];
    let m = 1u64 << (b % 64);
    if w.load(Ordering::Relaxed) & m == 0 {
      w.fetch_or(m, Ordering::Relaxed);
    }
  }
  /// Report a violation.  `detail` is evaluated only for the first occurrence of `key`
  /// in this child.
  pub fn violation<F: FnOnce() -> J>(&mut self, key: &str, detail: F) {
    if let Some(c) = self.seen.get_mut(key) {
      *c += 1;
      return;
    }
    if self.seen.len() >= self.max_keys {
      *self.seen.entry("<<key-cap>>".to_string()).or_insert(0) += 1;
      return;
    }
    self.seen.insert(key.to_string(), 1);
    let line = J::obj().set("key", J::s(key)).set("detail", detail()).to_string();
    let _ = writeln!(self.out, "{}", line);
    let _ = self.out.flush();
  }
  /// Store a per-case 64-bit result (requires PoolOpts.result_words >= number of slots used).
  #[inline]
  pub fn result(&mut self, index: u64, value: u64) {
    let r = self.shared.results();
    if (index as usize) < r.len() {
      r[index as usize].store(value, Ordering::Relaxed);
    }
  }
  pub fn has_key(&self, key: &str) -> bool {
    self.seen.contains_key(key)
  }
  pub fn sample<F: FnOnce() -> J>(&mut self, f: F) {
    if self.samples_left > 0 {
      self.samples_left -= 1;
      let line = J::obj().set("sample", f()).to_string();
      let _ = writeln!(self.out, "{}", line);
    }
  }
  fn flush_counters(&mut self) {
    let h = self.shared.hdr();
    for i in 0..NCOUNTERS {
      if self.local[i] != 0 {
        h.counters[i].fetch_add(self.local[i], Ordering::Relaxed);
        self.local[i] = 0;
      }
    }
  }
  fn finish(&mut self) {
    self.flush_counters();
    for (k, c) in self.seen.iter() {
      let line = J::obj().set("key", J::s(k.as_str())).set("count", J::u(*c)).to_string();
      let _ = writeln!(self.out, "{}", line);
    }
    let _ = self.out.flush();
  }
}

pub struct PoolOpts {
  pub workers: usize,
  pub chunk: u64,
  pub bitmap_bits: usize,
  pub max_keys_per_child: usize,
  pub samples_per_child: usize,
  pub deadline: Option<Duration>,
  pub max_crashes: u64,
  /// number of u64 per-case result slots (0 = none); returned in PoolResult.results
  pub result_words: usize,
  /// where children write their stdout (serial port / cache diagnostics of the subject)
  pub quiet_stdout: bool,
}

impl Default for PoolOpts {
  fn default() -> Self {
    PoolOpts {
      workers: default_workers(),
      chunk: 1024,
      bitmap_bits: 1 << 20,
      max_keys_per_child: 4096,
      samples_per_child: 1,
      deadline: None,
      max_crashes: 256,
      result_words: 0,
      quiet_stdout: true,
    }
  }
}

pub fn default_workers() -> usize {
  if let Ok(v) = std::env::var("GBMC_WORKERS") {
    if let Ok(n) = v.parse::<usize>() {
      return n.max(1).min(MAX_WORKERS);
    }
  }
  let n = unsafe { libc::sysconf(libc::_SC_NPROCESSORS_ONLN) };
  (if n < 1 { 1 } else { n as usize }).min(MAX_WORKERS)
}

#[derive(Debug, Clone)]
pub struct Violation {
  pub key: String,
  pub count: u64,
  pub detail: J,
}

pub struct PoolResult {
  pub cases_total: u64,
  pub cases_done: u64,
  pub counters: [u64; NCOUNTERS],
  pub distinct: u64,
  pub violations: Vec<Violation>,
  pub samples: Vec<J>,
  pub crashes: u64,
  pub capped: bool,
  pub machinery_errors: Vec<String>,
  pub wall: Duration,
  pub results: Vec<u64>,
}

impl PoolResult {
  pub fn merge(&mut self, other: PoolResult) {
    self.cases_total += other.cases_total;
    self.cases_done += other.cases_done;
    for i in 0..NCOUNTERS {
      self.counters[i] += other.counters[i];
    }
    self.distinct += other.distinct;
    for v in other.violations {
      if let Some(e) = self.violations.iter_mut().find(|e| e.key == v.key) {
        e.count += v.count;
      } else {
        self.violations.push(v);
      }
    }
    for s in other.samples {
      if self.samples.len() < 8 {
        self.samples.push(s);
      }
    }
    self.crashes += other.crashes;
    self.capped |= other.capped;
    self.machinery_errors.extend(other.machinery_errors);
    self.wall += other.wall;
  }
  /// for stages that run in another build of the harness (a worker process): the whole result
  /// as JSON, and back
  pub fn to_json(&self) -> J {
    let viol = J::Arr(self.violations.iter().map(|v| J::obj().set("key", J::s(v.key.as_str())).set("count", J::u(v.count)).set("detail", v.detail.clone())).collect());
    J::obj()
      .set("cases_done", J::u(self.cases_done))
      .set("cases_total", J::u(self.cases_total))
      .set("distinct", J::u(self.distinct))
      .set("counters", J::Arr(self.counters.iter().map(|c| J::u(*c)).collect()))
      .set("crashes", J::u(self.crashes))
      .set("capped", J::Bool(self.capped))
      .set("wall_ms", J::u(self.wall.as_millis() as u64))
      .set("samples", J::Arr(self.samples.clone()))
      .set("violations", viol)
      .set("machinery", J::Arr(self.machinery_errors.iter().map(|m| J::s(m.as_str())).collect()))
  }
  pub fn from_json(m: &J, who: &str) -> PoolResult {
    let mut r = PoolResult::empty();
    let num = |k: &str| m.int_of(k).max(0) as u64;
    r.cases_done = num("cases_done");
    r.cases_total = num("cases_total");
    r.distinct = num("distinct");
    if let Some(cs) = m.get("counters").and_then(|v| v.as_arr()) {
      for (i, c) in cs.iter().enumerate().take(NCOUNTERS) {
        r.counters[i] = c.as_i64().unwrap_or(0).max(0) as u64;
      }
    }
    r.crashes = num("crashes");
    r.capped = matches!(m.get("capped"), Some(J::Bool(true)));
    r.wall = Duration::from_millis(num("wall_ms"));
    if let Some(ss) = m.get("samples").and_then(|v| v.as_arr()) {
      r.samples = ss.iter().cloned().collect();
    }
    if let Some(vs) = m.get("violations").and_then(|v| v.as_arr()) {
      for v in vs {
        r.violations.push(Violation { key: v.str_of("key"), count: v.int_of("count").max(1) as u64, detail: v.get("detail").cloned().unwrap_or(J::Null) });
      }
    }
    if let Some(ms) = m.get("machinery").and_then(|v| v.as_arr()) {
      for x in ms {
        r.machinery_errors.push(format!("{}: {}", who, x.as_str().unwrap_or("")));
      }
    }
    r
  }
  pub fn empty() -> PoolResult {
    PoolResult {
      cases_total: 0,
      cases_done: 0,
      counters: [0; NCOUNTERS],
      distinct: 0,
      violations: Vec::new(),
      samples: Vec::new(),
      crashes: 0,
      capped: false,
      machinery_errors: Vec::new(),
      wall: Duration::from_secs(0),
      results: Vec::new(),
    }
  }
}

pub fn tmp_dir() -> String {
  let base = std::env::var("GBMC_TMP").unwrap_or_else(|_| "/verif/target/tmp".to_string());
  let d = format!("{}/{}", base, std::process::id());
  let _ = std::fs::create_dir_all(&d);
  d
}

pub fn cleanup_tmp() {
  let base = std::env::var("GBMC_TMP").unwrap_or_else(|_| "/verif/target/tmp".to_string());
  let d = format!("{}/{}", base, std::process::id());
  let _ = std::fs::remove_dir_all(&d);
}

static POOL_SEQ: AtomicU64 = AtomicU64::new(0);

fn silence_child(quiet_stdout: bool) {
  std::panic::set_hook(Box::new(|_| {}));
  unsafe {
    let devnull = libc::open(b"/dev/null\0".as_ptr() as *const libc::c_char, libc::O_WRONLY);
    if devnull >= 0 {
      if quiet_stdout {
        libc::dup2(devnull, 1);
      }
      if std::env::var("GBMC_CHILD_STDERR").is_err() {
        libc::dup2(devnull, 2);
      }
      libc::close(devnull);
    }
  }
}

/// Run `n_cases` cases over forked workers.
///
/// * `make_worker(slot)` is called in the child after fork and builds the subject world.
/// * `run_case(worker, case, ctx)` executes one case and reports through `ctx`.
/// * `crash_key(case, how)` names the violation recorded when a case reproducibly kills
///   its process (`how` is e.g. "SIGABRT", "SIGSEGV", "SIGBUS", "panic").
pub fn run_pool<W, MW, RC, CK>(
  n_cases: u64,
  opts: &PoolOpts,
  make_worker: MW,
  run_case: RC,
  crash_key: CK,
) -> PoolResult
where
  MW: Fn(usize) -> W,
  RC: Fn(&mut W, u64, &mut Ctx),
  CK: Fn(u64, &str) -> (String, J),
{
  let t0 = Instant::now();
  let seq = POOL_SEQ.fetch_add(1, Ordering::Relaxed);
  let shared = Shared::new(opts.bitmap_bits.max(64), opts.result_words);
  let dir = tmp_dir();
  let n_chunks = (n_cases + opts.chunk - 1) / opts.chunk;
  let workers = opts.workers.min(n_chunks.max(1) as usize).max(1);
  let mut result = PoolResult::empty();
  result.cases_total = n_cases;

  // pid -> (slot, generation)
  let mut live: BTreeMap<i32, (usize, u64)> = BTreeMap::new();
  let mut files: Vec<String> = Vec::new();
  let mut gen_counter = 0u64;

  // child body; resume = Some((chunk, first_case)) to finish an interrupted chunk first
  let child_main = |slot: usize, gen: u64, resume: Option<(u64, u64)>, single: Option<u64>| -> ! {
    silence_child(opts.quiet_stdout);
    let path = format!("{}/p{}_s{}_g{}.jsonl", dir, seq, slot, gen);
    let out = std::fs::OpenOptions::new().create(true).append(true).open(&path).expect("child out file");
    let mut ctx = Ctx {
      shared: &shared,
      local: [0; NCOUNTERS],
      seen: BTreeMap::new(),
      out,
      max_keys: opts.max_keys_per_child,
      samples_left: if gen == 0 { opts.samples_per_child } else { 0 },
      slot,
    };
    let h = shared.hdr();
    let mut w = make_worker(slot);
    let mut run_range = |w: &mut W, ctx: &mut Ctx, chunk: u64, from: u64, to: u64| {
      h.slots[slot][1].store(chunk + 1, Ordering::Relaxed);
      let mut done = 0u64;
      for case in from..to {
        h.slots[slot][0].store(case + 1, Ordering::Release);
        let r = std::panic::catch_unwind(std::panic::AssertUnwindSafe(|| run_case(w, case, ctx)));
        if r.is_err() {
          // a panic that could unwind: the world may be inconsistent, treat like a crash
          // (exit code 101 is decoded by the parent as "panic")
          ctx.finish();
          unsafe { libc::_exit(101) };
        }
        done += 1;
        h.slots[slot][2].store(done, Ordering::Relaxed);
      }
      h.slots[slot][2].store(0, Ordering::Relaxed);
      h.slots[slot][0].store(0, Ordering::Release);
      h.cases_done.fetch_add(done, Ordering::Relaxed);
      ctx.flush_counters();
    };
    if let Some(case) = single {
      run_range(&mut w, &mut ctx, case / opts.chunk, case, case + 1);
      ctx.finish();
      unsafe { libc::_exit(0) };
    }
    if let Some((chunk, first)) = resume {
      let end = ((chunk + 1) * opts.chunk).min(n_cases);
      if first < end {
        run_range(&mut w, &mut ctx, chunk, first, end);
      }
    }
    let start = Instant::now();
    loop {
      if h.stop.load(Ordering::Relaxed) != 0 {
        break;
      }
      if let Some(d) = opts.deadline {
        if t0.elapsed() > d {
          h.stop.store(2, Ordering::Relaxed);
          break;
        }
      }
      let chunk = h.next_chunk.fetch_add(1, Ordering::Relaxed);
      if chunk >= n_chunks {
        break;
      }
      let from = chunk * opts.chunk;
      let to = (from + opts.chunk).min(n_cases);
      run_range(&mut w, &mut ctx, chunk, from, to);
    }
    ctx.finish();
    drop(w);
    unsafe { libc::_exit(0) };
  };

  let mut spawn = |slot: usize, resume: Option<(u64, u64)>, single: Option<u64>, live: &mut BTreeMap<i32, (usize, u64)>, files: &mut Vec<String>| -> i32 {
    let gen = gen_counter;
    gen_counter += 1;
    files.push(format!("{}/p{}_s{}_g{}.jsonl", dir, seq, slot, gen));
    let _ = std::io::stdout().flush();
    let _ = std::io::stderr().flush();
    let pid = unsafe { libc::fork() };
    if pid < 0 {
      panic!("pool: fork failed");
    }
    if pid == 0 {
      child_main(slot, gen, resume, single);
    }
    live.insert(pid, (slot, gen));
    pid
  };

  for slot in 0..workers {
    shared.hdr().slots[slot][0].store(0, Ordering::Relaxed);
    spawn(slot, None, None, &mut live, &mut files);
  }

  let describe = |status: i32| -> Option<String> {
    if libc::WIFSIGNALED(status) {
      let s = libc::WTERMSIG(status);
      Some(match s {
        libc::SIGABRT => "SIGABRT".to_string(),
        libc::SIGSEGV => "SIGSEGV".to_string(),
        libc::SIGBUS => "SIGBUS".to_string(),
        libc::SIGILL => "SIGILL".to_string(),
        libc::SIGFPE => "SIGFPE".to_string(),
        libc::SIGKILL => "SIGKILL".to_string(),
        o => format!("SIG{}", o),
      })
    } else if libc::WIFEXITED(status) && libc::WEXITSTATUS(status) == 101 {
      Some("panic".to_string())
    } else if libc::WIFEXITED(status) && libc::WEXITSTATUS(status) != 0 {
      Some(format!("exit{}", libc::WEXITSTATUS(status)))
    } else {
      None
    }
  };

  let mut crash_records: Vec<(u64, String)> = Vec::new();
  while !live.is_empty() {
    // wait for one of OUR children only (the process may have other children, e.g. the
    // other build's worker process): poll the live set
    let mut status: i32 = 0;
    let mut pid: i32 = 0;
    for p in live.keys() {
      let r = unsafe { libc::waitpid(*p, &mut status, libc::WNOHANG) };
      if r == *p {
        pid = r;
        break;
      }
      if r < 0 {
        pid = -*p;
        break;
      }
    }
    if pid == 0 {
      unsafe { libc::usleep(300) };
      continue;
    }
    if pid < 0 {
      // child vanished (reaped elsewhere): treat as a machinery problem
      live.remove(&(-pid));
      result.machinery_errors.push("a pool child could not be waited for".to_string());
      continue;
    }
    let (slot, _gen) = match live.remove(&pid) {
      Some(v) => v,
      None => continue,
    };
    if let Some(how) = describe(status) {
      let h = shared.hdr();
      let cur = h.slots[slot][0].load(Ordering::Acquire);
      let chunk = h.slots[slot][1].load(Ordering::Acquire);
      if cur == 0 || chunk == 0 {
        result.machinery_errors.push(format!("worker {} died ({}) outside a case", slot, how));
        continue;
      }
      let case = cur - 1;
      // cases of the interrupted range that did complete
      let partial = h.slots[slot][2].swap(0, Ordering::Relaxed);
      h.cases_done.fetch_add(partial, Ordering::Relaxed);
      result.crashes += 1;
      crash_records.push((case, how));
      h.slots[slot][0].store(0, Ordering::Relaxed);
      if result.crashes > opts.max_crashes {
        h.stop.store(1, Ordering::Relaxed);
        result.capped = true;
        continue;
      }
      // replacement finishes the chunk after the crashing case, then keeps claiming
      spawn(slot, Some((chunk - 1, case + 1)), None, &mut live, &mut files);
    }
  }

  // confirm each crash by replaying the single case twice in fresh children
  for (case, how) in crash_records.iter() {
    let mut confirmed = 0;
    let mut hows: Vec<String> = vec![how.clone()];
    for _ in 0..2 {
      let mut l2 = BTreeMap::new();
      let slot = MAX_WORKERS - 1;
      shared.hdr().slots[slot][0].store(0, Ordering::Relaxed);
      let pid = spawn(slot, None, Some(*case), &mut l2, &mut files);
      let mut status = 0;
      unsafe { libc::waitpid(pid, &mut status, 0) };
      if let Some(h2) = describe(status) {
        confirmed += 1;
        hows.push(h2);
      }
    }
    if confirmed == 2 {
      let (key, detail) = crash_key(*case, how);
      let detail = detail.set("crash", J::s(how.as_str())).set("replayed_twice", J::Bool(true));
      if let Some(e) = result.violations.iter_mut().find(|e| e.key == key) {
        e.count += 1;
      } else {
        result.violations.push(Violation { key, count: 1, detail });
      }
    } else {
      result.machinery_errors.push(format!(
        "case {} killed its worker ({}) but did not reproduce in isolation ({:?})",
        case, how, hows
      ));
    }
  }

  let h = shared.hdr();
  if h.stop.load(Ordering::Relaxed) == 2 {
    result.capped = true;
  }
  result.cases_done = h.cases_done.load(Ordering::Relaxed);
  for i in 0..NCOUNTERS {
    result.counters[i] = h.counters[i].load(Ordering::Relaxed);
  }
  result.distinct = shared.bitmap().iter().map(|w| w.load(Ordering::Relaxed).count_ones() as u64).sum();
  result.results = shared.results().iter().map(|w| w.load(Ordering::Relaxed)).collect();

  // merge child files
  let mut first: BTreeMap<String, J> = BTreeMap::new();
  let mut counts: BTreeMap<String, u64> = BTreeMap::new();
  for f in files.iter() {
    if let Ok(text) = std::fs::read_to_string(f) {
      for line in text.lines() {
        if let Ok(j) = json::parse(line) {
          if let Some(s) = j.get("sample") {
            if result.samples.len() < 8 {
              result.samples.push(s.clone());
            }
          } else if let Some(k) = j.get("key").and_then(|k| k.as_str()) {
            if let Some(c) = j.get("count").and_then(|c| c.as_i64()) {
              *counts.entry(k.to_string()).or_insert(0) += c as u64;
            } else if let Some(d) = j.get("detail") {
              first.entry(k.to_string()).or_insert_with(|| d.clone());
              counts.entry(k.to_string()).or_insert(0);
            }
          }
        }
      }
    }
    let _ = std::fs::remove_file(f);
  }
  for (k, d) in first {
    let c = (*counts.get(&k).unwrap_or(&1)).max(1);
    if let Some(e) = result.violations.iter_mut().find(|e| e.key == k) {
      e.count += c;
    } else {
      result.violations.push(Violation { key: k, count: c, detail: d });
    }
  }
  result.violations.sort_by(|a, b| a.key.cmp(&b.key));
  if result.cases_done + result.crashes < n_cases && !result.capped && result.machinery_errors.is_empty() {
    result.machinery_errors.push(format!(
      "pool accounted for {} of {} cases",
      result.cases_done + result.crashes,
      n_cases
    ));
  }
  result.wall = t0.elapsed();
  result
}

/// Cross-process lock serialising the subject's mprotect-heavy operations (code cache
/// creation and block translation).  In this sandbox the cost of mprotect(PROT_EXEC) grows
/// steeply with the number of busy CPUs (two processes translating concurrently are ~10x
/// slower in total than one; spinning waiters make it worse still), so translations take
/// turns behind a sleeping file lock.  Purely a harness-side scheduling measure.
pub fn xlock() -> i32 {
  static mut FD: i32 = -1;
  unsafe {
    if FD < 0 {
      let base = std::env::var("GBMC_TMP").unwrap_or_else(|_| "/verif/target/tmp".to_string());
      let _ = std::fs::create_dir_all(&base);
      let path = std::ffi::CString::new(format!("{}/xlock", base)).unwrap();
      FD = libc::open(path.as_ptr(), libc::O_CREAT | libc::O_RDWR, 0o644);
    }
    if FD >= 0 && std::env::var("GBMC_NO_XLOCK").is_err() {
      libc::flock(FD, libc::LOCK_EX);
    }
    FD
  }
}

pub fn xunlock(fd: i32) {
  if fd >= 0 {
    unsafe {
      libc::flock(fd, libc::LOCK_UN);
    }
  }
}
