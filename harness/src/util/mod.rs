pub mod json;
pub mod pool;
pub mod report;
