//! Evidence writer, known-findings protocol, replay files, exit status.
//!
//! exit 0  property held on everything explored (open known findings are printed as
//!         `KNOWN-FINDING: property=<id> <what>` and do not fail the run)
//! exit 1  at least one violation whose key is not an *open* entry of
//!         /verif/known_findings.txt (`known:` lines); one line `VIOLATION property=<id> replay=<path>` each
//! exit 2  machinery failure (never prints VIOLATION)

use crate::util::json::{self, J};
use crate::util::pool::{PoolResult, Violation};
use std::time::Instant;

pub fn verif_root() -> String {
  std::env::var("GBMC_VERIF_ROOT").unwrap_or_else(|_| "/verif".to_string())
}

pub struct Report {
  pub id: &'static str,
  pub tier: String,
  pub level: &'static str,
  pub seed: i64,
  pub coverage: J,
  pub assumptions: Vec<String>,
  pub violations: Vec<Violation>,
  pub machinery: Vec<String>,
  /// vacuity / consistency complaints of the harness about its own run.  With no violation
  /// reported they are machinery errors; next to reported violations they are consequences of
  /// the subject's misbehaviour (a path never taken because the subject never takes it any
  /// more) and must not turn a verdict into a machinery failure
  pub soft: Vec<String>,
  pub evaluations: u64,
  pub distinct: u64,
  pub samples: Vec<J>,
  pub stages: Vec<J>,
  pub capped: Vec<String>,
  pub exhaustive: bool,
  t0: Instant,
}

impl Report {
  pub fn new(id: &'static str, tier: &str, level: &'static str) -> Report {
    let seed = std::env::var("VERIF_SEED").ok().and_then(|s| s.parse::<i64>().ok()).unwrap_or(0);
    Report {
      id,
      tier: tier.to_string(),
      level,
      seed,
      coverage: J::obj(),
      assumptions: Vec::new(),
      violations: Vec::new(),
      machinery: Vec::new(),
      soft: Vec::new(),
      evaluations: 0,
      distinct: 0,
      samples: Vec::new(),
      stages: Vec::new(),
      capped: Vec::new(),
      exhaustive: true,
      t0: Instant::now(),
    }
  }

  pub fn thorough(&self) -> bool {
    self.tier == "thorough"
  }

  pub fn assume(&mut self, s: &str) {
    self.assumptions.push(s.to_string());
  }

  pub fn cov(&mut self, k: &str, v: J) {
    self.coverage.put(k, v);
  }

  pub fn add_violation(&mut self, key: &str, detail: J) {
    if let Some(e) = self.violations.iter_mut().find(|e| e.key == key) {
      e.count += 1;
    } else {
      self.violations.push(Violation { key: key.to_string(), count: 1, detail });
    }
  }

  pub fn machinery_error(&mut self, s: String) {
    self.machinery.push(s);
  }

  pub fn machinery_soft(&mut self, s: String) {
    self.soft.push(s);
  }

  /// Fold one pool run (a stage of the check) into the report.
  pub fn add_stage(&mut self, name: &str, space: &str, r: PoolResult) -> [u64; crate::util::pool::NCOUNTERS] {
    let mut st = J::obj()
      .set("stage", J::s(name))
      .set("space", J::s(space))
      .set("cases", J::u(r.cases_done))
      .set("cases_total", J::u(r.cases_total))
      .set("distinct_outcome_classes", J::u(r.distinct))
      .set("crashes_isolated", J::u(r.crashes))
      .set("violation_keys", J::u(r.violations.len() as u64))
      .set("wall_s", J::Num((r.wall.as_millis() as f64) / 1000.0));
    if r.capped {
      st.put("capped", J::Bool(true));
      self.capped.push(format!("stage {} stopped at {} of {} cases", name, r.cases_done, r.cases_total));
      self.exhaustive = false;
    }
    self.stages.push(st);
    self.evaluations += r.cases_done;
    self.distinct += r.distinct;
    for v in r.violations {
      if let Some(e) = self.violations.iter_mut().find(|e| e.key == v.key) {
        e.count += v.count;
      } else {
        self.violations.push(v);
      }
    }
    for s in r.samples {
      if self.samples.len() < 6 {
        self.samples.push(s);
      }
    }
    for m in r.machinery_errors {
      if m.contains("did not reproduce in isolation") {
        // a worker death that depends on what earlier cases of the same worker did: alone it is
        // a machinery error (nothing can be attributed); next to reported violations it is one
        // more symptom and must not replace the verdict
        self.soft.push(format!("{}: {}", name, m));
      } else {
        self.machinery.push(format!("{}: {}", name, m));
      }
    }
    r.counters
  }

  /// Child mode (`GBMC_CHILD_OUT` set): this process is the re-run of a check in another build
  /// profile; its result goes to that file for the parent to fold in, nothing else is written.
  fn finish_child(self, out: &str) -> i32 {
    let viol = J::Arr(self.violations.iter().map(|v| J::obj().set("key", J::s(v.key.as_str())).set("count", J::u(v.count)).set("detail", v.detail.clone())).collect());
    let j = J::obj()
      .set("evaluations", J::u(self.evaluations))
      .set("distinct", J::u(self.distinct))
      .set("exhaustive", J::Bool(self.exhaustive && self.capped.is_empty()))
      .set("caps", J::Arr(self.capped.iter().map(|s| J::s(s.as_str())).collect()))
      .set("stages", J::Arr(self.stages.clone()))
      .set("violations", viol)
      .set("machinery", J::Arr(self.machinery.iter().map(|m| J::s(m.as_str())).collect()))
      .set("wall_s", J::Num(self.t0.elapsed().as_millis() as f64 / 1000.0));
    if std::fs::write(out, j.to_string()).is_err() {
      return 2;
    }
    if !self.machinery.is_empty() { 2 } else if !self.violations.is_empty() { 1 } else { 0 }
  }

  /// The whole check once more in the release-profile build of the harness (hooks on, but
  /// opt-level 3, no overflow checks, no debug assertions): no property may depend on how the
  /// emulator was compiled.  Folded in as one more stage.
  fn release_profile_rerun(&mut self) {
    let bin = match std::env::var("GBMC_NOJIT_REL_BIN") {
      Ok(b) if !b.is_empty() => b,
      _ => return,
    };
    let out = format!("{}/relprofile_{}.json", crate::util::pool::tmp_dir(), self.id);
    let mut cmd = std::process::Command::new(&bin);
    cmd.args(&[self.id, "quick"]).env("GBMC_CHILD_OUT", &out).env("GBMC_NOJIT_BIN", &bin).env_remove("GBMC_NOJIT_REL_BIN").env_remove("GBMC_REPLAY_KEY");
    if let Ok(j) = std::env::var("GBMC_JIT_REL_BIN") {
      cmd.env("GBMC_JIT_BIN", j);
    }
    let t = Instant::now();
    // wall cap inside the engine: generous (the release profile is faster than this one), but a
    // rerun that never ends must not take the whole check with it
    let cap = std::time::Duration::from_secs_f64((self.t0.elapsed().as_secs_f64() * 20.0).max(180.0));
    {
      use std::os::unix::process::CommandExt;
      cmd.process_group(0);
    }
    let st = match cmd.stdout(std::process::Stdio::null()).spawn() {
      Ok(mut child) => loop {
        match child.try_wait() {
          Ok(Some(s)) => break Ok(s),
          Ok(None) => {
            if t.elapsed() > cap {
              // the rerun runs in a process group of its own: its pool workers go with it
              unsafe {
                libc::kill(-(child.id() as i32), libc::SIGKILL);
              }
              let _ = child.kill();
              let _ = child.wait();
              self.machinery.push(format!("release-profile rerun did not finish within {:.0} s (20 x this profile's time) and was stopped", cap.as_secs_f64()));
              return;
            }
            std::thread::sleep(std::time::Duration::from_millis(20));
          },
          Err(e) => break Err(e),
        }
      },
      Err(e) => Err(e),
    };
    match st {
      Ok(s) if matches!(s.code(), Some(0) | Some(1) | Some(2)) => {},
      Ok(s) => {
        self.machinery.push(format!("release-profile rerun ended abnormally: {:?}", s));
        return;
      },
      Err(e) => {
        self.machinery.push(format!("cannot start release-profile rerun {}: {}", bin, e));
        return;
      },
    }
    let m = match std::fs::read_to_string(&out).map_err(|e| e.to_string()).and_then(|t| json::parse(&t)) {
      Ok(m) => m,
      Err(e) => {
        self.machinery.push(format!("release-profile rerun left no result: {}", e));
        return;
      },
    };
    let _ = std::fs::remove_file(&out);
    let ev = m.int_of("evaluations").max(0) as u64;
    let di = m.int_of("distinct").max(0) as u64;
    let mut nv = 0u64;
    if let Some(vs) = m.get("violations").and_then(|v| v.as_arr()) {
      for v in vs {
        nv += 1;
        let mut d = v.get("detail").cloned().unwrap_or(J::obj());
        d.put("found_in", J::s("release-profile build of the harness (opt-level 3, no overflow checks, no debug assertions)"));
        let key = v.str_of("key");
        if let Some(e) = self.violations.iter_mut().find(|e| e.key == key) {
          e.count += v.int_of("count").max(1) as u64;
        } else {
          self.violations.push(Violation { key, count: v.int_of("count").max(1) as u64, detail: d });
        }
      }
    }
    if let Some(ms) = m.get("machinery").and_then(|v| v.as_arr()) {
      for x in ms {
        self.machinery.push(format!("release-profile rerun: {}", x.as_str().unwrap_or("")));
      }
    }
    if ev == 0 {
      self.machinery.push("release-profile rerun reported no evaluations".to_string());
    }
    let nst = m.get("stages").and_then(|v| v.as_arr()).map(|a| a.len()).unwrap_or(0);
    self.stages.push(
      J::obj()
        .set("stage", J::s("release-profile-rerun"))
        .set("space", J::s(format!("the quick tier of this check once more, all {} stages, in a build of the harness with opt-level 3, overflow checks off and debug assertions off (hooks on)", nst)))
        .set("cases", J::u(ev))
        .set("cases_total", J::u(ev))
        .set("distinct_outcome_classes", J::u(di))
        .set("violation_keys", J::u(nv))
        .set("wall_s", J::Num(t.elapsed().as_millis() as f64 / 1000.0)),
    );
    self.evaluations += ev;
    if let Some(J::Bool(false)) = m.get("exhaustive") {
      if let Some(cs) = m.get("caps").and_then(|v| v.as_arr()) {
        for c in cs {
          self.capped.push(format!("release-profile rerun: {}", c.as_str().unwrap_or("")));
        }
      }
    }
  }

  pub fn finish(mut self) -> i32 {
    if !self.soft.is_empty() {
      let soft = std::mem::take(&mut self.soft);
      if self.violations.is_empty() {
        self.machinery.extend(soft);
      } else {
        self.coverage.put("harness_complaints_explained_by_the_violations", J::Arr(soft.iter().map(|m| J::s(m.as_str())).collect()));
      }
    }
    if let Ok(out) = std::env::var("GBMC_CHILD_OUT") {
      return self.finish_child(&out);
    }
    self.release_profile_rerun();
    let root = verif_root();
    let wall = self.t0.elapsed().as_millis() as f64 / 1000.0;
    // known findings: lines `known: property=<id> key=<key> :: <what fails>` of known_findings.txt
    let mut open: Vec<(String, String)> = Vec::new();
    if let Ok(text) = std::fs::read_to_string(format!("{}/known_findings.txt", root)) {
      for line in text.lines() {
        let line = line.trim();
        if !line.starts_with("known:") {
          continue; // comments, blank lines and `fixed:` records suppress nothing
        }
        let rest = line["known:".len()..].trim();
        let prop_ok = rest.starts_with(&format!("property={} ", self.id));
        let any_prop = rest.starts_with("property=");
        if !any_prop {
          self.machinery.push(format!("known_findings.txt: malformed line {:?}", line));
          continue;
        }
        if !prop_ok {
          continue;
        }
        match (rest.find("key="), rest.find(" :: ")) {
          (Some(k), Some(e)) if k < e => open.push((rest[k + 4..e].trim().to_string(), rest[e + 4..].trim().to_string())),
          _ => self.machinery.push(format!("known_findings.txt: malformed line {:?}", line)),
        }
      }
    }
    self.violations.sort_by(|a, b| a.key.cmp(&b.key));
    // replay mode (bin/check <ID> --replay <file>): the check was re-run to re-execute the
    // recorded case; report only whether that key reproduces, leave evidence files alone
    if let Ok(want) = std::env::var("GBMC_REPLAY_KEY") {
      if !self.machinery.is_empty() {
        for m in self.machinery.iter() {
          eprintln!("MACHINERY-ERROR property={} {}", self.id, m);
        }
        return 2;
      }
      return match self.violations.iter().find(|v| v.key == want) {
        Some(v) => {
          println!("REPRODUCED property={} key={} ({} case(s))", self.id, v.key, v.count);
          println!("{}", v.detail.to_pretty());
          1
        },
        None => {
          println!("NOT-REPRODUCED property={} key={} ({} other violation key(s) in this run)", self.id, want, self.violations.len());
          0
        },
      };
    }
    let mut known_seen: Vec<J> = Vec::new();
    let mut new_viol: Vec<&Violation> = Vec::new();
    for v in self.violations.iter() {
      if let Some((k, what)) = open.iter().find(|(k, _)| *k == v.key) {
        println!("KNOWN-FINDING: property={} {} [key: {}; {} case(s) this run]", self.id, what, k, v.count);
        known_seen.push(J::obj().set("key", J::s(k.as_str())).set("cases", J::u(v.count)));
      } else {
        new_viol.push(v);
      }
    }
    let mut exit = 0;
    if !self.machinery.is_empty() {
      for m in self.machinery.iter() {
        eprintln!("MACHINERY-ERROR property={} {}", self.id, m);
      }
      exit = 2;
    }
    let mut viol_json: Vec<J> = Vec::new();
    if exit != 2 {
      let dir = format!("{}/replays/{}", root, self.id);
      for (n, v) in new_viol.iter().enumerate() {
        if n < 40 {
          let _ = std::fs::create_dir_all(&dir);
          let fname: String = v
            .key
            .chars()
            .map(|c| if c.is_ascii_alphanumeric() || c == '-' || c == '_' || c == '.' { c } else { '_' })
            .take(120)
            .collect();
          let path = format!("{}/{}.json", dir, fname);
          let body = J::obj()
            .set("property", J::s(self.id))
            .set("key", J::s(v.key.as_str()))
            .set("cases_this_run", J::u(v.count))
            .set("tier", J::s(self.tier.as_str()))
            .set("detail", v.detail.clone());
          let _ = std::fs::write(&path, body.to_pretty());
          println!("VIOLATION property={} replay={}", self.id, path);
          println!("  key: {}", v.key);
        } else if n == 40 {
          println!("  … {} further violation keys (see evidence file)", new_viol.len() - 40);
        }
        if viol_json.len() < 200 {
          viol_json.push(J::obj().set("key", J::s(v.key.as_str())).set("cases", J::u(v.count)));
        }
        exit = 1;
      }
    }

    // evidence
    let mut cov = J::obj()
      .set("evaluations", J::u(self.evaluations))
      .set("distinct_nontrivial", J::u(self.distinct))
      .set("samples", J::Arr(if self.samples.is_empty() { vec![J::s("(no sample recorded)")] } else { self.samples.clone() }))
      .set("exhaustive", J::Bool(self.exhaustive && self.capped.is_empty()))
      .set("stages", J::Arr(self.stages.clone()));
    if let J::Obj(m) = &self.coverage {
      for (k, v) in m.iter() {
        cov.put(k.as_str(), v.clone());
      }
    }
    if !self.capped.is_empty() {
      cov.put("caps_hit", J::Arr(self.capped.iter().map(|s| J::s(s.as_str())).collect()));
    }
    cov.put("known_findings_reproduced", J::Arr(known_seen));
    cov.put("new_violation_keys", J::Arr(viol_json));
    let ev = J::obj()
      .set("property_id", J::s(self.id))
      .set("tier", J::s(self.tier.as_str()))
      .set("seed", J::Int(self.seed))
      .set("level", J::s(self.level))
      .set("coverage", cov)
      .set("assumptions", J::Arr(self.assumptions.iter().map(|s| J::s(s.as_str())).collect()))
      .set("wall_s", J::Num(wall))
      .set("violations", J::Int(new_viol.len() as i64))
      .set("machinery_errors", J::Arr(self.machinery.iter().map(|s| J::s(s.as_str())).collect()));
    let _ = std::fs::create_dir_all(format!("{}/evidence", root));
    if exit != 2 {
      if let Err(e) = std::fs::write(format!("{}/evidence/{}.json", root, self.id), ev.to_pretty()) {
        eprintln!("MACHINERY-ERROR property={} cannot write evidence: {}", self.id, e);
        exit = 2;
      }
    }
    println!(
      "{} {} tier={} evaluations={} distinct={} new_violations={} known={} wall={:.1}s",
      if exit == 0 { "OK" } else if exit == 1 { "FAIL" } else { "ERROR" },
      self.id,
      self.tier,
      self.evaluations,
      self.distinct,
      new_viol.len(),
      self.violations.len() - new_viol.len(),
      wall
    );
    if !self.capped.is_empty() {
      // a wall-clock cap was hit (loaded machine) or part of the space was not judged: said here
      // as well as in the evidence (coverage.caps_hit, coverage.exhaustive = false)
      println!("CAPPED property={} not exhaustive within the stated bounds this run: {}", self.id, self.capped.join("; "));
    }
    exit
  }
}
