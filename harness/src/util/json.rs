//! Minimal JSON value, writer and parser (no external crates are available offline
//! apart from libc, and the harness must stay dependency-free).

use std::collections::BTreeMap;
use std::fmt::Write;

#[derive(Clone, Debug, PartialEq)]
pub enum J {
  Null,
  Bool(bool),
  Int(i64),
  Num(f64),
  Str(String),
  Arr(Vec<J>),
  Obj(Vec<(String, J)>),
}

impl J {
  pub fn obj() -> J {
    J::Obj(Vec::new())
  }
  pub fn s<T: Into<String>>(v: T) -> J {
    J::Str(v.into())
  }
  pub fn i<T: Into<i64>>(v: T) -> J {
    J::Int(v.into())
  }
  pub fn u(v: u64) -> J {
    J::Int(v as i64)
  }
  pub fn set<T: Into<String>>(mut self, k: T, v: J) -> J {
    if let J::Obj(ref mut m) = self {
      let k = k.into();
      if let Some(e) = m.iter_mut().find(|e| e.0 == k) {
        e.1 = v;
      } else {
        m.push((k, v));
      }
    }
    self
  }
  pub fn put<T: Into<String>>(&mut self, k: T, v: J) {
    if let J::Obj(ref mut m) = self {
      let k = k.into();
      if let Some(e) = m.iter_mut().find(|e| e.0 == k) {
        e.1 = v;
      } else {
        m.push((k, v));
      }
    }
  }
  pub fn get(&self, k: &str) -> Option<&J> {
    if let J::Obj(m) = self {
      m.iter().find(|e| e.0 == k).map(|e| &e.1)
    } else {
      None
    }
  }
  pub fn as_str(&self) -> Option<&str> {
    if let J::Str(s) = self { Some(s) } else { None }
  }
  pub fn as_i64(&self) -> Option<i64> {
    match self {
      J::Int(i) => Some(*i),
      J::Num(f) => Some(*f as i64),
      _ => None,
    }
  }
  pub fn as_arr(&self) -> Option<&Vec<J>> {
    if let J::Arr(a) = self { Some(a) } else { None }
  }
  pub fn str_of(&self, k: &str) -> String {
    self.get(k).and_then(|v| v.as_str()).unwrap_or("").to_string()
  }
  pub fn int_of(&self, k: &str) -> i64 {
    self.get(k).and_then(|v| v.as_i64()).unwrap_or(0)
  }

  pub fn to_string(&self) -> String {
    let mut s = String::new();
    self.write(&mut s, None, 0);
    s
  }
  pub fn to_pretty(&self) -> String {
    let mut s = String::new();
    self.write(&mut s, Some(1), 0);
    s.push('\n');
    s
  }
  fn write(&self, out: &mut String, indent: Option<usize>, depth: usize) {
    let nl = |out: &mut String, d: usize| {
      if let Some(w) = indent {
        out.push('\n');
        for _ in 0..(w * d) {
          out.push(' ');
        }
      }
    };
    match self {
      J::Null => out.push_str("null"),
      J::Bool(b) => out.push_str(if *b { "true" } else { "false" }),
      J::Int(i) => {
        let _ = write!(out, "{}", i);
      },
      J::Num(f) => {
        if f.is_finite() {
          let _ = write!(out, "{}", f);
          if f.fract() == 0.0 && !out.ends_with(|c: char| c == 'e' || c == '.') && f.abs() < 1e15 {
            // keep it a JSON number either way; "3" is fine for 3.0
          }
        } else {
          out.push_str("null");
        }
      },
      J::Str(s) => write_str(out, s),
      J::Arr(a) => {
        out.push('[');
        // short scalar arrays stay on one line
        let scalar = a.iter().all(|v| !matches!(v, J::Arr(_) | J::Obj(_)));
        for (i, v) in a.iter().enumerate() {
          if i > 0 {
            out.push(',');
            if scalar && indent.is_some() {
              out.push(' ');
            }
          }
          if !scalar {
            nl(out, depth + 1);
          }
          v.write(out, indent, depth + 1);
        }
        if !scalar && !a.is_empty() {
          nl(out, depth);
        }
        out.push(']');
      },
      J::Obj(m) => {
        out.push('{');
        for (i, (k, v)) in m.iter().enumerate() {
          if i > 0 {
            out.push(',');
          }
          nl(out, depth + 1);
          write_str(out, k);
          out.push(':');
          if indent.is_some() {
            out.push(' ');
          }
          v.write(out, indent, depth + 1);
        }
        if !m.is_empty() {
          nl(out, depth);
        }
        out.push('}');
      },
    }
  }
}

fn write_str(out: &mut String, s: &str) {
  out.push('"');
  for c in s.chars() {
    match c {
      '"' => out.push_str("\\\""),
      '\\' => out.push_str("\\\\"),
      '\n' => out.push_str("\\n"),
      '\r' => out.push_str("\\r"),
      '\t' => out.push_str("\\t"),
      c if (c as u32) < 0x20 => {
        let _ = write!(out, "\\u{:04x}", c as u32);
      },
      c => out.push(c),
    }
  }
  out.push('"');
}

pub fn parse(text: &str) -> Result<J, String> {
  let b = text.as_bytes();
  let mut p = P { b, i: 0 };
  p.ws();
  let v = p.value()?;
  p.ws();
  if p.i != b.len() {
    return Err(format!("trailing data at {}", p.i));
  }
  Ok(v)
}

struct P<'a> {
  b: &'a [u8],
  i: usize,
}

impl<'a> P<'a> {
  fn ws(&mut self) {
    while self.i < self.b.len() && (self.b[self.i] as char).is_ascii_whitespace() {
      self.i += 1;
    }
  }
  fn value(&mut self) -> Result<J, String> {
    if self.i >= self.b.len() {
      return Err("eof".into());
    }
    match self.b[self.i] {
      b'{' => {
        self.i += 1;
        let mut m = Vec::new();
        self.ws();
        if self.peek() == Some(b'}') {
          self.i += 1;
          return Ok(J::Obj(m));
        }
        loop {
          self.ws();
          let k = match self.value()? {
            J::Str(s) => s,
            _ => return Err("key".into()),
          };
          self.ws();
          if self.peek() != Some(b':') {
            return Err(format!("expected : at {}", self.i));
          }
          self.i += 1;
          self.ws();
          let v = self.value()?;
          m.push((k, v));
          self.ws();
          match self.peek() {
            Some(b',') => self.i += 1,
            Some(b'}') => {
              self.i += 1;
              return Ok(J::Obj(m));
            },
            _ => return Err(format!("expected , or }} at {}", self.i)),
          }
        }
      },
      b'[' => {
        self.i += 1;
        let mut a = Vec::new();
        self.ws();
        if self.peek() == Some(b']') {
          self.i += 1;
          return Ok(J::Arr(a));
        }
        loop {
          self.ws();
          a.push(self.value()?);
          self.ws();
          match self.peek() {
            Some(b',') => self.i += 1,
            Some(b']') => {
              self.i += 1;
              return Ok(J::Arr(a));
            },
            _ => return Err(format!("expected , or ] at {}", self.i)),
          }
        }
      },
      b'"' => {
        self.i += 1;
        let mut s = String::new();
        loop {
          if self.i >= self.b.len() {
            return Err("eof in string".into());
          }
          let c = self.b[self.i];
          self.i += 1;
          match c {
            b'"' => return Ok(J::Str(s)),
            b'\\' => {
              let e = self.b[self.i];
              self.i += 1;
              match e {
                b'n' => s.push('\n'),
                b't' => s.push('\t'),
                b'r' => s.push('\r'),
                b'b' => s.push('\u{8}'),
                b'f' => s.push('\u{c}'),
                b'u' => {
                  let h = std::str::from_utf8(&self.b[self.i..self.i + 4]).map_err(|e| e.to_string())?;
                  let cp = u32::from_str_radix(h, 16).map_err(|e| e.to_string())?;
                  self.i += 4;
                  s.push(std::char::from_u32(cp).unwrap_or('?'));
                },
                o => s.push(o as char),
              }
            },
            _ => {
              // copy a full UTF-8 sequence
              let start = self.i - 1;
              let len = if c < 0x80 { 1 } else if c >> 5 == 6 { 2 } else if c >> 4 == 14 { 3 } else { 4 };
              let end = start + len;
              s.push_str(std::str::from_utf8(&self.b[start..end]).map_err(|e| e.to_string())?);
              self.i = end;
            },
          }
        }
      },
      b't' => self.lit("true", J::Bool(true)),
      b'f' => self.lit("false", J::Bool(false)),
      b'n' => self.lit("null", J::Null),
      _ => {
        let st = self.i;
        while self.i < self.b.len() && matches!(self.b[self.i], b'-' | b'+' | b'.' | b'e' | b'E' | b'0'..=b'9') {
          self.i += 1;
        }
        let t = std::str::from_utf8(&self.b[st..self.i]).unwrap();
        if let Ok(i) = t.parse::<i64>() {
          Ok(J::Int(i))
        } else {
          t.parse::<f64>().map(J::Num).map_err(|_| format!("bad number {:?} at {}", t, st))
        }
      },
    }
  }
  fn peek(&self) -> Option<u8> {
    self.b.get(self.i).copied()
  }
  fn lit(&mut self, w: &str, v: J) -> Result<J, String> {
    if self.b[self.i..].starts_with(w.as_bytes()) {
      self.i += w.len();
      Ok(v)
    } else {
      Err(format!("bad literal at {}", self.i))
    }
  }
}

/// Sorted map helper for deterministic output of string-keyed counters.
pub fn from_counts(m: &BTreeMap<String, u64>) -> J {
  J::Obj(m.iter().map(|(k, v)| (k.clone(), J::u(*v))).collect())
}
