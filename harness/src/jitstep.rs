//! Block-level differential engine for C01/C02: the same guest block is executed from the
//! same state by `interpreter::run_code_block` and by the real emitter
//! (`CodeCache::translate_code_block` + `CodeCache::call`) on one pinned `Core`; between
//! the two runs every byte the first engine wrote is restored from a pristine image.

use crate::cache::CodeCache;
use crate::cpu::Registers;
use crate::cpustep::{peek_raw, poke_raw};
use crate::devices::io::IO;
use crate::emulator::Core;
use crate::mem::MemoryAreas;
use crate::refm::r1::Cpu;
use crate::world;

#[derive(Clone, Debug, Default)]
pub struct BlockObs {
  pub af: u32,
  pub bc: u32,
  pub de: u32,
  pub hl: u32,
  pub sp: u32,
  pub ip: u32,
  pub cycles: u32,
  pub status: u8,
  pub refused: bool,
  pub panic_msg: String,
  pub writes: Vec<(u16, u8)>,
  pub reads: Vec<u16>,
  pub io_digest: u64,
  pub trace_overflow: bool,
  /// translated run only: bit i set = callee-saved host register i (r12, r13, r14, r15, rbx, rsp)
  /// did not come back as it went in
  pub host_clobber: u8,
}

pub struct Pristine {
  rom: Vec<u8>,
  vram: Vec<u8>,
  cart_ram: Vec<u8>,
  wram: Vec<u8>,
  oam: Vec<u8>,
  hram: Vec<u8>,
}

pub struct JitWorld {
  pub core: Box<Core>,
  pub pristine: Pristine,
  cache: Option<CodeCache>,
  translations: usize,
  pub total_translations: u64,
  /// bytes of translated code is unknown (private cursor): bound by count and block length
  budget_bytes: usize,
  cur: Option<(u16, usize)>,
  /// active pokes (address, value) on top of the pristine image
  pub desired: Vec<(u16, u8)>,
  code_dirty: bool,
  pub base_io: fn(&mut Core),
  /// banked worlds: the ROM bank to re-select after a block wrote to the controller
  pub base_bank: Option<u8>,
  /// value placed in the upper 48 bits of the host's callee-saved registers r12/r13 before
  /// translated code is entered (None = call through CodeCache::call and leave them to chance)
  pub host_garbage: Option<u64>,
  /// value of `Registers.cycles` on entry to either engine (5 after an interrupt dispatch)
  pub entry_cycles: u32,
  /// an OAM DMA (from the base page) is armed through the bus before either engine runs the
  /// block; neither engine clocks the devices inside a block, so the block's effect is the same
  pub dma_armed: bool,
  pub garbage_calls: u64,
  pub plain_calls: u64,
}

fn quiescent_io(_c: &mut Core) {}

impl JitWorld {
  pub fn new() -> JitWorld {
    let sw = crate::cpustep::StepWorld::new();
    let core = sw.core;
    let pristine = Pristine {
      rom: core.memory.rom.to_vec(),
      vram: core.memory.video_ram.to_vec(),
      cart_ram: core.memory.cart_ram.to_vec(),
      wram: core.memory.work_ram.to_vec(),
      oam: core.memory.oam_ram.to_vec(),
      hram: core.memory.high_ram.to_vec(),
    };
    JitWorld {
      core,
      pristine,
      cache: None,
      translations: 0,
      total_translations: 0,
      budget_bytes: 0,
      cur: None,
      desired: Vec::new(),
      code_dirty: true,
      base_io: quiescent_io,
      base_bank: None,
      host_garbage: Some(1),
      entry_cycles: 0,
      dma_armed: false,
      garbage_calls: 0,
      plain_calls: 0,
    }
  }

  /// A world on a real MBC1 cartridge loaded from a ROM file, with ROM bank `bank` mapped at
  /// 0x4000 (so that bytes fetched across 0x3FFF/0x4000 must come from the *mapped* bank).
  pub fn new_banked(image_path: &str, bank: u8) -> JitWorld {
    let mut core = crate::world::load_like_main(image_path).expect("banked image loads");
    for (i, b) in core.memory.work_ram.iter_mut().enumerate() {
      *b = (i as u8).wrapping_mul(3) ^ 0x5A ^ ((i >> 8) as u8);
    }
    for (i, b) in core.memory.high_ram.iter_mut().enumerate() {
      *b = (i as u8).wrapping_mul(17) ^ 0x69;
    }
    let mp = &mut core.memory as *mut MemoryAreas;
    crate::mem::memory_write_byte(mp, 0x2100, bank);
    crate::mem::memory_write_byte(mp, 0xFF46, crate::cpustep::BASE_DMA_PAGE);
    core.memory.oam_dma = None;
    let pristine = Pristine {
      rom: core.memory.rom.to_vec(),
      vram: core.memory.video_ram.to_vec(),
      cart_ram: core.memory.cart_ram.to_vec(),
      wram: core.memory.work_ram.to_vec(),
      oam: core.memory.oam_ram.to_vec(),
      hram: core.memory.high_ram.to_vec(),
    };
    JitWorld {
      core,
      pristine,
      cache: None,
      translations: 0,
      total_translations: 0,
      budget_bytes: 0,
      cur: None,
      desired: Vec::new(),
      code_dirty: true,
      base_io: quiescent_io,
      base_bank: Some(bank),
      host_garbage: Some(1),
      entry_cycles: 0,
      dma_armed: false,
      garbage_calls: 0,
      plain_calls: 0,
    }
  }

  fn pristine_at(&self, addr: u16) -> Option<u8> {
    let a = addr as usize;
    let m = &self.core.memory;
    Some(match addr {
      0x0000..=0x3FFF => self.pristine.rom[a],
      0x4000..=0x7FFF => self.pristine.rom[m.cart_state.get_rom_bank() * 0x4000 + (a & 0x3fff)],
      0x8000..=0x9FFF => self.pristine.vram[a & 0x1fff],
      0xA000..=0xBFFF => self.pristine.cart_ram[m.cart_state.get_ram_bank() * 0x2000 + (a & 0x1fff)],
      0xC000..=0xCFFF => self.pristine.wram[a & 0xfff],
      0xD000..=0xDFFF => self.pristine.wram[0x1000 * m.wram_bank + (a & 0xfff)],
      0xFE00..=0xFE9F => self.pristine.oam[a & 0xff],
      0xFF80..=0xFFFE => self.pristine.hram[a & 0x7f],
      0xFFFF => 0,
      _ => return None,
    })
  }

  /// plant a byte on top of the pristine image (harness-side, bypasses the bus)
  pub fn plant(&mut self, addr: u16, v: u8) {
    if let Some(e) = self.desired.iter_mut().find(|e| e.0 == addr) {
      if e.1 == v {
        return;
      }
      e.1 = v;
    } else {
      if self.pristine_at(addr) == Some(v) && peek_raw(&self.core.memory, addr) == v {
        return;
      }
      self.desired.push((addr, v));
    }
    poke_raw(&mut self.core.memory, addr, v);
    if addr < 0x8000 {
      self.code_dirty = true;
    }
  }

  pub fn plant_bytes(&mut self, addr: u16, bytes: &[u8]) {
    for (i, b) in bytes.iter().enumerate() {
      let a = addr.wrapping_add(i as u16);
      if a != 0xFFFF {
        self.plant(a, *b);
      }
    }
  }

  pub fn unplant_all(&mut self) {
    let d = std::mem::replace(&mut self.desired, Vec::new());
    for (a, _) in d {
      if let Some(p) = self.pristine_at(a) {
        poke_raw(&mut self.core.memory, a, p);
      }
      if a < 0x8000 {
        self.code_dirty = true;
      }
    }
  }

  fn set_regs(&mut self, c: &Cpu) {
    let r = &mut self.core.registers;
    r.af = c.af() as u32;
    r.bc = c.bc() as u32;
    r.de = c.de() as u32;
    r.hl = c.hl() as u32;
    r.sp = c.sp as u32;
    r.ip = c.pc as u32;
    r.cycles = self.entry_cycles;
    if self.dma_armed {
      crate::mem::memory_write_byte(&mut self.core.memory as *mut MemoryAreas, 0xFF46, crate::cpustep::BASE_DMA_PAGE);
    } else {
      self.core.memory.oam_dma = None;
    }
  }

  fn io_digest(&self) -> u64 {
    let mut h = world::Fx::new();
    for (_, v) in world::small_state(&self.core) {
      h.u64(v);
    }
    h.get()
  }

  fn observe(&mut self, status: Result<u8, String>, trace: Vec<u32>, overflow: bool) -> BlockObs {
    let mut o = BlockObs::default();
    o.writes = world::trace_writes(&trace);
    o.reads = world::trace_reads(&trace);
    o.trace_overflow = overflow;
    let rg = &self.core.registers;
    o.af = rg.af;
    o.bc = rg.bc;
    o.de = rg.de;
    o.hl = rg.hl;
    o.sp = rg.sp;
    o.ip = rg.ip;
    o.cycles = rg.cycles;
    match status {
      Ok(s) => o.status = s,
      Err(m) => {
        o.refused = true;
        o.panic_msg = m;
      },
    }
    if o.writes.iter().any(|(a, _)| (0xFF00..=0xFF7F).contains(a) || *a == 0xFFFF || *a < 0x8000) {
      o.io_digest = self.io_digest();
    }
    if !world::hooks_on() {
      // no bus recorder: the effect on memory and devices is observed as a digest of everything
      o.io_digest = self.io_digest() ^ world::big_digest(&self.core).rotate_left(17);
    }
    o
  }

  pub fn run_interp_block(&mut self, c: &Cpu) -> BlockObs {
    self.set_regs(c);
    let mp = &mut self.core.memory as *mut MemoryAreas;
    let regs: *mut Registers = &mut self.core.registers;
    world::trace_start();
    let r = std::panic::catch_unwind(std::panic::AssertUnwindSafe(|| crate::interpreter::run_code_block(unsafe { &mut *regs }, mp)));
    let (trace, ovf) = world::trace_stop();
    let status = r.map_err(|e| panic_text(e));
    self.observe(status, trace, ovf)
  }

  /// Translate (if the code changed) and call the block at c.pc.
  pub fn run_jit_block(&mut self, c: &Cpu, est_len: usize) -> BlockObs {
    self.set_regs(c);
    let need_new = match self.cur {
      Some((pc, _)) => pc != c.pc || self.code_dirty,
      None => true,
    };
    if need_new {
      // the code cache is never evicted: start a fresh one before it can fill up
      let cost = 256 + est_len * 96;
      if self.cache.is_none() || self.translations >= 4096 || self.budget_bytes + cost > 0x700000 {
        let lk = crate::util::pool::xlock();
        self.cache = None; // unmap first
        self.cache = Some(CodeCache::new());
        crate::util::pool::xunlock(lk);
        self.translations = 0;
        self.budget_bytes = 0;
      }
      self.budget_bytes += cost;
      self.translations += 1;
      self.total_translations += 1;
      let mem = &self.core.memory as *const MemoryAreas;
      let rom: *const Box<[u8]> = &self.core.memory.rom;
      let cache = self.cache.as_mut().unwrap();
      let pc = c.pc as usize;
      let lk = crate::util::pool::xlock();
      let r = std::panic::catch_unwind(std::panic::AssertUnwindSafe(|| cache.translate_code_block(unsafe { &*rom }, pc, mem)));
      crate::util::pool::xunlock(lk);
      match r {
        Ok(addr) => {
          self.cur = Some((c.pc, addr));
          self.code_dirty = false;
        },
        Err(e) => {
          self.cache = None;
          self.cur = None;
          self.code_dirty = true;
          let msg = panic_text(e);
          return self.observe(Err(format!("translate: {}", msg)), Vec::new(), false);
        },
      }
    }
    let addr = self.cur.unwrap().1;
    let regs: *mut Registers = &mut self.core.registers;
    let cache = self.cache.as_ref().unwrap();
    // host garbage: deterministic function of the guest registers of this case
    let entry = match self.host_garbage {
      Some(g) if g >= 0x10000 => locate_entry(cache).map(|(p, e)| (p, e, g)),
      Some(_) => {
        let k = (c.a as u32 ^ c.f as u32 >> 4 ^ c.l as u32 ^ c.sp as u32 ^ (c.sp as u32 >> 8)) % 3;
        let g = match k {
          0 => 0xFFFF_FFFF_FFFF_0000u64,
          1 => 0xA5A5_5A5A_C3C3_0000u64,
          _ => 0x0000_0000_0001_0000u64,
        };
        locate_entry(cache).map(|(p, e)| (p, e, g))
      },
      None => None,
    };
    let mut host_clobber = 0u8;
    world::trace_start();
    let st = match entry {
      Some((prologue, epilogue, g)) => {
        self.garbage_calls += 1;
        let (st, clobber) = call_with_host_state(cache.get_memory_start_address(), prologue, epilogue, addr, regs, g);
        host_clobber = clobber;
        st
      },
      None => {
        self.plain_calls += 1;
        cache.call(addr, unsafe { &mut *regs })
      },
    };
    let (trace, ovf) = world::trace_stop();
    let mut o = self.observe(Ok(st), trace, ovf);
    o.host_clobber = host_clobber;
    o
  }

  /// Undo everything the last engine run wrote, then re-apply the active pokes.
  pub fn restore(&mut self, obs: &BlockObs) {
    if !world::hooks_on() {
      return self.restore_everything();
    }
    if obs.writes.is_empty() {
      return;
    }
    let mut io = false;
    if let Some(b) = self.base_bank {
      if obs.writes.iter().any(|(a, _)| *a < 0x8000) {
        // the block wrote to the controller: back to the base mapping (MBC1 register file)
        let mp = &mut self.core.memory as *mut MemoryAreas;
        crate::mem::memory_write_byte(mp, 0x0000, 0x00);
        crate::mem::memory_write_byte(mp, 0x6000, 0x00);
        crate::mem::memory_write_byte(mp, 0x4000, 0x00);
        crate::mem::memory_write_byte(mp, 0x2100, b);
        self.code_dirty = true;
      }
    }
    for (a, _) in obs.writes.iter() {
      if (0xFF00..=0xFF7F).contains(a) {
        io = true;
      } else if let Some(p) = self.pristine_at(*a) {
        if *a >= 0x8000 {
          poke_raw(&mut self.core.memory, *a, p);
        }
      }
    }
    if io {
      self.core.memory.io = IO::new();
      // power-on value of the DMA register, through the bus (the page latch is subject state)
      crate::mem::memory_write_byte(&mut self.core.memory as *mut MemoryAreas, 0xFF46, crate::cpustep::BASE_DMA_PAGE);
      self.core.memory.oam_dma = None;
      (self.base_io)(&mut self.core);
    }
    crate::mem::memory_write_byte(&mut self.core.memory as *mut MemoryAreas, 0xFFFF, 0);
    for i in 0..self.desired.len() {
      let (a, v) = self.desired[i];
      if a >= 0x8000 {
        poke_raw(&mut self.core.memory, a, v);
      }
    }
  }
}

impl JitWorld {
  /// hooks-off build: nothing tells which bytes were written, so every RAM region is restored
  /// from the pristine image and the devices are rebuilt
  fn restore_everything(&mut self) {
    let m = &mut self.core.memory;
    m.video_ram.copy_from_slice(&self.pristine.vram);
    m.cart_ram.copy_from_slice(&self.pristine.cart_ram);
    m.work_ram.copy_from_slice(&self.pristine.wram);
    m.oam_ram.copy_from_slice(&self.pristine.oam);
    m.high_ram.copy_from_slice(&self.pristine.hram);
    m.io = IO::new();
    let mp = m as *mut MemoryAreas;
    crate::mem::memory_write_byte(mp, 0xFF46, crate::cpustep::BASE_DMA_PAGE);
    crate::mem::memory_write_byte(mp, 0xFFFF, 0);
    self.core.memory.oam_dma = None;
    (self.base_io)(&mut self.core);
    if let Some(b) = self.base_bank {
      let mp = &mut self.core.memory as *mut MemoryAreas;
      crate::mem::memory_write_byte(mp, 0x0000, 0x00);
      crate::mem::memory_write_byte(mp, 0x6000, 0x00);
      crate::mem::memory_write_byte(mp, 0x4000, 0x00);
      crate::mem::memory_write_byte(mp, 0x2100, b);
    }
    for i in 0..self.desired.len() {
      let (a, v) = self.desired[i];
      if a >= 0x8000 {
        poke_raw(&mut self.core.memory, a, v);
      }
    }
  }
}

pub fn panic_text(e: Box<dyn std::any::Any + Send>) -> String {
  if let Some(s) = e.downcast_ref::<String>() {
    s.clone()
  } else if let Some(s) = e.downcast_ref::<&str>() {
    s.to_string()
  } else {
    "panic".to_string()
  }
}

/// Offsets of the shared prologue and epilogue inside the cache's executable area, found by
/// matching the byte sequences the emitter itself produces (the fields holding them are
/// private).  None if they are not where `CodeCache::new` is known to put them.
fn locate_entry(cache: &CodeCache) -> Option<(usize, usize)> {
  let mut pro = [0u8; 128];
  let mut epi = [0u8; 128];
  let pl = crate::emitter::Emitter::write_prelude_function(&mut pro);
  let el = crate::emitter::Emitter::write_epilogue_function(&mut epi);
  let start = cache.get_memory_start_address() as *const u8;
  let mem = unsafe { std::slice::from_raw_parts(start, pl + el) };
  if mem[..pl] == pro[..pl] && mem[pl..pl + el] == epi[..el] {
    Some((0, pl))
  } else {
    None
  }
}

/// What `CodeCache::call` does — enter the prologue with (registers, block, epilogue) — but with
/// chosen values in the host's callee-saved r12/r13, whose low 16 bits the prologue overwrites
/// with SP/PC, and stale values in rax, rbx, rcx, r10, r11, r14 and r15.  Translated code must
/// not let anything the host happened to leave in a register influence the guest.
fn call_with_host_state(start: usize, prologue: usize, epilogue: usize, block: usize, regs: *mut Registers, garbage: u64) -> (u8, u8) {
  let func = start + prologue;
  let blk = start + block;
  let epi = start + epilogue;
  let ret: u64;
  let clobber: u64;
  unsafe {
    std::arch::asm!(
      "push rbp",
      "mov rbp, rsp",
      "and rsp, -16",
      "push r12",
      "push r13",
      "push r14",
      "push r15",
      "push rbx",
      "push r9",
      "mov r12, r9",
      "mov r13, r9",
      // the other registers the prologue loads or clears, and the scratch registers of the
      // templates, start out fully stale (low bits too)
      "mov r14, r9",
      "or r14, 0x5A5A",
      "mov r15, r14",
      "mov rbx, r14",
      "mov rax, r14",
      "mov rcx, r14",
      "mov r10, r14",
      "mov r11, r14",
      "call r8",
      // what the System V ABI promises the Rust caller: r12-r15, rbx, rbp and rsp come back as
      // they went in (bit i of r10 = register i differs)
      "pop r9",
      "xor r10d, r10d",
      "cmp r12, r9",
      "setne r10b",
      "xor ecx, ecx",
      "cmp r13, r9",
      "setne cl",
      "shl ecx, 1",
      "or r10d, ecx",
      "mov r11, r9",
      "or r11, 0x5A5A",
      "xor ecx, ecx",
      "cmp r14, r11",
      "setne cl",
      "shl ecx, 2",
      "or r10d, ecx",
      "xor ecx, ecx",
      "cmp r15, r11",
      "setne cl",
      "shl ecx, 3",
      "or r10d, ecx",
      "xor ecx, ecx",
      "cmp rbx, r11",
      "setne cl",
      "shl ecx, 4",
      "or r10d, ecx",
      "mov r11, rbp",
      "and r11, -16",
      "sub r11, 40",
      "xor ecx, ecx",
      "cmp rsp, r11",
      "setne cl",
      "shl ecx, 5",
      "or r10d, ecx",
      "mov rsp, r11",
      "pop rbx",
      "pop r15",
      "pop r14",
      "pop r13",
      "pop r12",
      "mov rsp, rbp",
      "pop rbp",
      inout("r8") func => _,
      inout("r9") garbage => _,
      inout("rdi") regs => _,
      inout("rsi") blk => _,
      inout("rdx") epi => _,
      out("rax") ret,
      out("rcx") _,
      out("r10") clobber,
      out("r11") _,
    );
  }
  (ret as u8, clobber as u8)
}
