//! gbmc — bounded exhaustive checkers for andrewimm/gb-dynarec.
//!
//! The repository is a binary crate, so its modules are bound here by path: this crate
//! root declares the same module tree as /repo/src/main.rs, every `crate::…` path inside
//! the repository's files resolves unchanged, and the files are compiled from /repo's
//! current working tree on every build.
#![allow(dead_code, unused_variables, unused_imports, unused_mut, unused_parens, unreachable_code)]
#![allow(static_mut_refs, unexpected_cfgs)]

#[path = "/repo/src/cache/mod.rs"]
pub mod cache;
#[path = "/repo/src/cart.rs"]
pub mod cart;
#[path = "/repo/src/cpu.rs"]
pub mod cpu;
#[path = "/repo/src/debug/mod.rs"]
pub mod debug;
#[path = "/repo/src/decoder/mod.rs"]
pub mod decoder;
#[path = "/repo/src/devices/mod.rs"]
pub mod devices;
#[path = "/repo/src/emitter/mod.rs"]
pub mod emitter;
#[path = "/repo/src/emulator.rs"]
pub mod emulator;
#[path = "/repo/src/interpreter/mod.rs"]
pub mod interpreter;
#[path = "/repo/src/mem.rs"]
pub mod mem;
#[path = "/repo/src/system/mod.rs"]
pub mod system;
#[path = "/repo/src/timing.rs"]
pub mod timing;

pub mod checks;
pub mod cpustep;
pub mod gen;
pub mod progrun;
pub mod jitstep;
pub mod refm;
pub mod util;
pub mod world;

fn usage() -> ! {
  eprintln!("usage: gbmc <C01..C20> <quick|thorough> | gbmc <ID> --replay <file> | gbmc selftest");
  std::process::exit(2);
}

fn main() {
  std::env::set_var("RUST_BACKTRACE", "0");
  // Transparent huge pages make every mprotect/first-touch cycle of the 8 MiB code cache
  // (two per translation) cost milliseconds of kernel time; the subject's behaviour does
  // not depend on the page size, so switch THP off for this process and its children.
  if std::env::var("GBMC_KEEP_THP").is_err() {
    unsafe {
      libc::prctl(41 /* PR_SET_THP_DISABLE */, 1, 0, 0, 0);
    }
  }
  let args: Vec<String> = std::env::args().collect();
  if args.len() < 2 {
    usage();
  }
  if args[1] == "selftest" {
    match refm::r1::self_test() {
      Ok(()) => println!("R1 self-test ok"),
      Err(e) => {
        eprintln!("R1 self-test FAILED: {}", e);
        std::process::exit(2);
      },
    }
    return;
  }
  if args[1] == "bench-eval" {
    let mut jw = jitstep::JitWorld::new();
    let mut c = refm::r1::Cpu { pc: 0x150, sp: 0xDFF0, ..Default::default() };
    jw.plant_bytes(0x150, &[0x80, 0xC3, 0x13, 0x02]);
    let t = std::time::Instant::now();
    let n = 2_000_000u32;
    for i in 0..n {
      c.a = i as u8;
      c.b = (i >> 8) as u8;
      let oi = jw.run_interp_block(&c);
      jw.restore(&oi);
      let o = jw.run_jit_block(&c, 2);
      jw.restore(&o);
    }
    println!("{} evals in {:?}", n, t.elapsed());
    return;
  }
  if args[1] == "bench-translate" {
    let mut jw = jitstep::JitWorld::new();
    let c = refm::r1::Cpu { pc: 0x150, sp: 0xDFF0, ..Default::default() };
    let t = std::time::Instant::now();
    let n = 20000;
    for i in 0..n {
      jw.plant_bytes(0x150, &[0x3E, i as u8, 0xC3, 0x13, 0x02]);
      let o = jw.run_jit_block(&c, 2);
      jw.restore(&o);
    }
    println!("{} translations+calls in {:?}", n, t.elapsed());
    return;
  }
  if args.len() < 3 {
    usage();
  }
  let id = args[1].as_str();
  let code = if args[2] == "--replay" {
    if args.len() < 4 {
      usage();
    }
    checks::replay(id, &args[3])
  } else if args[2] == "--worker" {
    checks::worker(id, &args[3..])
  } else {
    let tier = args[2].as_str();
    if tier != "quick" && tier != "thorough" {
      usage();
    }
    checks::run(id, tier)
  };
  util::pool::cleanup_tmp();
  std::process::exit(code);
}
