//! Running generated programs / event histories on a real `Core` loaded from a ROM file,
//! identically in every build configuration (engine E3).  The same source is compiled into
//! the `jit` and the non-`jit` harness binaries; the parent check spawns the other binary
//! as a worker process and compares per-scenario digests.

use crate::cache::CodeCache;
use crate::emulator::{Core, RunState};
use crate::util::json::{self, J};
use crate::world::{self, Fx};

pub fn this_build() -> &'static str {
  if cfg!(feature = "jit") {
    "jit"
  } else {
    "nojit"
  }
}

/// One emulator step, the same in every build: a block when running, a halted tick otherwise.
pub fn step(core: &mut Core) {
  if core.run_state == RunState::Run {
    core.run_code_block();
  } else {
    core.update();
  }
}

pub fn fresh_core(image_path: &str) -> Result<Box<Core>, String> {
  world::load_like_main(image_path)
}

pub fn patch_program(core: &mut Core, org: usize, prog: &[u8]) {
  core.memory.rom[org..org + prog.len()].copy_from_slice(prog);
}

/// Replace the code cache by an empty one (the "cache emptied before every block" configuration).
pub fn drop_cache(core: &mut Core) {
  let lk = crate::util::pool::xlock();
  core.cache = CodeCache::new();
  crate::util::pool::xunlock(lk);
}

pub struct Chain {
  pub h: Fx,
  pub steps: u64,
}

impl Chain {
  pub fn new() -> Chain {
    Chain { h: Fx::new(), steps: 0 }
  }
  pub fn small(&mut self, core: &Core) {
    self.h.u64(world::small_digest(core));
    self.steps += 1;
  }
  pub fn big(&mut self, core: &Core) {
    self.h.u64(world::big_digest(core));
  }
  pub fn get(&self) -> u64 {
    self.h.get()
  }
}

pub const BIG_EVERY: u64 = 64;

/// Run `steps` steps, folding the state digest after every step (all RAM and both frame
/// buffers every BIG_EVERY steps and at the end).  Returns the chained digest.
pub fn run_digest(core: &mut Core, steps: u64, cold_cache: bool) -> u64 {
  let mut ch = Chain::new();
  for i in 0..steps {
    if cold_cache {
      drop_cache(core);
    }
    step(core);
    ch.small(core);
    if (i + 1) % BIG_EVERY == 0 {
      ch.big(core);
    }
  }
  ch.big(core);
  ch.get()
}

/// Detailed run: per-step named state, for locating the first difference between builds.
pub fn run_detail(core: &mut Core, steps: u64, cold_cache: bool) -> J {
  let mut rows: Vec<J> = Vec::new();
  for i in 0..steps {
    if cold_cache {
      drop_cache(core);
    }
    step(core);
    let mut row = J::obj().set("step", J::u(i));
    for (k, v) in world::small_state(core) {
      row.put(k, J::u(v));
    }
    if (i + 1) % BIG_EVERY == 0 || i + 1 == steps {
      for (k, v) in world::big_state(core) {
        row.put(k, J::s(format!("{:016x}", v)));
      }
    }
    rows.push(row);
  }
  J::Arr(rows)
}

/// first differing (step, field, a, b) between two detailed runs
pub fn first_diff(a: &J, b: &J) -> Option<(u64, String, String, String)> {
  let (ra, rb) = (a.as_arr()?, b.as_arr()?);
  for (x, y) in ra.iter().zip(rb.iter()) {
    if let (J::Obj(mx), J::Obj(_)) = (x, y) {
      for (k, vx) in mx.iter() {
        let vy = y.get(k);
        if vy != Some(vx) {
          return Some((x.int_of("step") as u64, k.clone(), vx.to_string(), vy.map(|v| v.to_string()).unwrap_or_default()));
        }
      }
    }
  }
  if ra.len() != rb.len() {
    return Some((ra.len().min(rb.len()) as u64, "length".to_string(), ra.len().to_string(), rb.len().to_string()));
  }
  None
}

/// Spawn the other build's binary in worker mode; returns its stdout.
pub fn spawn_worker(bin_env: &str, args: &[String]) -> Result<String, String> {
  let bin = std::env::var(bin_env).map_err(|_| format!("{} not set (run through bin/check)", bin_env))?;
  let out = std::process::Command::new(&bin).args(args).output().map_err(|e| format!("cannot run {}: {}", bin, e))?;
  if !out.status.success() {
    return Err(format!("{} {:?} exited with {:?}: {}", bin, args, out.status, String::from_utf8_lossy(&out.stderr).chars().take(400).collect::<String>()));
  }
  Ok(String::from_utf8_lossy(&out.stdout).to_string())
}

pub fn write_u64s(path: &str, v: &[u64]) -> Result<(), String> {
  let mut b = Vec::with_capacity(v.len() * 8);
  for x in v {
    b.extend_from_slice(&x.to_le_bytes());
  }
  std::fs::write(path, b).map_err(|e| e.to_string())
}

pub fn read_u64s(path: &str) -> Result<Vec<u64>, String> {
  let b = std::fs::read(path).map_err(|e| format!("{}: {}", path, e))?;
  Ok(b.chunks_exact(8).map(|c| {
    let mut a = [0u8; 8];
    a.copy_from_slice(c);
    u64::from_le_bytes(a)
  }).collect())
}

pub fn parse_json_file(path: &str) -> Result<J, String> {
  let t = std::fs::read_to_string(path).map_err(|e| format!("{}: {}", path, e))?;
  json::parse(&t)
}
