//! Generated guest programs (DESIGN.md Appendix C): a fixed MBC1+RAM image skeleton with
//! interrupt vectors, subroutines and per-bank routines, and a fragment alphabet whose
//! sequences are enumerated exhaustively up to a length bound by C04 / C09 / C18.

use crate::world::header_bytes;

pub const PROG_ORG: usize = 0x0150;
pub const PROG_MAX: usize = 0x0200 - 0x0150 + 0x0c00; // fragments may run up to 0x0e00 (subroutines are above)
pub const SUBS: usize = 0x0e00;

/// one letter of the fragment alphabet
#[derive(Clone, Debug)]
pub struct Letter {
  pub name: String,
  pub bytes: Vec<u8>,
  /// writes DIV or otherwise makes the divider phase unusable as a clock (C09 skips these)
  pub touches_div: bool,
}

fn l(name: &str, bytes: &[u8]) -> Letter {
  Letter { name: name.to_string(), bytes: bytes.to_vec(), touches_div: false }
}

/// `LDH A,(FF); OR m; LDH (FF),A`
fn ie_or(m: u8) -> Vec<u8> {
  vec![0xF0, 0xFF, 0xF6, m, 0xE0, 0xFF]
}

pub fn alphabet(full: bool) -> Vec<Letter> {
  let mut v: Vec<Letter> = Vec::new();
  // counted loops
  for n in if full { vec![1u8, 3, 255] } else { vec![3u8] } {
    v.push(l(&format!("loop{}", n), &[0x06, n, 0x05, 0x20, 0xFD]));
  }
  // calls
  v.push(l("call", &[0xCD, 0x00, 0x0E]));
  if full {
    v.push(l("call-z-taken", &[0xAF, 0xCC, 0x00, 0x0E]));
    v.push(l("call-nz-not", &[0xAF, 0xC4, 0x00, 0x0E]));
  }
  v.push(l("rst08", &[0xCF]));
  if full {
    v.push(l("rst38", &[0xFF]));
  }
  // push/pop through WRAM and HRAM stacks
  v.push(l("pushpop-wram", &[0xC5, 0xD5, 0xC1, 0xD1, 0xF5, 0xE1]));
  v.push(l("pushpop-hram", &[0x31, 0xFE, 0xFF, 0xC5, 0xD1, 0xE5, 0xF1, 0x31, 0xF0, 0xDF]));
  // ALU feeding conditional branches: LD A,x; SUB y; JR Z,+1; INC E; JR C,+1; INC D; JP NC / RET-less
  let pairs: Vec<(u8, u8)> = if full { vec![(0x10, 0x10), (0x10, 0x20), (0x20, 0x10), (0x00, 0x01)] } else { vec![(0x10, 0x20)] };
  for (x, y) in pairs {
    v.push(l(&format!("alu-branch{:02x}-{:02x}", x, y), &[0x3E, x, 0xD6, y, 0x28, 0x01, 0x1C, 0x38, 0x01, 0x14, 0x30, 0x01, 0x2C]));
  }
  v.push(l("daa-chain", &[0x3E, 0x45, 0xC6, 0x38, 0x27, 0xEA, 0x10, 0xC0, 0xD6, 0x19, 0x27, 0xEA, 0x11, 0xC0]));
  // HL streaming loop: LD HL,C020; LD B,4; L: LD A,(HL+); ADD A,B; LD (HL-),A; INC HL; DEC B; JR NZ,L
  v.push(l("hl-stream", &[0x21, 0x20, 0xC0, 0x06, 0x04, 0x2A, 0x80, 0x32, 0x23, 0x05, 0x20, 0xF9]));
  // timer set-up + EI (timer interrupt enabled)
  let rates: Vec<u8> = if full { vec![0, 1, 2, 3] } else { vec![1] };
  let tmas: Vec<u8> = if full { vec![0x00, 0xF0] } else { vec![0xF0] };
  for r in rates.iter() {
    for t in tmas.iter() {
      let mut b = vec![0x3E, *t, 0xE0, 0x06, 0xE0, 0x05, 0x3E, 0x04 | *r, 0xE0, 0x07];
      b.extend(ie_or(0x04));
      b.push(0xFB);
      v.push(l(&format!("timer-r{}-tma{:02x}", r, t), &b));
    }
  }
  // VBlank interrupt
  {
    let mut b = vec![0x3E, 0x91, 0xE0, 0x40];
    b.extend(ie_or(0x01));
    b.push(0xFB);
    v.push(l("vblank-int", &b));
  }
  // STAT LYC
  for lyc in if full { vec![0u8, 10, 144] } else { vec![10u8] } {
    let mut b = vec![0x3E, lyc, 0xE0, 0x45, 0x3E, 0x40, 0xE0, 0x41];
    b.extend(ie_or(0x02));
    b.push(0xFB);
    v.push(l(&format!("stat-lyc{}", lyc), &b));
  }
  // STAT mode 0 / 2
  for (m, bit) in if full { vec![(0u8, 0x08u8), (2, 0x20)] } else { vec![(0u8, 0x08u8)] } {
    let mut b = vec![0x3E, bit, 0xE0, 0x41];
    b.extend(ie_or(0x02));
    b.push(0xFB);
    v.push(l(&format!("stat-mode{}", m), &b));
  }
  v.push(l("halt", &[0x76, 0x00]));
  v.push(l("stop", &[0x10, 0x00]));
  // OAM DMA with the wait routine copied to and run from HRAM:
  // LD HL,0E40; LD DE,FF80; LD B,0A; L: LD A,(HL+); LD (DE),A; INC E; DEC B; JR NZ,L; LD A,page; CALL FF80
  for page in if full { vec![0xC1u8, 0x00, 0xFF] } else { vec![0xC1u8] } {
    v.push(l(
      &format!("oam-dma-{:02x}", page),
      &[0x21, 0x40, 0x0E, 0x11, 0x80, 0xFF, 0x06, 0x0A, 0x2A, 0x12, 0x1C, 0x05, 0x20, 0xFA, 0x3E, page, 0xCD, 0x80, 0xFF],
    ));
  }
  // OAM DMA started and the CPU halted while it is in flight (nothing in this fragment wakes it)
  v.push(l("dma-halt", &[0x3E, 0xC1, 0xE0, 0x46, 0x76, 0x00]));
  // OAM DMA started and execution simply continuing; the JR ends the block, so that whatever
  // follows is a block of its own that runs with the transfer in flight
  v.push(l("dma-start", &[0x3E, 0xC1, 0xE0, 0x46, 0x18, 0x00]));
  // routine copied to WRAM (C400) and called there: interpreter path inside a jit build
  v.push(l("wram-code", &[0x21, 0x60, 0x0E, 0x11, 0x00, 0xC4, 0x06, 0x0C, 0x2A, 0x12, 0x13, 0x05, 0x20, 0xFA, 0x21, 0x30, 0xC0, 0xCD, 0x00, 0xC4]));
  // a three-byte routine (LD A,imm; RET) written into high RAM / work RAM and called there; the
  // two variants put different code at the same address, so a program using both runs RAM code
  // that has been rewritten since it was last executed
  for imm in [0x11u8, 0x22] {
    v.push(l(&format!("hram-imm{:02x}", imm), &[0x21, 0x90, 0xFF, 0x36, 0x3E, 0x2C, 0x36, imm, 0x2C, 0x36, 0xC9, 0xCD, 0x90, 0xFF, 0xEA, 0x03, 0xC1]));
  }
  for imm in [0x11u8, 0x22] {
    v.push(l(&format!("wram-imm{:02x}", imm), &[0x21, 0x80, 0xC4, 0x36, 0x3E, 0x2C, 0x36, imm, 0x2C, 0x36, 0xC9, 0xCD, 0x80, 0xC4, 0xEA, 0x04, 0xC1]));
  }
  // bank switch + far call
  // (4 = the bank count of the image: reduced to bank 0, whose first bytes are INC H; RET)
  for k in vec![1u8, 2, 3, 4] {
    v.push(l(&format!("bank-call{}", k), &[0x3E, k, 0xEA, 0x00, 0x21, 0xCD, 0x00, 0x40]));
  }
  // bank switch + a fixed-bank subroutine that reads data from the switchable bank by an
  // absolute address (the same translated block must see the bank mapped *now*)
  for k in vec![2u8, 3] {
    v.push(l(&format!("bank-peek{}", k), &[0x3E, k, 0xEA, 0x00, 0x21, 0xCD, 0x10, 0x0E]));
  }
  // bank switch, then an instruction whose opcode is the last byte of the fixed bank and whose
  // operands are the first two bytes of the bank mapped now (LD HL,nn at 0x3FFF; execution
  // continues inside the bank's routine and returns)
  for k in vec![2u8, 3] {
    v.push(l(&format!("straddle{}", k), &[0x3E, k, 0xEA, 0x00, 0x21, 0xCD, 0xFF, 0x3F]));
  }
  // serial output of a register
  v.push(l("serial-a", &[0x3E, 0x41, 0xE0, 0x01, 0x3E, 0x81, 0xE0, 0x02]));
  if full {
    v.push(l("serial-b", &[0x78, 0xE0, 0x01, 0x3E, 0x80, 0xE0, 0x02, 0x3E, 0x01, 0xE0, 0x02]));
  }
  // reads of DIV / TIMA / LY / STAT into branches (turns timing differences into control flow)
  v.push(l(
    "read-timing",
    &[0xF0, 0x04, 0xE6, 0x01, 0x28, 0x01, 0x14, 0xF0, 0x05, 0xE6, 0x03, 0x20, 0x01, 0x1C, 0xF0, 0x44, 0xFE, 0x90, 0x38, 0x01, 0x24, 0xF0, 0x41, 0xE6, 0x03, 0x20, 0x01, 0x2C],
  ));
  // SP moved onto I/O: LD SP,FF10; PUSH BC (-> FF0F, FF0E); LD SP,0000; PUSH DE (-> FFFF, FFFE); LD SP,DFF0
  v.push(l("sp-on-io", &[0x31, 0x10, 0xFF, 0xC5, 0x31, 0x00, 0x00, 0xD5, 0x31, 0xF0, 0xDF]));
  // a long straight-line block (> 255 machine cycles in one catch-up batch)
  {
    let mut b = vec![0x00u8; 300];
    b.extend_from_slice(&[0x04]); // INC B
    v.push(l("sled300", &b));
  }
  v.push(l("ei-nop-di", &[0xFB, 0x00, 0xF3]));
  // the display switched off (LCDC bit 7 cleared): the devices still have to be given their time
  v.push(l("lcd-off", &[0xAF, 0xE0, 0x40]));
  if full {
    v.push(l("lcd-off-on", &[0xAF, 0xE0, 0x40, 0x00, 0x00, 0x3E, 0x91, 0xE0, 0x40]));
    v.push(l("ei-di", &[0xFB, 0xF3]));
    v.push(l("di-ei-halt", &[0xF3, 0xFB, 0x76, 0x00]));
    let mut d = l("div-reset", &[0xAF, 0xE0, 0x04]);
    d.touches_div = true;
    v.push(d);
  }
  v
}

/// The fixed image: 4 banks, MBC1+RAM+BATTERY (type 0x03), 8 KiB cart RAM, valid header.
pub fn base_image() -> Vec<u8> {
  let mut img = vec![0u8; 4 * 0x4000];
  // RST vectors: INC H ; RET (distinct effect so that a wrong vector is visible)
  for v in 0..8usize {
    img[v * 8] = 0x24;
    img[v * 8 + 1] = 0xC9;
  }
  // interrupt vectors: JP handler (VBlank, STAT, Timer), RETI (Serial, Joypad)
  for (i, vec) in [0x40usize, 0x48, 0x50].iter().enumerate() {
    let h = 0x0080 + i * 0x10;
    img[*vec] = 0xC3;
    img[*vec + 1] = (h & 0xff) as u8;
    img[*vec + 2] = (h >> 8) as u8;
    // handler: PUSH AF; LD A,(C0Fn); INC A; LD (C0Fn),A; POP AF; RETI
    let n = 0xF0 + i as u8;
    let code = [0xF5, 0xFA, n, 0xC0, 0x3C, 0xEA, n, 0xC0, 0xF1, 0xD9];
    img[h..h + code.len()].copy_from_slice(&code);
  }
  img[0x58] = 0xD9;
  img[0x60] = 0xD9;
  // entry
  img[0x100] = 0x00;
  img[0x101] = 0xC3;
  img[0x102] = 0x50;
  img[0x103] = 0x01;
  // subroutines
  let sub = [0x04, 0xE5, 0x21, 0x00, 0xC1, 0x34, 0xE1, 0xC9]; // INC B; PUSH HL; LD HL,C100; INC (HL); POP HL; RET
  img[SUBS..SUBS + sub.len()].copy_from_slice(&sub);
  // 0x0E10: LD A,(7FFF) [the mapped bank's marker byte]; ADD A,B; LD B,A; LD (C102),A; RET
  let peek = [0xFA, 0xFF, 0x7F, 0x80, 0x47, 0xEA, 0x02, 0xC1, 0xC9];
  img[SUBS + 0x10..SUBS + 0x10 + peek.len()].copy_from_slice(&peek);
  // HRAM DMA routine source at 0x0E40: LDH (46),A; LD A,28; L: DEC A; JR NZ,L; RET
  let dma = [0xE0, 0x46, 0x3E, 0x28, 0x3D, 0x20, 0xFD, 0xC9, 0x00, 0x00];
  img[0x0E40..0x0E40 + dma.len()].copy_from_slice(&dma);
  // WRAM routine source at 0x0E60 (12 bytes): INC C; LD A,(HL+); ADD A,C; LD (C200),A; DEC C; JR NZ,-?; RET
  let wr = [0x0C, 0x2A, 0x81, 0xEA, 0x00, 0xC2, 0x0E, 0x02, 0x0D, 0x20, 0xFD, 0xC9];
  img[0x0E60..0x0E60 + wr.len()].copy_from_slice(&wr);
  // per-bank routines at 0x4000, different code, length and cycles in every bank
  for b in 1..4usize {
    let base = b * 0x4000;
    let mut code: Vec<u8> = vec![0x3E, (b as u8) * 0x11, 0xEA, 0x00 + b as u8, 0xC3]; // LD A,b*11; LD (C30b),A
    for _ in 0..b {
      code.push(0x3C); // INC A (b times)
    }
    code.extend_from_slice(&[0xEA, 0x10 + b as u8, 0xC3]); // LD (C31b),A
    if b == 2 {
      code.extend_from_slice(&[0x06, 0x02, 0x05, 0x20, 0xFD]); // small loop
    }
    code.push(0xC9);
    img[base..base + code.len()].copy_from_slice(&code);
    // tail of the bank: marker
    img[base + 0x3FFF] = b as u8;
  }
  // the last byte of the fixed bank: LD HL,nn whose operand bytes lie in the switchable bank
  img[0x3FFF] = 0x21;
  let h = header_bytes(0x03, 0x01, 0x02);
  img[0x104..0x150].copy_from_slice(&h[0x104..0x150]);
  img
}

pub const PROLOGUE: [u8; 14] = [0xF3, 0x31, 0xF0, 0xDF, 0xAF, 0x01, 0x34, 0x12, 0x11, 0x78, 0x56, 0x21, 0x00, 0xC0];
/// L: HALT; NOP; JR L
pub const EPILOGUE: [u8; 4] = [0x76, 0x00, 0x18, 0xFC];

/// program bytes (placed at PROG_ORG) for a sequence of letters
pub fn assemble(alpha: &[Letter], seq: &[usize]) -> Vec<u8> {
  let mut p: Vec<u8> = PROLOGUE.to_vec();
  for i in seq {
    p.extend_from_slice(&alpha[*i].bytes);
  }
  p.extend_from_slice(&EPILOGUE);
  assert!(p.len() < SUBS - PROG_ORG);
  p
}

/// index -> sequence over an alphabet of n letters: all sequences of length 0..=k, shortest first
pub fn nth_sequence(n: usize, k: usize, mut index: u64) -> Option<Vec<usize>> {
  let mut len = 0usize;
  let mut count = 1u64;
  loop {
    if index < count {
      let mut s = vec![0usize; len];
      for i in (0..len).rev() {
        s[i] = (index % n as u64) as usize;
        index /= n as u64;
      }
      return Some(s);
    }
    index -= count;
    len += 1;
    if len > k {
      return None;
    }
    count *= n as u64;
  }
}

pub fn count_sequences(n: usize, k: usize) -> u64 {
  let mut total = 0u64;
  let mut c = 1u64;
  for _ in 0..=k {
    total += c;
    c *= n as u64;
  }
  total
}

pub fn seq_name(alpha: &[Letter], seq: &[usize]) -> String {
  seq.iter().map(|i| alpha[*i].name.as_str()).collect::<Vec<_>>().join(";")
}
