//! R7 — reference frame composition (DMG), written from the Pan Docs rendering rules as
//! stated in DESIGN.md appendix B and the C15 property text.  Nothing here is derived
//! from the subject's pixel pipeline: the frame is a pure function of
//! (vram, oam, LCDC, SCX, SCY, WX, WY, BGP, OBP0, OBP1), evaluated pixel by pixel.
//!
//! Domain: LCDC bits 7 and 0 set (LCD and BG/window enabled), registers constant over
//! the frame.  Outside the judged domain (callers exclude it): WX = 166, WX = 0 and
//! WX < 7 combined with SCX & 7 != 0 while the window is enabled (hardware glitches).

pub const SHADES: [u8; 4] = [255, 170, 85, 0];

#[derive(Clone, Copy, Debug, PartialEq, Eq)]
pub struct Regs {
  pub lcdc: u8,
  pub scx: u8,
  pub scy: u8,
  pub wx: u8,
  pub wy: u8,
  pub bgp: u8,
  pub obp0: u8,
  pub obp1: u8,
}

/// `Reference` is the oracle.  The other variants are *diagnostic hypotheses* used only
/// to label an already established mismatch with a cause; they never decide a verdict.
#[derive(Clone, Copy, Debug, PartialEq, Eq)]
pub enum Variant {
  Reference,
  /// 8x16 objects take the OAM tile index as is (bit 0 not ignored)
  TallTileBit0Kept,
}

/// What the reference says about one pixel (shade plus the facts used for coverage
/// classes and for describing a mismatch).
#[derive(Clone, Copy, Debug)]
pub struct Px {
  pub shade: u8,
  /// BG/window colour index under the pixel
  pub bg_ci: u8,
  pub from_window: bool,
  /// winning object (OAM index) among covering objects with non-zero colour
  pub obj: Option<u8>,
  /// the winner is what is displayed
  pub obj_shown: bool,
  /// number of covering objects with non-zero colour
  pub obj_nonzero: u8,
  /// BG X or Y coordinate wrapped past 255 (background pixels only)
  pub bg_wrapped: bool,
  /// tile fetched through the 0x8800 signed method from block 2 (index < 128)
  pub signed_low_tile: bool,
  /// row of the winning object after flip-Y (0..15)
  pub obj_row: u8,
}

#[inline]
fn palette(p: u8, ci: u8) -> u8 {
  SHADES[((p >> (2 * ci)) & 3) as usize]
}

/// colour index of column `col` (0 = leftmost) in the tile row at `addr`
#[inline]
fn row_colour(vram: &[u8], addr: usize, col: usize) -> u8 {
  let lo = vram[addr];
  let hi = vram[addr + 1];
  let bit = 7 - col;
  (((hi >> bit) & 1) << 1) | ((lo >> bit) & 1)
}

/// The line's objects: the first ten OAM entries, in index order, whose vertical span
/// contains the line — whatever their X.  Returns (indices, count, candidates in all 40).
pub fn line_objects(oam: &[u8], lcdc: u8, y: usize) -> ([u8; 10], usize, usize) {
  let mut sel = [0u8; 10];
  let mut n = 0;
  let mut candidates = 0;
  if lcdc & 0x02 == 0 {
    return (sel, 0, 0);
  }
  let h: i32 = if lcdc & 0x04 != 0 { 16 } else { 8 };
  for i in 0..40 {
    let oy = oam[4 * i] as i32;
    let row = y as i32 + 16 - oy;
    if row >= 0 && row < h {
      candidates += 1;
      if n < 10 {
        sel[n] = i as u8;
        n += 1;
      }
    }
  }
  (sel, n, candidates)
}

/// BG/window layer at (x, y): (colour index, from window, wrapped, signed low tile)
#[inline]
fn bg_window(vram: &[u8], r: &Regs, x: usize, y: usize) -> (u8, bool, bool, bool) {
  let win = r.lcdc & 0x20 != 0 && y >= r.wy as usize && x + 7 >= r.wx as usize;
  let (px, py, map, wrapped) = if win {
    (x + 7 - r.wx as usize, y - r.wy as usize, if r.lcdc & 0x40 != 0 { 0x1C00 } else { 0x1800 }, false)
  } else {
    let sx = x + r.scx as usize;
    let sy = y + r.scy as usize;
    (sx & 255, sy & 255, if r.lcdc & 0x08 != 0 { 0x1C00 } else { 0x1800 }, sx > 255 || sy > 255)
  };
  let tile = vram[map + (py / 8) * 32 + px / 8];
  let (base, signed_low) = if r.lcdc & 0x10 != 0 {
    (16 * tile as usize, false)
  } else {
    ((0x1000i32 + 16 * (tile as i8 as i32)) as usize, tile < 128)
  };
  let ci = row_colour(vram, base + 2 * (py & 7), px & 7);
  (ci, win, wrapped, signed_low)
}

/// One pixel, given the line's objects (`line_objects(oam, lcdc, y)`).
pub fn pixel_with(vram: &[u8], oam: &[u8], r: &Regs, x: usize, y: usize, objs: &[u8], variant: Variant) -> Px {
  let (bg_ci, from_window, bg_wrapped, signed_low_tile) = bg_window(vram, r, x, y);
  let h: i32 = if r.lcdc & 0x04 != 0 { 16 } else { 8 };
  // winner: smallest X, then lowest OAM index, among covering objects with colour != 0
  let mut best: Option<(u8, u8, u8, u8, u8)> = None; // (ox, index, colour, attr, row)
  let mut nonzero = 0u8;
  for &i in objs {
    let e = 4 * i as usize;
    let oy = oam[e] as i32;
    let ox = oam[e + 1];
    let t = oam[e + 2];
    let attr = oam[e + 3];
    let col = x as i32 + 8 - ox as i32;
    if col < 0 || col >= 8 {
      continue;
    }
    let mut row = y as i32 + 16 - oy;
    if attr & 0x40 != 0 {
      row = h - 1 - row;
    }
    let tile = if h == 16 {
      match variant {
        Variant::Reference => (t & 0xFE) as usize + if row >= 8 { 1 } else { 0 },
        Variant::TallTileBit0Kept => t as usize + if row >= 8 { 1 } else { 0 },
      }
    } else {
      t as usize
    };
    let c = (if attr & 0x20 != 0 { 7 - col } else { col }) as usize;
    let ci = row_colour(vram, 16 * tile + 2 * (row as usize & 7), c);
    if ci == 0 {
      continue;
    }
    nonzero += 1;
    let better = match best {
      None => true,
      Some((bx, _, _, _, _)) => ox < bx, // equal X: the earlier (lower) index stays
    };
    if better {
      best = Some((ox, i, ci, attr, row as u8));
    }
  }
  let mut out = Px {
    shade: palette(r.bgp, bg_ci),
    bg_ci,
    from_window,
    obj: None,
    obj_shown: false,
    obj_nonzero: nonzero,
    bg_wrapped: bg_wrapped && !from_window,
    signed_low_tile,
    obj_row: 0,
  };
  if let Some((_, i, ci, attr, row)) = best {
    out.obj = Some(i);
    out.obj_row = row;
    if !(attr & 0x80 != 0 && bg_ci != 0) {
      out.obj_shown = true;
      out.shade = palette(if attr & 0x10 != 0 { r.obp1 } else { r.obp0 }, ci);
    }
  }
  out
}

/// The pixel function proper: shade of screen pixel (x, y).
pub fn pixel(vram: &[u8], oam: &[u8], r: &Regs, x: usize, y: usize) -> u8 {
  let (sel, n, _) = line_objects(oam, r.lcdc, y);
  pixel_with(vram, oam, r, x, y, &sel[..n], Variant::Reference).shade
}

/// Facts about a rendered reference frame (bounded; used for outcome classes and the
/// vacuity guard).
pub mod feat {
  pub const OBJ_OVER_BG_NZ: u32 = 1 << 0;
  pub const OBJ_BEHIND_BG: u32 = 1 << 1;
  pub const WIN_VISIBLE: u32 = 1 << 2;
  pub const OBJ_OVERLAP: u32 = 1 << 3;
  pub const LINE_OVER_10: u32 = 1 << 4;
  pub const OBJ_CLIPPED: u32 = 1 << 5;
  pub const BG_WRAP: u32 = 1 << 6;
  pub const SIGNED_LOW_TILE: u32 = 1 << 7;
  pub const FLIP_X: u32 = 1 << 8;
  pub const FLIP_Y: u32 = 1 << 9;
  pub const TALL_BOTTOM: u32 = 1 << 10;
  pub const OBJ_OVER_WIN: u32 = 1 << 11;
  pub const OBP1: u32 = 1 << 12;
  pub const BITS: u32 = 13;
}

/// Whole frame (160x144 shades, row-major) and its feature set.
pub fn render(vram: &[u8], oam: &[u8], r: &Regs, variant: Variant, out: &mut [u8]) -> u32 {
  let mut f = 0u32;
  for y in 0..144 {
    let (sel, n, cand) = line_objects(oam, r.lcdc, y);
    if cand > 10 {
      f |= feat::LINE_OVER_10;
    }
    for x in 0..160 {
      let p = pixel_with(vram, oam, r, x, y, &sel[..n], variant);
      out[y * 160 + x] = p.shade;
      if p.from_window {
        f |= feat::WIN_VISIBLE;
      }
      if p.bg_wrapped {
        f |= feat::BG_WRAP;
      }
      if p.signed_low_tile {
        f |= feat::SIGNED_LOW_TILE;
      }
      if p.obj_nonzero >= 2 {
        f |= feat::OBJ_OVERLAP;
      }
      if let Some(i) = p.obj {
        let attr = oam[4 * i as usize + 3];
        let ox = oam[4 * i as usize + 1];
        if p.obj_shown {
          if p.bg_ci != 0 {
            f |= feat::OBJ_OVER_BG_NZ;
          }
          if p.from_window {
            f |= feat::OBJ_OVER_WIN;
          }
          if ox < 8 || ox > 160 {
            f |= feat::OBJ_CLIPPED;
          }
          if attr & 0x20 != 0 {
            f |= feat::FLIP_X;
          }
          if attr & 0x40 != 0 {
            f |= feat::FLIP_Y;
          }
          if attr & 0x10 != 0 {
            f |= feat::OBP1;
          }
          if p.obj_row >= 8 {
            f |= feat::TALL_BOTTOM;
          }
        } else {
          f |= feat::OBJ_BEHIND_BG;
        }
      }
    }
  }
  f
}
