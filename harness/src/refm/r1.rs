//! R1 — independent SM83 reference, generated from the opcode bit fields
//! (x = op>>6, y = (op>>3)&7, z = op&7, p = y>>1, q = y&1), never from
//! `decoder/mod.rs`.  See DESIGN.md Appendix A.

#[derive(Clone, Copy, Debug, PartialEq, Eq, Default)]
pub struct Cpu {
  pub a: u8,
  pub f: u8,
  pub b: u8,
  pub c: u8,
  pub d: u8,
  pub e: u8,
  pub h: u8,
  pub l: u8,
  pub sp: u16,
  pub pc: u16,
}

pub trait Bus {
  fn rd(&mut self, addr: u16) -> u8;
  fn wr(&mut self, addr: u16, v: u8);
}

#[derive(Clone, Copy, Debug, PartialEq, Eq)]
pub enum Ctl {
  None,
  Halt,
  Stop,
  Ei,
  Di,
  Reti,
}

#[derive(Clone, Copy, Debug, PartialEq, Eq)]
pub struct StepOut {
  /// machine cycles consumed (taken/not-taken already resolved)
  pub cycles: u32,
  /// encoded length in bytes
  pub len: u8,
  pub ctl: Ctl,
  /// instruction terminates a basic block
  pub block_end: bool,
  /// for conditional control flow: was the branch taken
  pub taken: Option<bool>,
}

pub const FZ: u8 = 0x80;
pub const FN: u8 = 0x40;
pub const FH: u8 = 0x20;
pub const FC: u8 = 0x10;

pub const UNDEFINED: [u8; 11] = [0xD3, 0xDB, 0xDD, 0xE3, 0xE4, 0xEB, 0xEC, 0xED, 0xF4, 0xFC, 0xFD];

pub fn is_undefined(op: u8) -> bool {
  UNDEFINED.contains(&op)
}

impl Cpu {
  pub fn bc(&self) -> u16 { ((self.b as u16) << 8) | self.c as u16 }
  pub fn de(&self) -> u16 { ((self.d as u16) << 8) | self.e as u16 }
  pub fn hl(&self) -> u16 { ((self.h as u16) << 8) | self.l as u16 }
  pub fn af(&self) -> u16 { ((self.a as u16) << 8) | self.f as u16 }
  pub fn set_bc(&mut self, v: u16) { self.b = (v >> 8) as u8; self.c = v as u8; }
  pub fn set_de(&mut self, v: u16) { self.d = (v >> 8) as u8; self.e = v as u8; }
  pub fn set_hl(&mut self, v: u16) { self.h = (v >> 8) as u8; self.l = v as u8; }
  pub fn set_af(&mut self, v: u16) { self.a = (v >> 8) as u8; self.f = (v as u8) & 0xF0; }

  fn r(&self, i: u8, bus: &mut dyn Bus) -> u8 {
    match i {
      0 => self.b,
      1 => self.c,
      2 => self.d,
      3 => self.e,
      4 => self.h,
      5 => self.l,
      6 => bus.rd(self.hl()),
      _ => self.a,
    }
  }
  fn set_r(&mut self, i: u8, v: u8, bus: &mut dyn Bus) {
    match i {
      0 => self.b = v,
      1 => self.c = v,
      2 => self.d = v,
      3 => self.e = v,
      4 => self.h = v,
      5 => self.l = v,
      6 => bus.wr(self.hl(), v),
      _ => self.a = v,
    }
  }
  fn rp(&self, p: u8) -> u16 {
    match p {
      0 => self.bc(),
      1 => self.de(),
      2 => self.hl(),
      _ => self.sp,
    }
  }
  fn set_rp(&mut self, p: u8, v: u16) {
    match p {
      0 => self.set_bc(v),
      1 => self.set_de(v),
      2 => self.set_hl(v),
      _ => self.sp = v,
    }
  }
  fn rp2(&self, p: u8) -> u16 {
    match p {
      0 => self.bc(),
      1 => self.de(),
      2 => self.hl(),
      _ => self.af(),
    }
  }
  fn set_rp2(&mut self, p: u8, v: u16) {
    match p {
      0 => self.set_bc(v),
      1 => self.set_de(v),
      2 => self.set_hl(v),
      _ => self.set_af(v),
    }
  }
  fn cc(&self, i: u8) -> bool {
    match i {
      0 => self.f & FZ == 0,
      1 => self.f & FZ != 0,
      2 => self.f & FC == 0,
      _ => self.f & FC != 0,
    }
  }
  fn flags(&mut self, z: bool, n: bool, h: bool, c: bool) {
    self.f = (if z { FZ } else { 0 }) | (if n { FN } else { 0 }) | (if h { FH } else { 0 }) | (if c { FC } else { 0 });
  }
}

fn push16(cpu: &mut Cpu, bus: &mut dyn Bus, v: u16) {
  cpu.sp = cpu.sp.wrapping_sub(1);
  bus.wr(cpu.sp, (v >> 8) as u8);
  cpu.sp = cpu.sp.wrapping_sub(1);
  bus.wr(cpu.sp, v as u8);
}

fn pop16(cpu: &mut Cpu, bus: &mut dyn Bus) -> u16 {
  let lo = bus.rd(cpu.sp) as u16;
  cpu.sp = cpu.sp.wrapping_add(1);
  let hi = bus.rd(cpu.sp) as u16;
  cpu.sp = cpu.sp.wrapping_add(1);
  (hi << 8) | lo
}

/// ALU group (x=2 and x=3,z=6): ADD ADC SUB SBC AND XOR OR CP
pub fn alu(cpu: &mut Cpu, y: u8, b: u8) {
  let a = cpu.a;
  let cin: u16 = if cpu.f & FC != 0 { 1 } else { 0 };
  match y {
    0 | 1 => {
      let c = if y == 1 { cin } else { 0 };
      let r = a as u16 + b as u16 + c;
      let h = (a & 15) as u16 + (b & 15) as u16 + c > 15;
      cpu.a = r as u8;
      cpu.flags(r as u8 == 0, false, h, r > 255);
    },
    2 | 3 | 7 => {
      let c = if y == 3 { cin } else { 0 };
      let r = (a as i32) - (b as i32) - (c as i32);
      let h = ((a & 15) as i32) < ((b & 15) as i32 + c as i32);
      let cy = (a as i32) < (b as i32 + c as i32);
      let res = (r & 0xFF) as u8;
      if y != 7 {
        cpu.a = res;
      }
      cpu.flags(res == 0, true, h, cy);
    },
    4 => {
      cpu.a = a & b;
      cpu.flags(cpu.a == 0, false, true, false);
    },
    5 => {
      cpu.a = a ^ b;
      cpu.flags(cpu.a == 0, false, false, false);
    },
    _ => {
      cpu.a = a | b;
      cpu.flags(cpu.a == 0, false, false, false);
    },
  }
}

/// CB rotate/shift group: RLC RRC RL RR SLA SRA SWAP SRL. Returns (result, carry-out)
pub fn rot(y: u8, v: u8, cin: bool) -> (u8, bool) {
  match y {
    0 => (v.rotate_left(1), v & 0x80 != 0),
    1 => (v.rotate_right(1), v & 1 != 0),
    2 => ((v << 1) | (cin as u8), v & 0x80 != 0),
    3 => ((v >> 1) | ((cin as u8) << 7), v & 1 != 0),
    4 => (v << 1, v & 0x80 != 0),
    5 => ((v >> 1) | (v & 0x80), v & 1 != 0),
    6 => ((v << 4) | (v >> 4), false),
    _ => (v >> 1, v & 1 != 0),
  }
}

pub fn daa(a: u8, f: u8) -> (u8, u8) {
  let n = f & FN != 0;
  let h = f & FH != 0;
  let mut c = f & FC != 0;
  let mut r = a;
  if !n {
    let mut adj = 0u8;
    if c || a > 0x99 {
      adj |= 0x60;
      c = true;
    }
    if h || (a & 15) > 9 {
      adj |= 0x06;
    }
    r = r.wrapping_add(adj);
  } else {
    let mut adj = 0u8;
    if c {
      adj |= 0x60;
    }
    if h {
      adj |= 0x06;
    }
    r = r.wrapping_sub(adj);
  }
  let nf = (if r == 0 { FZ } else { 0 }) | (f & FN) | (if c { FC } else { 0 });
  (r, nf)
}

/// (length, cycles not-taken-or-unconditional, cycles taken, block_end) for a first byte;
/// for 0xCB the second byte is needed, see `info_cb`. None = undefined opcode.
pub fn info(op: u8) -> Option<(u8, u32, u32, bool)> {
  let x = op >> 6;
  let y = (op >> 3) & 7;
  let z = op & 7;
  let q = y & 1;
  let p = y >> 1;
  let u = |l: u8, c: u32| Some((l, c, c, false));
  let t = |l: u8, c: u32| Some((l, c, c, true));
  match x {
    0 => match z {
      0 => match y {
        0 => u(1, 1),
        1 => u(3, 5),
        2 => t(2, 1),
        3 => t(2, 3),
        _ => Some((2, 2, 3, true)),
      },
      1 => if q == 0 { u(3, 3) } else { u(1, 2) },
      2 => u(1, 2),
      3 => u(1, 2),
      4 | 5 => if y == 6 { u(1, 3) } else { u(1, 1) },
      6 => if y == 6 { u(2, 3) } else { u(2, 2) },
      _ => u(1, 1),
    },
    1 => {
      if y == 6 && z == 6 {
        t(1, 1)
      } else if y == 6 || z == 6 {
        u(1, 2)
      } else {
        u(1, 1)
      }
    },
    2 => if z == 6 { u(1, 2) } else { u(1, 1) },
    _ => match z {
      0 => match y {
        0..=3 => Some((1, 2, 5, true)),
        4 => u(2, 3),
        5 => u(2, 4),
        6 => u(2, 3),
        _ => u(2, 3),
      },
      1 => {
        if q == 0 {
          u(1, 3)
        } else {
          match p {
            0 => t(1, 4),
            1 => t(1, 4),
            2 => t(1, 1),
            _ => u(1, 2),
          }
        }
      },
      2 => match y {
        0..=3 => Some((3, 3, 4, true)),
        4 => u(1, 2),
        5 => u(3, 4),
        6 => u(1, 2),
        _ => u(3, 4),
      },
      3 => match y {
        0 => t(3, 4),
        1 => None, // CB prefix, handled separately
        6 => t(1, 1),
        7 => t(1, 1),
        _ => None,
      },
      4 => match y {
        0..=3 => Some((3, 3, 6, true)),
        _ => None,
      },
      5 => {
        if q == 0 {
          u(1, 4)
        } else if p == 0 {
          t(3, 6)
        } else {
          None
        }
      },
      6 => u(2, 2),
      _ => t(1, 4),
    },
  }
}

pub fn info_cb(cb: u8) -> (u8, u32) {
  let x = cb >> 6;
  let z = cb & 7;
  if z == 6 {
    if x == 1 { (2, 3) } else { (2, 4) }
  } else {
    (2, 2)
  }
}

/// Execute one instruction at cpu.pc.  Err(op) for the eleven undefined opcodes
/// (nothing is changed in that case).
pub fn step(cpu: &mut Cpu, bus: &mut dyn Bus) -> Result<StepOut, u8> {
  let pc0 = cpu.pc;
  let op = bus.rd(pc0);
  if op == 0xCB {
    let cb = bus.rd(pc0.wrapping_add(1));
    cpu.pc = pc0.wrapping_add(2);
    let (len, cycles) = info_cb(cb);
    let x = cb >> 6;
    let y = (cb >> 3) & 7;
    let z = cb & 7;
    let v = cpu.r(z, bus);
    match x {
      0 => {
        let (r, c) = rot(y, v, cpu.f & FC != 0);
        cpu.set_r(z, r, bus);
        cpu.flags(r == 0, false, false, c);
      },
      1 => {
        let c = cpu.f & FC != 0;
        cpu.flags(v & (1 << y) == 0, false, true, c);
      },
      2 => cpu.set_r(z, v & !(1 << y), bus),
      _ => cpu.set_r(z, v | (1 << y), bus),
    }
    return Ok(StepOut { cycles, len, ctl: Ctl::None, block_end: false, taken: None });
  }
  let (len, c_nt, c_t, block_end) = match info(op) {
    Some(i) => i,
    None => return Err(op),
  };
  let x = op >> 6;
  let y = (op >> 3) & 7;
  let z = op & 7;
  let q = y & 1;
  let p = y >> 1;
  let imm8 = |bus: &mut dyn Bus| bus.rd(pc0.wrapping_add(1));
  let imm16 = |bus: &mut dyn Bus| {
    let lo = bus.rd(pc0.wrapping_add(1)) as u16;
    let hi = bus.rd(pc0.wrapping_add(2)) as u16;
    (hi << 8) | lo
  };
  let next = pc0.wrapping_add(len as u16);
  cpu.pc = next;
  let mut ctl = Ctl::None;
  let mut taken: Option<bool> = None;
  match x {
    0 => match z {
      0 => match y {
        0 => {},
        1 => {
          let a = imm16(bus);
          bus.wr(a, cpu.sp as u8);
          bus.wr(a.wrapping_add(1), (cpu.sp >> 8) as u8);
        },
        2 => ctl = Ctl::Stop,
        _ => {
          let e = imm8(bus) as i8 as i16 as u16;
          let go = if y == 3 { true } else { cpu.cc(y - 4) };
          if y != 3 {
            taken = Some(go);
          }
          if go {
            cpu.pc = next.wrapping_add(e);
          }
        },
      },
      1 => {
        if q == 0 {
          let v = imm16(bus);
          cpu.set_rp(p, v);
        } else {
          let hl = cpu.hl();
          let rr = cpu.rp(p);
          let r = hl as u32 + rr as u32;
          let h = (hl & 0xFFF) + (rr & 0xFFF) > 0xFFF;
          let zf = cpu.f & FZ != 0;
          cpu.set_hl(r as u16);
          cpu.flags(zf, false, h, r > 0xFFFF);
        }
      },
      2 => {
        let addr = match p {
          0 => cpu.bc(),
          1 => cpu.de(),
          _ => cpu.hl(),
        };
        if q == 0 {
          bus.wr(addr, cpu.a);
        } else {
          cpu.a = bus.rd(addr);
        }
        if p == 2 {
          cpu.set_hl(addr.wrapping_add(1));
        } else if p == 3 {
          cpu.set_hl(addr.wrapping_sub(1));
        }
      },
      3 => {
        let v = cpu.rp(p);
        cpu.set_rp(p, if q == 0 { v.wrapping_add(1) } else { v.wrapping_sub(1) });
      },
      4 => {
        let v = cpu.r(y, bus);
        let r = v.wrapping_add(1);
        cpu.set_r(y, r, bus);
        let c = cpu.f & FC != 0;
        cpu.flags(r == 0, false, v & 15 == 15, c);
      },
      5 => {
        let v = cpu.r(y, bus);
        let r = v.wrapping_sub(1);
        cpu.set_r(y, r, bus);
        let c = cpu.f & FC != 0;
        cpu.flags(r == 0, true, v & 15 == 0, c);
      },
      6 => {
        let v = imm8(bus);
        cpu.set_r(y, v, bus);
      },
      _ => match y {
        0 | 1 | 2 | 3 => {
          let (r, c) = rot(y, cpu.a, cpu.f & FC != 0);
          cpu.a = r;
          cpu.flags(false, false, false, c);
        },
        4 => {
          let (r, f) = daa(cpu.a, cpu.f);
          cpu.a = r;
          cpu.f = f;
        },
        5 => {
          cpu.a = !cpu.a;
          cpu.f |= FN | FH;
        },
        6 => {
          let zf = cpu.f & FZ != 0;
          cpu.flags(zf, false, false, true);
        },
        _ => {
          let zf = cpu.f & FZ != 0;
          let c = cpu.f & FC != 0;
          cpu.flags(zf, false, false, !c);
        },
      },
    },
    1 => {
      if y == 6 && z == 6 {
        ctl = Ctl::Halt;
      } else {
        let v = cpu.r(z, bus);
        cpu.set_r(y, v, bus);
      }
    },
    2 => {
      let v = cpu.r(z, bus);
      alu(cpu, y, v);
    },
    _ => match z {
      0 => match y {
        0..=3 => {
          let go = cpu.cc(y);
          taken = Some(go);
          if go {
            cpu.pc = pop16(cpu, bus);
          }
        },
        4 => {
          let n = imm8(bus);
          bus.wr(0xFF00 | n as u16, cpu.a);
        },
        6 => {
          let n = imm8(bus);
          cpu.a = bus.rd(0xFF00 | n as u16);
        },
        _ => {
          // ADD SP,e8 (y=5) / LD HL,SP+e8 (y=7)
          let e = imm8(bus);
          let sp = cpu.sp;
          let r = sp.wrapping_add(e as i8 as i16 as u16);
          let h = (sp & 15) + (e as u16 & 15) > 15;
          let c = (sp & 255) + (e as u16) > 255;
          cpu.flags(false, false, h, c);
          if y == 5 {
            cpu.sp = r;
          } else {
            cpu.set_hl(r);
          }
        },
      },
      1 => {
        if q == 0 {
          let v = pop16(cpu, bus);
          cpu.set_rp2(p, v);
        } else {
          match p {
            0 => cpu.pc = pop16(cpu, bus),
            1 => {
              cpu.pc = pop16(cpu, bus);
              ctl = Ctl::Reti;
            },
            2 => cpu.pc = cpu.hl(),
            _ => cpu.sp = cpu.hl(),
          }
        }
      },
      2 => match y {
        0..=3 => {
          let a = imm16(bus);
          let go = cpu.cc(y);
          taken = Some(go);
          if go {
            cpu.pc = a;
          }
        },
        4 => bus.wr(0xFF00 | cpu.c as u16, cpu.a),
        5 => {
          let a = imm16(bus);
          bus.wr(a, cpu.a);
        },
        6 => cpu.a = bus.rd(0xFF00 | cpu.c as u16),
        _ => {
          let a = imm16(bus);
          cpu.a = bus.rd(a);
        },
      },
      3 => match y {
        0 => cpu.pc = imm16(bus),
        6 => ctl = Ctl::Di,
        _ => ctl = Ctl::Ei,
      },
      4 => {
        let a = imm16(bus);
        let go = cpu.cc(y);
        taken = Some(go);
        if go {
          push16(cpu, bus, next);
          cpu.pc = a;
        }
      },
      5 => {
        if q == 0 {
          let v = cpu.rp2(p);
          push16(cpu, bus, v);
        } else {
          let a = imm16(bus);
          push16(cpu, bus, next);
          cpu.pc = a;
        }
      },
      6 => {
        let v = imm8(bus);
        alu(cpu, y, v);
      },
      _ => {
        push16(cpu, bus, next);
        cpu.pc = (y as u16) * 8;
      },
    },
  }
  let cycles = match taken {
    Some(true) => c_t,
    _ => c_nt,
  };
  Ok(StepOut { cycles, len, ctl, block_end, taken })
}

/// Self-tests of R1 against arithmetic definitions; run before R1 is trusted.
pub fn self_test() -> Result<(), String> {
  // 1. 501 defined encodings
  let mut defined = 0;
  for op in 0..=255u8 {
    if op == 0xCB {
      continue;
    }
    if info(op).is_some() {
      defined += 1;
    } else if !is_undefined(op) {
      return Err(format!("info({:02X}) undefined but not in the undefined list", op));
    }
  }
  if defined != 244 {
    return Err(format!("expected 244 defined unprefixed opcodes besides CB, got {}", defined));
  }
  // 2. DAA is decimal adjust: for all valid BCD pairs and carry-in, add and subtract
  for x in 0..100u32 {
    for y in 0..100u32 {
      for cin in 0..2u32 {
        let bx = ((x / 10) << 4 | (x % 10)) as u8;
        let by = ((y / 10) << 4 | (y % 10)) as u8;
        let mut c = Cpu::default();
        c.a = bx;
        c.f = if cin == 1 { FC } else { 0 };
        alu(&mut c, 1, by); // ADC
        let (r, f) = daa(c.a, c.f);
        let s = x + y + cin;
        let want = (((s % 100) / 10) << 4 | (s % 10)) as u8;
        if r != want || (f & FC != 0) != (s > 99) || (f & FZ != 0) != (want == 0) || f & FH != 0 || f & FN != 0 {
          return Err(format!("DAA add {}+{}+{}: got {:02X}/{:02X}", x, y, cin, r, f));
        }
        let mut c = Cpu::default();
        c.a = bx;
        c.f = if cin == 1 { FC } else { 0 };
        alu(&mut c, 3, by); // SBC
        let (r, f) = daa(c.a, c.f);
        let d = (100 + x as i32 - y as i32 - cin as i32) as u32;
        let dm = d % 100;
        let want = ((dm / 10) << 4 | (dm % 10)) as u8;
        if r != want || (f & FC != 0) != (d < 100) || (f & FZ != 0) != (want == 0) || f & FN == 0 {
          return Err(format!("DAA sub {}-{}-{}: got {:02X}/{:02X} want {:02X}", x, y, cin, r, f, want));
        }
      }
    }
  }
  // 3. ADD/ADC/SUB/SBC against wide integer arithmetic
  for a in 0..256i32 {
    for b in 0..256i32 {
      for cin in 0..2i32 {
        for y in 0..4u8 {
          let mut c = Cpu::default();
          c.a = a as u8;
          c.f = if cin == 1 { FC } else { 0 };
          alu(&mut c, y, b as u8);
          let ci = if y & 1 == 1 { cin } else { 0 };
          let (wide, half) = if y < 2 {
            (a + b + ci, (a & 15) + (b & 15) + ci)
          } else {
            (a - b - ci, (a & 15) - (b & 15) - ci)
          };
          let ok = c.a == (wide & 255) as u8
            && (c.f & FC != 0) == (wide > 255 || wide < 0)
            && (c.f & FH != 0) == (half > 15 || half < 0)
            && (c.f & FZ != 0) == (wide & 255 == 0)
            && (c.f & FN != 0) == (y >= 2)
            && c.f & 0x0F == 0;
          if !ok {
            return Err(format!("alu y={} a={:02X} b={:02X} cin={}", y, a, b, cin));
          }
        }
      }
    }
  }
  // 4. rotates: RLC∘RRC = id, RL∘RR = id with carry threading, SWAP∘SWAP = id
  for v in 0..=255u8 {
    for cin in [false, true].iter() {
      let (r, _) = rot(0, v, *cin);
      let (b, _) = rot(1, r, *cin);
      if b != v {
        return Err("RLC/RRC".into());
      }
      let (r, c) = rot(2, v, *cin);
      let (b, c2) = rot(3, r, c);
      if b != v || c2 != *cin {
        return Err("RL/RR".into());
      }
      let (r, _) = rot(6, v, *cin);
      let (b, _) = rot(6, r, *cin);
      if b != v {
        return Err("SWAP".into());
      }
      let (r, c) = rot(4, v, *cin);
      if r as u16 != ((v as u16) << 1) & 0xFF || c != (v >= 128) {
        return Err("SLA".into());
      }
      let (r, _) = rot(5, v, *cin);
      if r as i8 != (v as i8) >> 1 {
        return Err("SRA".into());
      }
      let (r, _) = rot(7, v, *cin);
      if r != v / 2 {
        return Err("SRL".into());
      }
    }
  }
  // 5. lengths tile a canonical stream: every defined opcode once with operand bytes 0
  struct Flat(Vec<u8>);
  impl Bus for Flat {
    fn rd(&mut self, a: u16) -> u8 { self.0[a as usize] }
    fn wr(&mut self, a: u16, v: u8) { self.0[a as usize] = v; }
  }
  let mut total_len = 0usize;
  for op in 0..=255u8 {
    if op == 0xCB || is_undefined(op) {
      continue;
    }
    total_len += info(op).unwrap().0 as usize;
  }
  // 1-byte: 244 - (2-byte count) - (3-byte count); known totals for SM83: 13 STOP/JR/LD r,d8/…
  // independent count from the ISA: 2-byte unprefixed = 1 (STOP) + 5 (JR) + 8 (LD r,d8) + 8 (ALU d8)
  // + 4 (LDH x2, ADD SP, LD HL,SP+e8) = 26; 3-byte = 4 (LD rp,d16) + 1 (LD (a16),SP) + 5 (JP) + 5 (CALL)
  // + 2 (LD (a16),A / LD A,(a16)) = 17; 1-byte = 244 - 43 = 201
  if total_len != 201 + 26 * 2 + 17 * 3 {
    return Err(format!("length table sums to {}", total_len));
  }
  let _ = Flat(vec![]);
  Ok(())
}
