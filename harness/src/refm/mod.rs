pub mod r1;
