pub mod r1;
pub mod r7;
