//! Single-instruction conformance engine shared by C05 and C06 (interpreter vs R1) and,
//! for its world handling, by C01/C02.
//!
//! One pinned flat `Core` (32 KiB ROM without controller, 8 KiB WRAM, 32 KiB cart RAM).
//! Per case: registers are set in place, the instruction bytes are poked at PC (ROM, WRAM
//! or HRAM), R1 is run first against a copy-on-write overlay of the *real* bus (its reads
//! go through `memory_read_byte`, its writes are only recorded), then the real interpreter
//! executes the same instruction with the bus recorder on; registers, status, block-end flag,
//! cycles and the ordered write list are compared, and the interpreter's writes are undone.

use crate::cpu::Registers;
use crate::devices::io::IO;
use crate::emulator::Core;
use crate::mem::{memory_read_byte, MemoryAreas};
use crate::refm::r1::{self, Bus, Cpu, Ctl};
use crate::world;

pub struct Overlay {
  pub mem: *const MemoryAreas,
  pub writes: Vec<(u16, u8)>,
  pub olds: Vec<u8>,
}

impl Bus for Overlay {
  fn rd(&mut self, addr: u16) -> u8 {
    for (a, v) in self.writes.iter().rev() {
      if *a == addr && is_plain_ram(addr) {
        return *v;
      }
    }
    memory_read_byte(self.mem, addr)
  }
  fn wr(&mut self, addr: u16, v: u8) {
    self.olds.push(memory_read_byte(self.mem, addr));
    self.writes.push((addr, v));
  }
}

/// The DMA register of every step / block world holds this page (no transfer armed): not its
/// power-on value 0xFF, which is also what an unassigned I/O register reads as, so that a
/// load which reaches the device page without going through the bus is seen.
pub const BASE_DMA_PAGE: u8 = 0xC1;

pub fn is_plain_ram(addr: u16) -> bool {
  matches!(addr, 0x8000..=0xDFFF | 0xFE00..=0xFE9F | 0xFF80..=0xFFFE)
}

#[derive(Clone, Debug, Default)]
pub struct Obs {
  pub af: u32,
  pub bc: u32,
  pub de: u32,
  pub hl: u32,
  pub sp: u32,
  pub ip: u32,
  pub cycles: u32,
  pub status: u8,
  pub block_end: bool,
  pub refused: bool,
  pub panic_msg: String,
  pub writes: Vec<(u16, u8)>,
}

#[derive(Clone, Debug)]
pub struct Exp {
  pub cpu: Cpu,
  pub cycles: u32,
  pub status: u8,
  pub block_end: bool,
  pub undefined: bool,
  pub writes: Vec<(u16, u8)>,
  pub taken: Option<bool>,
  pub len: u8,
}

pub fn ctl_status(c: Ctl) -> u8 {
  match c {
    Ctl::None => 0,
    Ctl::Stop => 1,
    Ctl::Halt => 2,
    Ctl::Di => 3,
    Ctl::Ei => 4,
    Ctl::Reti => 5,
  }
}

pub struct StepWorld {
  pub core: Box<Core>,
  ov: Overlay,
  dirty_io: bool,
}

/// direct (bus-bypassing) store used to plant instruction bytes and undo writes
pub fn poke_raw(m: &mut MemoryAreas, addr: u16, v: u8) {
  let a = addr as usize;
  match addr {
    0x0000..=0x3FFF => m.rom[a] = v,
    0x4000..=0x7FFF => {
      let b = m.cart_state.get_rom_bank();
      let i = b * 0x4000 + (a & 0x3fff);
      if i < m.rom.len() {
        m.rom[i] = v;
      }
    },
    0x8000..=0x9FFF => m.video_ram[a & 0x1fff] = v,
    0xA000..=0xBFFF => {
      let i = m.cart_state.get_ram_bank() * 0x2000 + (a & 0x1fff);
      if i < m.cart_ram.len() {
        m.cart_ram[i] = v;
      }
    },
    0xC000..=0xCFFF => m.work_ram[a & 0xfff] = v,
    0xD000..=0xDFFF => m.work_ram[0x1000 * m.wram_bank + (a & 0xfff)] = v,
    0xFE00..=0xFE9F => m.oam_ram[a & 0xff] = v,
    0xFF80..=0xFFFE => m.high_ram[a & 0x7f] = v,
    0xFFFF => crate::mem::memory_write_byte(m as *mut MemoryAreas, 0xFFFF, v), // through the bus: IE may keep bits elsewhere
    _ => {},
  }
}

pub fn peek_raw(m: &MemoryAreas, addr: u16) -> u8 {
  let a = addr as usize;
  match addr {
    0x0000..=0x3FFF => m.rom[a],
    0x4000..=0x7FFF => m.rom[m.cart_state.get_rom_bank() * 0x4000 + (a & 0x3fff)],
    0x8000..=0x9FFF => m.video_ram[a & 0x1fff],
    0xA000..=0xBFFF => m.cart_ram[m.cart_state.get_ram_bank() * 0x2000 + (a & 0x1fff)],
    0xC000..=0xCFFF => m.work_ram[a & 0xfff],
    0xD000..=0xDFFF => m.work_ram[0x1000 * m.wram_bank + (a & 0xfff)],
    0xFE00..=0xFE9F => m.oam_ram[a & 0xff],
    0xFF80..=0xFFFE => m.high_ram[a & 0x7f],
    0xFFFF => memory_read_byte(m as *const MemoryAreas, 0xFFFF),
    _ => 0,
  }
}

/// which register vectors run with an OAM DMA armed (a function of the vector, so a case is
/// reproducible from its registers alone)
pub fn dma_armed_for(c: &Cpu) -> bool {
  (c.a ^ c.l ^ (c.sp as u8) ^ (c.sp >> 8) as u8 ^ c.b) & 3 == 3
}

impl StepWorld {
  pub fn new() -> StepWorld {
    let mut rom = vec![0u8; 0x8000];
    // position-dependent filler so that a mis-addressed read is visible
    for (i, b) in rom.iter_mut().enumerate() {
      *b = ((i * 7) ^ (i >> 8)) as u8;
    }
    let mut core = world::flat_core(rom);
    Self::fill_ram(&mut core);
    crate::mem::memory_write_byte(&mut core.memory as *mut MemoryAreas, 0xFF46, BASE_DMA_PAGE);
    core.memory.oam_dma = None;
    let mem = &core.memory as *const MemoryAreas;
    StepWorld { core, ov: Overlay { mem, writes: Vec::with_capacity(8), olds: Vec::with_capacity(8) }, dirty_io: false }
  }

  fn fill_ram(core: &mut Core) {
    for (i, b) in core.memory.work_ram.iter_mut().enumerate() {
      *b = (i as u8).wrapping_mul(3) ^ 0x5A ^ ((i >> 8) as u8);
    }
    for (i, b) in core.memory.video_ram.iter_mut().enumerate() {
      *b = (i as u8).wrapping_mul(5) ^ 0xA5 ^ ((i >> 8) as u8);
    }
    for (i, b) in core.memory.cart_ram.iter_mut().enumerate() {
      *b = (i as u8).wrapping_mul(11) ^ 0x3C ^ ((i >> 8) as u8);
    }
    for (i, b) in core.memory.oam_ram.iter_mut().enumerate() {
      *b = (i as u8).wrapping_mul(13) ^ 0xC3;
    }
    for (i, b) in core.memory.high_ram.iter_mut().enumerate() {
      *b = (i as u8).wrapping_mul(17) ^ 0x69;
    }
  }

  /// A step world on an existing (e.g. banked, file-loaded) core. `rebuild` is not available
  /// for such a world: the caller must keep write effects restorable (RAM only).
  pub fn from_core(core: Box<Core>) -> StepWorld {
    let mem = &core.memory as *const MemoryAreas;
    StepWorld { core, ov: Overlay { mem, writes: Vec::with_capacity(8), olds: Vec::with_capacity(8) }, dirty_io: true }
  }

  pub fn rebuild(&mut self) {
    if self.dirty_io {
      // banked world: cannot be rebuilt from scratch here; leave it (callers of banked worlds
      // only run cases whose writes go to RAM and are undone from the recorded old values)
      return;
    }
    *self = StepWorld::new();
  }

  pub fn mem_ptr(&mut self) -> *mut MemoryAreas {
    &mut self.core.memory as *mut MemoryAreas
  }

  pub fn poke(&mut self, addr: u16, v: u8) {
    poke_raw(&mut self.core.memory, addr, v);
  }

  pub fn peek(&self, addr: u16) -> u8 {
    peek_raw(&self.core.memory, addr)
  }

  pub fn set_regs(&mut self, c: &Cpu) {
    let r = &mut self.core.registers;
    r.af = c.af() as u32;
    r.bc = c.bc() as u32;
    r.de = c.de() as u32;
    r.hl = c.hl() as u32;
    r.sp = c.sp as u32;
    r.ip = c.pc as u32;
    r.cycles = 0;
    // a quarter of the register vectors meet an OAM DMA that has just been armed through the
    // bus: nothing inside one instruction clocks the devices, so its effect is the same
    if dma_armed_for(c) {
      crate::mem::memory_write_byte(&mut self.core.memory as *mut MemoryAreas, 0xFF46, BASE_DMA_PAGE);
    } else {
      self.core.memory.oam_dma = None;
    }
  }

  /// Run R1 from `c` on the overlay bus (real memory untouched).
  pub fn expect(&mut self, c: &Cpu) -> Exp {
    self.ov.mem = &self.core.memory as *const MemoryAreas;
    self.ov.writes.clear();
    self.ov.olds.clear();
    let mut cpu = *c;
    match r1::step(&mut cpu, &mut self.ov) {
      Ok(o) => Exp {
        cpu,
        cycles: o.cycles,
        status: ctl_status(o.ctl),
        block_end: o.block_end,
        undefined: false,
        writes: self.ov.writes.clone(),
        taken: o.taken,
        len: o.len,
      },
      Err(_) => Exp { cpu, cycles: 0, status: 0, block_end: false, undefined: true, writes: Vec::new(), taken: None, len: 1 },
    }
  }

  /// Execute one instruction with the real interpreter from `c`; bus writes recorded.
  pub fn run_interp(&mut self, c: &Cpu) -> Obs {
    self.set_regs(c);
    let mp = self.mem_ptr();
    let regs: *mut Registers = &mut self.core.registers;
    world::trace_start();
    let r = std::panic::catch_unwind(std::panic::AssertUnwindSafe(|| {
      crate::interpreter::run_next_op(unsafe { &mut *regs }, mp)
    }));
    let (trace, _ovf) = world::trace_stop();
    let mut o = Obs::default();
    o.writes = world::trace_writes(&trace);
    if !world::hooks_on() {
      // hooks-off build: no bus recorder.  What can be observed is what the bytes R1 predicted
      // to be written hold now (device registers excepted: their read-back is not the written
      // value); writes elsewhere are the instrumented build's business
      for (a, v) in self.ov.writes.iter() {
        // plain RAM only: video RAM, cartridge RAM, work RAM, OAM, high RAM
        let ram = matches!(*a, 0x8000..=0xDFFF | 0xFE00..=0xFE9F | 0xFF80..=0xFFFE);
        let now = if ram { peek_raw(&self.core.memory, *a) } else { *v };
        o.writes.push((*a, now));
      }
    }
    let rg = &self.core.registers;
    o.af = rg.af;
    o.bc = rg.bc;
    o.de = rg.de;
    o.hl = rg.hl;
    o.sp = rg.sp;
    o.ip = rg.ip;
    o.cycles = rg.cycles;
    match r {
      Ok(Some((status, be))) => {
        o.status = status;
        o.block_end = be;
      },
      Ok(None) => {
        o.refused = true;
        o.panic_msg = "run_next_op returned None".to_string();
      },
      Err(e) => {
        o.refused = true;
        o.panic_msg = if let Some(s) = e.downcast_ref::<String>() {
          s.clone()
        } else if let Some(s) = e.downcast_ref::<&str>() {
          s.to_string()
        } else {
          "panic".to_string()
        };
      },
    }
    o
  }

  /// Undo the effects of the writes the subject performed (as seen in `obs.writes`),
  /// using the pre-values recorded while computing the expectation when the write lists
  /// agree; otherwise rebuild the world.
  pub fn undo(&mut self, exp: &Exp, obs: &Obs) {
    if obs.writes.is_empty() {
      return;
    }
    let same_addrs = exp.writes.len() == obs.writes.len() && exp.writes.iter().zip(obs.writes.iter()).all(|(a, b)| a.0 == b.0);
    if !same_addrs {
      self.rebuild();
      return;
    }
    let mut touched_io = false;
    for i in (0..obs.writes.len()).rev() {
      let addr = obs.writes[i].0;
      if (0xFF00..=0xFF7F).contains(&addr) {
        touched_io = true;
      } else {
        let old = self.ov.olds[i];
        poke_raw(&mut self.core.memory, addr, old);
      }
    }
    if touched_io {
      let ie = memory_read_byte(&self.core.memory as *const MemoryAreas, 0xFFFF);
      self.core.memory.io = IO::new();
      crate::mem::memory_write_byte(&mut self.core.memory as *mut MemoryAreas, 0xFFFF, ie);
      crate::mem::memory_write_byte(&mut self.core.memory as *mut MemoryAreas, 0xFF46, BASE_DMA_PAGE);
      self.core.memory.oam_dma = None;
    }
  }
}

pub fn cpu_of(a: u8, f: u8, b: u8, c: u8, d: u8, e: u8, h: u8, l: u8, sp: u16, pc: u16) -> Cpu {
  Cpu { a, f, b, c, d, e, h, l, sp, pc }
}

/// field-by-field comparison; returns the names of differing fields
pub fn diff(exp: &Exp, obs: &Obs) -> Vec<&'static str> {
  let mut d = Vec::new();
  if exp.undefined {
    if !obs.refused {
      d.push("undefined-executed");
    }
    return d;
  }
  if obs.refused {
    d.push("refused");
    return d;
  }
  let c = &exp.cpu;
  if ((obs.af >> 8) & 0xff) as u8 != c.a {
    d.push("a");
  }
  if obs.af as u8 != c.f {
    d.push("f");
  }
  if (obs.bc & 0xffff) as u16 != c.bc() {
    d.push("bc");
  }
  if (obs.de & 0xffff) as u16 != c.de() {
    d.push("de");
  }
  if (obs.hl & 0xffff) as u16 != c.hl() {
    d.push("hl");
  }
  if (obs.sp & 0xffff) as u16 != c.sp {
    d.push("sp");
  }
  if obs.af > 0xffff || obs.bc > 0xffff || obs.de > 0xffff || obs.hl > 0xffff || obs.sp > 0xffff {
    d.push("pair-range");
  }
  if obs.ip != c.pc as u32 {
    d.push("pc");
  }
  if obs.cycles != exp.cycles {
    d.push("cycles");
  }
  if obs.status != exp.status {
    d.push("status");
  }
  if obs.block_end != exp.block_end {
    d.push("block-end");
  }
  // bytes and addresses must match; the order of the byte writes of one instruction is not
  // part of C05/C06's statements (C01 compares the order between the two engines, C07 states
  // it for interrupt dispatch), so it is not judged here
  {
    let mut a = obs.writes.clone();
    let mut b = exp.writes.clone();
    if a.len() > 1 {
      a.sort();
      b.sort();
    }
    if a != b {
      d.push("writes");
    }
  }
  d
}
