//! Construction of real `Core` / `MemoryAreas` worlds, ROM images, digests, bus trace access.

use crate::cart::Header;
use crate::emulator::{Core, InterruptState, RunState};
use crate::mem::MemoryAreas;
use crate::util::pool::tmp_dir;
use std::io::Write;

pub fn header_checksum(img: &[u8]) -> u8 {
  let mut c: u8 = 0;
  for i in 0x134..=0x14C {
    c = c.wrapping_sub(img[i]).wrapping_sub(1);
  }
  c
}

pub fn rom_banks_for_code(code: u8) -> Option<usize> {
  match code {
    0..=8 => Some(2usize << code),
    0x52 => Some(72),
    0x53 => Some(80),
    0x54 => Some(96),
    _ => None,
  }
}

pub fn ram_bytes_for_code(code: u8) -> Option<usize> {
  match code {
    0 => Some(0),
    1 => Some(2 * 1024),
    2 => Some(8 * 1024),
    3 => Some(32 * 1024),
    4 => Some(128 * 1024),
    5 => Some(64 * 1024),
    _ => None,
  }
}

/// Build the first 0x150 bytes of a cartridge with a valid header.
pub fn header_bytes(cart_type: u8, rom_code: u8, ram_code: u8) -> Vec<u8> {
  let mut h = vec![0u8; 0x150];
  h[0x100] = 0x00;
  h[0x101] = 0xC3;
  h[0x102] = 0x50;
  h[0x103] = 0x01;
  for (i, b) in b"GBMCTEST".iter().enumerate() {
    h[0x134 + i] = *b;
  }
  h[0x147] = cart_type;
  h[0x148] = rom_code;
  h[0x149] = ram_code;
  h[0x14D] = header_checksum(&h);
  h
}

static ROM_SEQ: std::sync::atomic::AtomicU64 = std::sync::atomic::AtomicU64::new(0);

/// Write a ROM image to a fresh temp file (under /verif/target/tmp/<pid>/) and return its path.
pub fn write_rom_file(img: &[u8]) -> String {
  let n = ROM_SEQ.fetch_add(1, std::sync::atomic::Ordering::Relaxed);
  let path = format!("{}/rom_{}_{}.gb", tmp_dir(), unsafe { libc::getpid() }, n);
  let mut f = std::fs::File::create(&path).expect("create rom file");
  f.write_all(img).expect("write rom");
  path
}

/// Write a sparse ROM file of `len` bytes with `parts` (offset, bytes) filled in.
pub fn write_sparse_rom_file(len: u64, parts: &[(u64, &[u8])]) -> String {
  use std::io::{Seek, SeekFrom};
  let n = ROM_SEQ.fetch_add(1, std::sync::atomic::Ordering::Relaxed);
  let path = format!("{}/rom_{}_{}.gb", tmp_dir(), unsafe { libc::getpid() }, n);
  let mut f = std::fs::File::create(&path).expect("create rom file");
  f.set_len(len).expect("set_len");
  for (off, bytes) in parts {
    if *off < len {
      f.seek(SeekFrom::Start(*off)).unwrap();
      let n = ((len - *off) as usize).min(bytes.len());
      f.write_all(&bytes[..n]).unwrap();
    }
  }
  path
}

/// The sequence `main.rs::load_rom` performs, on the public functions it calls.
/// Err(message) = rejected with a message; panics propagate to the caller.
pub fn load_like_main(path: &str) -> Result<Box<Core>, String> {
  let mut f = crate::system::open_rom_file(path.to_string())?;
  let header = crate::system::read_header(&mut f)?;
  if !header.valid_checksum() {
    return Err("ROM file is corrupt: invalid header checksum".to_string());
  }
  let _title = header.get_title();
  Ok(Box::new(Core::from_rom_file(&mut f, header)))
}

pub fn read_header_of(path: &str) -> Result<Header, String> {
  let mut f = crate::system::open_rom_file(path.to_string())?;
  crate::system::read_header(&mut f)
}

/// A core with a flat (controller-less) 32 KiB ROM, full 8 KiB work RAM and 32 KiB of
/// cartridge RAM, built through the test constructor and then given real-size buffers.
/// `Core::with_code_block` alone has a 16 KiB ROM, 4 KiB WRAM and no cart RAM, which is
/// a test convenience rather than a loadable configuration.
pub fn flat_core(rom: Vec<u8>) -> Box<Core> {
  assert!(rom.len() >= 0x8000);
  let mut core = Box::new(Core::with_code_block(vec![0u8; 1].into_boxed_slice()));
  core.memory.rom = rom.into_boxed_slice();
  core.memory.work_ram = vec![0u8; 0x2000].into_boxed_slice();
  core.memory.cart_ram = vec![0u8; 0x8000].into_boxed_slice();
  core
}

/// Build an image of `banks` 16 KiB banks with a valid header; `fill(bank, offset)` gives
/// every byte outside the header area 0x100-0x14F.
pub fn make_image<F: Fn(usize, usize) -> u8>(cart_type: u8, rom_code: u8, ram_code: u8, banks: usize, fill: F) -> Vec<u8> {
  let mut img = vec![0u8; banks * 0x4000];
  for b in 0..banks {
    for o in 0..0x4000 {
      img[b * 0x4000 + o] = fill(b, o);
    }
  }
  let h = header_bytes(cart_type, rom_code, ram_code);
  img[0x100..0x150].copy_from_slice(&h[0x100..0x150]);
  img
}

pub fn set_regs(core: &mut Core, af: u16, bc: u16, de: u16, hl: u16, sp: u16, pc: u16) {
  core.registers.af = af as u32;
  core.registers.bc = bc as u32;
  core.registers.de = de as u32;
  core.registers.hl = hl as u32;
  core.registers.sp = sp as u32;
  core.registers.ip = pc as u32;
  core.registers.cycles = 0;
}

pub fn ime_code(s: &InterruptState) -> u8 {
  match s {
    InterruptState::Disabled => 0,
    InterruptState::Enabled => 1,
    InterruptState::EnableNext => 2,
  }
}

pub fn run_code(s: &RunState) -> u8 {
  match s {
    RunState::Run => 0,
    RunState::Halt => 1,
    RunState::Stop => 2,
  }
}

// ---------------------------------------------------------------- digest

#[derive(Clone, Copy)]
pub struct Fx(pub u64);

impl Fx {
  pub fn new() -> Fx {
    Fx(0xcbf29ce484222325)
  }
  #[inline]
  pub fn u64(&mut self, v: u64) {
    self.0 = (self.0.rotate_left(5) ^ v).wrapping_mul(0x517cc1b727220a95);
  }
  pub fn bytes(&mut self, b: &[u8]) {
    let mut chunks = b.chunks_exact(8);
    for c in &mut chunks {
      let mut a = [0u8; 8];
      a.copy_from_slice(c);
      self.u64(u64::from_le_bytes(a));
    }
    let r = chunks.remainder();
    if !r.is_empty() {
      let mut a = [0u8; 8];
      a[..r.len()].copy_from_slice(r);
      self.u64(u64::from_le_bytes(a) ^ ((r.len() as u64) << 56));
    }
    self.u64(b.len() as u64);
  }
  pub fn get(&self) -> u64 {
    let mut h = self.0;
    h ^= h >> 33;
    h = h.wrapping_mul(0xff51afd7ed558ccd);
    h ^= h >> 33;
    h
  }
}

/// Small architectural + device-register state, as named fields (for diffs).
pub fn small_state(core: &Core) -> Vec<(&'static str, u64)> {
  let m = &core.memory;
  let io = &m.io;
  #[cfg(gb_dynarec_verif)]
  let (line, mode, dots) = io.video.verif_position();
  #[cfg(not(gb_dynarec_verif))]
  let (line, mode, dots) = (io.video.get_ly(), io.video.get_current_mode(), 0usize);
  #[cfg(gb_dynarec_verif)]
  let dma = m.verif_dma_state();
  #[cfg(not(gb_dynarec_verif))]
  let dma: Option<(usize, u8)> = if m.oam_dma.is_some() { Some((0, 0)) } else { None };
  #[cfg(gb_dynarec_verif)]
  let (phase, joy) = (io.timer.verif_cycle_count() as u64, io.joypad.verif_pending() as u64);
  #[cfg(not(gb_dynarec_verif))]
  let (phase, joy) = ((io.timer.get_divider() as u64) << 8, 0u64);
  vec![
    ("af", ({ core.registers.af } & 0xffff) as u64),
    ("bc", ({ core.registers.bc } & 0xffff) as u64),
    ("de", ({ core.registers.de } & 0xffff) as u64),
    ("hl", ({ core.registers.hl } & 0xffff) as u64),
    ("sp", ({ core.registers.sp } & 0xffff) as u64),
    ("pc", ({ core.registers.ip } & 0xffff) as u64),
    ("ime", ime_code(&core.interrupts_enabled) as u64),
    ("run", run_code(&core.run_state) as u64),
    ("if", io.interrupt_flag.as_u8() as u64),
    ("ie", crate::mem::memory_read_byte(m as *const MemoryAreas, 0xFFFF) as u64),
    ("div_phase", phase),
    ("tima", io.timer.get_counter() as u64),
    ("tma", io.timer.get_modulo() as u64),
    ("tac", io.timer.get_timer_control() as u64),
    ("ly", line as u64),
    ("ppu_mode", mode as u64),
    ("ppu_dots", dots as u64),
    ("lcdc", io.video.get_lcd_control() as u64),
    ("stat", io.video.get_lcd_status() as u64),
    ("scy", io.video.get_scroll_y() as u64),
    ("scx", io.video.get_scroll_x() as u64),
    ("lyc", io.video.get_ly_compare() as u64),
    ("bgp", io.video.get_bgp() as u64),
    ("obp0", io.video.get_obj_palette(0) as u64),
    ("obp1", io.video.get_obj_palette(1) as u64),
    ("wy", io.video.get_window_y() as u64),
    ("wx", io.video.get_window_x() as u64),
    ("p1", (io.joypad.get_value() & 0x3f) as u64),
    ("joy_pending", joy),
    ("sb", io.serial.get_data() as u64),
    ("sc", io.serial.get_control() as u64),
    ("dma", match dma { None => 0xffff_ffff, Some((s, o)) => ((s as u64) << 8) | o as u64 }),
    ("rom_bank", m.cart_state.get_rom_bank() as u64),
    ("ram_bank", m.cart_state.get_ram_bank() as u64),
  ]
}

pub fn small_digest(core: &Core) -> u64 {
  let mut h = Fx::new();
  for (_, v) in small_state(core) {
    h.u64(v);
  }
  h.get()
}

/// All RAM-like storage and both frame buffers, as named digests.
pub fn big_state(core: &Core) -> Vec<(&'static str, u64)> {
  let m = &core.memory;
  let d = |b: &[u8]| {
    let mut h = Fx::new();
    h.bytes(b);
    h.get()
  };
  vec![
    ("vram", d(&m.video_ram)),
    ("cart_ram", d(&m.cart_ram)),
    ("wram", d(&m.work_ram)),
    ("oam", d(&m.oam_ram)),
    ("hram", d(&m.high_ram)),
    ("frame_visible", d(m.io.video.get_visible_buffer())),
    ("frame_writing", d(m.io.video.get_writing_buffer())),
  ]
}

pub fn big_digest(core: &Core) -> u64 {
  let mut h = Fx::new();
  for (_, v) in big_state(core) {
    h.u64(v);
  }
  h.get()
}

// ---------------------------------------------------------------- bus trace (hook H1)

#[cfg(gb_dynarec_verif)]
pub fn trace_start() {
  unsafe {
    crate::mem::verif_trace::LEN = 0;
    crate::mem::verif_trace::OVERFLOW = false;
    crate::mem::verif_trace::ENABLED = true;
  }
}

#[cfg(gb_dynarec_verif)]
pub fn trace_stop() -> (Vec<u32>, bool) {
  unsafe {
    crate::mem::verif_trace::ENABLED = false;
    let n = crate::mem::verif_trace::LEN;
    let p = std::ptr::addr_of!(crate::mem::verif_trace::BUF) as *const u32;
    let v = std::slice::from_raw_parts(p, n).to_vec();
    (v, crate::mem::verif_trace::OVERFLOW)
  }
}

/// hooks-off ("plain") build of the harness: no bus recorder; callers compare memory digests
#[cfg(not(gb_dynarec_verif))]
pub fn trace_start() {}

#[cfg(not(gb_dynarec_verif))]
pub fn trace_stop() -> (Vec<u32>, bool) {
  (Vec::new(), false)
}

pub fn hooks_on() -> bool {
  cfg!(gb_dynarec_verif)
}

/// writes only: (addr, value)
pub fn trace_writes(t: &[u32]) -> Vec<(u16, u8)> {
  t.iter().filter(|e| (**e >> 24) == 1).map(|e| (((*e >> 8) & 0xffff) as u16, (*e & 0xff) as u8)).collect()
}

pub fn trace_reads(t: &[u32]) -> Vec<u16> {
  t.iter().filter(|e| (**e >> 24) == 0).map(|e| ((*e >> 8) & 0xffff) as u16).collect()
}

pub fn mem_ptr(core: &mut Core) -> *mut MemoryAreas {
  &mut core.memory as *mut MemoryAreas
}

pub fn hex(b: &[u8]) -> String {
  b.iter().map(|x| format!("{:02X}", x)).collect::<Vec<_>>().join("")
}
