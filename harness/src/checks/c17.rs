//! C17 — P1 reflects the button matrix; joypad interrupt on falling lines.
//! E2b: the complete one-step transition relation of `Joypad` (and the same through
//! `IO::set_byte(0xFF00)` / `IO::run_clock_cycles` → IF bit 4) against R8.

use crate::devices::io::IO;
use crate::devices::joypad::{Button, Joypad};
use crate::timing::ClockCycles;
use crate::util::json::J;
use crate::util::pool::{run_pool, PoolOpts};
use crate::util::report::Report;

fn button(i: usize) -> Button {
  match i {
    0 => Button::A,
    1 => Button::B,
    2 => Button::Select,
    3 => Button::Start,
    4 => Button::Right,
    5 => Button::Left,
    6 => Button::Up,
    _ => Button::Down,
  }
}
const BNAME: [&str; 8] = ["A", "B", "Select", "Start", "Right", "Left", "Up", "Down"];

/// R8 joypad: state = (action nibble, direction nibble, last select write bits 4-5)
#[derive(Clone, Copy)]
struct Ref {
  act: u8,
  dir: u8,
  sel: u8, // bits 4,5 as written (0x30 at power-on: nothing selected)
}

impl Ref {
  fn lines(&self) -> u8 {
    let mut low = 0u8;
    if self.sel & 0x10 == 0 {
      low |= self.dir;
    }
    if self.sel & 0x20 == 0 {
      low |= self.act;
    }
    0x0F & !low
  }
  fn p1(&self) -> u8 {
    self.lines() | (self.sel & 0x30)
  }
}

fn build(buttons: u8, sel: u8) -> Joypad {
  let mut j = Joypad::new();
  for i in 0..8 {
    if buttons & (1 << i) != 0 {
      j.press_button(button(i));
    }
  }
  j.set_value(sel);
  let _ = j.get_interrupt();
  j
}

/// the same state with a request latched and not yet collected: a button outside `buttons`
/// is pressed while both groups are selected (its line falls) and released again, then the
/// wanted buttons and selection are established (any further fall only re-latches)
fn build_pending(buttons: u8, sel: u8) -> Option<Joypad> {
  let mut j = Joypad::new();
  j.set_value(0x00);
  let spare = (0..8).find(|i| buttons & (1 << i) == 0);
  match spare {
    Some(x) => {
      j.press_button(button(x));
      j.release_button(button(x));
    },
    None => {
      // every button is held in the target state: pressing the first one makes its line fall
    },
  }
  for i in 0..8 {
    if buttons & (1 << i) != 0 {
      j.press_button(button(i));
    }
  }
  j.set_value(sel);
  Some(j)
}

fn build_io_pending(buttons: u8, sel: u8) -> IO {
  let mut io = IO::new();
  io.set_byte(0xFF00, 0x00);
  if let Some(x) = (0..8).find(|i| buttons & (1 << i) == 0) {
    io.joypad.press_button(button(x));
    io.joypad.release_button(button(x));
  }
  for i in 0..8 {
    if buttons & (1 << i) != 0 {
      io.joypad.press_button(button(i));
    }
  }
  io.set_byte(0xFF00, sel);
  io
}

fn build_io(buttons: u8, sel: u8) -> IO {
  let mut io = IO::new();
  for i in 0..8 {
    if buttons & (1 << i) != 0 {
      io.joypad.press_button(button(i));
    }
  }
  io.set_byte(0xFF00, sel);
  let _ = io.joypad.get_interrupt();
  io
}

pub fn run(tier: &str) -> i32 {
  let mut rep = Report::new("C17", tier, "model_checking");
  rep.assume("R8 joypad model written from Pan Docs: lines = 0xF & ~((dir selected ? dir : 0) | (act selected ? act : 0)); request iff some line 1->0");
  rep.assume("P1 bits 6-7 are not judged");
  // case = state (buttons 256 x sel 4) ; every action is executed from every state
  let n_states = 256u64 * 4;
  let vram: Box<[u8]> = vec![0u8; 0x2000].into_boxed_slice();
  let oam: Box<[u8]> = vec![0u8; 0xa0].into_boxed_slice();
  let opts = PoolOpts { chunk: 16, bitmap_bits: 1 << 16, ..PoolOpts::default() };
  let r = run_pool(
    n_states,
    &opts,
    |_| (),
    |_, case, ctx| {
      let buttons = (case & 0xff) as u8;
      let sel = (((case >> 8) & 3) as u8) << 4;
      let base = Ref { act: buttons & 0x0f, dir: buttons >> 4, sel };
      // state itself: value and drained latch
      {
        let mut j = build(buttons, sel);
        let got = j.get_value() & 0x3f;
        if got != base.p1() {
          ctx.violation("C17 state field=p1", || {
            J::obj().set("buttons", J::u(buttons as u64)).set("sel", J::u(sel as u64)).set("got", J::u(got as u64)).set("want", J::u(base.p1() as u64))
          });
        }
        if j.get_interrupt().as_u8() != 0 {
          ctx.violation("C17 state field=irq kind=not-drained", || J::obj().set("buttons", J::u(buttons as u64)).set("sel", J::u(sel as u64)));
        }
      }
      ctx.sample(|| J::obj().set("state", J::s(format!("buttons={:02X} sel={:02X}", buttons, sel))).set("actions", J::s("press/release x8, select write x256, via Joypad and via IO")));
      // actions: 0..8 press, 8..16 release, 16..272 select write of every byte value
      for a in 0..272usize {
        let mut next = base;
        let (aclass, adesc) = if a < 8 {
          if a < 4 { next.act |= 1 << a } else { next.dir |= 1 << (a - 4) }
          ("press", format!("press {}", BNAME[a]))
        } else if a < 16 {
          let b = a - 8;
          if b < 4 { next.act &= !(1 << b) } else { next.dir &= !(1 << (b - 4)) }
          ("release", format!("release {}", BNAME[b]))
        } else {
          next.sel = ((a - 16) as u8) & 0x30;
          ("select", format!("P1<-{:02X}", a - 16))
        };
        let want_p1 = next.p1();
        for via_io in 0..4 {
          // via 0/1: latch empty before the action; via 2/3: a request is already latched and
          // not yet collected (it must survive any action: "reported once", never dropped)
          let pending = via_io >= 2;
          let want_irq = pending || base.lines() & !next.lines() != 0;
          let (got_p1, got_irq, again) = if via_io % 2 == 0 {
            let mut j = if pending { build_pending(buttons, sel).unwrap() } else { build(buttons, sel) };
            if a < 8 { j.press_button(button(a)) } else if a < 16 { j.release_button(button(a - 8)) } else { j.set_value((a - 16) as u8) }
            let p = j.get_value() & 0x3f;
            let i = j.get_interrupt().as_u8() != 0;
            let i2 = j.get_interrupt().as_u8() != 0;
            (p, i, i2)
          } else {
            let mut io = if pending { build_io_pending(buttons, sel) } else { build_io(buttons, sel) };
            if a < 8 { io.joypad.press_button(button(a)) } else if a < 16 { io.joypad.release_button(button(a - 8)) } else { io.set_byte(0xFF00, (a - 16) as u8) }
            let p = io.get_byte(0xFF00) & 0x3f;
            io.run_clock_cycles(ClockCycles(4), &vram, &oam);
            let i = io.interrupt_flag.as_u8() & 0x10 != 0;
            io.interrupt_flag.clear(0x10);
            io.run_clock_cycles(ClockCycles(4), &vram, &oam);
            let i2 = io.interrupt_flag.as_u8() & 0x10 != 0;
            (p, i, i2)
          };
          ctx.count(0, 1);
          // outcome class: (action class, lines before, lines after, irq)
          let cls = ((a.min(16) as u64) << 11) | ((base.lines() as u64) << 7) | ((next.lines() as u64) << 3) | ((got_irq as u64) << 2) | via_io as u64;
          ctx.class(cls);
          let via = match via_io {
            0 => "joypad",
            1 => "io",
            2 => "joypad+latched",
            _ => "io+latched",
          };
          let detail = |what: &str| {
            J::obj()
              .set("case", J::obj().set("buttons", J::u(buttons as u64)).set("sel", J::u(sel as u64)).set("action", J::s(adesc.as_str())).set("via", J::s(via)))
              .set("lines_before", J::u(base.lines() as u64))
              .set("lines_after", J::u(next.lines() as u64))
              .set("expected", J::obj().set("p1", J::u(want_p1 as u64)).set("irq", J::Bool(want_irq)))
              .set("observed", J::obj().set("p1", J::u(got_p1 as u64)).set("irq", J::Bool(got_irq)).set("irq_again", J::Bool(again)))
              .set("what", J::s(what))
          };
          if got_p1 != want_p1 {
            ctx.violation(&format!("C17 action={} field=p1", aclass), || detail("P1 & 0x3F differs from the matrix"));
          }
          if got_irq != want_irq {
            let kind = if pending { "latched-request-dropped" } else if want_irq { "missed" } else { "spurious" };
            ctx.violation(&format!("C17 action={} field=irq kind={}", aclass, kind), || detail("interrupt request differs from 'some line went 1->0'"));
          }
          if again {
            ctx.violation(&format!("C17 action={} field=irq kind=reported-twice", aclass), || detail("request reported a second time"));
          }
        }
      }
    },
    |case, how| (format!("C17 crash={}", how), J::obj().set("state", J::u(case))),
  );
  let counters = rep.add_stage("transition-relation", "256 button states x 4 selections x {latch empty, request latched} x (8 press + 8 release + 256 select-write values) x {Joypad API, IO bus}", r);
  let mut transitions = counters[0];

  // ---- histories: the implementation may keep state of its own (a cached copy of the lines,
  // a remembered previous value) that no single transition from a freshly built state can
  // show.  Every history of 2 (thorough: 4) actions over the 20-letter alphabet
  // {press x8, release x8, P1 <- 00/10/20/30} from every (buttons, selection) state; P1 and the
  // request are judged after every action (the request is collected each time)
  {
    let depth: usize = if rep.thorough() { 4 } else { 2 };
    let na = 20usize;
    let apply_ref = |r: &mut Ref, a: usize| {
      if a < 8 {
        if a < 4 { r.act |= 1 << a } else { r.dir |= 1 << (a - 4) }
      } else if a < 16 {
        let b = a - 8;
        if b < 4 { r.act &= !(1 << b) } else { r.dir &= !(1 << (b - 4)) }
      } else {
        r.sel = ((a - 16) as u8) << 4;
      }
    };
    let aname = |a: usize| -> String {
      if a < 8 { format!("press {}", BNAME[a]) } else if a < 16 { format!("release {}", BNAME[a - 8]) } else { format!("P1<-{:02X}", (a - 16) << 4) }
    };
    let total_hist = (na as u64).pow(depth as u32);
    let opts = PoolOpts { chunk: 8, bitmap_bits: 1 << 16, ..PoolOpts::default() };
    let r2 = run_pool(
      n_states,
      &opts,
      |_| (),
      |_, case, ctx| {
        let buttons = (case & 0xff) as u8;
        let sel = (((case >> 8) & 3) as u8) << 4;
        ctx.sample(|| J::obj().set("state", J::s(format!("buttons={:02X} sel={:02X}", buttons, sel))).set("histories", J::s(format!("all {} sequences of {} actions over press/release x8 and 4 select writes, via Joypad and via IO", total_hist, depth))));
        for h in 0..total_hist {
          let mut acts = [0usize; 4];
          let mut x = h;
          for k in (0..depth).rev() {
            acts[k] = (x % na as u64) as usize;
            x /= na as u64;
          }
          for via_io in 0..2 {
            let mut r = Ref { act: buttons & 0x0f, dir: buttons >> 4, sel };
            let mut j = if via_io == 0 { Some(build(buttons, sel)) } else { None };
            let mut io = if via_io == 1 { Some(build_io(buttons, sel)) } else { None };
            for k in 0..depth {
              let a = acts[k];
              let before = r.lines();
              apply_ref(&mut r, a);
              let want_irq = before & !r.lines() != 0;
              let (got_p1, got_irq) = if let Some(j) = j.as_mut() {
                if a < 8 { j.press_button(button(a)) } else if a < 16 { j.release_button(button(a - 8)) } else { j.set_value(((a - 16) as u8) << 4) }
                (j.get_value() & 0x3f, j.get_interrupt().as_u8() != 0)
              } else {
                let io = io.as_mut().unwrap();
                if a < 8 { io.joypad.press_button(button(a)) } else if a < 16 { io.joypad.release_button(button(a - 8)) } else { io.set_byte(0xFF00, ((a - 16) as u8) << 4) }
                let p = io.get_byte(0xFF00) & 0x3f;
                io.run_clock_cycles(ClockCycles(4), &vram, &oam);
                let i = io.interrupt_flag.as_u8() & 0x10 != 0;
                io.interrupt_flag.clear(0x10);
                (p, i)
              };
              ctx.count(0, 1);
              ctx.class(((k as u64) << 12) | ((a.min(16) as u64) << 7) | ((before as u64) << 3) | ((got_irq as u64) << 1) | via_io as u64);
              if got_p1 != r.p1() || got_irq != want_irq {
                let aclass = if a < 8 { "press" } else if a < 16 { "release" } else { "select" };
                let key = if got_p1 != r.p1() {
                  format!("C17 history action={} field=p1 step={}", aclass, k + 1)
                } else {
                  format!("C17 history action={} field=irq kind={} step={}", aclass, if want_irq { "missed" } else { "spurious" }, k + 1)
                };
                ctx.violation(&key, || {
                  J::obj()
                    .set("case", J::obj().set("buttons", J::u(buttons as u64)).set("sel", J::u(sel as u64)).set("history", J::Arr(acts[..depth].iter().map(|a| J::s(aname(*a))).collect())).set("failing_step", J::u(k as u64 + 1)).set("via", J::s(if via_io == 0 { "joypad" } else { "io" })))
                    .set("expected", J::obj().set("p1", J::u(r.p1() as u64)).set("irq", J::Bool(want_irq)))
                    .set("observed", J::obj().set("p1", J::u(got_p1 as u64)).set("irq", J::Bool(got_irq)))
                });
                break;
              }
            }
          }
        }
      },
      |case, how| (format!("C17 history crash={}", how), J::obj().set("state", J::u(case))),
    );
    let c2 = rep.add_stage("histories", &format!("256 button states x 4 selections x all {} histories of {} actions over 20 letters x {{Joypad API, IO bus}}, P1 and the request judged after every action", total_hist, depth), r2);
    transitions += c2[0];
  }
  // ---- in the machine: the request has to reach IF whatever the CPU is doing.  A flat Core with
  // a NOP sled; for every selection, every set of held buttons of a reduced family and every
  // single press / release / P1 write, one Core::update() with the CPU running, halted and
  // stopped; IF bit 4 and P1 as the guest reads them through the bus
  {
    use crate::emulator::{InterruptState, RunState};
    let held_sets: [u8; 8] = [0x00, 0x01, 0x10, 0x11, 0x80, 0x0F, 0xF0, 0xA5];
    let n_cases = (held_sets.len() * 4 * 3) as u64;
    let opts = PoolOpts { chunk: 1, bitmap_bits: 1 << 12, samples_per_child: 1, ..PoolOpts::default() };
    let r3 = run_pool(
      n_cases,
      &opts,
      |_| {
        let mut rom = vec![0u8; 0x8000];
        rom[0x100..0x150].copy_from_slice(&crate::world::header_bytes(0x00, 0x00, 0x00)[0x100..0x150]);
        crate::world::flat_core(rom)
      },
      |core, case, ctx| {
        let buttons = held_sets[(case % 8) as usize];
        let sel = (((case / 8) % 4) as u8) << 4;
        let run = (case / 32) as usize;
        let run_name = ["running", "halted", "stopped"][run];
        ctx.sample(|| J::obj().set("stage", J::s("in-the-machine")).set("buttons", J::u(buttons as u64)).set("sel", J::u(sel as u64)).set("cpu", J::s(run_name)));
        for a in 0..20usize {
          let base = Ref { act: buttons & 0x0f, dir: buttons >> 4, sel };
          let mut next = base;
          if a < 8 {
            if a < 4 { next.act |= 1 << a } else { next.dir |= 1 << (a - 4) }
          } else if a < 16 {
            let b = a - 8;
            if b < 4 { next.act &= !(1 << b) } else { next.dir &= !(1 << (b - 4)) }
          } else {
            next.sel = ((a - 16) as u8) << 4;
          }
          let want_irq = base.lines() & !next.lines() != 0;
          // state
          core.memory.io = build_io(buttons, sel);
          let m = &mut core.memory as *mut crate::mem::MemoryAreas;
          crate::mem::memory_write_byte(m, 0xFFFF, 0x00); // nothing enabled: the CPU stays where it is
          crate::mem::memory_write_byte(m, 0xFF0F, 0x00);
          core.registers.ip = 0x0200;
          core.registers.sp = 0xDFF0;
          core.registers.cycles = 0;
          core.interrupts_enabled = InterruptState::Disabled;
          core.run_state = match run { 0 => RunState::Run, 1 => RunState::Halt, _ => RunState::Stop };
          // the event happens between two steps, the way the front end delivers it
          if a < 8 { core.memory.io.joypad.press_button(button(a)) } else if a < 16 { core.memory.io.joypad.release_button(button(a - 8)) } else { crate::mem::memory_write_byte(m, 0xFF00, ((a - 16) as u8) << 4) }
          core.update();
          let got_irq = crate::mem::memory_read_byte(m as *const crate::mem::MemoryAreas, 0xFF0F) & 0x10 != 0;
          let got_p1 = crate::mem::memory_read_byte(m as *const crate::mem::MemoryAreas, 0xFF00) & 0x3f;
          ctx.count(0, 1);
          ctx.class(0x8000 | ((run as u64) << 10) | ((a.min(16) as u64) << 5) | ((want_irq as u64) << 1) | got_irq as u64);
          if got_irq != want_irq || got_p1 != next.p1() {
            let aclass = if a < 8 { "press" } else if a < 16 { "release" } else { "select" };
            let key = if got_p1 != next.p1() { format!("C17 machine cpu={} action={} field=p1", run_name, aclass) } else { format!("C17 machine cpu={} action={} field=irq kind={}", run_name, aclass, if want_irq { "missed" } else { "spurious" }) };
            ctx.violation(&key, || {
              J::obj()
                .set("case", J::obj().set("buttons", J::u(buttons as u64)).set("sel", J::u(sel as u64)).set("cpu", J::s(run_name)).set("action", J::u(a as u64)).set("how", J::s("state built on IO, IE = 0, event delivered, one Core::update(), IF and P1 read through the bus")))
                .set("expected", J::obj().set("p1", J::u(next.p1() as u64)).set("irq", J::Bool(want_irq)))
                .set("observed", J::obj().set("p1", J::u(got_p1 as u64)).set("irq", J::Bool(got_irq)))
            });
          }
        }
      },
      |case, how| (format!("C17 machine crash={}", how), J::obj().set("case", J::u(case))),
    );
    let c3 = rep.add_stage("in-the-machine", "8 sets of held buttons x 4 selections x CPU {running, halted, stopped} x (8 presses + 8 releases + 4 P1 writes): the event is delivered to the IO of a real Core, one Core::update() follows, IF bit 4 and P1 are read through the bus", r3);
    transitions += c3[0];
  }
  // power-on state
  {
    let j = Joypad::new();
    if j.get_value() & 0x3f != 0x3f {
      rep.add_violation("C17 power-on field=p1", J::obj().set("got", J::u((j.get_value() & 0x3f) as u64)));
    }
  }
  rep.evaluations = transitions;
  rep.cov("states", J::u(2 * n_states + 1));
  rep.cov("transitions", J::u(transitions));
  rep.cov("traces_validated_against_impl", J::u(transitions));
  rep.cov("rule", J::s("every (state, action) pair of the joypad is executed on the real Joypad and through IO; a class is (action kind, lines before, lines after, request, path) and is counted once"));
  rep.finish()
}
