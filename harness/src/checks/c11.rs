//! C11 — no guest-controlled bus access can crash the emulator.
//!
//! E1 + E4 on cores built by `Core::from_rom_file` (through `world::load_like_main`) from
//! generated sparse ROM files, one per (cart type, ROM-size code, RAM-size code).
//!
//! The bus helpers are `extern "sysv64"`: an out-of-bounds index inside them aborts the
//! process.  Crash-dense regions are expected, so the check works in two parts:
//!
//! 1. PREDICT: before every access the bounds of the two guest-banked windows are computed
//!    from the *public* state (`cart_state.get_rom_bank()`, `get_ram_bank()`, `rom.len()`,
//!    `cart_ram.len()`): ROM window index = 0x4000*bank + offset, RAM window index =
//!    0x2000*bank + offset.  An access whose index would be out of bounds is not executed;
//!    it is recorded under a class-level key `… kind=index-out-of-bounds`.  One confirming
//!    access per key class is executed as its own pool case (stage `confirm`); the death of
//!    its worker (replayed twice by the pool) is the verdict, and only classes confirmed
//!    that way are skipped afterwards.  A confirming access that completes shows that the
//!    implementation bounds the index some other way (e.g. absent RAM reads 0xFF): that
//!    class is then executed like everything else, so a repaired tree is swept completely
//!    and can pass.
//! 2. PERFORM: every access predicted in-bounds (or of an unconfirmed class) is executed.  Any worker death there is a
//!    violation `C11 cfg=… regs=… access=… addr=… crash=<sig>`; the dying child publishes
//!    (access kind, address, register state) in a small shared page so the parent can name
//!    the access.
//!
//! Stages: `confirm` (18 cases); `edges` (per configuration: every reachable register
//! state x 48 region-edge addresses x {r, w, rw, ww, push-word}; all 256 values to the
//! register windows and to every I/O address; 0xFFFF wrap check); `sweep` (all 65 536
//! addresses x {r, w, rw, ww} at the extreme register states of every configuration, and
//! in the thorough tier at every reachable state of the 28 corner configurations);
//! `windows` (every reachable register state x both guest-banked windows complete;
//! quick: smallest and largest ROM only).  Every case builds a fresh core.

use crate::emulator::Core;
use crate::mem::{memory_push_word, memory_read_byte, memory_read_word, memory_write_byte, memory_write_word, MemoryAreas};
use crate::util::json::J;
use crate::util::pool::{run_pool, Ctx, PoolOpts, PoolResult};
use crate::util::report::Report;
use crate::world::{header_bytes, load_like_main, ram_bytes_for_code, rom_banks_for_code, trace_start, trace_stop, write_sparse_rom_file};
use std::collections::{BTreeMap, BTreeSet};
use std::time::Duration;

const TYPES: [u8; 7] = [0x00, 0x01, 0x02, 0x03, 0x11, 0x12, 0x13];
const ROMS: [u8; 12] = [0x00, 0x01, 0x02, 0x03, 0x04, 0x05, 0x06, 0x07, 0x08, 0x52, 0x53, 0x54];
const RAMS: [u8; 6] = [0, 1, 2, 3, 4, 5];

// access kinds
const K_R: usize = 0;
const K_W: usize = 1;
const K_RW: usize = 2;
const K_WW: usize = 3;
const K_PW: usize = 4; // memory_push_word (high byte first); reported under access=ww
const KNAME: [&str; 5] = ["r", "w", "rw", "ww", "ww"];
const KHELPER: [&str; 5] = ["memory_read_byte", "memory_write_byte", "memory_read_word", "memory_write_word", "memory_push_word"];

// counters
const C_PERFORMED: usize = 0;
const C_PREDICTED: usize = 1;
const C_SETUP: usize = 2;
const C_CONFIRM_SURVIVED: usize = 3;
const C_CONFIRM_NA: usize = 4;
const C_STATES_EDGE: usize = 5;
const C_STATES_SWEEP: usize = 9;
const C_STATES_WINDOWS: usize = 10;
const C_WRAP: usize = 6;
const C_LOADFAIL: usize = 7;
const C_CONFIRM_RUN: usize = 8;
const C_UNCONFIRMED: usize = 11; // performed although the index formula predicts out of bounds (class not confirmed)
const C_SURV_MASK: usize = 12; // bit cls*4+kind of every confirming case that survived
const C_PRED_BASE: usize = 16; // + cls*4 + kind.min(3)

const NCLS: usize = 8;
const NREGION: usize = 12;

#[derive(Clone, Copy, PartialEq, Eq)]
enum Ctl {
  None,
  Mbc1,
  Mbc3,
}

#[derive(Clone, Copy)]
struct Cfg {
  ty: u8,
  rom: u8,
  ram: u8,
}

impl Cfg {
  fn ctl(&self) -> Ctl {
    match self.ty {
      0x00 => Ctl::None,
      0x01..=0x03 => Ctl::Mbc1,
      _ => Ctl::Mbc3,
    }
  }
  fn banks(&self) -> usize {
    rom_banks_for_code(self.rom).expect("rom code")
  }
  fn ram_len(&self) -> usize {
    ram_bytes_for_code(self.ram).expect("ram code")
  }
  fn rom_class(&self) -> usize {
    let b = self.banks();
    if b < 32 {
      0
    } else if b < 128 {
      1
    } else {
      2
    }
  }
  fn ram_class(&self) -> usize {
    match self.ram_len() {
      0 => 0,
      0x800 => 1,
      0x2000 => 2,
      _ => 3,
    }
  }
  fn class_id(&self) -> usize {
    let c = match self.ctl() {
      Ctl::None => 0,
      Ctl::Mbc1 => 1,
      Ctl::Mbc3 => 2,
    };
    (c * 3 + self.rom_class()) * 4 + self.ram_class()
  }
  fn class_name(&self) -> String {
    let c = match self.ctl() {
      Ctl::None => "nombc",
      Ctl::Mbc1 => "mbc1",
      Ctl::Mbc3 => "mbc3",
    };
    let r = ["rom<32banks", "rom32-96banks", "rom>=128banks"][self.rom_class()];
    let m = ["ram=none", "ram=2K", "ram=8K", "ram>=32K"][self.ram_class()];
    format!("{}/{}/{}", c, r, m)
  }
  fn json(&self) -> J {
    J::obj()
      .set("cart_type", J::s(format!("{:02X}", self.ty)))
      .set("rom_size_code", J::s(format!("{:02X}", self.rom)))
      .set("ram_size_code", J::s(format!("{:02X}", self.ram)))
      .set("rom_banks", J::u(self.banks() as u64))
      .set("ram_bytes", J::u(self.ram_len() as u64))
  }
}

/// A banking-register valuation, produced through bus writes to 0x0000 / 0x2000 / 0x4000 /
/// 0x6000 (the writes are themselves accesses under test).
#[derive(Clone, Copy, PartialEq, Eq, PartialOrd, Ord)]
struct St {
  en: u8,    // 1: 0x0000 <- 0x0A, 0: 0x0000 <- 0x00
  lo: u8,    // 0x2000 <- lo
  hi: u8,    // 0x4000 <- hi   (MBC1 upper bits / RAM bank, MBC3 RAM bank)
  mode: u8,  // 0x6000 <- mode
  extra: u8, // != 0: 0x4000 <- extra afterwards (MBC3: values >= 4 select the clock and must leave the RAM bank alone)
  none: bool,    // no writes at all (power-on state)
  regvals: bool, // not a target state: the case walks register values itself
}

impl St {
  const POWER_ON: St = St { en: 0, lo: 0, hi: 0, mode: 0, extra: 0, none: true, regvals: false };
  const REGVALS: St = St { en: 0, lo: 0, hi: 0, mode: 0, extra: 0, none: true, regvals: true };
  fn new(en: u8, lo: u8, hi: u8, mode: u8) -> St {
    St { en, lo, hi, mode, extra: 0, none: false, regvals: false }
  }
  fn pack(&self) -> u32 {
    (self.lo as u32 & 0x7f)
      | ((self.hi as u32 & 3) << 7)
      | ((self.mode as u32 & 1) << 9)
      | ((self.en as u32 & 1) << 10)
      | ((self.extra as u32) << 11)
      | ((self.none as u32) << 19)
      | ((self.regvals as u32) << 20)
  }
  fn unpack(p: u32) -> St {
    St {
      lo: (p & 0x7f) as u8,
      hi: ((p >> 7) & 3) as u8,
      mode: ((p >> 9) & 1) as u8,
      en: ((p >> 10) & 1) as u8,
      extra: ((p >> 11) & 0xff) as u8,
      none: (p >> 19) & 1 != 0,
      regvals: (p >> 20) & 1 != 0,
    }
  }
  /// the bus writes that re-establish window `w` (0: 0x0000-0x1FFF … 3: 0x6000-0x7FFF)
  fn window_writes(&self, w: usize, out: &mut Vec<(u16, u8)>) {
    if self.none {
      return;
    }
    match w {
      0 => out.push((0x0000, if self.en != 0 { 0x0A } else { 0x00 })),
      1 => out.push((0x2000, self.lo)),
      2 => {
        out.push((0x4000, self.hi));
        if self.extra != 0 {
          out.push((0x4000, self.extra));
        }
      },
      _ => out.push((0x6000, self.mode)),
    }
  }
  fn writes(&self) -> Vec<(u16, u8)> {
    let mut v = Vec::new();
    for w in 0..4 {
      self.window_writes(w, &mut v);
    }
    v
  }
  fn json(&self) -> J {
    if self.regvals {
      return J::s("register-value walk (see coverage.rule: stage edges, part A/B)");
    }
    J::Arr(self.writes().iter().map(|(a, v)| J::s(format!("{:04X}<-{:02X}", a, v))).collect())
  }
}

fn all_states(ctl: Ctl) -> Vec<St> {
  let mut v = Vec::new();
  match ctl {
    Ctl::None => {
      v.push(St::POWER_ON);
      v.push(St::new(1, 31, 3, 1));
    },
    Ctl::Mbc1 => {
      for en in 0..2 {
        for mode in 0..2 {
          for hi in 0..4 {
            for lo in 0..32 {
              v.push(St::new(en, lo, hi, mode));
            }
          }
        }
      }
    },
    Ctl::Mbc3 => {
      for en in 0..2 {
        for hi in 0..4 {
          for lo in 0..128 {
            v.push(St::new(en, lo, hi, 0));
          }
        }
      }
    },
  }
  v
}

/// all reachable states, plus for MBC3 the same states followed by a clock-select write
fn edge_states(ctl: Ctl) -> Vec<St> {
  let mut v = all_states(ctl);
  if ctl == Ctl::Mbc3 {
    let base = v.clone();
    for x in [0x04u8, 0x08, 0x0C, 0xFF] {
      for s in base.iter() {
        let mut t = *s;
        t.extra = x;
        v.push(t);
      }
    }
  }
  v
}

/// every banking register at 0, at its maximum, at the largest in-range value, one past it
fn extreme_states(cfg: Cfg) -> Vec<St> {
  let banks = cfg.banks();
  let ram_banks = cfg.ram_len() / 0x2000;
  let rb_in = ram_banks.max(1).min(4) - 1;
  let mut set: BTreeSet<St> = BTreeSet::new();
  match cfg.ctl() {
    Ctl::None => return all_states(Ctl::None),
    Ctl::Mbc1 => {
      let lo_in = (banks - 1).min(31);
      let hi_in = ((banks - 2) / 32).min(3);
      let los: BTreeSet<usize> = [0, 31, lo_in, (lo_in + 1).min(31)].iter().copied().collect();
      let his: BTreeSet<usize> = [0, 3, hi_in, (hi_in + 1).min(3), rb_in, (rb_in + 1).min(3)].iter().copied().collect();
      for en in 0..2 {
        for mode in 0..2 {
          for hi in his.iter() {
            for lo in los.iter() {
              set.insert(St::new(en, *lo as u8, *hi as u8, mode));
            }
          }
        }
      }
    },
    Ctl::Mbc3 => {
      let lo_in = (banks - 1).min(127);
      let los: BTreeSet<usize> = [0, 127, lo_in, (lo_in + 1).min(127)].iter().copied().collect();
      let his: BTreeSet<usize> = [0, 3, rb_in, (rb_in + 1).min(3)].iter().copied().collect();
      for en in 0..2 {
        for hi in his.iter() {
          for lo in los.iter() {
            set.insert(St::new(en, *lo as u8, *hi as u8, 0));
          }
        }
      }
    },
  }
  set.into_iter().collect()
}

const EDGE48: [u16; 48] = [
  0x0000, 0x0001, 0x0100, 0x014F, 0x1FFF, 0x2000, 0x3FFE, 0x3FFF, 0x4000, 0x4001, 0x5FFF, 0x6000, 0x7FFE, 0x7FFF, //
  0x8000, 0x8001, 0x97FF, 0x9800, 0x9FFE, 0x9FFF, //
  0xA000, 0xA001, 0xA7FE, 0xA7FF, 0xA800, 0xA801, 0xBFFE, 0xBFFF, //
  0xC000, 0xC001, 0xCFFF, 0xD000, 0xDFFE, 0xDFFF, 0xE000, 0xFDFF, //
  0xFE00, 0xFE9F, 0xFEA0, 0xFEFF, 0xFF00, 0xFF0F, 0xFF46, 0xFF7F, //
  0xFF80, 0xFFFD, 0xFFFE, 0xFFFF,
];

const WIN8: [u16; 8] = [0x0000, 0x1FFF, 0x2000, 0x3FFF, 0x4000, 0x5FFF, 0x6000, 0x7FFF];

const REGION_NAME: [&str; NREGION] = ["rom0", "romN", "vram", "cartram", "wram0", "wramN", "echo", "oam", "unused", "io", "hram", "ie"];

#[inline(always)]
fn region_of(a: u16) -> usize {
  match a {
    0x0000..=0x3FFF => 0,
    0x4000..=0x7FFF => 1,
    0x8000..=0x9FFF => 2,
    0xA000..=0xBFFF => 3,
    0xC000..=0xCFFF => 4,
    0xD000..=0xDFFF => 5,
    0xE000..=0xFDFF => 6,
    0xFE00..=0xFE9F => 7,
    0xFEA0..=0xFEFF => 8,
    0xFF00..=0xFF7F => 9,
    0xFF80..=0xFFFE => 10,
    0xFFFF => 11,
  }
}

/// Bounds of the banked windows, from the public state only (nothing is accessed).
#[derive(Clone, Copy)]
struct Lim {
  rom0_bad_from: u32, // first address of 0x0000..0x4000 whose index is out of bounds (0x4000: none)
  romn_bad_from: u32, // … of 0x4000..0x8000 (0x8000: none)
  ram_bad_from: u32,  // … of 0xA000..0xC000 (0xC000: none)
  rom_bank: usize,
  ram_bank: usize,
  rom_len: usize,
  ram_len: usize,
}

fn limits(m: &MemoryAreas) -> Lim {
  let rom_len = m.rom.len();
  let ram_len = m.cart_ram.len();
  let rom_bank = m.cart_state.get_rom_bank();
  let ram_bank = m.cart_state.get_ram_bank();
  let rom_ok = rom_len.saturating_sub(0x4000usize.saturating_mul(rom_bank)).min(0x4000);
  let ram_ok = ram_len.saturating_sub(0x2000usize.saturating_mul(ram_bank)).min(0x2000);
  Lim {
    rom0_bad_from: rom_len.min(0x4000) as u32,
    romn_bad_from: 0x4000 + rom_ok as u32,
    ram_bad_from: 0xA000 + ram_ok as u32,
    rom_bank,
    ram_bank,
    rom_len,
    ram_len,
  }
}

impl Lim {
  /// (index into the buffer, buffer length) the implementation's formula gives for byte `a`
  fn index_of(&self, a: u16) -> (usize, usize) {
    if a < 0x4000 {
      (a as usize, self.rom_len)
    } else if a < 0x8000 {
      (0x4000 * self.rom_bank + (a as usize & 0x3fff), self.rom_len)
    } else {
      (0x2000 * self.ram_bank + (a as usize & 0x1fff), self.ram_len)
    }
  }
  #[inline(always)]
  fn rd_bad(&self, a: u16) -> bool {
    let a = a as u32;
    (a >= self.romn_bad_from && a < 0x8000) || (a >= self.ram_bad_from && a < 0xC000) || (a >= self.rom0_bad_from && a < 0x4000)
  }
  #[inline(always)]
  fn wr_bad(&self, a: u16) -> bool {
    // writes below 0x8000 go to the controller and index nothing
    let a = a as u32;
    a >= self.ram_bad_from && a < 0xC000
  }
  /// first byte address (in the order the helper touches them) predicted out of bounds
  #[inline(always)]
  fn predict(&self, kind: usize, a: u16) -> Option<u16> {
    let a1 = a.wrapping_add(1);
    match kind {
      K_R => {
        if self.rd_bad(a) {
          Some(a)
        } else {
          None
        }
      },
      K_W => {
        if self.wr_bad(a) {
          Some(a)
        } else {
          None
        }
      },
      K_RW => {
        if self.rd_bad(a) {
          Some(a)
        } else if self.rd_bad(a1) {
          Some(a1)
        } else {
          None
        }
      },
      K_WW => {
        if self.wr_bad(a) {
          Some(a)
        } else if self.wr_bad(a1) {
          Some(a1)
        } else {
          None
        }
      },
      _ => {
        if self.wr_bad(a1) {
          Some(a1)
        } else if self.wr_bad(a) {
          Some(a)
        } else {
          None
        }
      },
    }
  }
}

/// (cfg class, regs class, region) of the predicted-out-of-bounds key classes
const CLS: [(&str, &str, &str); NCLS] = [
  ("mbc1/rom<32banks", "rombank>=banks", "romN"),
  ("mbc1/rom32-96banks", "rombank>=banks", "romN"),
  ("mbc3/rom<128banks", "rombank>=banks", "romN"),
  ("other", "rombank>=banks", "romN"),
  ("ram=none", "any", "cartram"),
  ("ram=2K", "any", "cartram"),
  ("ram<4banks", "rambank>=banks", "cartram"),
  ("other", "rambank>=banks", "cartram"),
];

fn pred_key(cls: usize, kind: usize) -> String {
  let (c, r, g) = CLS[cls];
  format!("C11 cfg={} regs={} access={} region={} kind=index-out-of-bounds", c, r, KNAME[kind], g)
}

// ---------------------------------------------------------------- shared progress page

/// One slot of 4 words per pool worker; a child stores what it is about to do before every
/// access, so the parent can name the access that killed it.
/// word0: addr(0..16) kind(16..19) predicted(19) cls(20..23) phase(24..28) rom_oob(28) ram_oob(29) st(32..64)
/// word1: value(0..16) iteration(16..)
/// word2, word3: (confirming accesses only) the predicted index and the buffer length
struct Prog {
  base: *mut u64,
}
unsafe impl Sync for Prog {}
const PROG_SLOTS: usize = 64;
const PROG_WORDS: usize = 16; // 128 bytes per slot: no cache line is shared between workers
const PH_IDLE: u64 = 0;
const PH_SETUP: u64 = 1;
const PH_ACCESS: u64 = 3;

impl Prog {
  fn new() -> Prog {
    let len = PROG_SLOTS * PROG_WORDS * 8;
    let p = unsafe { libc::mmap(std::ptr::null_mut(), len, libc::PROT_READ | libc::PROT_WRITE, libc::MAP_SHARED | libc::MAP_ANONYMOUS, -1, 0) };
    if p == libc::MAP_FAILED {
      panic!("c11: mmap of progress page failed");
    }
    Prog { base: p as *mut u64 }
  }
  fn slot(&self, s: usize) -> *mut u64 {
    unsafe { self.base.add((s % PROG_SLOTS) * PROG_WORDS) }
  }
  fn get(&self, s: usize) -> [u64; 4] {
    let p = self.slot(s);
    unsafe { [std::ptr::read_volatile(p), std::ptr::read_volatile(p.add(1)), std::ptr::read_volatile(p.add(2)), std::ptr::read_volatile(p.add(3))] }
  }
}
impl Drop for Prog {
  fn drop(&mut self) {
    unsafe {
      libc::munmap(self.base as *mut libc::c_void, PROG_SLOTS * PROG_WORDS * 8);
    }
  }
}

// ---------------------------------------------------------------- one case's executor

struct Run {
  core: Box<Core>,
  cfg: Cfg,
  prog: *mut u64,
  st: St,
  restore: bool, // re-establish `st` after a write that touched a register window
  lim: Lim,
  w0_base: u64,
  iter: u64,
  performed: u64,
  predicted: u64,
  unconfirmed: u64,
  setup: u64,
  skip: [[bool; 4]; NCLS], // classes whose confirming access killed its worker: not executed
  pred_count: [[u64; 4]; NCLS],
  pred_first: [[Option<(u32, u64, usize, u16, u16, Lim)>; 4]; NCLS], // (st, iter, kind, addr, bad byte, limits)
  seen: [[[bool; 2]; 5]; NREGION],
  sink: u64,
}

impl Run {
  fn new(cfg: Cfg, path: &str, prog: *mut u64, skip: [[bool; 4]; NCLS]) -> Result<Run, String> {
    unsafe { std::ptr::write_volatile(prog, PH_SETUP << 24) };
    let core = load_like_main(path)?;
    let lim = limits(&core.memory);
    let mut r = Run {
      core,
      cfg,
      prog,
      st: St::POWER_ON,
      restore: false,
      lim,
      w0_base: 0,
      iter: 0,
      performed: 0,
      predicted: 0,
      unconfirmed: 0,
      setup: 0,
      skip,
      pred_count: [[0; 4]; NCLS],
      pred_first: [[None; 4]; NCLS],
      seen: [[[false; 2]; 5]; NREGION],
      sink: 0,
    };
    r.relimit();
    Ok(r)
  }

  fn relimit(&mut self) {
    self.lim = limits(&self.core.memory);
    let rom_oob = (self.lim.romn_bad_from < 0x8000 || self.lim.rom0_bad_from < 0x4000) as u64;
    let ram_oob = (self.lim.ram_bad_from < 0xC000) as u64;
    self.w0_base = (PH_ACCESS << 24) | (rom_oob << 28) | (ram_oob << 29) | ((self.st.pack() as u64) << 32);
  }

  /// class of a predicted out-of-bounds byte address, from the live public state
  fn cls_of(&self, bad: u16) -> usize {
    let l = &self.lim;
    if bad < 0x8000 {
      let banks = l.rom_len / 0x4000;
      match self.cfg.ctl() {
        Ctl::Mbc1 if bad >= 0x4000 && banks < 32 => 0,
        Ctl::Mbc1 if bad >= 0x4000 && banks < 128 => 1,
        Ctl::Mbc3 if bad >= 0x4000 && banks < 128 => 2,
        _ => 3,
      }
    } else if l.ram_len == 0 {
      4
    } else if l.ram_len == 0x800 && l.ram_bank == 0 {
      5
    } else if l.ram_len < 4 * 0x2000 && l.ram_bank < 4 {
      6
    } else {
      7
    }
  }

  #[inline(always)]
  fn perform(&mut self, kind: usize, a: u16, val: u16, predicted_cls: Option<usize>) {
    let mut w0 = self.w0_base | a as u64 | ((kind as u64) << 16);
    if let Some(c) = predicted_cls {
      w0 |= (1 << 19) | ((c as u64) << 20);
    }
    unsafe {
      std::ptr::write_volatile(self.prog, w0);
      std::ptr::write_volatile(self.prog.add(1), val as u64 | (self.iter << 16));
    }
    let p: *mut MemoryAreas = &mut self.core.memory;
    match kind {
      K_R => self.sink = self.sink.wrapping_mul(31).wrapping_add(memory_read_byte(p, a) as u64),
      K_W => memory_write_byte(p, a, val as u8),
      K_RW => self.sink = self.sink.wrapping_mul(31).wrapping_add(memory_read_word(p, a) as u64),
      K_WW => memory_write_word(p, a, val),
      _ => memory_push_word(p, a, val),
    }
    self.performed += 1;
  }

  /// guarded access: performed iff predicted in bounds; returns whether it was performed
  #[inline(always)]
  fn access(&mut self, kind: usize, a: u16, val: u16) -> bool {
    let region = region_of(a);
    if let Some(bad) = self.lim.predict(kind, a) {
      let cls = self.cls_of(bad);
      let k4 = kind.min(3);
      if self.skip[cls][k4] {
        self.predicted += 1;
        self.pred_count[cls][k4] += 1;
        if self.pred_first[cls][k4].is_none() {
          self.pred_first[cls][k4] = Some((self.st.pack(), self.iter, kind, a, bad, self.lim));
        }
        self.seen[region][kind][1] = true;
        return false;
      }
      // the confirming access of this class completed (or the class has none): the index
      // formula does not describe the implementation here, so the access is executed
      self.unconfirmed += 1;
    }
    self.seen[region][kind][0] = true;
    self.perform(kind, a, val, None);
    if kind & 1 == 1 || kind == K_PW {
      let touches = a < 0x8000 || (kind != K_W && a == 0xFFFF);
      if touches {
        self.after_window_write(kind, a);
      }
    }
    true
  }

  /// a write went to the controller: put the target register state back (only the
  /// windows touched) and recompute the bounds from the public state
  fn after_window_write(&mut self, kind: usize, a: u16) {
    if self.restore {
      if a < 0x8000 {
        self.rewrite_window((a >> 13) as usize);
      }
      if kind != K_W {
        let a1 = a.wrapping_add(1);
        if a1 < 0x8000 && (a >= 0x8000 || (a1 >> 13) != (a >> 13)) {
          self.rewrite_window((a1 >> 13) as usize);
        }
      }
    }
    self.relimit();
  }

  fn rewrite_window(&mut self, w: usize) {
    let st = self.st;
    if st.none {
      return;
    }
    match w {
      0 => self.reg_write(0x0000, if st.en != 0 { 0x0A } else { 0x00 }),
      1 => self.reg_write(0x2000, st.lo),
      2 => {
        self.reg_write(0x4000, st.hi);
        if st.extra != 0 {
          self.reg_write(0x4000, st.extra);
        }
      },
      _ => self.reg_write(0x6000, st.mode),
    }
  }

  #[inline(always)]
  fn reg_write(&mut self, a: u16, v: u8) {
    self.perform(K_W, a, v as u16, None);
    self.setup += 1;
  }

  fn set_state(&mut self, st: St) {
    self.st = st;
    self.restore = !st.regvals;
    self.relimit();
    for (wa, wv) in st.writes() {
      self.perform(K_W, wa, wv as u16, None);
      self.setup += 1;
    }
    self.relimit();
  }

  fn sweep(&mut self, salt: u8) {
    for kind in 0..4 {
      for a in 0..=0xFFFFu16 {
        let v = (a as u8).wrapping_mul(29) ^ ((a >> 8) as u8) ^ salt;
        let val = v as u16 | (((!v).rotate_left(3) as u16) << 8);
        self.access(kind, a, val);
      }
    }
  }

  /// both guest-banked windows, complete, with their neighbours: reads of 0x3FFE..=0x8000
  /// (writes there go to the controller and are the business of the other stages) and
  /// all four access kinds over 0x9FFE..=0xC000
  fn windows(&mut self, salt: u8) {
    for kind in [K_R, K_RW] {
      for a in 0x3FFEu16..=0x8000 {
        self.access(kind, a, 0);
      }
    }
    for kind in 0..4 {
      for a in 0x9FFEu16..=0xC000 {
        let v = (a as u8).wrapping_mul(29) ^ ((a >> 8) as u8) ^ salt;
        let val = v as u16 | (((!v).rotate_left(3) as u16) << 8);
        self.access(kind, a, val);
      }
    }
  }

  fn edges(&mut self, salt: u8) {
    for (i, a) in EDGE48.iter().enumerate() {
      let v = salt.wrapping_add((i as u8).wrapping_mul(37));
      let val = v as u16 | ((!v as u16) << 8);
      for kind in 0..5 {
        self.access(kind, *a, val);
      }
    }
  }

  /// stage `edges`, part A: all 256 values to the 8 window-edge addresses (byte, word and
  /// push-word), each followed by guarded accesses to both banked windows
  fn regvals_windows(&mut self) {
    self.st = St::REGVALS;
    self.restore = false;
    self.relimit();
    let mut it = 0u64;
    for wa in WIN8.iter() {
      for v in 0..=255u16 {
        for form in [K_W, K_WW, K_PW] {
          it += 1;
          self.iter = it;
          let val = v | ((v ^ 0xA5) << 8);
          self.access(form, *wa, val);
          for (k, a) in [(K_R, 0x4000u16), (K_R, 0x7FFF), (K_RW, 0x3FFF), (K_RW, 0x7FFF), (K_R, 0xA000), (K_R, 0xBFFF), (K_W, 0xA000), (K_W, 0xBFFF), (K_RW, 0x9FFF), (K_WW, 0xBFFF)] {
            self.access(k, a, val);
          }
        }
      }
    }
  }

  /// stage `edges`, part B: all 256 values to every I/O address, 0xFF80, 0xFFFE, 0xFFFF
  fn regvals_io(&mut self) {
    let mut it = 1u64 << 20;
    let mut addrs: Vec<u16> = (0xFF00..=0xFF7Fu16).collect();
    addrs.extend_from_slice(&[0xFF80, 0xFFFE, 0xFFFF]);
    for a in addrs.iter() {
      for v in 0..=255u16 {
        it += 1;
        self.iter = it;
        let val = v | ((v ^ 0x5A) << 8);
        self.access(K_W, *a, val);
        self.access(K_R, *a, val);
        self.access(K_WW, *a, val);
        self.access(K_RW, *a, val);
      }
    }
  }

  /// stage `edges`, part C: 16-bit accesses at 0xFFFF touch 0xFFFF then 0x0000.
  /// Returns a description of what differed, if anything.
  fn wrap_check(&mut self) -> Option<String> {
    self.iter = 1 << 21;
    self.relimit();
    let mut bad = None;
    trace_start();
    self.perform(K_RW, 0xFFFF, 0, None);
    let (t, _) = trace_stop();
    let want = vec![(0u32 << 24) | (0xFFFFu32 << 8), (0u32 << 24) | (0x0000u32 << 8)];
    if t != want {
      bad = Some(format!("memory_read_word(0xFFFF) touched {:08X?}, expected reads of FFFF then 0000", t));
    }
    trace_start();
    self.perform(K_WW, 0xFFFF, 0x0A15, None);
    let (t, _) = trace_stop();
    let want = vec![(1u32 << 24) | (0xFFFFu32 << 8) | 0x15, (1u32 << 24) | (0x0000u32 << 8) | 0x0A];
    if t != want && bad.is_none() {
      bad = Some(format!("memory_write_word(0xFFFF, 0x0A15) touched {:08X?}, expected writes FFFF<-15 then 0000<-0A", t));
    }
    self.relimit();
    bad
  }

  fn pred_detail(&self, cls: usize, k4: usize, stage: &str) -> J {
    let (stp, iter, kind, a, bad, lim) = self.pred_first[cls][k4].unwrap();
    let st = St::unpack(stp);
    let (what, idx, len) = if bad < 0x8000 {
      let off = bad as usize & 0x3fff;
      let bank = if bad < 0x4000 { 0 } else { lim.rom_bank };
      ("rom", 0x4000 * bank + off, lim.rom_len)
    } else {
      ("cart_ram", 0x2000 * lim.ram_bank + (bad as usize & 0x1fff), lim.ram_len)
    };
    J::obj()
      .set(
        "case",
        J::obj()
          .set("config", self.cfg.json())
          .set("stage", J::s(stage))
          .set("register_writes", st.json())
          .set("iteration", J::u(iter))
          .set("access", J::obj().set("helper", J::s(KHELPER[kind])).set("addr", J::s(format!("{:04X}", a)))),
      )
      .set("expected", J::s("the access completes and returns"))
      .set(
        "observed",
        J::s(format!(
          "not executed: byte {:04X} would index {}[0x{:X}] but {}.len() = 0x{:X} (get_rom_bank() = {}, get_ram_bank() = {}); the abort is demonstrated by the confirming case of stage confirm",
          bad, what, idx, what, len, lim.rom_bank, lim.ram_bank
        )),
      )
  }

  /// hand counters, predicted classes and outcome classes to the pool context
  fn flush(&mut self, ctx: &mut Ctx, stage: &str) {
    ctx.count(C_PERFORMED, self.performed);
    ctx.count(C_PREDICTED, self.predicted);
    ctx.count(C_SETUP, self.setup);
    ctx.count(C_UNCONFIRMED, self.unconfirmed);
    for cls in 0..NCLS {
      for k4 in 0..4 {
        if self.pred_count[cls][k4] > 0 {
          ctx.count(C_PRED_BASE + cls * 4 + k4, self.pred_count[cls][k4]);
          ctx.violation(&pred_key(cls, k4), || self.pred_detail(cls, k4, stage));
        }
      }
    }
    let cid = self.cfg.class_id() as u64;
    for r in 0..NREGION {
      for k in 0..5 {
        for o in 0..2 {
          if self.seen[r][k][o] {
            ctx.class(((cid * NREGION as u64 + r as u64) * 5 + k as u64) * 2 + o as u64);
          }
        }
      }
    }
    std::hint::black_box(self.sink);
    unsafe { std::ptr::write_volatile(self.prog, PH_IDLE) };
  }
}

// ---------------------------------------------------------------- case tables

const SWEEP_GROUP: usize = 8; // register states per sweep case (one fresh core per case)
const WINDOWS_GROUP: usize = 32; // register states per windows case

/// (configuration index, first state of the group)
#[derive(Clone, Copy)]
struct Group {
  ci: usize,
  first: usize,
}

struct Confirm {
  kind: usize,
  cfg: Cfg,
  writes: Vec<(u16, u8)>,
  addr: u16,
}

fn confirm_table() -> Vec<Confirm> {
  let mut v = Vec::new();
  let c = |ty: u8, rom: u8, ram: u8| Cfg { ty, rom, ram };
  // ROM window: bank number beyond the image
  for (cfg, writes) in [
    (c(0x01, 0x00, 0x00), vec![(0x2000u16, 2u8)]), // MBC1, 2 banks, bank register 2
    (c(0x01, 0x04, 0x00), vec![(0x4000, 1)]),      // MBC1, 32 banks, upper bits 1 -> bank 33
    (c(0x11, 0x00, 0x00), vec![(0x2000, 2)]),      // MBC3, 2 banks, bank register 2
  ] {
    v.push(Confirm { kind: K_R, cfg, writes: writes.clone(), addr: 0x4000 });
    v.push(Confirm { kind: K_RW, cfg, writes, addr: 0x3FFF });
  }
  // cartridge RAM window
  for (cfg, writes, first_bad) in [
    (c(0x00, 0x00, 0x00), vec![], 0xA000u16),                         // no cartridge RAM
    (c(0x00, 0x00, 0x01), vec![], 0xA800),                            // 2 KiB
    (c(0x03, 0x00, 0x02), vec![(0x6000u16, 1u8), (0x4000, 1)], 0xA000), // MBC1 mode 1, RAM bank 1 of an 8 KiB RAM
  ] {
    v.push(Confirm { kind: K_R, cfg, writes: writes.clone(), addr: first_bad });
    v.push(Confirm { kind: K_W, cfg, writes: writes.clone(), addr: first_bad });
    v.push(Confirm { kind: K_RW, cfg, writes: writes.clone(), addr: first_bad - 1 });
    v.push(Confirm { kind: K_WW, cfg, writes, addr: first_bad - 1 });
  }
  v
}

fn confirm_json(c: &Confirm) -> J {
  J::obj()
    .set("config", c.cfg.json())
    .set("stage", J::s("confirm"))
    .set("register_writes", J::Arr(c.writes.iter().map(|(a, v)| J::s(format!("{:04X}<-{:02X}", a, v))).collect()))
    .set("access", J::obj().set("helper", J::s(KHELPER[c.kind])).set("addr", J::s(format!("{:04X}", c.addr))).set("value", J::s("5AA5")))
}

fn regs_class(w0: u64) -> &'static str {
  match ((w0 >> 28) & 1, (w0 >> 29) & 1) {
    (0, 0) => "in-range",
    (1, 0) => "rombank>=banks",
    (0, _) => "rambank>=banks",
    _ => "rombank>=banks,rambank>=banks",
  }
}

/// name the access that killed a worker, from the progress slot of its last replay
fn crash_report(cfg: Cfg, stage: &str, w: [u64; 4], how: &str) -> (String, J) {
  let (w0, w1) = (w[0], w[1]);
  let phase = (w0 >> 24) & 0xf;
  let case = J::obj().set("config", cfg.json()).set("stage", J::s(stage));
  if phase != PH_ACCESS {
    return (
      format!("C11 cfg={} phase=load crash={}", cfg.class_name(), how),
      J::obj().set("case", case).set("expected", J::s("the ROM file loads")).set("observed", J::s("worker died outside a bus access")),
    );
  }
  let a = (w0 & 0xffff) as u16;
  let kind = ((w0 >> 16) & 7) as usize;
  let st = St::unpack((w0 >> 32) as u32);
  let case = case
    .set("register_writes", st.json())
    .set("iteration", J::u(w1 >> 16))
    .set("access", J::obj().set("helper", J::s(KHELPER[kind.min(4)])).set("addr", J::s(format!("{:04X}", a))).set("value", J::s(format!("{:04X}", w1 & 0xffff))));
  let detail = J::obj().set("case", case).set("expected", J::s("the access completes and returns"));
  if (w0 >> 19) & 1 != 0 {
    let cls = ((w0 >> 20) & 7) as usize;
    let buf = if CLS[cls].2 == "romN" { "rom" } else { "cart_ram" };
    let obs = format!("worker process died inside the access; predicted from the public state beforehand: index {}[0x{:X}] with {}.len() = 0x{:X}", buf, w[2], buf, w[3]);
    (pred_key(cls, kind.min(3)), detail.set("observed", J::s(obs)))
  } else {
    (
      format!("C11 cfg={} regs={} access={} addr={} crash={}", cfg.class_name(), regs_class(w0), KNAME[kind.min(4)], REGION_NAME[region_of(a)], how),
      detail.set("observed", J::s("worker process died inside an access the bounds predictor classified as safe")),
    )
  }
}

fn quick_configs() -> Vec<Cfg> {
  let mut v = Vec::new();
  for ty in TYPES {
    for rom in [0x00u8, 0x04, 0x08, 0x54] {
      for ram in [0u8, 1, 2, 3] {
        v.push(Cfg { ty, rom, ram });
      }
    }
  }
  v
}

fn all_configs() -> Vec<Cfg> {
  let mut v = Vec::new();
  for ty in TYPES {
    for rom in ROMS {
      for ram in RAMS {
        v.push(Cfg { ty, rom, ram });
      }
    }
  }
  v
}

fn make_file(cfg: Cfg) -> String {
  let mut h = header_bytes(cfg.ty, cfg.rom, cfg.ram);
  h[0] = 0xA5; // distinguishes the wrapped high byte of a word read at 0xFFFF
  write_sparse_rom_file((cfg.banks() * 0x4000) as u64, &[(0, &h[..])])
}

fn predicted_keys(r: &PoolResult) -> Vec<String> {
  r.violations.iter().filter(|v| v.key.ends_with("kind=index-out-of-bounds")).map(|v| v.key.clone()).collect()
}

/// which of the full-sweep / windows stages a grouped stage is
#[derive(Clone, Copy, PartialEq)]
enum Deep {
  Sweep,
  Windows,
}

pub fn run(tier: &str) -> i32 {
  let mut rep = Report::new("C11", tier, "fault_enumeration");
  let thorough = rep.thorough();
  rep.assume("the bounds predictor uses only public state (cart_state.get_rom_bank(), get_ram_bank(), rom.len(), cart_ram.len()) and the index formulas bank*0x4000+offset / bank*0x2000+offset; accesses it classifies out of bounds are not executed except one confirming access per key class; a class is skipped only if its confirming access killed its worker twice in isolation, otherwise (the implementation bounds the index some other way) every access of the class is executed like any other");
  rep.assume("an access is judged only on 'completes and returns'; nothing is restored afterwards (no emulated time passes, so an armed OAM DMA or changed device registers do not act)");
  rep.assume("write values: one address-derived value per access in the sweeps, all 256 values for the four register windows and for every I/O address (stage edges)");
  rep.assume("factorisation: all 65 536 addresses x 4 access kinds at the extreme register states (thorough: at every reachable state for the corner configurations); every reachable register state x (48 region-edge addresses x 5 helpers, and the two guest-banked windows 3FFE-8000 / 9FFE-C000 complete)");
  rep.assume("a violation's case count is the number of pool cases in which the class occurred; per-access totals are in coverage.predicted_oob_by_key");

  let cfgs = if thorough { all_configs() } else { quick_configs() };
  let confirms = confirm_table();
  // ROM files: one per configuration, built once here; children only map them (MAP_PRIVATE)
  let mut files: BTreeMap<(u8, u8, u8), String> = BTreeMap::new();
  for c in cfgs.iter().chain(confirms.iter().map(|c| &c.cfg)) {
    files.entry((c.ty, c.rom, c.ram)).or_insert_with(|| make_file(*c));
  }
  let path_of = |c: Cfg| -> &str { files.get(&(c.ty, c.rom, c.ram)).map(|s| s.as_str()).unwrap() };
  let prog = Prog::new();
  let mut totals = [0u64; crate::util::pool::NCOUNTERS];
  let mut add = |c: &[u64; crate::util::pool::NCOUNTERS]| {
    for i in 0..c.len() {
      totals[i] += c[i];
    }
  };

  // ------------------------------------------------------------ stage confirm
  let opts = PoolOpts { chunk: 1, bitmap_bits: 1 << 14, samples_per_child: 0, ..PoolOpts::default() };
  let r_confirm = run_pool(
    confirms.len() as u64,
    &opts,
    |_| (),
    |_, case, ctx| {
      let c = &confirms[case as usize];
      let mut run = match Run::new(c.cfg, path_of(c.cfg), prog.slot(ctx.slot), [[false; 4]; NCLS]) {
        Ok(r) => r,
        Err(_) => {
          ctx.count(C_LOADFAIL, 1);
          return;
        },
      };
      ctx.count(C_CONFIRM_RUN, 1);
      run.st = St::REGVALS;
      run.relimit();
      for (a, v) in c.writes.iter() {
        run.reg_write(*a, *v);
      }
      run.relimit();
      match run.lim.predict(c.kind, c.addr) {
        Some(bad) => {
          let cls = run.cls_of(bad);
          let (idx, len) = run.lim.index_of(bad);
          unsafe {
            std::ptr::write_volatile(run.prog.add(2), idx as u64);
            std::ptr::write_volatile(run.prog.add(3), len as u64);
          }
          run.perform(c.kind, c.addr, 0x5AA5, Some(cls));
          // still alive: the implementation does not index the way the formula says;
          // this class is executed, not skipped, in the later stages
          run.unconfirmed += 1;
          ctx.count(C_CONFIRM_SURVIVED, 1);
          ctx.count(C_SURV_MASK, 1 << (cls * 4 + c.kind.min(3)));
        },
        None => {
          // the tree no longer has this defect: an ordinary, safe access
          ctx.count(C_CONFIRM_NA, 1);
          run.access(c.kind, c.addr, 0x5AA5);
        },
      }
      run.flush(ctx, "confirm");
    },
    |case, how| {
      let c = &confirms[case as usize];
      let (key, detail) = crash_report(c.cfg, "confirm", prog.get(PROG_SLOTS - 1), how);
      (key, detail.set("case", confirm_json(c)))
    },
  );
  let confirmed: BTreeSet<String> = predicted_keys(&r_confirm).into_iter().collect();
  let confirm_crashes = r_confirm.crashes;
  let cc = rep.add_stage("confirm", "one confirming access per predicted out-of-bounds key class, each in its own worker", r_confirm);
  add(&cc);
  // classes whose confirming access killed its worker are skipped (and counted) from here on
  let mut skip = [[false; 4]; NCLS];
  for cls in 0..NCLS {
    for k4 in 0..4 {
      skip[cls][k4] = confirmed.contains(&pred_key(cls, k4));
    }
  }
  let mut survived_keys: Vec<J> = Vec::new();
  for cls in 0..NCLS {
    for k4 in 0..4 {
      if cc[C_SURV_MASK] >> (cls * 4 + k4) & 1 != 0 {
        survived_keys.push(J::s(pred_key(cls, k4)));
      }
    }
  }

  // ------------------------------------------------------------ stage edges
  let opts = PoolOpts { chunk: 1, bitmap_bits: 1 << 14, samples_per_child: 1, ..PoolOpts::default() };
  let r_edges = run_pool(
    cfgs.len() as u64,
    &opts,
    |_| (),
    |_, case, ctx| {
      let cfg = cfgs[case as usize];
      let mut run = match Run::new(cfg, path_of(cfg), prog.slot(ctx.slot), skip) {
        Ok(r) => r,
        Err(_) => {
          ctx.count(C_LOADFAIL, 1);
          return;
        },
      };
      // part C first, on the pristine core
      if let Some(what) = run.wrap_check() {
        ctx.violation("C11 access=word addr=ie kind=not-wrapped", || {
          J::obj().set("case", J::obj().set("config", cfg.json()).set("stage", J::s("edges")).set("access", J::s("word access at FFFF"))).set("expected", J::s("FFFF then 0000")).set("observed", J::s(what.as_str()))
        });
      }
      ctx.count(C_WRAP, 2);
      let states = edge_states(cfg.ctl());
      for (i, st) in states.iter().enumerate() {
        run.set_state(*st);
        run.edges(i as u8);
      }
      ctx.count(C_STATES_EDGE, states.len() as u64);
      run.regvals_windows();
      run.regvals_io();
      ctx.sample(|| {
        J::obj()
          .set("config", cfg.json())
          .set("stage", J::s("edges"))
          .set("register_states", J::u(states.len() as u64))
          .set("accesses_performed", J::u(run.performed))
          .set("accesses_predicted_out_of_bounds", J::u(run.predicted))
      });
      run.flush(ctx, "edges");
    },
    |case, how| crash_report(cfgs[case as usize], "edges", prog.get(PROG_SLOTS - 1), how),
  );
  let mut predicted_seen: BTreeSet<String> = predicted_keys(&r_edges).into_iter().collect();
  let mut stage2_crashes = r_edges.crashes;
  let ce = rep.add_stage(
    "edges",
    "per configuration: every reachable register state (MBC1 lo 0..31 x hi 0..3 x mode x enable; MBC3 lo 0..127 x RAM bank 0..3 x enable, and the same followed by a clock-select write 04/08/0C/FF; no controller: power-on and after four ignored writes) x 48 region-edge addresses x {r, w, rw, ww, push-word}; A: 256 values x 8 window-edge addresses x {byte, word, push-word} each followed by 10 guarded accesses to the banked windows; B: 256 values x (I/O FF00-FF7F, FF80, FFFE, FFFF) x {w, r, ww, rw}; C: word read and word write at FFFF traced",
    r_edges,
  );
  add(&ce);

  // ------------------------------------------------------------ stages sweep and windows
  for deep in [Deep::Sweep, Deep::Windows] {
    let (name, gsize) = if deep == Deep::Sweep { ("sweep", SWEEP_GROUP) } else { ("windows", WINDOWS_GROUP) };
    let states_of = |cfg: Cfg| -> Vec<St> {
      if deep == Deep::Sweep {
        // thorough: the corner configurations get the full sweep at every reachable state
        if thorough && (cfg.rom == 0x00 || cfg.rom == 0x08) && (cfg.ram == 0 || cfg.ram == 3) {
          all_states(cfg.ctl())
        } else {
          extreme_states(cfg)
        }
      } else {
        all_states(cfg.ctl())
      }
    };
    let mut groups: Vec<Group> = Vec::new();
    for (ci, cfg) in cfgs.iter().enumerate() {
      // quick: the all-states windows stage only for the smallest and the largest ROM
      if deep == Deep::Windows && !thorough && cfg.rom != 0x00 && cfg.rom != 0x08 {
        continue;
      }
      let n = states_of(*cfg).len();
      let mut first = 0;
      while first < n {
        groups.push(Group { ci, first });
        first += gsize;
      }
    }
    let opts = PoolOpts {
      chunk: 1,
      bitmap_bits: 1 << 14,
      samples_per_child: 1,
      deadline: Some(Duration::from_secs(match (thorough, deep) {
        (true, Deep::Sweep) => 440,
        (true, Deep::Windows) => 840,
        (false, _) => 180,
      })),
      ..PoolOpts::default()
    };
    let r = run_pool(
      groups.len() as u64,
      &opts,
      |_| (),
      |_, case, ctx| {
        let g = groups[case as usize];
        let cfg = cfgs[g.ci];
        let mut run = match Run::new(cfg, path_of(cfg), prog.slot(ctx.slot), skip) {
          Ok(r) => r,
          Err(_) => {
            ctx.count(C_LOADFAIL, 1);
            return;
          },
        };
        let states = states_of(cfg);
        let end = (g.first + gsize).min(states.len());
        for (i, st) in states[g.first..end].iter().enumerate() {
          run.set_state(*st);
          run.iter = (g.first + i) as u64;
          let salt = ((g.ci * 131 + g.first + i) as u8).wrapping_mul(73);
          if deep == Deep::Sweep {
            run.sweep(salt);
          } else {
            run.windows(salt);
          }
        }
        ctx.count(if deep == Deep::Sweep { C_STATES_SWEEP } else { C_STATES_WINDOWS }, (end - g.first) as u64);
        ctx.sample(|| {
          J::obj()
            .set("config", cfg.json())
            .set("stage", J::s(name))
            .set("register_states", J::Arr(states[g.first..end].iter().take(2).map(|s| s.json()).collect()))
            .set("accesses_performed", J::u(run.performed))
            .set("accesses_predicted_out_of_bounds", J::u(run.predicted))
        });
        run.flush(ctx, name);
      },
      |case, how| crash_report(cfgs[groups[case as usize].ci], name, prog.get(PROG_SLOTS - 1), how),
    );
    predicted_seen.extend(predicted_keys(&r));
    stage2_crashes += r.crashes;
    let space = if deep == Deep::Sweep {
      if thorough {
        "every configuration x extreme register states (each banking register at 0, at its maximum, at the largest in-range value and one past it; mode and enable both ways), and the 28 corner configurations (ROM-size code 00 or 08, RAM-size code 00 or 03) x every reachable register state, x 65 536 addresses x {r, w, rw, ww}; 8 states per case"
      } else {
        "every configuration x extreme register states (each banking register at 0, at its maximum, at the largest in-range value and one past it; mode and enable both ways) x 65 536 addresses x {r, w, rw, ww}; 8 states per case"
      }
    } else if thorough {
      "every configuration x every reachable register state x (3FFE..=8000 x {r, rw}, 9FFE..=C000 x {r, w, rw, ww}); 32 states per case"
    } else {
      "configurations with ROM-size code 00 or 08 x every reachable register state x (3FFE..=8000 x {r, rw}, 9FFE..=C000 x {r, w, rw, ww}); 32 states per case"
    };
    let c = rep.add_stage(name, space, r);
    add(&c);
  }

  // ------------------------------------------------------------ device registers after time has passed
  // A guest can let time pass before it writes a device register, and devices keep state of
  // their own (a divider phase, a counter about to overflow, a transfer in flight, a line being
  // drawn).  From each of several such states, every value is written to every I/O address
  // (byte and word) and every I/O address is read; time then passes again.  The state is
  // rebuilt for every write, so each write meets exactly the described state.
  {
    const CTX: [(&str, &[(u16, u8)], u32, &[(u16, u8)]); 6] = [
      ("timer fast, divider bit high, TIMA=FF", &[(0xFF07, 0x05)], 8, &[(0xFF05, 0xFF)]),
      ("timer slow, 600 clocks, TIMA=FF, TMA=FF", &[(0xFF07, 0x04), (0xFF06, 0xFF)], 600, &[(0xFF05, 0xFF)]),
      ("display on, mid-line (mode 3)", &[(0xFF40, 0x91), (0xFF41, 0x78), (0xFF45, 0x05)], 4560 + 456 * 5 + 152, &[]),
      ("display on, LY = LYC line, all STAT sources", &[(0xFF40, 0x91), (0xFF45, 0x02), (0xFF41, 0x78)], 4560 + 456 * 2 + 4, &[]),
      ("OAM DMA in flight, 40 bytes copied", &[(0xFF46, 0xC1)], 160, &[]),
      ("everything at once", &[(0xFF07, 0x05), (0xFF40, 0x91), (0xFF41, 0x78), (0xFF46, 0x80)], 4560 + 456 * 3 + 300, &[(0xFF05, 0xFF), (0xFF0F, 0x1F), (0xFFFF, 0x1F)]),
    ];
    let header = header_bytes(0x13, 0x01, 0x03);
    let path = write_sparse_rom_file(4 * 0x4000, &[(0x100, &header[0x100..0x150])]);
    let n = (CTX.len() * 0x82) as u64; // per context: 0xFF00..=0xFF7F, 0xFFFE, 0xFFFF
    let opts = PoolOpts { chunk: 1, bitmap_bits: 1 << 12, samples_per_child: 1, ..PoolOpts::default() };
    let p2 = path.clone();
    let r = run_pool(
      n,
      &opts,
      |_| (),
      |_, case, ctx: &mut Ctx| {
        // a machine of its own for every case: nothing an earlier case did to state outside the
        // device block (a bank register, for instance) may decide whether this one survives
        let mut core_box = load_like_main(&p2).expect("context image loads");
        let core = &mut core_box;
        let ci = (case / 0x82) as usize;
        let ai = (case % 0x82) as u16;
        let addr: u16 = if ai < 0x80 { 0xFF00 + ai } else { 0xFFFE + (ai - 0x80) };
        let (name, pre, clocks, post) = CTX[ci];
        ctx.sample(|| J::obj().set("stage", J::s("io-after-time")).set("context", J::s(name)).set("address", J::s(format!("{:04X}", addr))).set("writes", J::s("all 256 byte values and 256 words, each from the rebuilt context; reads of every I/O address; 64 more clocks")));
        for v in 0..=255u8 {
          for word in 0..2 {
            core.memory.io = crate::devices::io::IO::new();
            core.memory.oam_dma = None;
            let m = &mut core.memory as *mut MemoryAreas;
            memory_write_byte(m, 0xFFFF, 0);
            for (a, x) in pre.iter() {
              memory_write_byte(m, *a, *x);
            }
            core.memory.run_clock_cycles(crate::timing::ClockCycles(clocks as usize));
            for (a, x) in post.iter() {
              memory_write_byte(m, *a, *x);
            }
            if word == 0 {
              memory_write_byte(m, addr, v);
            } else {
              memory_write_word(m, addr, (v as u16) << 8 | (v as u16 ^ 0x5A));
            }
            let mut acc = 0u32;
            for a in 0xFF00u16..=0xFF7F {
              acc = acc.wrapping_add(memory_read_byte(m as *const MemoryAreas, a) as u32);
            }
            std::hint::black_box(acc);
            core.memory.run_clock_cycles(crate::timing::ClockCycles(64));
            ctx.count(0, 2 + 0x80);
          }
        }
        ctx.class(0x4000 | case);
      },
      |case, how| {
        let ci = (case / 0x82) as usize;
        let ai = (case % 0x82) as u16;
        let addr: u16 = if ai < 0x80 { 0xFF00 + ai } else { 0xFFFE + (ai - 0x80) };
        (
          format!("C11 cfg=devices-after-time context={} access=w region={} kind={}", CTX[ci].0.split(',').next().unwrap_or("").replace(' ', "-"), if addr >= 0xFFFE { "hram/ie" } else { "io" }, how),
          J::obj().set("case", J::obj().set("context", J::s(CTX[ci].0)).set("address", J::s(format!("{:04X}", addr))).set("what", J::s("context set up through the bus, time passed, then one of the 256 byte / 256 word values written to this address, all I/O addresses read, 64 more clocks"))),
        )
      },
    );
    let _ = std::fs::remove_file(&path);
    let c = rep.add_stage("io-after-time", "6 device states reached by register writes and elapsed time (timer about to tick with TIMA=FF, display mid-line / on the LYC line, OAM DMA in flight, all at once) x every I/O address, 0xFFFE, 0xFFFF x all 256 byte values and 256 word values, each from the rebuilt state; every I/O address read afterwards; 64 more clocks", r);
    totals[C_PERFORMED] += c[0];
  }

  // ------------------------------------------------------------ display registers, then a whole frame
  // The pixel pipeline indexes video RAM, OAM and its line buffers with values the guest
  // controls through several registers at once (LCDC selects maps and addressing, SCY/SCX
  // choose the map row and column, WY/WX the window, OAM bytes the object rows), and it runs
  // when time passes, not when the register is written.  Every LCDC value is combined with
  // boundary values of the scroll and window registers over three extreme video RAM / OAM
  // contents, and a whole frame plus one line elapses.
  {
    const SCY_Q: [u8; 4] = [0x00, 0x80, 0xF8, 0xFF];
    const SCX_Q: [u8; 4] = [0x00, 0x07, 0x60, 0xFF];
    const WX_Q: [u8; 4] = [0x00, 0x07, 0xA6, 0xFF];
    const WY_Q: [u8; 3] = [0x00, 0x8F, 0xFF];
    const SCY_T: [u8; 8] = [0x00, 0x01, 0x70, 0x80, 0xF0, 0xF8, 0xFE, 0xFF];
    const SCX_T: [u8; 8] = [0x00, 0x01, 0x07, 0x08, 0x60, 0x9F, 0xF8, 0xFF];
    const WX_T: [u8; 8] = [0x00, 0x06, 0x07, 0x08, 0xA5, 0xA6, 0xA7, 0xFF];
    const WY_T: [u8; 5] = [0x00, 0x01, 0x8F, 0x90, 0xFF];
    let (scy_v, scx_v, wx_v, wy_v): (&[u8], &[u8], &[u8], &[u8]) = if thorough { (&SCY_T, &SCX_T, &WX_T, &WY_T) } else { (&SCY_Q, &SCX_Q, &WX_Q, &WY_Q) };
    let hexs = |v: &[u8]| v.iter().map(|x| format!("{:02X}", x)).collect::<Vec<_>>().join(",");
    let grid = format!("SCY {{{}}} x SCX {{{}}} x WX {{{}}} x WY {{{}}}", hexs(scy_v), hexs(scx_v), hexs(wx_v), hexs(wy_v));
    const FILLS: [&str; 3] = ["all-00", "all-FF", "pattern+extreme-objects"];
    let header = header_bytes(0x13, 0x01, 0x03);
    let path = write_sparse_rom_file(4 * 0x4000, &[(0x100, &header[0x100..0x150])]);
    let n = (256 * FILLS.len()) as u64;
    let opts = PoolOpts { chunk: 1, bitmap_bits: 1 << 12, samples_per_child: 1, ..PoolOpts::default() };
    let p2 = path.clone();
    let r = run_pool(
      n,
      &opts,
      |_| (),
      |_, case, ctx: &mut Ctx| {
        let mut core_box = load_like_main(&p2).expect("context image loads");
        let core = &mut core_box;
        let lcdc = (case % 256) as u8;
        let fill = (case / 256) as usize;
        ctx.sample(|| J::obj().set("stage", J::s("display-registers-then-a-frame")).set("lcdc", J::s(format!("{:02X}", lcdc))).set("content", J::s(FILLS[fill])).set("grid", J::s(format!("{}; 70 224 + 456 clocks in batches of 456", grid))));
        let m = &mut core.memory as *mut MemoryAreas;
        // contents are written once, with the display off (they live outside the device block)
        core.memory.io = crate::devices::io::IO::new();
        core.memory.oam_dma = None;
        for a in 0x8000u16..0xA000 {
          let v = match fill { 0 => 0x00, 1 => 0xFF, _ => if a >= 0x9800 { if a & 0x20 != 0 { 0x80 } else { 0x7F ^ (a as u8) } } else { (a as u8).wrapping_mul(7).wrapping_add(3) } };
          memory_write_byte(m, a, v);
        }
        const OY: [u8; 9] = [0, 1, 8, 15, 16, 152, 159, 160, 255];
        const OX: [u8; 8] = [0, 1, 7, 8, 160, 167, 168, 255];
        for i in 0..40u16 {
          let o: [u8; 4] = match fill {
            0 => [0, 0, 0, 0],
            1 => [0xFF, 0xFF, 0xFF, 0xFF],
            _ => [OY[i as usize % 9], OX[i as usize % 8], if i & 1 == 0 { 0xFF } else { 0xFE }, (i as u8).wrapping_mul(0x30) | 0x0F],
          };
          for k in 0..4u16 {
            memory_write_byte(m, 0xFE00 + i * 4 + k, o[k as usize]);
          }
        }
        for &scy in scy_v {
          for &scx in scx_v {
            for &wx in wx_v {
              for &wy in wy_v {
                core.memory.io = crate::devices::io::IO::new();
                core.memory.oam_dma = None;
                memory_write_byte(m, 0xFF42, scy);
                memory_write_byte(m, 0xFF43, scx);
                memory_write_byte(m, 0xFF4A, wy);
                memory_write_byte(m, 0xFF4B, wx);
                memory_write_byte(m, 0xFF47, 0xE4);
                memory_write_byte(m, 0xFF48, 0x1B);
                memory_write_byte(m, 0xFF49, 0xFF);
                memory_write_byte(m, 0xFF40, lcdc);
                for _ in 0..155 {
                  core.memory.run_clock_cycles(crate::timing::ClockCycles(456));
                }
                ctx.count(0, 8);
              }
            }
          }
        }
        ctx.class(0x8000 | case);
      },
      |case, how| {
        let lcdc = (case % 256) as u8;
        let fill = (case / 256) as usize;
        (
          format!("C11 cfg=display-registers-then-a-frame content={} access=time region=io kind={}", FILLS[fill], how),
          J::obj().set("case", J::obj().set("lcdc", J::s(format!("{:02X}", lcdc))).set("content", J::s(FILLS[fill])).set("what", J::s(format!("video RAM and OAM filled through the bus with the display off; for {}: SCY, SCX, WY, WX, palettes and this LCDC value written, then 155 x 456 clocks", grid)))),
        )
      },
    );
    let _ = std::fs::remove_file(&path);
    let c = rep.add_stage("display-registers-then-a-frame", &format!("every LCDC value x {} x 3 video RAM / OAM contents (all 00, all FF, a pattern with tile indices 80/7F.. and 40 objects on the screen edges), written through the bus, then a whole frame and a line of time (155 x 456 clocks)", grid), r);
    totals[C_PERFORMED] += c[0];
  }

  // ------------------------------------------------------------ OAM DMA from every page, every configuration
  // The DMA engine reads its source when time passes, through whatever path the memory module
  // uses for it; the page is a guest-controlled value and the cartridge RAM window behind
  // pages A0-BF depends on the header's RAM size and on the RAM-enable / bank registers.
  {
    let n = (cfgs.len() * 4) as u64;
    let opts = PoolOpts { chunk: 1, bitmap_bits: 1 << 12, samples_per_child: 1, ..PoolOpts::default() };
    let r = run_pool(
      n,
      &opts,
      |_| (),
      |_, case, ctx: &mut Ctx| {
        let cfg = cfgs[(case / 4) as usize];
        let regs = (case % 4) as usize;
        let mut core_box = match load_like_main(path_of(cfg)) {
          Ok(c) => c,
          Err(_) => {
            ctx.count(C_LOADFAIL, 1);
            return;
          },
        };
        let core = &mut core_box;
        let m = &mut core.memory as *mut MemoryAreas;
        ctx.sample(|| J::obj().set("stage", J::s("oam-dma-every-page")).set("config", cfg.json()).set("registers", J::s(["power-on", "ram enabled", "ram enabled, ram bank 3, mode 1", "ram enabled, rom bank FF, upper 3"][regs])));
        match regs {
          0 => {},
          1 => memory_write_byte(m, 0x0000, 0x0A),
          2 => {
            memory_write_byte(m, 0x0000, 0x0A);
            memory_write_byte(m, 0x6000, 0x01);
            memory_write_byte(m, 0x4000, 0x03);
          },
          _ => {
            memory_write_byte(m, 0x0000, 0x0A);
            memory_write_byte(m, 0x2000, 0xFF);
            memory_write_byte(m, 0x4000, 0x03);
          },
        }
        for page in 0..=255u8 {
          memory_write_byte(m, 0xFF46, page);
          // one byte, then a batch that ends mid-transfer, then the rest and a little more
          core.memory.run_clock_cycles(crate::timing::ClockCycles(4));
          core.memory.run_clock_cycles(crate::timing::ClockCycles(4 * 77));
          core.memory.run_clock_cycles(crate::timing::ClockCycles(4 * 100));
          ctx.count(0, 161);
        }
        ctx.class(0xC000 | case);
      },
      |case, how| {
        let cfg = cfgs[(case / 4) as usize];
        (
          format!("C11 cfg={} access=oam-dma region=every-page kind={}", cfg.class_name(), how),
          J::obj().set("case", J::obj().set("config", cfg.json()).set("registers", J::u(case % 4)).set("what", J::s("banking registers set (0: power-on, 1: RAM enabled, 2: RAM enabled + RAM bank 3 + mode 1, 3: RAM enabled + ROM bank FF + upper bits 3), then for every page 00..FF: the page written to 0xFF46 and 4 + 308 + 400 clocks of time"))),
        )
      },
    );
    let c = rep.add_stage("oam-dma-every-page", "every configuration x 4 banking-register states (power-on; RAM enabled; RAM enabled + RAM bank 3 + mode 1; RAM enabled + ROM bank FF + upper bits 3) x all 256 source pages written to 0xFF46, each followed by 712 clocks of time in three batches", r);
    totals[C_PERFORMED] += c[0];
  }

  // ------------------------------------------------------------ files the loader may accept
  // "every ... size that a loadable ROM file can declare": the file itself is part of the
  // configuration.  Files shorter than what their header declares are offered to the real
  // loader; whatever it accepts is swept like any other configuration, with the last ROM bank
  // selected (a mapping that reaches past the end of the file faults on access).
  {
    let cuts: [u64; 9] = [1, 0x0FFF, 0x1000, 0x1001, 0x2000, 0x2FFF, 0x3000, 0x3FFF, 0x4000];
    let shapes: [(u8, u8); 5] = [(0x00, 0x00), (0x01, 0x01), (0x03, 0x02), (0x11, 0x01), (0x13, 0x52)];
    let n = (cuts.len() * shapes.len()) as u64;
    let opts = PoolOpts { chunk: 1, bitmap_bits: 1 << 8, samples_per_child: 1, workers: 4, ..PoolOpts::default() };
    let r = run_pool(
      n,
      &opts,
      |_| (),
      |_, case, ctx: &mut Ctx| {
        let (ty, rc) = shapes[(case as usize) / cuts.len()];
        let cut = cuts[(case as usize) % cuts.len()];
        let banks = rom_banks_for_code(rc).unwrap();
        let declared = banks as u64 * 0x4000;
        let h = header_bytes(ty, rc, 0x00);
        let path = write_sparse_rom_file(declared - cut, &[(0x100, &h[0x100..0x150])]);
        ctx.sample(|| J::obj().set("file", J::s(format!("type {:02X}, ROM code {:02X} ({} bytes declared), file {} bytes shorter", ty, rc, declared, cut))));
        match load_like_main(&path) {
          Err(_) => {
            ctx.count(1, 1); // refused: not a loadable file, outside the statement
            ctx.class(cut);
          },
          Ok(mut core) => {
            ctx.count(2, 1);
            ctx.class(0x100 + cut);
            let m = &mut core.memory as *mut MemoryAreas;
            if ty != 0 {
              memory_write_byte(m, 0x2100, (banks - 1) as u8);
              if banks > 0x20 {
                memory_write_byte(m, 0x4100, ((banks - 1) >> 5) as u8);
              }
            }
            let mut acc = 0u64;
            for a in 0..=0xFFFFu32 {
              acc = acc.wrapping_add(memory_read_byte(m as *const MemoryAreas, a as u16) as u64);
              acc = acc.wrapping_add(memory_read_word(m, a as u16) as u64);
              ctx.count(0, 2);
            }
            std::hint::black_box(acc);
          },
        }
        let _ = std::fs::remove_file(&path);
      },
      |case, how| {
        let (ty, rc) = shapes[(case as usize) / cuts.len()];
        let cut = cuts[(case as usize) % cuts.len()];
        (
          format!("C11 cfg=file-shorter-than-declared regs=last-bank access=r region=romN kind={}", how),
          J::obj().set("case", J::obj().set("cart_type", J::s(format!("{:02X}", ty))).set("rom_code", J::s(format!("{:02X}", rc))).set("file_bytes_missing", J::u(cut)).set("what", J::s("file accepted by the loader, last ROM bank selected, every address read (byte and word)"))),
        )
      },
    );
    let c = rep.add_stage("short-files", "5 (controller, ROM size) shapes x files 1 .. 0x4000 bytes shorter than declared (9 lengths around page and bank boundaries): offered to the real loader; every accepted file swept over all 65536 addresses (byte and word reads) with the last bank selected", r);
    rep.cov("short_files_refused_by_loader", J::u(c[1]));
    rep.cov("short_files_accepted_and_swept", J::u(c[2]));
    totals[C_PERFORMED] += c[0];
  }

  // ------------------------------------------------------------ consistency, evidence
  for f in files.values() {
    let _ = std::fs::remove_file(f);
  }
  if totals[C_LOADFAIL] > 0 {
    rep.machinery_soft(format!("{} generated ROM file(s) were rejected by the loader", totals[C_LOADFAIL]));
  }
  for k in predicted_seen.iter() {
    if !confirmed.contains(k) {
      // cannot happen: only confirmed classes are ever skipped
      rep.machinery_error(format!("accesses were skipped under a class without a confirming worker death: {}", k));
    }
  }
  if stage2_crashes > 0 {
    rep.capped.push(format!("{} case(s) of the perform stages died in an access predicted safe; the remaining accesses of those cases were not executed", stage2_crashes));
  }
  let mut by_key = J::obj();
  for cls in 0..NCLS {
    for k4 in 0..4 {
      let n = totals[C_PRED_BASE + cls * 4 + k4];
      if n > 0 {
        by_key.put(pred_key(cls, k4), J::u(n));
      }
    }
  }
  rep.evaluations = totals[C_PERFORMED] + totals[C_PREDICTED];
  rep.cov("configurations", J::u(cfgs.len() as u64));
  rep.cov("configurations_rule", J::s(if thorough { "cart type {00,01,02,03,11,12,13} x ROM-size code {00..08,52,53,54} x RAM-size code {00..05}" } else { "cart type {00,01,02,03,11,12,13} x ROM-size code {00,04,08,54} x RAM-size code {00,01,02,03}" }));
  rep.cov("accesses_performed", J::u(totals[C_PERFORMED]));
  rep.cov("accesses_predicted_out_of_bounds_not_executed", J::u(totals[C_PREDICTED]));
  rep.cov("of_performed_register_setup_writes", J::u(totals[C_SETUP]));
  rep.cov("of_performed_although_formula_predicts_out_of_bounds", J::u(totals[C_UNCONFIRMED]));
  rep.cov("register_states_full_sweep", J::u(totals[C_STATES_SWEEP]));
  rep.cov("register_states_banked_windows", J::u(totals[C_STATES_WINDOWS]));
  rep.cov("register_states_edge_set", J::u(totals[C_STATES_EDGE]));
  rep.cov("word_wrap_checks", J::u(totals[C_WRAP]));
  rep.cov("predicted_oob_by_key", by_key);
  rep.cov(
    "confirming_cases",
    J::obj()
      .set("run", J::u(cc[C_CONFIRM_RUN] + confirm_crashes))
      .set("worker_died_as_predicted", J::u(confirmed.len() as u64))
      .set("worker_deaths", J::u(confirm_crashes))
      .set("not_applicable_predicted_safe", J::u(cc[C_CONFIRM_NA]))
      .set("survived_although_formula_predicts_out_of_bounds", J::u(cc[C_CONFIRM_SURVIVED]))
      .set("survived_classes_executed_not_skipped", J::Arr(survived_keys)),
  );
  rep.cov(
    "rule",
    J::s("evaluations = accesses performed on the real bus helpers + accesses predicted out of bounds (not executed); an outcome class is (configuration class = controller x ROM class x RAM class, region of the address, access kind, performed | predicted-out-of-bounds)"),
  );
  rep.finish()
}
