//! C01 (architectural effect) and C02 (machine cycles) of translated blocks vs the interpreter.
//! Stage (a): single-instruction blocks over complete operand classes (cpusweep).
//! Further stages (pairs, triples, long blocks) are added below.

use crate::checks::cpusweep;
use crate::util::json::J;
use crate::util::report::Report;

pub fn run(prop: &'static str, tier: &str) -> i32 {
  let mut rep = Report::new(prop, tier, "translation_validation");
  let n = cpusweep::stage_single(prop, &mut rep);
  rep.cov("programs", J::u(n));
  rep.cov("disagreements_checked", J::u(rep.violations.iter().map(|v| v.count).sum()));
  rep.finish()
}
