//! C01 (architectural effect) and C02 (machine cycles) of translated blocks vs the interpreter.
//! Stage (a): single-instruction blocks over complete operand classes (cpusweep).
//! Stage (b): two-instruction blocks `a; b; JP` for all ordered pairs of non-terminating
//!            encodings (thorough) / of one representative per emitter template (quick), and
//!            `a; t` for every terminator kind t — where host-flag and scratch-register
//!            interactions between consecutive templates show.
//! Stage (c): three-instruction blocks over the template representatives (thorough).
//! Stage (d): long blocks: one encoding repeated up to a whole 16 KiB bank.

use crate::checks::cpusweep::{self, block_diff};
use crate::jitstep::{BlockObs, JitWorld};
use crate::refm::r1::{self, Cpu};
use crate::util::json::J;
use crate::util::pool::{run_pool, Ctx, PoolOpts};
use crate::util::report::Report;
use crate::world::hex;

/// canonical encoding of an opcode: immediates chosen so that pointers land in WRAM
fn encode(op: u8, cb: Option<u8>) -> Vec<u8> {
  if let Some(c) = cb {
    return vec![0xCB, c];
  }
  let len = r1::info(op).map(|i| i.0).unwrap_or(1);
  match len {
    1 => vec![op],
    2 => {
      let imm = match op {
        0xE0 | 0xF0 => 0x85, // LDH: HRAM
        0x18 | 0x20 | 0x28 | 0x30 | 0x38 => 0x02,
        _ => 0x5A,
      };
      vec![op, imm]
    },
    _ => {
      let (lo, hi) = match op {
        0xC3 | 0xC2 | 0xCA | 0xD2 | 0xDA | 0xCD | 0xC4 | 0xCC | 0xD4 | 0xDC => (0x13, 0x02),
        0x31 => (0xE0, 0xDF), // LD SP,DFE0
        0x01 | 0x11 | 0x21 => (0x40, 0xC3),
        _ => (0xF5, 0xC0), // (a16) in WRAM
      };
      vec![op, lo, hi]
    },
  }
}

fn all_ops() -> (Vec<Vec<u8>>, Vec<Vec<u8>>) {
  let mut non_term = Vec::new();
  let mut term = Vec::new();
  for op in 0..=255u8 {
    if op == 0xCB {
      for c in 0..=255u8 {
        non_term.push(encode(op, Some(c)));
      }
      continue;
    }
    match r1::info(op) {
      None => {},
      Some(i) => {
        if i.3 { term.push(encode(op, None)) } else { non_term.push(encode(op, None)) }
      },
    }
  }
  (non_term, term)
}

/// one representative per emitter template and operand kind
fn representatives() -> Vec<Vec<u8>> {
  let mut v: Vec<Vec<u8>> = Vec::new();
  let ops: [u8; 68] = [
    0x00, 0x01, 0x31, 0x02, 0x1A, 0x22, 0x3A, 0x03, 0x33, 0x0B, 0x3B, 0x04, 0x3C, 0x34, 0x05, 0x3D, 0x35, 0x06, 0x3E, 0x36, 0x07, 0x0F, 0x17, 0x1F, 0x27, 0x2F, 0x37, 0x3F, 0x08, 0x09, 0x29, 0x39,
    0x41, 0x7C, 0x6F, 0x46, 0x7E, 0x70, 0x77, 0xC1, 0xF1, 0xC5, 0xF5, 0xE0, 0xF0, 0xE2, 0xF2, 0xEA, 0xFA, 0xE8, 0xF8, 0xF9, 0x80, 0x86, 0x8F, 0x8E, 0x90, 0x9E, 0x98, 0xA0, 0xA6, 0xA8, 0xB0, 0xB8, 0xBE, 0xC6, 0xCE,
    0xDE,
  ];
  for o in ops.iter() {
    v.push(encode(*o, None));
  }
  for o in [0xD6u8, 0xE6, 0xEE, 0xF6, 0xFE].iter() {
    v.push(encode(*o, None));
  }
  // CB: every rotate/shift kind on B and (HL); BIT/RES/SET on B, A and (HL), bits 0 and 7
  for y in 0..8u8 {
    v.push(vec![0xCB, y << 3]);
    v.push(vec![0xCB, (y << 3) | 6]);
  }
  for x in 1..4u8 {
    for bit in [0u8, 7].iter() {
      for z in [0u8, 7, 6].iter() {
        v.push(vec![0xCB, (x << 6) | (bit << 3) | z]);
      }
    }
  }
  v
}

const TERM: [u8; 3] = [0xC3, 0x13, 0x02];

/// register vectors: HL/BC/DE on WRAM, varied A and F
fn vectors(n: usize) -> Vec<Cpu> {
  let mut v = Vec::new();
  let fs = [0x00u8, 0xF0, 0x10, 0x80, 0x20, 0x40, 0x90, 0x60, 0x30, 0xC0, 0x50, 0xA0, 0x70, 0xE0, 0xB0, 0xD0];
  let aa = [0x00u8, 0xFF, 0x0F, 0x80, 0x99, 0x7F, 0x10, 0x01, 0xA5, 0x5A, 0x9A, 0x66, 0x3C, 0xC3, 0xF0, 0x08];
  for i in 0..n {
    let hl: u16 = if i % 4 == 3 { 0xFF90 } else { 0xC2F0 + (i as u16) * 3 };
    v.push(Cpu {
      a: aa[i % 16],
      f: fs[i % 16],
      b: 0x12 ^ (i as u8),
      c: 0x86 + (i as u8 & 1), // LD (C),A -> HRAM
      d: 0xC1,
      e: 0x30 + i as u8,
      h: (hl >> 8) as u8,
      l: hl as u8,
      sp: 0xDFF0 - (i as u16 & 3) * 2,
      pc: 0x0150,
    });
  }
  v
}

fn block_name(parts: &[&Vec<u8>]) -> String {
  parts.iter().map(|p| hex(p)).collect::<Vec<_>>().join(",")
}

fn obs_json(o: &BlockObs) -> J {
  J::obj()
    .set("af", J::s(format!("{:04X}", o.af & 0xffff)))
    .set("bc", J::s(format!("{:04X}", o.bc & 0xffff)))
    .set("de", J::s(format!("{:04X}", o.de & 0xffff)))
    .set("hl", J::s(format!("{:04X}", o.hl & 0xffff)))
    .set("sp", J::s(format!("{:04X}", o.sp & 0xffff)))
    .set("pc", J::s(format!("{:04X}", o.ip & 0xffff)))
    .set("cycles", J::u(o.cycles as u64))
    .set("status", J::u(o.status as u64))
    .set("refused", J::Bool(o.refused))
    .set("panic", J::s(o.panic_msg.as_str()))
    .set("writes", J::Arr(o.writes.iter().take(24).map(|(a, v)| J::s(format!("{:04X}<-{:02X}", a, v))).collect()))
}

/// run one block from several register vectors; report through ctx
fn eval_block(prop: &str, jw: &mut JitWorld, ctx: &mut Ctx, code: &[u8], at: u16, name: &str, kind: &str, vecs: &[Cpu], est_len: usize) {
  jw.unplant_all();
  jw.plant_bytes(at, code);
  for (vi, c0) in vecs.iter().enumerate() {
    let mut c = *c0;
    c.pc = at;
    // every other register vector enters the block the way the block after an interrupt
    // dispatch is entered: with five machine cycles already in the cycle register
    jw.entry_cycles = if vi % 2 == 1 { 5 } else { 0 };
    // the third and fourth of every four vectors meet an OAM DMA that has just been armed
    jw.dma_armed = vi % 4 >= 2;
    let oi = jw.run_interp_block(&c);
    jw.restore(&oi);
    let t0 = jw.total_translations;
    let oj = jw.run_jit_block(&c, est_len);
    jw.restore(&oj);
    ctx.count(0, 1);
    ctx.count(1, jw.total_translations - t0);
    ctx.class((((oi.af as u64) >> 4) & 0xf) | ((oi.cycles as u64 & 0xff) << 4) | ((oi.writes.len().min(7) as u64) << 12) | ((oi.refused as u64) << 15));
    let d = block_diff(&oi, &oj);
    for f in d.iter() {
      let is_cycles = *f == "cycles";
      if (prop == "C02") != is_cycles {
        continue;
      }
      let key = if is_cycles { format!("C02 {}={} jit={} interp={}", kind, name, oj.cycles, oi.cycles) } else { format!("C01 {}={} field={}", kind, name, f) };
      ctx.violation(&key, || {
        J::obj()
          .set("case", J::obj().set("block_bytes", J::s(hex(&code[..code.len().min(64)]))).set("block_len", J::u(code.len() as u64)).set("at", J::s(format!("{:04X}", at))).set("regs", J::s(format!("{:?}", c))).set("cycles_on_entry", J::u(if vi % 2 == 1 { 5 } else { 0 })).set("oam_dma_armed", J::Bool(vi % 4 >= 2)))
          .set("interpreter", obs_json(&oi))
          .set("translated", obs_json(&oj))
          .set("differing_fields", J::Arr(d.iter().map(|x| J::s(*x)).collect()))
      });
    }
  }
  jw.entry_cycles = 0;
  jw.dma_armed = false;
}

pub fn run(prop: &'static str, tier: &str) -> i32 {
  let mut rep = Report::new(prop, tier, "translation_validation");
  let thorough = rep.thorough();
  let mut programs = cpusweep::stage_single(prop, &mut rep);
  let mut evals = rep.evaluations;
  // opcodes already failing on their own: pair findings involving them are not reported again
  let bad_single: Vec<String> = rep.violations.iter().filter_map(|v| v.key.split("op=").nth(1).map(|s| s.split(' ').next().unwrap_or("").to_string())).collect();

  let (non_term, term) = all_ops();
  let reps = representatives();
  let firsts: Vec<Vec<u8>> = if thorough { non_term.clone() } else { reps.clone() };
  let seconds: Vec<Vec<u8>> = if thorough { non_term.clone() } else { reps.clone() };
  let n_vec = if thorough { 8 } else { 4 };
  let vecs = vectors(n_vec);

  // ---- stage (b): pairs
  {
    let nf = firsts.len() as u64;
    let ns = seconds.len() as u64 + term.len() as u64;
    let total = nf * ns;
    let opts = PoolOpts { chunk: 64, bitmap_bits: 1 << 16, samples_per_child: 1, workers: crate::util::pool::default_workers().min(8), ..PoolOpts::default() };
    let bad = bad_single.clone();
    let r = run_pool(
      total,
      &opts,
      |_| JitWorld::new(),
      |jw, case, ctx| {
        let a = &firsts[(case / ns) as usize];
        let j = (case % ns) as usize;
        let (b, is_term) = if j < seconds.len() { (&seconds[j], false) } else { (&term[j - seconds.len()], true) };
        let mut code = a.clone();
        code.extend_from_slice(b);
        if !is_term {
          code.extend_from_slice(&TERM);
        }
        let name = block_name(&[a, b]);
        let opn = |p: &Vec<u8>| if p[0] == 0xCB { format!("CB{:02X}", p[1]) } else { format!("{:02X}", p[0]) };
        if bad.contains(&opn(a)) || bad.contains(&opn(b)) {
          return;
        }
        ctx.sample(|| J::obj().set("block", J::s(format!("{}{}", name, if is_term { "" } else { ",C31302" }))).set("register_vectors", J::u(vecs.len() as u64)));
        eval_block(prop, jw, ctx, &code, 0x0150, &name, "pair", &vecs, 3);
      },
      |case, how| {
        let a = &firsts[(case / ns) as usize];
        let j = (case % ns) as usize;
        let b = if j < seconds.len() { &seconds[j] } else { &term[j - seconds.len()] };
        (format!("{} pair={} crash={}", prop, block_name(&[a, b]), how), J::obj().set("case", J::obj().set("pair", J::s(block_name(&[a, b])))))
      },
    );
    let space = if thorough {
      format!("all {} x {} ordered pairs of non-terminating encodings + every one x {} terminator kinds, {} register vectors each", nf, seconds.len(), term.len(), n_vec)
    } else {
      format!("{} x {} ordered pairs of emitter-template representatives + every one x {} terminator kinds, {} register vectors each", nf, seconds.len(), term.len(), n_vec)
    };
    let c = rep.add_stage("pair-blocks", &space, r);
    programs += total;
    evals += c[0];
  }
  // ---- stage (c): triples over representatives (thorough)
  if thorough {
    let n = reps.len() as u64;
    let total = n * n * n;
    let vec3 = vectors(2);
    let opts = PoolOpts { chunk: 256, bitmap_bits: 1 << 16, samples_per_child: 1, workers: crate::util::pool::default_workers().min(8), deadline: Some(std::time::Duration::from_secs(420)), ..PoolOpts::default() };
    let r = run_pool(
      total,
      &opts,
      |_| JitWorld::new(),
      |jw, case, ctx| {
        let a = &reps[(case / (n * n)) as usize];
        let b = &reps[((case / n) % n) as usize];
        let c3 = &reps[(case % n) as usize];
        let mut code = a.clone();
        code.extend_from_slice(b);
        code.extend_from_slice(c3);
        code.extend_from_slice(&TERM);
        let name = block_name(&[a, b, c3]);
        ctx.sample(|| J::obj().set("block", J::s(format!("{},C31302", name))));
        eval_block(prop, jw, ctx, &code, 0x0150, &name, "triple", &vec3, 4);
      },
      |case, how| (format!("{} triple-case={} crash={}", prop, case, how), J::obj().set("case", J::obj().set("triple_index", J::u(case)))),
    );
    let c = rep.add_stage("triple-blocks", &format!("all {}^3 ordered triples of emitter-template representatives, 2 register vectors each", n), r);
    programs += c[0] / 2;
    evals += c[0];
  }
  // ---- stage (d): long blocks
  {
    let ops: Vec<Vec<u8>> = vec![vec![0x00], vec![0x34], vec![0xC5], vec![0xC1], vec![0x3C], vec![0xCB, 0x16], vec![0x09], vec![0x2A]];
    let lens: Vec<usize> = if thorough { vec![1, 2, 255, 1000, 4000, 8000, 16000] } else { vec![1000, 8000] };
    let cases: Vec<(Vec<u8>, usize, u16)> = ops
      .iter()
      .flat_map(|o| {
        lens.iter().flat_map(move |l| {
          // in the switchable bank (room for 16 KiB) and in the fixed bank (ends at the 0x4000 boundary)
          vec![(o.clone(), *l, 0x4000u16), (o.clone(), *l, 0x0150u16)]
        })
      })
      .collect();
    let vec2 = vectors(2);
    let opts = PoolOpts { chunk: 1, bitmap_bits: 1 << 12, samples_per_child: 1, workers: 4, ..PoolOpts::default() };
    let r = run_pool(
      cases.len() as u64,
      &opts,
      |_| JitWorld::new(),
      |jw, case, ctx| {
        let (op, l, at) = &cases[case as usize];
        let room = if *at == 0x4000 { 0x3FF0 } else { 0x4000 - 0x0150 - 8 };
        let count = (*l).min(room / op.len());
        let mut code = Vec::with_capacity(count * op.len() + 3);
        for _ in 0..count {
          code.extend_from_slice(op);
        }
        code.extend_from_slice(&[0xC3, 0x50, 0x01]);
        let name = format!("{}x{}@{:04X}", hex(op), count, at);
        ctx.sample(|| J::obj().set("block", J::s(name.as_str())));
        eval_block(prop, jw, ctx, &code, *at, &name, "block", &vec2, count);
      },
      |case, how| {
        let (op, l, at) = &cases[case as usize];
        (format!("{} block={}x{}@{:04X} crash={}", prop, hex(op), l, at, how), J::obj().set("case", J::obj().set("op", J::s(hex(op))).set("repeat", J::u(*l as u64))))
      },
    );
    let c = rep.add_stage("long-blocks", "one encoding repeated up to a whole bank (block sums up to 65 524 machine cycles), at 0x4000 and at 0x0150 (ends at the fixed-bank boundary)", r);
    programs += cases.len() as u64;
    evals += c[0];
  }
  // ---- stage (e): banked placements — every encoding placed on and around the boundary
  // between the fixed bank and the switchable bank of a real MBC1 cartridge with bank 2 or 3
  // mapped (bytes beyond 0x3FFF must be fetched from the mapped bank, not from bank 1)
  {
    let img = crate::world::make_image(0x03, 0x01, 0x02, 4, |b, o| ((o * 7) ^ (o >> 8) ^ (b * 0x55)) as u8);
    let image = crate::world::write_rom_file(&img);
    let mut blocks: Vec<Vec<u8>> = Vec::new();
    for p in non_term.iter() {
      let mut c = p.clone();
      c.extend_from_slice(&TERM);
      blocks.push(c);
    }
    for t in term.iter() {
      blocks.push(t.clone());
    }
    let places: [u16; 7] = [0x3FFA, 0x3FFD, 0x3FFE, 0x3FFF, 0x4000, 0x4001, 0x7FF8];
    let banks: [u8; 2] = [2, 3];
    let nb = blocks.len() as u64;
    let total = nb * places.len() as u64 * banks.len() as u64;
    let vec4 = vectors(if thorough { 4 } else { 2 });
    let opts = PoolOpts { chunk: 64, bitmap_bits: 1 << 16, samples_per_child: 1, workers: crate::util::pool::default_workers().min(8), ..PoolOpts::default() };
    let img_path = image.clone();
    let r = run_pool(
      total,
      &opts,
      |_| (JitWorld::new_banked(&img_path, 2), JitWorld::new_banked(&img_path, 3)),
      |ws, case, ctx| {
        let bi = (case % banks.len() as u64) as usize;
        let pi = ((case / banks.len() as u64) % places.len() as u64) as usize;
        let blk = &blocks[(case / (banks.len() as u64 * places.len() as u64)) as usize];
        let jw = if bi == 0 { &mut ws.0 } else { &mut ws.1 };
        let name = format!("{}@{:04X}/bank{}", hex(&blk[..blk.len().min(3)]), places[pi], banks[bi]);
        ctx.sample(|| J::obj().set("block", J::s(hex(blk))).set("placement", J::s(format!("{:04X}", places[pi]))).set("mapped_bank", J::u(banks[bi] as u64)));
        // key by opcode and placement class, not by bank
        let opn = if blk[0] == 0xCB { format!("CB{:02X}", blk[1]) } else { format!("{:02X}", blk[0]) };
        let cls = if places[pi] < 0x3FFD { "fixed->switchable" } else if places[pi] < 0x4000 { "straddles-3FFF/4000" } else { "switchable" };
        eval_block(prop, jw, ctx, blk, places[pi], &format!("{}@{}", opn, cls), "banked", &vec4, 3);
        let _ = name;
      },
      |case, how| (format!("{} banked-case={} crash={}", prop, case, how), J::obj().set("case", J::obj().set("banked_index", J::u(case)))),
    );
    let c = rep.add_stage("banked-placements", &format!("all {} single-instruction blocks x 7 placements around 0x3FFF/0x4000 and in the switchable bank x mapped bank 2|3 of a 4-bank MBC1 image whose banks differ everywhere", nb), r);
    programs += total;
    evals += c[0];
    let _ = std::fs::remove_file(&image);
  }
  // ---- stage (f): position in the block. Every template ends with `add r15, cycles`, whose
  // host flags (auxiliary carry when the running count crosses a multiple of 16, parity of its
  // low byte) are the only thing one guest instruction's template leaves behind for the next.
  // Each encoding is therefore also run behind k NOPs for every k that moves the running
  // cycle count through a full period of both, from both entry values of the cycle register
  // (0, and 5 after an interrupt dispatch: eval_block enters every other vector with 5).
  {
    let ks: Vec<usize> = if thorough { (1..=37).collect() } else { vec![10, 15, 16, 31] };
    let mut singles: Vec<Vec<u8>> = non_term.clone();
    singles.extend(term.iter().cloned());
    let ns = singles.len() as u64;
    let total = ns * ks.len() as u64;
    let vecp = vectors(if thorough { 8 } else { 4 });
    let opts = PoolOpts { chunk: 64, bitmap_bits: 1 << 16, samples_per_child: 1, workers: crate::util::pool::default_workers().min(8), ..PoolOpts::default() };
    let r = run_pool(
      total,
      &opts,
      |_| JitWorld::new(),
      |jw, case, ctx| {
        let op = &singles[(case % ns) as usize];
        let k = ks[(case / ns) as usize];
        let mut code = vec![0u8; k];
        code.extend_from_slice(op);
        if !(op[0] != 0xCB && r1::info(op[0]).map(|i| i.3).unwrap_or(true)) {
          code.extend_from_slice(&TERM);
        }
        let opn = if op[0] == 0xCB { format!("CB{:02X}", op[1]) } else { format!("{:02X}", op[0]) };
        ctx.sample(|| J::obj().set("block", J::s(format!("NOP x {} ; {}", k, hex(op)))));
        eval_block(prop, jw, ctx, &code, 0x0150, &format!("{}-after-{}-cycles", opn, k), "positioned", &vecp, k + 2);
      },
      |case, how| (format!("{} positioned-case={} crash={}", prop, case, how), J::obj().set("case", J::obj().set("index", J::u(case)))),
    );
    let c = rep.add_stage("cycle-position-prefixes", &format!("all {} single instructions behind k NOPs, k in {:?}", ns, ks), r);
    programs += total;
    evals += c[0];
  }
  // ---- stage (g): the shipping build. Everything above runs in the instrumented build (bus
  // recorder compiled in, opt-level 2, overflow checks). What translated code may assume about
  // the compiled helpers it calls — and what those helpers may assume about their arguments —
  // depends on how the helpers were compiled, so every single-instruction block is run again
  // in a hooks-off build with the repository's release settings, pointers in every region
  // class, under every pattern of stale host-register contents at block entry.
  {
    let r = shipping_stage(prop, tier, &mut rep);
    if let Some(r) = r {
      let total = r.cases_total;
      let c = rep.add_stage(
        "shipping-build",
        "hooks-off opt-level-3 build (separate process): all single-instruction blocks x 18 pointer-region vectors (SP/HL/BC/DE/C in fixed ROM, switchable ROM, VRAM, cart RAM, WRAM, echo, OAM, unused, HRAM, both ends) x {flat, MBC1} x 4 host-register patterns at block entry (as left by the caller, and 3 stale patterns injected into bits 16-63 of r12/r13 and all of rax, rbx, rcx, r10, r11, r14, r15), plus representative pairs",
        r,
      );
      programs += total;
      evals += c[0];
    }
  }
  // ---- stage (h): the outcome as the emulator's own dispatcher sees it.  The comparisons above
  // read the status code "modulo Core::run_code_block's interpretation" with a table written
  // here; this stage asks the real Core::run_code_block instead: in the jit build the same
  // bytes are run from ROM (translated) and from work RAM (interpreted) from the same state,
  // with every master-enable state and with requests pending, and everything Core makes of
  // the block (master enable, run state, dispatch, stack, IF, device time) must agree.
  if prop == "C01" {
    if let Some(r) = dispatcher_stage(&mut rep) {
      let total = r.cases_total;
      let c = rep.add_stage(
        "through-the-dispatcher",
        "jit build (separate process): {EI, DI, RETI, RET, HALT, STOP, NOP;JP, CALL, RST} behind 0..2 NOPs x master enable {off, on, enable-next} x (IF, IE) in {none, VBlank, timer, all, masked} : Core::run_code_block on the block in ROM (translated) and on the same bytes in work RAM (interpreted); master enable, run state, PC (relative to the block), SP, registers, IF, stack bytes, block cycle length and device time compared",
        r,
      );
      programs += total;
      evals += c[0];
    }
  }
  rep.evaluations = evals;
  rep.cov("programs", J::u(programs));
  rep.cov("disagreements_checked", J::u(rep.violations.iter().map(|v| v.count).sum()));
  rep.assume("pairs/triples use canonical immediates (pointers into WRAM/HRAM) and 2-8 register vectors; the complete operand spaces are covered per instruction in stage (a)");
  rep.finish()
}

// ---------------------------------------------------------------------------------------------
// stage (g): shipping build

const GARBAGE: [Option<u64>; 4] = [None, Some(0xFFFF_FFFF_FFFF_0000), Some(0xA5A5_5A5A_C3C3_0000), Some(0x0000_0000_0001_0000)];

/// pointers in every region class; all pointer registers of one vector share the class
fn region_vectors() -> Vec<Cpu> {
  let ps: [u16; 18] = [0x0010, 0x3FFE, 0x4020, 0x7FFE, 0x8010, 0x9FFE, 0xA010, 0xBFFE, 0xC100, 0xDFFE, 0xE010, 0xFDFE, 0xFE10, 0xFE9E, 0xFEA4, 0xFF80, 0xFFFD, 0xFFFF];
  let mut v = Vec::new();
  for (i, p) in ps.iter().enumerate() {
    let q = p.wrapping_add(4);
    v.push(Cpu {
      a: [0x00u8, 0xFF, 0x5A, 0x81][i % 4],
      f: [0x00u8, 0xF0, 0x10, 0x80][(i / 4) % 4],
      b: (*p >> 8) as u8,
      c: *p as u8,
      d: (q >> 8) as u8,
      e: q as u8,
      h: (*p >> 8) as u8,
      l: (*p as u8).wrapping_add(2),
      sp: *p,
      pc: 0x0150,
    });
  }
  v
}

fn shipping_cases() -> Vec<Vec<u8>> {
  let (non_term, term) = all_ops();
  let mut blocks: Vec<Vec<u8>> = Vec::new();
  for p in non_term.iter() {
    let mut c = p.clone();
    c.extend_from_slice(&TERM);
    blocks.push(c);
  }
  for t in term.iter() {
    blocks.push(t.clone());
  }
  // pairs of stack/pointer representatives: the second template sees what the first left in
  // the host registers
  let reps: Vec<Vec<u8>> = [0xC1u8, 0xC5, 0xF1, 0xF5, 0x33, 0x3B, 0xE8, 0xF8, 0xF9, 0x08, 0x39, 0x22, 0x3A, 0x34, 0x36, 0x46, 0x70, 0x86, 0x0A, 0x12, 0xE2, 0xF2, 0x31].iter().map(|o| encode(*o, None)).collect();
  for a in reps.iter() {
    for b in reps.iter() {
      let mut c = a.clone();
      c.extend_from_slice(b);
      c.extend_from_slice(&TERM);
      blocks.push(c);
    }
    for t in [0xC9u8, 0xD9, 0xCD, 0xC7, 0xE9, 0xC0, 0xC4].iter() {
      let mut c = a.clone();
      c.extend_from_slice(&encode(*t, None));
      blocks.push(c);
    }
  }
  blocks
}

/// worker entry (runs in the hooks-off build): `gbmc C01 --worker shipping <tier> <out.json>`
pub fn worker(prop: &'static str, args: &[String]) -> i32 {
  #[cfg(gb_dynarec_verif)]
  if !args.is_empty() && args[0] == "dispatcher" {
    return dispatcher_worker(args);
  }
  if args.len() < 3 || args[0] != "shipping" {
    eprintln!("{} worker: bad arguments {:?}", prop, args);
    return 2;
  }
  if crate::world::hooks_on() {
    eprintln!("{} worker: the shipping stage must run in the hooks-off build", prop);
    return 2;
  }
  let blocks = shipping_cases();
  let vecs = region_vectors();
  let img = crate::world::make_image(0x03, 0x01, 0x02, 4, |b, o| ((o * 7) ^ (o >> 8) ^ (b * 0x55)) as u8);
  let image = crate::world::write_rom_file(&img);
  let nb = blocks.len() as u64;
  let total = nb * 2 * GARBAGE.len() as u64;
  let opts = PoolOpts { chunk: 32, bitmap_bits: 1 << 16, samples_per_child: 1, workers: crate::util::pool::default_workers().min(6), ..PoolOpts::default() };
  let img_path = image.clone();
  let name_of = |blk: &Vec<u8>| -> String {
    // opcodes of the block without the closing JP
    let mut out = Vec::new();
    let mut i = 0;
    while i < blk.len() {
      let (n, l) = if blk[i] == 0xCB { (format!("CB{:02X}", blk[i + 1]), 2) } else { (format!("{:02X}", blk[i]), r1::info(blk[i]).map(|x| x.0).unwrap_or(1)) };
      out.push(n);
      i += l as usize;
    }
    if out.len() > 1 && out.last().map(|s| s == "C3").unwrap_or(false) {
      out.pop();
    }
    out.join("+")
  };
  let r = run_pool(
    total,
    &opts,
    |_| (JitWorld::new(), JitWorld::new_banked(&img_path, 2)),
    |ws, case, ctx| {
      let gi = (case % GARBAGE.len() as u64) as usize;
      let wi = ((case / GARBAGE.len() as u64) % 2) as usize;
      let blk = &blocks[(case / (2 * GARBAGE.len() as u64)) as usize];
      let jw = if wi == 0 { &mut ws.0 } else { &mut ws.1 };
      jw.host_garbage = GARBAGE[gi];
      let nm = name_of(blk);
      ctx.sample(|| J::obj().set("block", J::s(hex(blk))).set("world", J::s(if wi == 0 { "flat" } else { "mbc1" })).set("host_registers", J::s(match GARBAGE[gi] { None => "as left by the caller".to_string(), Some(g) => format!("{:016X}", g) })));
      // the key names the block and the pointer region, not the host pattern
      jw.unplant_all();
      jw.plant_bytes(0x0150, blk);
      for (vi, c0) in vecs.iter().enumerate() {
        let c = *c0;
        jw.entry_cycles = if vi % 2 == 1 { 5 } else { 0 };
        let oi = jw.run_interp_block(&c);
        jw.restore(&oi);
        let t0 = jw.total_translations;
        let g0 = jw.garbage_calls;
        let oj = jw.run_jit_block(&c, 3);
        jw.restore(&oj);
        ctx.count(0, 1);
        ctx.count(1, jw.total_translations - t0);
        ctx.count(2, (jw.garbage_calls - g0) as u64);
        ctx.class((((oi.af as u64) >> 4) & 0xf) | ((oi.cycles as u64 & 0xff) << 4) | ((oi.io_digest & 0x7) << 12) | ((oi.refused as u64) << 15));
        let d = block_diff(&oi, &oj);
        for f in d.iter() {
          let is_cycles = *f == "cycles";
          if (prop == "C02") != is_cycles {
            continue;
          }
          let fname = if *f == "device-state" { "memory-or-device-state" } else { *f };
          let key = if is_cycles { format!("C02 shipping-build block={} ptr={:04X} jit={} interp={}", nm, c.sp, oj.cycles, oi.cycles) } else { { let _ = fname; format!("C01 shipping-build block={} ptr-region={:X}xxx", nm, c.sp >> 12) } };
          ctx.violation(&key, || {
            J::obj()
              .set("case", J::obj().set("block_bytes", J::s(hex(blk))).set("at", J::s("0150")).set("world", J::s(if wi == 0 { "flat" } else { "mbc1" })).set("host_register_pattern", J::s(format!("{:?}", GARBAGE[gi]))).set("regs", J::s(format!("{:?}", c))))
              .set("build", J::s("hooks off, opt-level 3, no overflow checks (the repository's release settings)"))
              .set("interpreter", obs_json(&oi))
              .set("translated", obs_json(&oj))
              .set("differing_fields", J::Arr(d.iter().map(|x| J::s(*x)).collect()))
          });
        }
      }
    },
    |case, how| {
      let gi = (case % GARBAGE.len() as u64) as usize;
      let wi = ((case / GARBAGE.len() as u64) % 2) as usize;
      let blk = &blocks[(case / (2 * GARBAGE.len() as u64)) as usize];
      (
        format!("{} shipping-build block={} crash={}", prop, name_of(blk), how),
        J::obj().set("case", J::obj().set("block_bytes", J::s(hex(blk))).set("world", J::s(if wi == 0 { "flat" } else { "mbc1" })).set("host_register_pattern", J::s(format!("{:?}", GARBAGE[gi])))).set("build", J::s("hooks off, opt-level 3")),
      )
    },
  );
  let _ = std::fs::remove_file(&image);
  let meta = r.to_json();
  if std::fs::write(&args[2], meta.to_string()).is_err() {
    return 2;
  }
  0
}

/// parent side: run the worker in the hooks-off build and fold its result in as a stage
fn shipping_stage(prop: &str, tier: &str, rep: &mut Report) -> Option<crate::util::pool::PoolResult> {
  if std::env::var("GBMC_CHILD_OUT").is_ok() || std::env::var("GBMC_FAST").is_ok() {
    return None; // this is itself a rerun in another build profile; the parent runs stage (g)
  }
  let bin = match std::env::var("GBMC_PLAIN_BIN") {
    Ok(b) => b,
    Err(_) => {
      rep.machinery_error("GBMC_PLAIN_BIN not set (run through bin/check)".to_string());
      return None;
    },
  };
  let out = format!("{}/shipping_{}.json", crate::util::pool::tmp_dir(), prop);
  let st = std::process::Command::new(&bin).args(&[prop, "--worker", "shipping", tier, &out]).status();
  match st {
    Ok(s) if s.success() => {},
    Ok(s) => {
      rep.machinery_error(format!("shipping-build worker failed: {:?}", s));
      return None;
    },
    Err(e) => {
      rep.machinery_error(format!("cannot start shipping-build worker {}: {}", bin, e));
      return None;
    },
  }
  let m = match crate::progrun::parse_json_file(&out) {
    Ok(m) => m,
    Err(e) => {
      rep.machinery_error(format!("shipping-build worker result: {}", e));
      return None;
    },
  };
  let _ = std::fs::remove_file(&out);
  let r = crate::util::pool::PoolResult::from_json(&m, "shipping-build worker");
  if r.counters[2] * 4 != r.counters[0] * 3 {
    rep.machinery_error(format!("shipping-build worker: {} of {} block runs entered with injected host registers, expected 3 in 4 (prologue not located?)", r.counters[2], r.counters[0]));
  }
  if r.cases_total == 0 {
    rep.machinery_error("shipping-build worker reported no cases".to_string());
    return None;
  }
  Some(r)
}

// ---------------------------------------------------------------------------------------------
// stage (h): through Core::run_code_block, ROM (translated) vs work RAM (interpreted)

const DISP_OPS: [(&str, &[u8]); 10] = [
  ("EI", &[0xFB]),
  ("DI", &[0xF3]),
  ("RETI", &[0xD9]),
  ("RET", &[0xC9]),
  ("HALT", &[0x76]),
  ("STOP", &[0x10, 0x00]),
  ("NOP;JP", &[0x00, 0xC3, 0x00, 0x02]),
  ("CALL", &[0xCD, 0x00, 0x02]),
  ("RST 28", &[0xEF]),
  ("EI;RETI", &[0xFB, 0xD9]),
];
const DISP_IRQ: [(u8, u8); 5] = [(0x00, 0x00), (0x01, 0x01), (0x04, 0x04), (0x1F, 0x1F), (0x03, 0x04)];

#[derive(PartialEq, Debug, Clone)]
struct DispObs {
  ime: u8,
  run: u8,
  pc: String,
  sp: u16,
  af: u16,
  bc: u16,
  de: u16,
  hl: u16,
  iflag: u8,
  ie: u8,
  stack: Vec<String>,
  block_cycles: usize,
  left_cycles: u32,
  div_clocks: u32,
}

#[cfg(gb_dynarec_verif)]
fn dispatcher_case(core: &mut crate::emulator::Core, case: u64, ctx: &mut Ctx) {
  use crate::cpustep::{peek_raw, poke_raw};
  use crate::emulator::{InterruptState, RunState};
  let oi = (case % DISP_OPS.len() as u64) as usize;
  let nops = ((case / DISP_OPS.len() as u64) % 3) as usize;
  let ime = ((case / DISP_OPS.len() as u64 / 3) % 3) as u8;
  let (iflag, ie) = DISP_IRQ[(case / DISP_OPS.len() as u64 / 9) as usize];
  let (name, op) = DISP_OPS[oi];
  let mut code = vec![0u8; nops];
  code.extend_from_slice(op);
  code.extend_from_slice(&[0x76]); // whatever the block does not end on runs into a HALT
  let rel = |v: u16, base: u16| -> String {
    if v >= base && v < base + 16 { format!("block+{}", v - base) } else { format!("{:04X}", v) }
  };
  let mut obs: Vec<DispObs> = Vec::new();
  // the ROM bytes at 0x0150 change from case to case (a harness artefact: real ROM does not),
  // so the translations made for the previous case must go
  crate::progrun::drop_cache(core);
  for base in [0x0150u16, 0xC800].iter() {
    core.memory.io = crate::devices::io::IO::new();
    core.memory.oam_dma = None;
    for (i, b) in code.iter().enumerate() {
      poke_raw(&mut core.memory, base + i as u16, *b);
    }
    // a return address on the stack for RET / RETI, and a marker below it
    for (a, v) in [(0xDFF0u16, 0x34u8), (0xDFF1, 0x12), (0xDFEE, 0xAA), (0xDFEF, 0xBB), (0xDFEC, 0xCC), (0xDFED, 0xDD)].iter() {
      poke_raw(&mut core.memory, *a, *v);
    }
    core.registers.af = 0x1230;
    core.registers.bc = 0x4567;
    core.registers.de = 0x89AB;
    core.registers.hl = 0xC0DE;
    core.registers.sp = 0xDFF0;
    core.registers.ip = *base as u32;
    core.registers.cycles = 0;
    core.run_state = RunState::Run;
    core.interrupts_enabled = match ime {
      0 => InterruptState::Disabled,
      1 => InterruptState::Enabled,
      _ => InterruptState::EnableNext,
    };
    let m = &mut core.memory as *mut crate::mem::MemoryAreas;
    crate::mem::memory_write_byte(m, 0xFFFF, ie);
    crate::mem::memory_write_byte(m, 0xFF0F, iflag);
    let t0 = core.memory.io.timer.verif_cycle_count();
    core.run_code_block();
    let t1 = core.memory.io.timer.verif_cycle_count();
    let sp = { core.registers.sp } as u16;
    let mut stack = Vec::new();
    for k in 0..3u16 {
      let a = 0xDFECu16 + 2 * k;
      let w = peek_raw(&core.memory, a) as u16 | ((peek_raw(&core.memory, a + 1) as u16) << 8);
      stack.push(rel(w, *base));
    }
    obs.push(DispObs {
      ime: crate::world::ime_code(&core.interrupts_enabled),
      run: crate::world::run_code(&core.run_state),
      pc: rel({ core.registers.ip } as u16, *base),
      sp,
      af: { core.registers.af } as u16,
      bc: { core.registers.bc } as u16,
      de: { core.registers.de } as u16,
      hl: { core.registers.hl } as u16,
      iflag: crate::mem::memory_read_byte(m as *const crate::mem::MemoryAreas, 0xFF0F) & 0x1F,
      ie: crate::mem::memory_read_byte(m as *const crate::mem::MemoryAreas, 0xFFFF),
      stack,
      block_cycles: core.last_block_cycle_length,
      left_cycles: { core.registers.cycles },
      div_clocks: t1.wrapping_sub(t0) & 0xFFFF,
    });
  }
  ctx.count(0, 2);
  ctx.class(((oi as u64) << 8) | ((obs[1].ime as u64) << 6) | ((obs[1].run as u64) << 4) | ((obs[1].left_cycles == 5) as u64) << 3 | ime as u64);
  ctx.sample(|| J::obj().set("block", J::s(format!("{} NOP; {}", nops, name))).set("master_enable_before", J::u(ime as u64)).set("if", J::u(iflag as u64)).set("ie", J::u(ie as u64)));
  if obs[0] != obs[1] {
    let a = format!("{:?}", obs[0]);
    let b = format!("{:?}", obs[1]);
    let field = if obs[0].ime != obs[1].ime { "interrupt-enable" } else if obs[0].run != obs[1].run { "run-state" } else if obs[0].pc != obs[1].pc { "pc" } else if obs[0].sp != obs[1].sp { "sp" } else if obs[0].block_cycles != obs[1].block_cycles || obs[0].div_clocks != obs[1].div_clocks { "time" } else { "state" };
    ctx.violation(&format!("C01 dispatcher op={} field={}", name.replace(' ', ""), field), || {
      J::obj()
        .set("case", J::obj().set("block", J::s(hex(&code))).set("nops_before", J::u(nops as u64)).set("master_enable_before", J::s(["disabled", "enabled", "enable-next"][ime as usize])).set("if", J::u(iflag as u64)).set("ie", J::u(ie as u64)).set("how", J::s("Core::run_code_block on the block at 0x0150 (translated) and at 0xC800 (interpreted), same registers, SP=DFF0 with 0x1234 on the stack")))
        .set("translated", J::s(a.as_str()))
        .set("interpreted", J::s(b.as_str()))
    });
  }
}

/// worker entry (jit build): `gbmc C01 --worker dispatcher <out.json>`
#[cfg(gb_dynarec_verif)]
pub fn dispatcher_worker(args: &[String]) -> i32 {
  if args.len() < 2 {
    return 2;
  }
  if !cfg!(feature = "jit") {
    eprintln!("C01 dispatcher worker must run in the jit build");
    return 2;
  }
  let total = (DISP_OPS.len() * 3 * 3 * DISP_IRQ.len()) as u64;
  let opts = PoolOpts { chunk: 8, bitmap_bits: 1 << 12, samples_per_child: 1, workers: 4, ..PoolOpts::default() };
  let r = run_pool(
    total,
    &opts,
    |_| {
      let mut rom = vec![0u8; 0x8000];
      rom[0x100..0x150].copy_from_slice(&crate::world::header_bytes(0x00, 0x00, 0x00)[0x100..0x150]);
      rom[0x0200] = 0x76; // JP / CALL target: HALT
      rom[0x0028] = 0x76; // RST 28 target
      rom[0x1234] = 0x76; // RET / RETI target
      for v in [0x40usize, 0x48, 0x50, 0x58, 0x60].iter() {
        rom[*v] = 0x76;
      }
      crate::world::flat_core(rom)
    },
    |core, case, ctx| dispatcher_case(core, case, ctx),
    |case, how| (format!("C01 dispatcher crash={}", how), J::obj().set("case", J::u(case))),
  );
  if std::fs::write(&args[1], r.to_json().to_string()).is_err() {
    return 2;
  }
  0
}

fn dispatcher_stage(rep: &mut Report) -> Option<crate::util::pool::PoolResult> {
  if std::env::var("GBMC_CHILD_OUT").is_ok() && std::env::var("GBMC_JIT_BIN").is_err() {
    return None;
  }
  let bin = match std::env::var("GBMC_JIT_BIN") {
    Ok(b) => b,
    Err(_) => {
      rep.machinery_error("GBMC_JIT_BIN not set (run through bin/check)".to_string());
      return None;
    },
  };
  let out = format!("{}/c01_dispatcher.json", crate::util::pool::tmp_dir());
  match std::process::Command::new(&bin).args(&["C01", "--worker", "dispatcher", &out]).status() {
    Ok(s) if s.success() => {},
    Ok(s) => {
      rep.machinery_error(format!("dispatcher worker failed: {:?}", s));
      return None;
    },
    Err(e) => {
      rep.machinery_error(format!("cannot start dispatcher worker {}: {}", bin, e));
      return None;
    },
  }
  let m = match crate::progrun::parse_json_file(&out) {
    Ok(m) => m,
    Err(e) => {
      rep.machinery_error(format!("dispatcher worker result: {}", e));
      return None;
    },
  };
  let _ = std::fs::remove_file(&out);
  let r = crate::util::pool::PoolResult::from_json(&m, "dispatcher worker");
  if r.cases_total == 0 || r.cases_done != r.cases_total {
    rep.machinery_error(format!("dispatcher worker covered {} of {} cases", r.cases_done, r.cases_total));
    return None;
  }
  Some(r)
}
