//! C18 — serial transfers appear on standard output in order.
//! E2a + E3 + E2E: every sequence up to a length bound over writes to SB (0xFF01) and SC
//! (0xFF02) with a small value alphabet, issued through three store forms, is compiled into
//! ROM programs (chained by JP, several hundred per image) and run on a real Core in the
//! non-jit and in the jit build with file descriptor 1 redirected to a file.  The captured
//! bytes must equal R8's prediction exactly: SB at each SC write that has bit 7 set, in
//! program order, and nothing else.  A subset runs through the real executables.

use crate::gen;
use crate::progrun;
use crate::util::json::J;
use crate::util::pool::{run_pool, Ctx, PoolOpts, PoolResult};
use crate::util::report::Report;
use crate::world;

/// (is SC write, value)
const LETTERS: [(bool, u8); 10] = [(false, 0x00), (false, 0x41), (false, 0x80), (false, 0xFF), (true, 0x00), (true, 0x01), (true, 0x7F), (true, 0x80), (true, 0x81), (true, 0xFF)];
const FORMS: usize = 6;
const GROUP: u64 = 200;

fn letter_name(i: usize) -> String {
  let (sc, v) = LETTERS[i];
  format!("{}<-{:02X}", if sc { "SC" } else { "SB" }, v)
}

fn form_name(f: usize) -> &'static str {
  ["LDH (n),A", "LD (C),A", "LD (HL),A", "LD (a16),A", "LD (HL),n", "SET 7,(HL) for SC starts"][f]
}

fn emit_write(out: &mut Vec<u8>, form: usize, sc: bool, v: u8) {
  let reg = if sc { 0x02 } else { 0x01 };
  if form == 5 && sc && v & 0x80 != 0 {
    // a read-modify-write store: whatever SC reads as, the byte written back has bit 7 set,
    // so a transfer starts (the value itself is not observable: no read side)
    out.extend_from_slice(&[0x21, reg, 0xFF, 0xCB, 0xFE]);
    return;
  }
  out.extend_from_slice(&[0x3E, v]);
  match form {
    0 | 5 => out.extend_from_slice(&[0xE0, reg]),
    1 => out.extend_from_slice(&[0x0E, reg, 0xE2]),
    2 => out.extend_from_slice(&[0x21, reg, 0xFF, 0x77]),
    3 => out.extend_from_slice(&[0xEA, reg, 0xFF]),
    _ => out.extend_from_slice(&[0x21, reg, 0xFF, 0x36, v]),
  }
}

pub fn depth_for(tier: &str) -> usize {
  if tier == "quick" { 3 } else { 5 }
}

/// program index -> (form, sequence)
fn program(depth: usize, index: u64) -> (usize, Vec<usize>) {
  let per_form = gen::count_sequences(LETTERS.len(), depth);
  let form = (index / per_form) as usize;
  let seq = gen::nth_sequence(LETTERS.len(), depth, index % per_form).unwrap();
  (form, seq)
}

pub fn total_programs(depth: usize) -> u64 {
  gen::count_sequences(LETTERS.len(), depth) * FORMS as u64
}

/// code for programs [first, last) chained from 0x0150, ending in HALT loop; plus expected
/// output and the output offset at which each program starts (for attribution)
fn build_group(depth: usize, first: u64, last: u64, sb0: u8) -> (Vec<u8>, Vec<u8>, Vec<usize>) {
  let mut code: Vec<u8> = vec![0xF3]; // DI
  let mut out: Vec<u8> = Vec::new();
  let mut starts: Vec<usize> = Vec::new();
  let mut sb = sb0;
  for idx in first..last {
    let (form, seq) = program(depth, idx);
    starts.push(out.len());
    for l in seq.iter() {
      let (sc, v) = LETTERS[*l];
      emit_write(&mut code, form, sc, v);
      if sc {
        if v & 0x80 != 0 {
          out.push(sb);
        }
      } else {
        sb = v;
      }
    }
    // every program is its own block: JP to the next one
    let next = 0x0150 + code.len() + 3;
    code.extend_from_slice(&[0xC3, (next & 0xff) as u8, (next >> 8) as u8]);
  }
  code.extend_from_slice(&gen::EPILOGUE);
  (code, out, starts)
}

fn rom_only_image() -> Vec<u8> {
  let mut img = vec![0u8; 0x8000];
  let h = world::header_bytes(0x00, 0x00, 0x00);
  img[0x100..0x150].copy_from_slice(&h[0x100..0x150]);
  img
}

struct Cap {
  fd: i32,
  path: String,
}

fn capture_begin(slot: usize) -> Cap {
  let path = format!("{}/c18_stdout_{}_{}.bin", crate::util::pool::tmp_dir(), unsafe { libc::getpid() }, slot);
  let cpath = std::ffi::CString::new(path.clone()).unwrap();
  let fd = unsafe { libc::open(cpath.as_ptr(), libc::O_CREAT | libc::O_RDWR | libc::O_TRUNC, 0o644) };
  unsafe {
    libc::dup2(fd, 1);
  }
  Cap { fd, path }
}

fn capture_reset(c: &Cap) {
  use std::io::Write;
  let _ = std::io::stdout().flush();
  unsafe {
    libc::ftruncate(c.fd, 0);
    libc::lseek(c.fd, 0, libc::SEEK_SET);
    libc::lseek(1, 0, libc::SEEK_SET);
  }
}

fn capture_read(c: &Cap) -> Vec<u8> {
  use std::io::Write;
  let _ = std::io::stdout().flush();
  std::fs::read(&c.path).unwrap_or_default()
}

fn run_group(image: &str, depth: usize, case: u64, cap: &Cap, ctx: &mut Ctx) {
  let total = total_programs(depth);
  let first = case * GROUP;
  let last = (first + GROUP).min(total);
  let (code, want, starts) = build_group(depth, first, last, 0);
  assert!(0x150 + code.len() < 0x4000, "group does not fit bank 0");
  let mut core = progrun::fresh_core(image).expect("image loads");
  progrun::patch_program(&mut core, gen::PROG_ORG, &code);
  capture_reset(cap);
  let mut steps = 0u64;
  while core.run_state == crate::emulator::RunState::Run && steps < 4 * GROUP + 64 {
    progrun::step(&mut core);
    steps += 1;
  }
  // a few halted ticks: nothing may appear while the CPU sleeps
  for _ in 0..16 {
    progrun::step(&mut core);
  }
  let got = capture_read(cap);
  ctx.count(0, last - first);
  ctx.count(1, want.len() as u64);
  ctx.class(want.len() as u64 & 0xfff);
  ctx.sample(|| {
    let (f, s) = program(depth, first + 1);
    J::obj().set("program", J::s(s.iter().map(|i| letter_name(*i)).collect::<Vec<_>>().join(";"))).set("store_form", J::s(form_name(f))).set("programs_in_group", J::u(last - first))
  });
  if got != want {
    // attribute to the first program whose output window differs
    let mut pos = 0usize;
    while pos < got.len() && pos < want.len() && got[pos] == want[pos] {
      pos += 1;
    }
    let mut pi = 0usize;
    for (i, s) in starts.iter().enumerate() {
      if *s <= pos {
        pi = i;
      }
    }
    let (form, seq) = program(depth, first + pi as u64);
    let kind = if got.len() > want.len() && got[..want.len()] == want[..] {
      "extra-bytes-at-end"
    } else if got.len() < want.len() && want[..got.len()] == got[..] {
      "missing-bytes"
    } else {
      "wrong-bytes"
    };
    let text: String = got.iter().skip(pos).take(48).map(|b| if (0x20..0x7f).contains(b) { *b as char } else { '.' }).collect();
    // diagnostics of the cache are a different root cause from a wrong serial byte
    let cause = if text.contains("Running out") { "cache-diagnostic-on-stdout" } else { kind };
    ctx.violation(&format!("C18 build={} form={} kind={}", progrun::this_build(), form_name(form).replace(' ', ""), cause), || {
      J::obj()
        .set("case", J::obj().set("program", J::s(seq.iter().map(|i| letter_name(*i)).collect::<Vec<_>>().join(";"))).set("store_form", J::s(form_name(form))).set("group_first_program", J::u(first)).set("depth", J::u(depth as u64)))
        .set("expected_len", J::u(want.len() as u64))
        .set("observed_len", J::u(got.len() as u64))
        .set("first_difference_at", J::u(pos as u64))
        .set("expected_from_there", J::s(world::hex(&want[pos.min(want.len())..(pos + 16).min(want.len())])))
        .set("observed_from_there", J::s(world::hex(&got[pos.min(got.len())..(pos + 16).min(got.len())])))
        .set("observed_text", J::s(text.as_str()))
    });
  }
}

pub fn run_build(image: &str, tier: &str, workers: usize) -> PoolResult {
  let depth = depth_for(tier);
  let total = total_programs(depth);
  let cases = (total + GROUP - 1) / GROUP;
  let opts = PoolOpts { workers, chunk: 1, bitmap_bits: 1 << 12, samples_per_child: 1, quiet_stdout: false, ..PoolOpts::default() };
  let img = image.to_string();
  run_pool(
    cases,
    &opts,
    |slot| capture_begin(slot),
    |cap, case, ctx| run_group(&img, depth, case, cap, ctx),
    |case, how| (format!("C18 build={} crash={}", progrun::this_build(), how), J::obj().set("case", J::obj().set("group", J::u(case)))),
  )
}

/// the cache-exhaustion program: a 0x3000-byte NOP sled ending in JP, entered at 96
/// successive addresses: every entry translates the remaining sled again (the cache has no
/// eviction), and whatever the emulator prints about it lands on the guest's output stream
fn exhaustion_program() -> (Vec<u8>, Vec<u8>) {
  // at 0x0150: LD A,'X'; LDH (01),A; LD A,81; LDH (02),A; then a chain of JP into the sled
  let mut code: Vec<u8> = vec![0xF3, 0x3E, 0x58, 0xE0, 0x01, 0x3E, 0x81, 0xE0, 0x02];
  let n_entries = 96usize;
  let table_at = 0x0150 + code.len() + 3;
  // JP first entry stub
  code.extend_from_slice(&[0xC3, (table_at & 0xff) as u8, (table_at >> 8) as u8]);
  // stubs: k-th stub = LD HL,ret_k ; JP sled+k  (the sled ends with JP (HL))
  let sled = 0x0800usize;
  let sled_len = 0x3000usize;
  for k in 0..n_entries {
    let ret = table_at + (k + 1) * 6;
    let entry = sled + k;
    code.extend_from_slice(&[0x21, (ret & 0xff) as u8, (ret >> 8) as u8, 0xC3, (entry & 0xff) as u8, (entry >> 8) as u8]);
  }
  // final: output 'Y' then halt loop
  code.extend_from_slice(&[0x3E, 0x59, 0xE0, 0x01, 0x3E, 0x81, 0xE0, 0x02]);
  code.extend_from_slice(&gen::EPILOGUE);
  let mut rom_tail = vec![0u8; sled_len];
  rom_tail[sled_len - 1] = 0xE9; // JP (HL)
  let _ = rom_tail;
  (code, vec![0x58, 0x59])
}

fn run_exhaustion(image: &str, cap: &Cap, ctx: &mut Ctx) {
  let (code, want) = exhaustion_program();
  let mut core = progrun::fresh_core(image).expect("image loads");
  progrun::patch_program(&mut core, gen::PROG_ORG, &code);
  // the sled itself: 0x0800..0x37FE NOPs (image is zero there), JP (HL) at the end
  core.memory.rom[0x0800 + 0x3000 - 1] = 0xE9;
  capture_reset(cap);
  let mut steps = 0u64;
  let r = std::panic::catch_unwind(std::panic::AssertUnwindSafe(|| {
    while core.run_state == crate::emulator::RunState::Run && steps < 1000 {
      progrun::step(&mut core);
      steps += 1;
    }
  }));
  let got = capture_read(cap);
  ctx.count(2, 1);
  if let Err(e) = r {
    let msg = crate::jitstep::panic_text(e);
    ctx.violation(&format!("C18 build={} program=cache-exhaustion kind=panic", progrun::this_build()), || {
      J::obj().set("case", J::obj().set("program", J::s("96 entries into a 12 KiB NOP sled"))).set("panic", J::s(msg.as_str())).set("steps", J::u(steps))
    });
    return;
  }
  if got != want {
    let text: String = got.iter().take(80).map(|b| if (0x20..0x7f).contains(b) { *b as char } else { '.' }).collect();
    ctx.violation(&format!("C18 build={} program=cache-exhaustion kind=extra-output", progrun::this_build()), || {
      J::obj().set("case", J::obj().set("program", J::s("96 entries into a 12 KiB NOP sled"))).set("expected", J::s("XY")).set("observed_text", J::s(text.as_str())).set("observed_len", J::u(got.len() as u64))
    });
  }
}

pub fn run_exhaustion_pool(image: &str) -> PoolResult {
  let opts = PoolOpts { workers: 1, chunk: 1, bitmap_bits: 64, samples_per_child: 0, quiet_stdout: false, ..PoolOpts::default() };
  let img = image.to_string();
  run_pool(
    1,
    &opts,
    |slot| capture_begin(slot),
    |cap, _case, ctx| run_exhaustion(&img, cap, ctx),
    |_case, how| (format!("C18 build={} program=cache-exhaustion kind=crash={}", progrun::this_build(), how), J::obj().set("case", J::obj().set("program", J::s("96 entries into a 12 KiB NOP sled")))),
  )
}


/// burst programs: N transfers inside ONE straight-line block (a single device catch-up in the
/// block-stepped configurations), N up to several hundred, three store forms
const BURSTS: [usize; 14] = [1, 2, 15, 16, 17, 18, 31, 32, 33, 64, 65, 128, 255, 300];

fn burst_code(n: usize, form: usize) -> (Vec<u8>, Vec<u8>) {
  let mut code: Vec<u8> = vec![0xF3];
  let mut want = Vec::new();
  for i in 0..n {
    let v = 0x21 + (i % 94) as u8;
    emit_write(&mut code, form, false, v);
    emit_write(&mut code, form, true, 0x81);
    want.push(v);
  }
  code.extend_from_slice(&gen::EPILOGUE);
  (code, want)
}

fn run_burst(image: &str, case: u64, cap: &Cap, ctx: &mut Ctx) {
  let n = BURSTS[(case as usize) % BURSTS.len()];
  let form = (case as usize) / BURSTS.len();
  let (code, want) = burst_code(n, form);
  let mut core = progrun::fresh_core(image).expect("image loads");
  progrun::patch_program(&mut core, gen::PROG_ORG, &code);
  capture_reset(cap);
  let mut steps = 0;
  while core.run_state == crate::emulator::RunState::Run && steps < 4 * n + 64 {
    progrun::step(&mut core);
    steps += 1;
  }
  for _ in 0..16 {
    progrun::step(&mut core);
  }
  let got = capture_read(cap);
  ctx.count(0, 1);
  ctx.count(1, want.len() as u64);
  ctx.class(0x800 | n as u64);
  if got != want {
    let mut pos = 0usize;
    while pos < got.len() && pos < want.len() && got[pos] == want[pos] {
      pos += 1;
    }
    let kind = if got.len() < want.len() { "missing-bytes" } else if got.len() > want.len() { "extra-bytes" } else { "wrong-bytes" };
    ctx.violation(&format!("C18 build={} burst form={} kind={}", progrun::this_build(), form_name(form).replace(' ', ""), kind), || {
      J::obj()
        .set("case", J::obj().set("transfers_in_one_block", J::u(n as u64)).set("store_form", J::s(form_name(form))))
        .set("expected_len", J::u(want.len() as u64))
        .set("observed_len", J::u(got.len() as u64))
        .set("first_difference_at", J::u(pos as u64))
    });
  }
}

/// other device activity going on while the guest transfers bytes: nothing but the serial
/// registers may decide what appears on the output
const ACTIVITY: [(&str, &[u8]); 5] = [
  ("oam-dma-started", &[0x3E, 0xC1, 0xE0, 0x46]),
  ("lcd-on", &[0x3E, 0x91, 0xE0, 0x40]),
  ("timer-on", &[0x3E, 0x05, 0xE0, 0x07]),
  ("dma+lcd+timer", &[0x3E, 0x91, 0xE0, 0x40, 0x3E, 0x05, 0xE0, 0x07, 0x3E, 0xC1, 0xE0, 0x46]),
  ("ie-all-if-all", &[0x3E, 0x1F, 0xE0, 0xFF, 0xE0, 0x0F]),
];

/// case = activity x store form: every sequence of length <= 2 over the 10 SB/SC writes, each
/// program preceded by the activity's set-up code (so a transfer is in flight / the display
/// is running / the timer counts while the serial registers are written)
fn run_activity(image: &str, case: u64, cap: &Cap, ctx: &mut Ctx) {
  let act = (case as usize) / FORMS;
  let form = (case as usize) % FORMS;
  let nseq = gen::count_sequences(LETTERS.len(), 2);
  let mut code: Vec<u8> = vec![0xF3];
  let mut want: Vec<u8> = Vec::new();
  let mut sb = 0u8;
  for i in 0..nseq {
    let seq = gen::nth_sequence(LETTERS.len(), 2, i).unwrap();
    code.extend_from_slice(ACTIVITY[act].1);
    for l in seq.iter() {
      let (sc, v) = LETTERS[*l];
      emit_write(&mut code, form, sc, v);
      if sc {
        if v & 0x80 != 0 {
          want.push(sb);
        }
      } else {
        sb = v;
      }
    }
    let next = 0x0150 + code.len() + 3;
    code.extend_from_slice(&[0xC3, (next & 0xff) as u8, (next >> 8) as u8]);
  }
  code.extend_from_slice(&gen::EPILOGUE);
  assert!(0x150 + code.len() < 0x4000);
  let mut core = progrun::fresh_core(image).expect("image loads");
  progrun::patch_program(&mut core, gen::PROG_ORG, &code);
  capture_reset(cap);
  let mut steps = 0u64;
  while core.run_state == crate::emulator::RunState::Run && steps < 4 * nseq + 64 {
    progrun::step(&mut core);
    steps += 1;
  }
  let got = capture_read(cap);
  ctx.count(0, nseq);
  ctx.count(1, want.len() as u64);
  ctx.class(0x800 + case);
  if got != want {
    let mut pos = 0usize;
    while pos < got.len() && pos < want.len() && got[pos] == want[pos] {
      pos += 1;
    }
    let kind = if got.len() < want.len() { "missing-bytes" } else if got.len() > want.len() { "extra-bytes" } else { "wrong-bytes" };
    ctx.violation(&format!("C18 build={} activity={} form={} kind={}", progrun::this_build(), ACTIVITY[act].0, form_name(form).replace(' ', ""), kind), || {
      J::obj()
        .set("case", J::obj().set("activity", J::s(ACTIVITY[act].0)).set("activity_code", J::s(world::hex(ACTIVITY[act].1))).set("store_form", J::s(form_name(form))).set("programs", J::s("every sequence of length <= 2 over the 10 SB/SC writes, each preceded by the activity code")))
        .set("expected_len", J::u(want.len() as u64))
        .set("observed_len", J::u(got.len() as u64))
        .set("first_difference_at", J::u(pos as u64))
        .set("expected_from_there", J::s(world::hex(&want[pos.min(want.len())..(pos + 16).min(want.len())])))
        .set("observed_from_there", J::s(world::hex(&got[pos.min(got.len())..(pos + 16).min(got.len())])))
    });
  }
}

/// 16-bit stores whose two bytes land on the serial registers: `LD (a16),SP` writes the low
/// byte at a16 and then the high byte at a16+1 (the SM83's order), so with a16 = FF01 the data
/// register receives low(SP) before the control register receives high(SP); a16 = FF00 puts
/// high(SP) into SB only, a16 = FF02 puts low(SP) into SC only.  PUSH with SP = FF03 stores
/// the pair's high byte to SC and its low byte to SB; there SB already holds the low byte, so
/// the order of the two stores inside the instruction does not matter to the expectation.
const WORD_FORMS: [&str; 4] = ["LD (FF01),SP", "LD (FF00),SP", "LD (FF02),SP", "PUSH BC at SP=FF03"];
const WORD_LO: [u8; 5] = [0x00, 0x41, 0x58, 0x80, 0xFF];
const WORD_HI: [u8; 6] = [0x00, 0x01, 0x7F, 0x80, 0x81, 0xFF];

fn run_word(image: &str, case: u64, cap: &Cap, ctx: &mut Ctx) {
  let form = case as usize;
  const PREV: u8 = 0x50;
  let mut code: Vec<u8> = vec![0xF3];
  let mut want: Vec<u8> = Vec::new();
  let mut n = 0u64;
  for lo in WORD_LO {
    for hi in WORD_HI {
      n += 1;
      match form {
        0 => {
          code.extend_from_slice(&[0x3E, PREV, 0xE0, 0x01, 0x31, lo, hi, 0x08, 0x01, 0xFF]);
          if hi & 0x80 != 0 {
            want.push(lo);
          }
          code.extend_from_slice(&[0x3E, 0x81, 0xE0, 0x02]);
          want.push(lo);
        },
        1 => {
          code.extend_from_slice(&[0x3E, PREV, 0xE0, 0x01, 0x31, lo, hi, 0x08, 0x00, 0xFF]);
          code.extend_from_slice(&[0x3E, 0x81, 0xE0, 0x02]);
          want.push(hi);
        },
        2 => {
          code.extend_from_slice(&[0x3E, PREV, 0xE0, 0x01, 0x31, lo, hi, 0x08, 0x02, 0xFF]);
          if lo & 0x80 != 0 {
            want.push(PREV);
          }
          code.extend_from_slice(&[0x3E, 0x81, 0xE0, 0x02]);
          want.push(PREV);
        },
        _ => {
          code.extend_from_slice(&[0x3E, lo, 0xE0, 0x01, 0x31, 0x03, 0xFF, 0x01, lo, hi, 0xC5]);
          if hi & 0x80 != 0 {
            want.push(lo);
          }
          code.extend_from_slice(&[0x3E, 0x81, 0xE0, 0x02]);
          want.push(lo);
        },
      }
      code.extend_from_slice(&[0x31, 0xF0, 0xDF]);
      // every other case ends its block here, so both one-block and split placements occur
      if n % 2 == 0 {
        let next = 0x0150 + code.len() + 3;
        code.extend_from_slice(&[0xC3, (next & 0xff) as u8, (next >> 8) as u8]);
      }
    }
  }
  code.extend_from_slice(&gen::EPILOGUE);
  assert!(0x150 + code.len() < 0x4000);
  let mut core = progrun::fresh_core(image).expect("image loads");
  progrun::patch_program(&mut core, gen::PROG_ORG, &code);
  capture_reset(cap);
  let mut steps = 0u64;
  while core.run_state == crate::emulator::RunState::Run && steps < 16 * n + 64 {
    progrun::step(&mut core);
    steps += 1;
  }
  let got = capture_read(cap);
  ctx.count(0, n);
  ctx.count(1, want.len() as u64);
  ctx.class(0x1000 + case);
  if core.run_state == crate::emulator::RunState::Run {
    ctx.violation(&format!("C18 build={} word-store form={} kind=program-did-not-finish", progrun::this_build(), WORD_FORMS[form].replace(' ', "")), || J::obj().set("case", J::obj().set("store_form", J::s(WORD_FORMS[form]))));
  }
  if got != want {
    let mut pos = 0usize;
    while pos < got.len() && pos < want.len() && got[pos] == want[pos] {
      pos += 1;
    }
    let kind = if got.len() < want.len() { "missing-bytes" } else if got.len() > want.len() { "extra-bytes" } else { "wrong-bytes" };
    ctx.violation(&format!("C18 build={} word-store form={} kind={}", progrun::this_build(), WORD_FORMS[form].replace(' ', ""), kind), || {
      J::obj()
        .set("case", J::obj().set("store_form", J::s(WORD_FORMS[form])).set("programs", J::s("for low byte in {00,41,58,80,FF} x high byte in {00,01,7F,80,81,FF}: SB<-50 (PUSH form: SB<-low), the 16-bit store, SC<-81; reference: the store's bytes reach the registers low address first")))
        .set("expected_len", J::u(want.len() as u64))
        .set("observed_len", J::u(got.len() as u64))
        .set("first_difference_at", J::u(pos as u64))
        .set("expected_from_there", J::s(world::hex(&want[pos.min(want.len())..(pos + 16).min(want.len())])))
        .set("observed_from_there", J::s(world::hex(&got[pos.min(got.len())..(pos + 16).min(got.len())])))
    });
  }
}

pub fn run_word_pool(image: &str, workers: usize) -> PoolResult {
  let opts = PoolOpts { workers, chunk: 1, bitmap_bits: 1 << 12, samples_per_child: 0, quiet_stdout: false, ..PoolOpts::default() };
  let img = image.to_string();
  run_pool(
    WORD_FORMS.len() as u64,
    &opts,
    |slot| capture_begin(slot),
    |cap, case, ctx| run_word(&img, case, cap, ctx),
    |case, how| (format!("C18 build={} word-store crash={}", progrun::this_build(), how), J::obj().set("case", J::obj().set("word_case", J::u(case)))),
  )
}

pub fn run_activity_pool(image: &str, workers: usize) -> PoolResult {
  let opts = PoolOpts { workers, chunk: 1, bitmap_bits: 1 << 12, samples_per_child: 0, quiet_stdout: false, ..PoolOpts::default() };
  let img = image.to_string();
  run_pool(
    (ACTIVITY.len() * FORMS) as u64,
    &opts,
    |slot| capture_begin(slot),
    |cap, case, ctx| run_activity(&img, case, cap, ctx),
    |case, how| (format!("C18 build={} activity crash={}", progrun::this_build(), how), J::obj().set("case", J::obj().set("activity_case", J::u(case)))),
  )
}

pub fn run_burst_pool(image: &str, workers: usize) -> PoolResult {
  let opts = PoolOpts { workers, chunk: 1, bitmap_bits: 1 << 12, samples_per_child: 0, quiet_stdout: false, ..PoolOpts::default() };
  let img = image.to_string();
  run_pool(
    (BURSTS.len() * FORMS) as u64,
    &opts,
    |slot| capture_begin(slot),
    |cap, case, ctx| run_burst(&img, case, cap, ctx),
    |case, how| (format!("C18 build={} burst crash={}", progrun::this_build(), how), J::obj().set("case", J::obj().set("burst_case", J::u(case)))),
  )
}

fn meta_of(r: &PoolResult) -> J {
  let viol = J::Arr(r.violations.iter().map(|v| J::obj().set("key", J::s(v.key.as_str())).set("count", J::u(v.count)).set("detail", v.detail.clone())).collect());
  J::obj()
    .set("programs", J::u(r.counters[0]))
    .set("bytes", J::u(r.counters[1]))
    .set("distinct", J::u(r.distinct))
    .set("violations", viol)
    .set("machinery", J::Arr(r.machinery_errors.iter().map(|m| J::s(m.as_str())).collect()))
}

/// `gbmc C18 --worker run <tier> <image> <out.json>`
pub fn worker(args: &[String]) -> i32 {
  if args.len() >= 4 && args[0] == "run" {
    let mut r = run_build(&args[2], &args[1], crate::util::pool::default_workers());
    let r2 = run_exhaustion_pool(&args[2]);
    r.merge(r2);
    r.merge(run_burst_pool(&args[2], 3));
    r.merge(run_activity_pool(&args[2], 3));
    r.merge(run_word_pool(&args[2], 3));
    // keep our own stdout clean for the parent
    if std::fs::write(&args[3], meta_of(&r).to_string()).is_err() {
      return 2;
    }
    return 0;
  }
  eprintln!("C18 worker: bad arguments {:?}", args);
  2
}

/// run one ROM file through a real executable; returns everything it wrote to standard output
/// once at least `want_len` bytes are there and 400 ms have passed (or it exited / 20 s)
fn e2e_raw(bin: &str, rom: &str, want_len: usize) -> Result<Vec<u8>, String> {
  use std::io::Read;
  use std::process::{Command, Stdio};
  let out_path = format!("{}/c18_e2e_{}.bin", crate::util::pool::tmp_dir(), unsafe { libc::getpid() });
  let f = std::fs::File::create(&out_path).map_err(|e| e.to_string())?;
  let mut child = Command::new(bin).arg(rom).stdout(Stdio::from(f)).stderr(Stdio::null()).spawn().map_err(|e| format!("{}: {}", bin, e))?;
  let t0 = std::time::Instant::now();
  let mut data = Vec::new();
  loop {
    std::thread::sleep(std::time::Duration::from_millis(50));
    data.clear();
    if let Ok(mut f) = std::fs::File::open(&out_path) {
      let _ = f.read_to_end(&mut data);
    }
    let exited = matches!(child.try_wait(), Ok(Some(_)));
    if exited || (data.len() >= want_len && t0.elapsed().as_millis() > 400) || t0.elapsed().as_secs() > 20 {
      break;
    }
  }
  let _ = child.kill();
  let _ = child.wait();
  let _ = std::fs::remove_file(&out_path);
  Ok(data)
}

/// What the executable prints on its own before the guest runs (a banner naming the
/// cartridge) is not serial output and its wording is nobody's property: it is measured with a
/// ROM of the same header whose program sends nothing, and the real run must then print exactly
/// that followed by the expected bytes.
fn e2e(bin: &str, rom: &str, silent_rom: &str, want: &[u8]) -> Result<Vec<u8>, String> {
  let banner = e2e_raw(bin, silent_rom, 0)?;
  let got = e2e_raw(bin, rom, banner.len() + want.len())?;
  if got.len() < banner.len() || got[..banner.len()] != banner[..] {
    return Err(format!("output does not start with what the same executable prints for a silent ROM of the same header ({:?})", String::from_utf8_lossy(&banner)));
  }
  Ok(got[banner.len()..].to_vec())
}

pub fn run(tier: &str) -> i32 {
  let mut rep = Report::new("C18", tier, "model_checking");
  rep.assume("R8 serial model from the property text: output = SB at each SC write with bit 7 set; the serial clock/shift and the read side are not modelled (absent feature)");
  let image = world::write_rom_file(&rom_only_image());
  let tmp = crate::util::pool::tmp_dir();
  let depth = depth_for(tier);
  // jit build as a worker process
  let jit_out = format!("{}/c18_jit.json", tmp);
  let jit_child = match std::env::var("GBMC_JIT_BIN") {
    Ok(b) => std::process::Command::new(&b).args(&["C18", "--worker", "run", tier, &image, &jit_out]).env("GBMC_WORKERS", "4").stdout(std::process::Stdio::null()).spawn().ok(),
    Err(_) => None,
  };
  if jit_child.is_none() {
    rep.machinery_error("cannot start the jit worker (GBMC_JIT_BIN; run through bin/check)".to_string());
    return rep.finish();
  }
  let mut r = run_build(&image, tier, 8);
  r.merge(run_exhaustion_pool(&image));
  r.merge(run_burst_pool(&image, 6));
  r.merge(run_activity_pool(&image, 6));
  r.merge(run_word_pool(&image, 4));
  let progs = r.counters[0];
  let bytes = r.counters[1];
  rep.add_stage("nojit-programs", &format!("every sequence of length <= {} over 10 SB/SC writes x 6 store forms ({} programs) + bursts of 1..300 transfers in one block + the cache-exhaustion program + every sequence of length <= 2 under 5 kinds of other device activity (OAM DMA in flight, display on, timer running, all three, IE/IF all set) + 4 forms of 16-bit store that land on the serial registers (LD (FF00|FF01|FF02),SP, PUSH at SP=FF03) x 30 byte pairs, non-jit build, fd 1 captured", depth, total_programs(depth)), r);
  let mut jit_progs = 0;
  match jit_child.unwrap().wait_with_output() {
    Ok(o) if o.status.success() => match progrun::parse_json_file(&jit_out) {
      Ok(meta) => {
        if let Some(vs) = meta.get("violations").and_then(|v| v.as_arr()) {
          for v in vs {
            rep.add_violation(&v.str_of("key"), v.get("detail").cloned().unwrap_or(J::Null));
          }
        }
        if let Some(ms) = meta.get("machinery").and_then(|v| v.as_arr()) {
          for m in ms {
            rep.machinery_error(format!("jit worker: {}", m.as_str().unwrap_or("")));
          }
        }
        jit_progs = meta.int_of("programs") as u64;
        rep.stages.push(J::obj().set("stage", J::s("jit-programs")).set("cases", J::u(jit_progs)).set("bytes_expected", J::u(meta.int_of("bytes") as u64)));
        rep.distinct += meta.int_of("distinct") as u64;
      },
      Err(e) => rep.machinery_error(e),
    },
    other => rep.machinery_error(format!("jit worker failed: {:?}", other.map(|o| o.status))),
  }
  // E2E: the first 64 + a strided 64 programs of each form as one ROM file through the real binaries
  let mut e2e_runs = 0u64;
  {
    let per_form = gen::count_sequences(LETTERS.len(), depth);
    let mut code: Vec<u8> = vec![0xF3];
    let mut want: Vec<u8> = Vec::new();
    let mut sb = 0u8;
    let mut n = 0;
    for form in 0..FORMS {
      let stride = (per_form / 64).max(1);
      for j in 0..64u64 {
        let idx = form as u64 * per_form + (j * stride) % per_form;
        let (f, seq) = program(depth, idx);
        for l in seq.iter() {
          let (sc, v) = LETTERS[*l];
          emit_write(&mut code, f, sc, v);
          if sc {
            if v & 0x80 != 0 {
              want.push(sb);
            }
          } else {
            sb = v;
          }
        }
        let next = 0x0150 + code.len() + 3;
        code.extend_from_slice(&[0xC3, (next & 0xff) as u8, (next >> 8) as u8]);
        n += 1;
      }
    }
    code.extend_from_slice(&gen::EPILOGUE);
    let mut img = rom_only_image();
    img[0x150..0x150 + code.len()].copy_from_slice(&code);
    let rom = world::write_rom_file(&img);
    let mut silent = rom_only_image();
    silent[0x150..0x150 + 5].copy_from_slice(&[0xF3, 0x76, 0x00, 0x18, 0xFC]); // DI; L: HALT; NOP; JR L
    let silent_rom = world::write_rom_file(&silent);
    for (var, label) in [("GBMC_REPO_BIN_NOJIT", "repo-nojit"), ("GBMC_REPO_BIN_JIT", "repo-jit")].iter() {
      match std::env::var(var) {
        Ok(bin) if std::path::Path::new(&bin).exists() => match e2e(&bin, &rom, &silent_rom, &want) {
          Ok(got) => {
            e2e_runs += 1;
            if got != want {
              let mut pos = 0;
              while pos < got.len() && pos < want.len() && got[pos] == want[pos] {
                pos += 1;
              }
              rep.add_violation(
                &format!("C18 e2e binary={} kind=output-differs", label),
                J::obj().set("case", J::obj().set("programs", J::u(n as u64)).set("binary", J::s(*label))).set("expected_len", J::u(want.len() as u64)).set("observed_len", J::u(got.len() as u64)).set("first_difference_at", J::u(pos as u64)),
              );
            }
          },
          Err(e) => rep.add_violation(&format!("C18 e2e binary={} kind=no-output", label), J::obj().set("error", J::s(e.as_str()))),
        },
        _ => rep.assumptions.push(format!("end-to-end run through {} not executed: {} unset or missing", label, var)),
      }
    }
    let _ = std::fs::remove_file(&rom);
    let _ = std::fs::remove_file(&silent_rom);
  }
  let _ = std::fs::remove_file(&image);
  rep.evaluations = progs + jit_progs;
  rep.cov("states", J::u(progs));
  rep.cov("transitions", J::u(progs + jit_progs));
  rep.cov("traces_validated_against_impl", J::u(progs + jit_progs + e2e_runs));
  rep.cov("expected_output_bytes_per_build", J::u(bytes));
  rep.cov("e2e_binaries_run", J::u(e2e_runs));
  rep.cov("rule", J::s("a state is a write history; every history up to the depth bound is executed by guest code in both builds and its captured stdout compared byte for byte with the reference; plus the cache-exhaustion program and an end-to-end subset through the real executables"));
  rep.finish()
}
