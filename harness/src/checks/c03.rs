//! C03 — the translation cache is transparent, including across ROM bank switches.
//! E2a + E3: every history up to a depth bound over {run a block at one of four addresses,
//! write a bank register through a guest block} is executed on a real Core loaded from a
//! multi-bank MBC1 / MBC3 ROM file whose banks hold different code at the same addresses,
//! in three configurations: jit build with a persistent cache, jit build with the cache
//! replaced by an empty one before every event, non-jit build.  The per-event state digests
//! must agree.

use crate::gen;
use crate::progrun;
use crate::util::json::J;
use crate::util::pool::{run_pool, PoolOpts, PoolResult};
use crate::util::report::Report;
use crate::world;

#[derive(Clone, Debug)]
pub enum Ev {
  Run(u16),
  /// guest block at this address in bank 0 performs the register write
  Write { block: u16, name: String },
  /// the same register write performed by code running from work RAM (interpreted in every
  /// build: no translated block runs between the switch and the next lookup)
  WriteFromRam { reg: u16, value: u8, name: String },
  /// the register write made through the bus between two blocks (what an interrupt dispatch
  /// with SP in the register area, or a debugger, does)
  Poke { reg: u16, value: u8, name: String },
}

pub struct Ctl {
  pub name: &'static str,
  pub cart_type: u8,
  pub rom_code: u8,
  pub banks: usize,
}

/// 128-bank images: every bank number the 5+2-bit (MBC1) / 7-bit (MBC3) registers can
/// produce exists, so no history leaves the image (that is C11/C12's subject, not C03's).
/// Small images: a register value that is a non-zero multiple of the bank count is reduced to
/// bank 0, the one bank number the 128-bank images can never show at 0x4000-0x7FFF.
/// Images whose size is not a power of two (header codes 0x52-0x54): the reduction of a bank
/// number to the image is not a bit mask there, and the translator's view of the window must
/// still be the bus's.  (mbc1/80 runs in the thorough tier only.)
pub const CTLS: [Ctl; 6] = [
  Ctl { name: "mbc1/128", cart_type: 0x03, rom_code: 0x06, banks: 128 },
  Ctl { name: "mbc3/128", cart_type: 0x13, rom_code: 0x06, banks: 128 },
  Ctl { name: "mbc1/4", cart_type: 0x03, rom_code: 0x01, banks: 4 },
  Ctl { name: "mbc3/8", cart_type: 0x13, rom_code: 0x02, banks: 8 },
  Ctl { name: "mbc3/72", cart_type: 0x13, rom_code: 0x52, banks: 72 },
  Ctl { name: "mbc1/80", cart_type: 0x03, rom_code: 0x53, banks: 80 },
];

const WRITE_BLOCKS: usize = 0x0200;

/// (events, image) for a controller
pub fn world_for(c: &Ctl, quick: bool) -> (Vec<Ev>, Vec<u8>) {
  let mut img = vec![0u8; c.banks * 0x4000];
  // every bank: different block at 0x4000 and at 0x4100 (different opcodes, length, cycles)
  for b in 0..c.banks {
    let base = b * 0x4000;
    let mut code: Vec<u8> = vec![0x3E, b as u8]; // LD A,b
    for _ in 0..(b % 4) {
      code.push(0x3C); // INC A
    }
    code.extend_from_slice(&[0xEA, b as u8, 0xC1]); // LD (C1bb),A
    if b % 3 == 1 {
      code.extend_from_slice(&[0x34]); // INC (HL)
    }
    code.extend_from_slice(&[0xC3, 0x50, 0x01]); // JP 0150
    if b > 0 {
      img[base..base + code.len()].copy_from_slice(&code);
      let mut c2: Vec<u8> = vec![0x06, (b as u8) ^ 0x5A]; // LD B,x
      for _ in 0..(b % 3) {
        c2.push(0x00);
      }
      c2.extend_from_slice(&[0x78, 0xEA, b as u8, 0xC2, 0x18, 0x00]); // LD A,B; LD (C2bb),A; JR +0
      img[base + 0x100..base + 0x100 + c2.len()].copy_from_slice(&c2);
      // a one-byte block on the very last address of the bank, different in every bank
      img[base + 0x3FFF] = [0xC7u8, 0xCF, 0xD7, 0xDF][b % 4]; // RST 00 / 08 / 10 / 18
    }
  }
  // bank 0: common block at 0x0150, which also reads *data* from the switchable bank by an
  // absolute and by a register-indirect address (the byte at 0x4001 is the bank's number):
  // INC D; LD A,(4001); LD E,A; LD BC,4001; LD A,(BC); ADD A,E; LD (C000),A; LD A,D; LD (C001),A; JP 0150
  let blk = [0x14, 0xFA, 0x01, 0x40, 0x5F, 0x01, 0x01, 0x40, 0x0A, 0x83, 0xEA, 0x00, 0xC0, 0x7A, 0xEA, 0x01, 0xC0, 0xC3, 0x50, 0x01];
  img[0x150..0x150 + blk.len()].copy_from_slice(&blk);
  // bank 0: block at 0x3FFA running into 0x4000 without a terminator
  for a in 0x3FFA..0x4000 {
    img[a] = 0x0C; // INC C
  }
  if c.banks < 128 {
    // on the small images bank 0 itself can be mapped at 0x4000-0x7FFF: its last byte must end
    // a block too
    img[0x3FFF] = 0xC7;
  } else {
    // the block at 0x3FFA ends with an instruction that straddles the boundary: LD HL,nn with
    // its opcode on the last byte of the fixed bank and its operands (3E bb: the bank's
    // number) in whatever bank is mapped
    img[0x3FFF] = 0x21;
  }
  let mut evs: Vec<Ev> = vec![Ev::Run(0x0150), Ev::Run(0x4000), Ev::Run(0x4100), Ev::Run(0x3FFA), Ev::Run(0x7FFF)];
  let mut blocks: Vec<(u16, u8, String)> = Vec::new(); // (register address, value, name)
  let small = c.banks < 128;
  // (the quick tier uses a reduced set of register values on the 128-bank images)
  let bank_values: Vec<u8> = if !c.banks.is_power_of_two() {
    // low banks, banks whose number has a bit the image's size lacks, the last bank, the bank count
    vec![1, 9, 0x13, 0x23, c.banks as u8 - 1, c.banks as u8]
  } else if small { vec![1, 2, c.banks as u8, c.banks as u8 + 1, 2 * c.banks as u8] } else if quick { vec![1u8, 2, 3, 0x41] } else { vec![0u8, 1, 2, 3, 5, 0x21, 0x45] };
  for k in bank_values.iter() {
    blocks.push((0x2100, *k, format!("bank({:02x})", k)));
  }
  if small {
    // bank numbers only: the small images are about the reduction to the cartridge's size
  } else if c.cart_type == 0x03 {
    for u in if quick { vec![0u8, 1, 2] } else { vec![0u8, 1, 2, 3] }.iter() {
      blocks.push((0x4000, *u, format!("upper({})", u)));
    }
    for m in [0u8, 1].iter() {
      blocks.push((0x6000, *m, format!("mode({})", m)));
    }
  } else {
    blocks.push((0x4000, 1, "rambank(1)".to_string()));
  }
  for (i, (reg, v, name)) in blocks.iter().enumerate() {
    let at = WRITE_BLOCKS + i * 16;
    let code = [0x3E, *v, 0xEA, (*reg & 0xff) as u8, (*reg >> 8) as u8, 0xC3, 0x50, 0x01]; // LD A,v; LD (reg),A; JP 0150
    img[at..at + code.len()].copy_from_slice(&code);
    evs.push(Ev::Write { block: at as u16, name: name.clone() });
  }
  // bank switches that no translated block performs
  if small {
    evs.push(Ev::WriteFromRam { reg: 0x2100, value: 2, name: "bank(02)@ram".to_string() });
    evs.push(Ev::WriteFromRam { reg: 0x2100, value: c.banks as u8, name: format!("bank({:02x})@ram", c.banks) });
    evs.push(Ev::Poke { reg: 0x2100, value: 1, name: "bank(01)@bus".to_string() });
    evs.push(Ev::Poke { reg: 0x2100, value: 3, name: "bank(03)@bus".to_string() });
  } else {
    evs.push(Ev::WriteFromRam { reg: 0x2100, value: 2, name: "bank(02)@ram".to_string() });
    evs.push(Ev::Poke { reg: 0x2100, value: 3, name: "bank(03)@bus".to_string() });
  }
  let h = world::header_bytes(c.cart_type, c.rom_code, 0x02);
  img[0x100..0x150].copy_from_slice(&h[0x100..0x150]);
  (evs, img)
}

pub fn ev_name(e: &Ev) -> String {
  match e {
    Ev::Run(a) => format!("run({:04x})", a),
    Ev::Write { name, .. } => name.clone(),
    Ev::WriteFromRam { name, .. } => name.clone(),
    Ev::Poke { name, .. } => name.clone(),
  }
}

pub fn hist_name(evs: &[Ev], h: &[usize]) -> String {
  h.iter().map(|i| ev_name(&evs[*i])).collect::<Vec<_>>().join(";")
}

fn apply(core: &mut crate::emulator::Core, e: &Ev) {
  let pc = match e {
    Ev::Run(a) => *a,
    Ev::Write { block, .. } => *block,
    Ev::WriteFromRam { reg, value, .. } => {
      // LD A,v; LD (reg),A; JP 0150 placed at 0xDE00 in work RAM and run there
      let code = [0x3E, *value, 0xEA, (*reg & 0xff) as u8, (*reg >> 8) as u8, 0xC3, 0x50, 0x01];
      for (i, b) in code.iter().enumerate() {
        crate::cpustep::poke_raw(&mut core.memory, 0xDE00 + i as u16, *b);
      }
      0xDE00
    },
    Ev::Poke { reg, value, .. } => {
      crate::mem::memory_write_byte(&mut core.memory as *mut crate::mem::MemoryAreas, *reg, *value);
      return;
    },
  };
  core.registers.ip = pc as u32;
  core.run_state = crate::emulator::RunState::Run;
  core.run_code_block();
}

fn run_history(image: &str, evs: &[Ev], h: &[usize], cold: bool) -> u64 {
  let mut core = progrun::fresh_core(image).expect("image loads");
  core.registers.sp = 0xDFF0;
  core.registers.hl = 0xC080;
  let mut ch = progrun::Chain::new();
  for i in h {
    if cold {
      progrun::drop_cache(&mut core);
    }
    apply(&mut core, &evs[*i]);
    ch.small(&core);
    ch.big(&core);
  }
  ch.get()
}

fn detail_history(image: &str, evs: &[Ev], h: &[usize], cold: bool) -> J {
  let mut core = progrun::fresh_core(image).expect("image loads");
  core.registers.sp = 0xDFF0;
  core.registers.hl = 0xC080;
  let mut rows = Vec::new();
  for (n, i) in h.iter().enumerate() {
    if cold {
      progrun::drop_cache(&mut core);
    }
    apply(&mut core, &evs[*i]);
    let mut row = J::obj().set("step", J::u(n as u64)).set("event", J::s(ev_name(&evs[*i])));
    for (k, v) in world::small_state(&core) {
      row.put(k, J::u(v));
    }
    for (k, v) in world::big_state(&core) {
      row.put(k, J::s(format!("{:016x}", v)));
    }
    rows.push(row);
  }
  J::Arr(rows)
}


// ---------------------------------------------------------------- cache-pressure histories
//
// "All cache ages" includes a cache that has been emptied under memory pressure.  The image
// below makes every block large (a bank full of one-byte instructions), so a few dozen
// events fill the 8 MiB translation arena; the histories cycle through the banks at moving
// entry addresses, with a variable number of leading events so that the moment the arena
// runs low falls on every bank and on the fixed bank in turn.

pub fn pressure_image() -> Vec<u8> {
  let banks = 4usize;
  let mut img = vec![0u8; banks * 0x4000];
  let incs = [0x00u8, 0x3C, 0x0C, 0x1C]; // bank b: INC A / INC C / INC E
  for b in 1..banks {
    let base = b * 0x4000;
    for o in 0..0x3FFD {
      img[base + o] = incs[b];
    }
    img[base + 0x3FFD] = 0xC3; // JP 0150
    img[base + 0x3FFE] = 0x50;
    img[base + 0x3FFF] = 0x01;
  }
  // bank 0: 0x0150: INC D; JP 0150 (common block); a long fixed-bank block at 0x1000: INC B ... JP 0150
  let blk = [0x14, 0xC3, 0x50, 0x01];
  img[0x150..0x154].copy_from_slice(&blk);
  for o in 0x1000..0x3F00 {
    img[o] = 0x04;
  }
  img[0x3F00] = 0xC3;
  img[0x3F01] = 0x50;
  img[0x3F02] = 0x01;
  // bank-select blocks at 0x0200 + 16*b: LD A,b; LD (2100),A; JP 0150
  for b in 1..banks {
    let at = 0x0200 + b * 16;
    let code = [0x3E, b as u8, 0xEA, 0x00, 0x21, 0xC3, 0x50, 0x01];
    img[at..at + code.len()].copy_from_slice(&code);
  }
  let h = world::header_bytes(0x13, 0x01, 0x02);
  img[0x100..0x150].copy_from_slice(&h[0x100..0x150]);
  img
}

/// (pc to run, name) events of pressure history number `index`
pub fn pressure_history(index: u64, rounds: usize) -> Vec<(u16, String)> {
  const ORDERS: [[usize; 3]; 6] = [[1, 2, 3], [1, 3, 2], [2, 1, 3], [2, 3, 1], [3, 1, 2], [3, 2, 1]];
  let order = ORDERS[(index % 6) as usize];
  let lead = (index / 6) as usize; // leading fixed-bank events shift the phase
  let mut ev: Vec<(u16, String)> = Vec::new();
  for i in 0..lead {
    ev.push((0x1000 + i as u16, format!("run({:04x})", 0x1000 + i)));
  }
  for k in 1..=rounds {
    for b in order.iter() {
      ev.push(((0x0200 + b * 16) as u16, format!("bank({})", b)));
      ev.push((0x4000 + k as u16, format!("run({:04x})", 0x4000 + k)));
    }
  }
  // revisit everything once more in bank order 1,2,3 (stale entries surface here)
  for k in 1..=rounds {
    for b in 1..4usize {
      ev.push(((0x0200 + b * 16) as u16, format!("bank({})", b)));
      ev.push((0x4000 + k as u16, format!("run({:04x})", 0x4000 + k)));
    }
  }
  ev
}

pub fn pressure_counts(tier: &str) -> (u64, usize) {
  if tier == "quick" { (6 * 4, 6) } else { (6 * 16, 12) }
}

/// per-event digests of one pressure history (one u64 per event, chained)
fn run_pressure(image: &str, index: u64, rounds: usize) -> Vec<u64> {
  let mut core = progrun::fresh_core(image).expect("image loads");
  core.registers.sp = 0xDFF0;
  let mut out = Vec::new();
  let mut ch = progrun::Chain::new();
  for (pc, _) in pressure_history(index, rounds).iter() {
    core.registers.ip = *pc as u32;
    core.run_state = crate::emulator::RunState::Run;
    core.run_code_block();
    ch.small(&core);
    out.push(ch.get());
  }
  out
}

pub fn run_pressure_cfg(image: &str, tier: &str, workers: usize) -> PoolResult {
  let (n, rounds) = pressure_counts(tier);
  // result slot layout: history i gets 256 slots (first differing event can be located)
  let opts = PoolOpts { workers, chunk: 1, bitmap_bits: 1 << 12, result_words: (n * 256) as usize, samples_per_child: 1, ..PoolOpts::default() };
  run_pool(
    n,
    &opts,
    |_| (),
    |_, case, ctx| {
      let d = run_pressure(image, case, rounds);
      for (i, v) in d.iter().enumerate().take(255) {
        ctx.result(case * 256 + i as u64, *v);
      }
      ctx.result(case * 256 + 255, d.len() as u64);
      ctx.count(0, d.len() as u64);
      ctx.class(d.last().copied().unwrap_or(0) & 0xfff);
      ctx.sample(|| J::obj().set("pressure_history", J::u(case)).set("events", J::u(d.len() as u64)));
    },
    |case, how| (format!("C03 build={} pressure-history={} crash={}", progrun::this_build(), case, how), J::obj().set("case", J::obj().set("pressure_history", J::u(case)))),
  )
}

pub fn depth_for(tier: &str, cold: bool) -> usize {
  match (tier, cold) {
    // the cache emptied before every event costs four mprotect calls per event: one level less
    ("quick", true) => 2,
    ("quick", false) => 3,
    (_, true) => 4,
    (_, false) => 4,
  }
}

pub fn run_cfg(image: &str, evs: &[Ev], depth: usize, cold: bool, workers: usize) -> PoolResult {
  let total = gen::count_sequences(evs.len(), depth);
  let opts = PoolOpts { workers, chunk: 16, bitmap_bits: 1 << 16, result_words: total as usize, samples_per_child: 1, ..PoolOpts::default() };
  run_pool(
    total,
    &opts,
    |_| (),
    |_, case, ctx| {
      let h = gen::nth_sequence(evs.len(), depth, case).unwrap();
      let d = run_history(image, evs, &h, cold);
      ctx.result(case, d);
      ctx.count(0, h.len() as u64);
      ctx.class(d & 0xffff);
      ctx.sample(|| J::obj().set("history", J::s(hist_name(evs, &h))));
    },
    |case, how| {
      let h = gen::nth_sequence(evs.len(), depth, case).unwrap_or_default();
      (
        format!("C03 build={} cold={} hist={} crash={}", progrun::this_build(), cold, hist_name(evs, &h), how),
        J::obj().set("case", J::obj().set("history", J::s(hist_name(evs, &h)))),
      )
    },
  )
}

/// `gbmc C03 --worker run <tier> <ctl index> <image> <cold 0|1> <out-prefix>`
/// `gbmc C03 --worker detail <tier> <ctl index> <image> <cold 0|1> <history index> <depth> <out.json>`
pub fn worker(args: &[String]) -> i32 {
  if args.len() >= 6 && args[0] == "run" {
    let ci: usize = args[2].parse().unwrap_or(0);
    let (evs, _) = world_for(&CTLS[ci], args[1] == "quick");
    let cold = args[4] == "1";
    let r = run_cfg(&args[3], &evs, depth_for(&args[1], cold), cold, crate::util::pool::default_workers());
    if progrun::write_u64s(&format!("{}.u64", args[5]), &r.results).is_err() {
      return 2;
    }
    let viol = J::Arr(r.violations.iter().map(|v| J::obj().set("key", J::s(v.key.as_str())).set("count", J::u(v.count)).set("detail", v.detail.clone())).collect());
    let meta = J::obj().set("violations", viol).set("machinery", J::Arr(r.machinery_errors.iter().map(|m| J::s(m.as_str())).collect())).set("events", J::u(r.counters[0]));
    if std::fs::write(format!("{}.json", args[5]), meta.to_string()).is_err() {
      return 2;
    }
    return 0;
  }
  if args.len() >= 4 && args[0] == "pressure" {
    let r = run_pressure_cfg(&args[2], &args[1], 3);
    if progrun::write_u64s(&format!("{}.u64", args[3]), &r.results).is_err() {
      return 2;
    }
    let viol = J::Arr(r.violations.iter().map(|v| J::obj().set("key", J::s(v.key.as_str())).set("count", J::u(v.count)).set("detail", v.detail.clone())).collect());
    let meta = J::obj().set("violations", viol).set("machinery", J::Arr(r.machinery_errors.iter().map(|m| J::s(m.as_str())).collect())).set("events", J::u(r.counters[0]));
    if std::fs::write(format!("{}.json", args[3]), meta.to_string()).is_err() {
      return 2;
    }
    return 0;
  }
  if args.len() >= 8 && args[0] == "detail" {
    let ci: usize = args[2].parse().unwrap_or(0);
    let (evs, _) = world_for(&CTLS[ci], args[1] == "quick");
    let cold = args[4] == "1";
    let idx: u64 = args[5].parse().unwrap_or(0);
    let depth: usize = args[6].parse().unwrap_or(1);
    let h = gen::nth_sequence(evs.len(), depth, idx).unwrap();
    unsafe {
      let devnull = libc::open(b"/dev/null\0".as_ptr() as *const libc::c_char, libc::O_WRONLY);
      libc::dup2(devnull, 1);
    }
    let d = detail_history(&args[3], &evs, &h, cold);
    if std::fs::write(&args[7], d.to_string()).is_err() {
      return 2;
    }
    return 0;
  }
  eprintln!("C03 worker: bad arguments {:?}", args);
  2
}

/// Re-run one diverging history in detail in both builds and name it: (key, detail).
fn explain(tier: &str, ci: usize, ctl_name: &str, image: &str, evs: &[Ev], h: &[usize], i: u64, d: usize, cfg: &str, tmp: &str) -> (String, J, bool) {
  let cold = cfg == "jit-cold";
  let dj = format!("{}/c03_dj.json", tmp);
  let dn = format!("{}/c03_dn.json", tmp);
  let mk = |cold: bool, depth: usize, out: &str| {
    vec!["C03".to_string(), "--worker".to_string(), "detail".to_string(), tier.to_string(), ci.to_string(), image.to_string(), if cold { "1".to_string() } else { "0".to_string() }, i.to_string(), depth.to_string(), out.to_string()]
  };
  let r1 = progrun::spawn_worker("GBMC_JIT_BIN", &mk(cold, d, &dj));
  let r2 = progrun::spawn_worker("GBMC_NOJIT_BIN", &mk(false, d, &dn));
  // Is the diverging event a block that was entered in the switchable bank and changed
  // the mapped ROM bank while it ran (seen in the interpreter's own run)?  All such
  // histories are one call site and get one key.
  let mut self_switch = false;
  let mut agree = false;
  let obs = match (r1, r2) {
    (Ok(_), Ok(_)) => match (progrun::parse_json_file(&dj), progrun::parse_json_file(&dn)) {
      (Ok(a), Ok(b)) => match progrun::first_diff(&b, &a) {
        Some((step, field, vn, vj)) => {
          if let Some(rows) = b.as_arr() {
            let k = step as usize;
            if k < rows.len() && k < h.len() {
              let in_window = matches!(evs[h[k]], Ev::Run(a) if a >= 0x4000 && a < 0x8000);
              let before = if k == 0 { 1 } else { rows[k - 1].int_of("rom_bank") };
              self_switch = in_window && rows[k].int_of("rom_bank") != before;
            }
          }
          J::obj().set("first_diff_event", J::u(step)).set("field", J::s(field)).set("nojit", J::s(vn)).set(cfg, J::s(vj))
        },
        None => {
          agree = true;
          J::obj().set("note", J::s("digests differ, detailed runs agree"))
        },
      },
      _ => J::obj().set("note", J::s("detail unreadable")),
    },
    (a, b) => J::obj().set("note", J::s(format!("detail run failed: {:?} {:?}", a.err(), b.err()))),
  };
  let hn = hist_name(evs, h);
  let key = if self_switch {
    format!("C03 ctl={} cfg={}-vs-nojit kind=block-in-switchable-bank-switched-its-own-bank", ctl_name, cfg)
  } else {
    format!("C03 ctl={} cfg={}-vs-nojit hist={}", ctl_name, cfg, hn)
  };
  (key, J::obj().set("case", J::obj().set("controller", J::s(ctl_name)).set("history", J::s(hn.as_str()))).set("observed", obs).set("diverging_block_entered_in_the_switchable_bank_and_changed_the_mapped_bank", J::Bool(self_switch)), !agree)
}

fn contains(hay: &[usize], needle: &[usize]) -> bool {
  !needle.is_empty() && hay.windows(needle.len()).any(|w| w == needle)
}

pub fn run(tier: &str) -> i32 {
  let mut rep = Report::new("C03", tier, "model_checking");
  rep.assume("events: run the block at 0x0150 / 0x4000 / 0x4100 / 0x3FFA (PC set by the harness), and bank-register writes executed as guest blocks in bank 0; banks hold different code at the same addresses");
  let tmp = crate::util::pool::tmp_dir();
  let jit_bin = match std::env::var("GBMC_JIT_BIN") {
    Ok(b) => b,
    Err(_) => {
      rep.machinery_error("GBMC_JIT_BIN not set (run through bin/check)".to_string());
      return rep.finish();
    },
  };
  let n_ctl = CTLS.len();
  let mut histories = 0u64;
  let mut events = 0u64;
  let mut states = 0u64;
  for ci in 0..n_ctl {
    let ctl = &CTLS[ci];
    if tier == "quick" && ctl.name == "mbc1/80" {
      continue;
    }
    let (evs, img) = world_for(ctl, tier == "quick");
    let image = world::write_rom_file(&img);
    let mut results: Vec<(String, Vec<u64>, usize)> = Vec::new(); // (cfg, digests, depth)
    // jit build: warm and cold, as worker processes
    let mut children = Vec::new();
    for cold in [false, true].iter() {
      let prefix = format!("{}/c03_{}_{}", tmp, ci, if *cold { "cold" } else { "warm" });
      let child = std::process::Command::new(&jit_bin)
        .args(&["C03", "--worker", "run", tier, &ci.to_string(), &image, if *cold { "1" } else { "0" }, &prefix])
        .env("GBMC_WORKERS", "4")
        .spawn();
      match child {
        Ok(c) => children.push((c, prefix, *cold)),
        Err(e) => {
          rep.machinery_error(format!("cannot start jit worker: {}", e));
          return rep.finish();
        },
      }
    }
    let depth = depth_for(tier, false);
    let r = run_cfg(&image, &evs, depth, false, 8);
    let nojit = r.results.clone();
    let total = r.cases_total;
    let c = rep.add_stage(
      &format!("histories-{}", ctl.name),
      &format!("all histories of length <= {} over {} events on a {}-bank {} image, non-jit build (jit warm / jit cold run the same enumeration)", depth, evs.len(), ctl.banks, ctl.name),
      r,
    );
    histories += total;
    events += c[0];
    for (child, prefix, cold) in children {
      match child.wait_with_output() {
        Ok(o) if o.status.success() => {},
        other => {
          rep.machinery_error(format!("jit worker (cold={}) failed: {:?}", cold, other.map(|o| o.status)));
          continue;
        },
      }
      match progrun::read_u64s(&format!("{}.u64", prefix)) {
        Ok(v) => results.push((if cold { "jit-cold".to_string() } else { "jit-warm".to_string() }, v, depth_for(tier, cold))),
        Err(e) => rep.machinery_error(e),
      }
      if let Ok(meta) = progrun::parse_json_file(&format!("{}.json", prefix)) {
        if let Some(vs) = meta.get("violations").and_then(|v| v.as_arr()) {
          for v in vs {
            rep.add_violation(&v.str_of("key"), v.get("detail").cloned().unwrap_or(J::Null));
          }
        }
        events += meta.int_of("events") as u64;
      }
    }
    // compare each jit configuration with the non-jit build, shortest history first
    for (cfg, res, d) in results.iter() {
      let n = gen::count_sequences(evs.len(), *d).min(total) as usize;
      let mut reported: Vec<Vec<usize>> = Vec::new();
      for i in 0..n.min(res.len()) {
        states += 1;
        // index spaces agree for the common depth prefix (shortest-first enumeration)
        if res[i] == nojit[i] {
          continue;
        }
        let h = gen::nth_sequence(evs.len(), *d, i as u64).unwrap();
        if reported.iter().any(|r| contains(&h, r)) || reported.len() >= 8 {
          continue;
        }
        let (key, detail, _) = explain(tier, ci, ctl.name, &image, &evs, &h, i as u64, *d, cfg, &tmp);
        rep.add_violation(&key, detail);
        reported.push(h);
      }
    }
    // quick tier: the one four-event history that reaches the open finding of the thorough
    // tier (known_findings.txt: a block in the switchable bank that switches its own bank) is
    // run as a directed witness, so that both tiers show the finding
    if tier == "quick" && ctl.name == "mbc1/128" {
      let names = ["upper(1)", "run(3ffa)", "bank(02)", "run(4000)"];
      let idx: Vec<usize> = names.iter().filter_map(|n| evs.iter().position(|e| ev_name(e) == *n)).collect();
      if idx.len() == names.len() {
        let n = evs.len() as u64;
        let mut i = gen::count_sequences(evs.len(), 3);
        let mut v = 0u64;
        for k in idx.iter() {
          v = v * n + *k as u64;
        }
        i += v;
        debug_assert_eq!(gen::nth_sequence(evs.len(), 4, i), Some(idx.clone()));
        for cfg in ["jit-warm", "jit-cold"] {
          let (key, detail, diverged) = explain(tier, ci, ctl.name, &image, &evs, &idx, i, 4, cfg, &tmp);
          histories += 1;
          events += 4;
          if diverged {
            rep.add_violation(&key, detail);
          }
        }
      } else {
        rep.machinery_soft("C03: the witness history of the open finding cannot be spelled with this tier's events".to_string());
      }
    }
    let _ = std::fs::remove_file(&image);
  }
  // ---- cache-pressure histories (the cache is emptied several times per history)
  {
    let image = world::write_rom_file(&pressure_image());
    let prefix = format!("{}/c03_pressure", tmp);
    let child = std::process::Command::new(&jit_bin).args(&["C03", "--worker", "pressure", tier, &image, &prefix]).spawn();
    let r = run_pressure_cfg(&image, tier, 6);
    let nojit = r.results.clone();
    let (n, rounds) = pressure_counts(tier);
    let c = rep.add_stage("cache-pressure-histories", &format!("{} scripted histories (6 bank orders x {} phase shifts, {} rounds) of bank-sized blocks that fill the 8 MiB arena several times; jit warm cache vs non-jit, digest after every event", n, n / 6, rounds), r);
    histories += n;
    events += c[0];
    match child {
      Ok(ch) => match ch.wait_with_output() {
        Ok(o) if o.status.success() => match progrun::read_u64s(&format!("{}.u64", prefix)) {
          Ok(jit) => {
            if let Ok(meta) = progrun::parse_json_file(&format!("{}.json", prefix)) {
              if let Some(vs) = meta.get("violations").and_then(|v| v.as_arr()) {
                for v in vs {
                  rep.add_violation(&v.str_of("key"), v.get("detail").cloned().unwrap_or(J::Null));
                }
              }
              events += meta.int_of("events") as u64;
            }
            let mut reported = 0;
            for h in 0..n {
              let len = nojit[(h * 256 + 255) as usize];
              for i in 0..len.min(255) {
                states += 1;
                let idx = (h * 256 + i) as usize;
                if idx < jit.len() && jit[idx] != nojit[idx] {
                  if reported < 4 {
                    let evs = pressure_history(h, rounds);
                    let name = &evs[i as usize].1;
                    let prev: Vec<String> = evs[(i as usize).saturating_sub(3)..=(i as usize)].iter().map(|e| e.1.clone()).collect();
                    rep.add_violation(
                      &format!("C03 ctl=mbc3/4 cfg=jit-warm-vs-nojit pressure first-diff-at={}", if name.starts_with("bank") { "bank-write" } else if evs[i as usize].0 >= 0x4000 { "run(switchable-bank)" } else { "run(fixed-bank)" }),
                      J::obj()
                        .set("case", J::obj().set("pressure_history", J::u(h)).set("event_index", J::u(i)).set("event", J::s(name.as_str())).set("last_events", J::s(prev.join(";"))).set("bank_order_index", J::u(h % 6)).set("leading_events", J::u(h / 6)))
                        .set("observed", J::s("per-event digest of the jit build with its persistent cache differs from the non-jit build")),
                    );
                  }
                  reported += 1;
                  break;
                }
              }
            }
          },
          Err(e) => rep.machinery_error(e),
        },
        other => rep.machinery_error(format!("jit pressure worker failed: {:?}", other.map(|o| o.status))),
      },
      Err(e) => rep.machinery_error(format!("cannot start jit worker: {}", e)),
    }
    let _ = std::fs::remove_file(&image);
  }
  rep.evaluations = histories * 3;
  rep.cov("states", J::u(histories));
  rep.cov("transitions", J::u(events));
  rep.cov("traces_validated_against_impl", J::u(states));
  rep.cov("rule", J::s("a state is the event history reaching it (live cores cannot be cloned); every history is executed on the real Core in all three configurations and compared by per-event digest of registers, device registers, all RAM and frame buffers"));
  rep.finish()
}
