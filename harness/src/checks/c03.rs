//! C03 — the translation cache is transparent, including across ROM bank switches.
//! E2a + E3: every history up to a depth bound over {run a block at one of four addresses,
//! write a bank register through a guest block} is executed on a real Core loaded from a
//! multi-bank MBC1 / MBC3 ROM file whose banks hold different code at the same addresses,
//! in three configurations: jit build with a persistent cache, jit build with the cache
//! replaced by an empty one before every event, non-jit build.  The per-event state digests
//! must agree.

use crate::gen;
use crate::progrun;
use crate::util::json::J;
use crate::util::pool::{run_pool, PoolOpts, PoolResult};
use crate::util::report::Report;
use crate::world;

#[derive(Clone, Debug)]
pub enum Ev {
  Run(u16),
  /// guest block at this address in bank 0 performs the register write
  Write { block: u16, name: String },
}

pub struct Ctl {
  pub name: &'static str,
  pub cart_type: u8,
  pub rom_code: u8,
  pub banks: usize,
}

/// 128-bank images: every bank number the 5+2-bit (MBC1) / 7-bit (MBC3) registers can
/// produce exists, so no history leaves the image (that is C11/C12's subject, not C03's).
pub const CTLS: [Ctl; 2] = [
  Ctl { name: "mbc1/128", cart_type: 0x03, rom_code: 0x06, banks: 128 },
  Ctl { name: "mbc3/128", cart_type: 0x13, rom_code: 0x06, banks: 128 },
];

const WRITE_BLOCKS: usize = 0x0200;

/// (events, image) for a controller
pub fn world_for(c: &Ctl) -> (Vec<Ev>, Vec<u8>) {
  let mut img = vec![0u8; c.banks * 0x4000];
  // every bank: different block at 0x4000 and at 0x4100 (different opcodes, length, cycles)
  for b in 0..c.banks {
    let base = b * 0x4000;
    let mut code: Vec<u8> = vec![0x3E, b as u8]; // LD A,b
    for _ in 0..(b % 4) {
      code.push(0x3C); // INC A
    }
    code.extend_from_slice(&[0xEA, b as u8, 0xC1]); // LD (C1bb),A
    if b % 3 == 1 {
      code.extend_from_slice(&[0x34]); // INC (HL)
    }
    code.extend_from_slice(&[0xC3, 0x50, 0x01]); // JP 0150
    if b > 0 {
      img[base..base + code.len()].copy_from_slice(&code);
      let mut c2: Vec<u8> = vec![0x06, (b as u8) ^ 0x5A]; // LD B,x
      for _ in 0..(b % 3) {
        c2.push(0x00);
      }
      c2.extend_from_slice(&[0x78, 0xEA, b as u8, 0xC2, 0x18, 0x00]); // LD A,B; LD (C2bb),A; JR +0
      img[base + 0x100..base + 0x100 + c2.len()].copy_from_slice(&c2);
    }
  }
  // bank 0: common block at 0x0150: INC D; LD A,D; LD (C000),A; JP 0150
  let blk = [0x14, 0x7A, 0xEA, 0x00, 0xC0, 0xC3, 0x50, 0x01];
  img[0x150..0x150 + blk.len()].copy_from_slice(&blk);
  // bank 0: block at 0x3FFA running into 0x4000 without a terminator
  for a in 0x3FFA..0x4000 {
    img[a] = 0x0C; // INC C
  }
  let mut evs: Vec<Ev> = vec![Ev::Run(0x0150), Ev::Run(0x4000), Ev::Run(0x4100), Ev::Run(0x3FFA)];
  let mut blocks: Vec<(u16, u8, String)> = Vec::new(); // (register address, value, name)
  for k in [0u8, 1, 2, 3, 5, 0x21, 0x45].iter() {
    blocks.push((0x2100, *k, format!("bank({:02x})", k)));
  }
  if c.cart_type == 0x03 {
    for u in [0u8, 1, 2, 3].iter() {
      blocks.push((0x4000, *u, format!("upper({})", u)));
    }
    for m in [0u8, 1].iter() {
      blocks.push((0x6000, *m, format!("mode({})", m)));
    }
  } else {
    blocks.push((0x4000, 1, "rambank(1)".to_string()));
  }
  for (i, (reg, v, name)) in blocks.iter().enumerate() {
    let at = WRITE_BLOCKS + i * 16;
    let code = [0x3E, *v, 0xEA, (*reg & 0xff) as u8, (*reg >> 8) as u8, 0xC3, 0x50, 0x01]; // LD A,v; LD (reg),A; JP 0150
    img[at..at + code.len()].copy_from_slice(&code);
    evs.push(Ev::Write { block: at as u16, name: name.clone() });
  }
  let h = world::header_bytes(c.cart_type, c.rom_code, 0x02);
  img[0x100..0x150].copy_from_slice(&h[0x100..0x150]);
  (evs, img)
}

pub fn ev_name(e: &Ev) -> String {
  match e {
    Ev::Run(a) => format!("run({:04x})", a),
    Ev::Write { name, .. } => name.clone(),
  }
}

pub fn hist_name(evs: &[Ev], h: &[usize]) -> String {
  h.iter().map(|i| ev_name(&evs[*i])).collect::<Vec<_>>().join(";")
}

fn apply(core: &mut crate::emulator::Core, e: &Ev) {
  let pc = match e {
    Ev::Run(a) => *a,
    Ev::Write { block, .. } => *block,
  };
  core.registers.ip = pc as u32;
  core.run_state = crate::emulator::RunState::Run;
  core.run_code_block();
}

fn run_history(image: &str, evs: &[Ev], h: &[usize], cold: bool) -> u64 {
  let mut core = progrun::fresh_core(image).expect("image loads");
  core.registers.sp = 0xDFF0;
  core.registers.hl = 0xC080;
  let mut ch = progrun::Chain::new();
  for i in h {
    if cold {
      progrun::drop_cache(&mut core);
    }
    apply(&mut core, &evs[*i]);
    ch.small(&core);
    ch.big(&core);
  }
  ch.get()
}

fn detail_history(image: &str, evs: &[Ev], h: &[usize], cold: bool) -> J {
  let mut core = progrun::fresh_core(image).expect("image loads");
  core.registers.sp = 0xDFF0;
  core.registers.hl = 0xC080;
  let mut rows = Vec::new();
  for (n, i) in h.iter().enumerate() {
    if cold {
      progrun::drop_cache(&mut core);
    }
    apply(&mut core, &evs[*i]);
    let mut row = J::obj().set("step", J::u(n as u64)).set("event", J::s(ev_name(&evs[*i])));
    for (k, v) in world::small_state(&core) {
      row.put(k, J::u(v));
    }
    for (k, v) in world::big_state(&core) {
      row.put(k, J::s(format!("{:016x}", v)));
    }
    rows.push(row);
  }
  J::Arr(rows)
}

pub fn depth_for(tier: &str, cold: bool) -> usize {
  match (tier, cold) {
    ("quick", _) => 3,
    (_, true) => 4,
    (_, false) => 4,
  }
}

pub fn run_cfg(image: &str, evs: &[Ev], depth: usize, cold: bool, workers: usize) -> PoolResult {
  let total = gen::count_sequences(evs.len(), depth);
  let opts = PoolOpts { workers, chunk: 16, bitmap_bits: 1 << 16, result_words: total as usize, samples_per_child: 1, ..PoolOpts::default() };
  run_pool(
    total,
    &opts,
    |_| (),
    |_, case, ctx| {
      let h = gen::nth_sequence(evs.len(), depth, case).unwrap();
      let d = run_history(image, evs, &h, cold);
      ctx.result(case, d);
      ctx.count(0, h.len() as u64);
      ctx.class(d & 0xffff);
      ctx.sample(|| J::obj().set("history", J::s(hist_name(evs, &h))));
    },
    |case, how| {
      let h = gen::nth_sequence(evs.len(), depth, case).unwrap_or_default();
      (
        format!("C03 build={} cold={} hist={} crash={}", progrun::this_build(), cold, hist_name(evs, &h), how),
        J::obj().set("case", J::obj().set("history", J::s(hist_name(evs, &h)))),
      )
    },
  )
}

/// `gbmc C03 --worker run <tier> <ctl index> <image> <cold 0|1> <out-prefix>`
/// `gbmc C03 --worker detail <tier> <ctl index> <image> <cold 0|1> <history index> <depth> <out.json>`
pub fn worker(args: &[String]) -> i32 {
  if args.len() >= 6 && args[0] == "run" {
    let ci: usize = args[2].parse().unwrap_or(0);
    let (evs, _) = world_for(&CTLS[ci]);
    let cold = args[4] == "1";
    let r = run_cfg(&args[3], &evs, depth_for(&args[1], cold), cold, crate::util::pool::default_workers());
    if progrun::write_u64s(&format!("{}.u64", args[5]), &r.results).is_err() {
      return 2;
    }
    let viol = J::Arr(r.violations.iter().map(|v| J::obj().set("key", J::s(v.key.as_str())).set("count", J::u(v.count)).set("detail", v.detail.clone())).collect());
    let meta = J::obj().set("violations", viol).set("machinery", J::Arr(r.machinery_errors.iter().map(|m| J::s(m.as_str())).collect())).set("events", J::u(r.counters[0]));
    if std::fs::write(format!("{}.json", args[5]), meta.to_string()).is_err() {
      return 2;
    }
    return 0;
  }
  if args.len() >= 8 && args[0] == "detail" {
    let ci: usize = args[2].parse().unwrap_or(0);
    let (evs, _) = world_for(&CTLS[ci]);
    let cold = args[4] == "1";
    let idx: u64 = args[5].parse().unwrap_or(0);
    let depth: usize = args[6].parse().unwrap_or(1);
    let h = gen::nth_sequence(evs.len(), depth, idx).unwrap();
    unsafe {
      let devnull = libc::open(b"/dev/null\0".as_ptr() as *const libc::c_char, libc::O_WRONLY);
      libc::dup2(devnull, 1);
    }
    let d = detail_history(&args[3], &evs, &h, cold);
    if std::fs::write(&args[7], d.to_string()).is_err() {
      return 2;
    }
    return 0;
  }
  eprintln!("C03 worker: bad arguments {:?}", args);
  2
}

fn contains(hay: &[usize], needle: &[usize]) -> bool {
  !needle.is_empty() && hay.windows(needle.len()).any(|w| w == needle)
}

pub fn run(tier: &str) -> i32 {
  let mut rep = Report::new("C03", tier, "model_checking");
  rep.assume("events: run the block at 0x0150 / 0x4000 / 0x4100 / 0x3FFA (PC set by the harness), and bank-register writes executed as guest blocks in bank 0; banks hold different code at the same addresses");
  let tmp = crate::util::pool::tmp_dir();
  let jit_bin = match std::env::var("GBMC_JIT_BIN") {
    Ok(b) => b,
    Err(_) => {
      rep.machinery_error("GBMC_JIT_BIN not set (run through bin/check)".to_string());
      return rep.finish();
    },
  };
  let n_ctl = CTLS.len();
  let mut histories = 0u64;
  let mut events = 0u64;
  let mut states = 0u64;
  for ci in 0..n_ctl {
    let ctl = &CTLS[ci];
    let (evs, img) = world_for(ctl);
    let image = world::write_rom_file(&img);
    let mut results: Vec<(String, Vec<u64>, usize)> = Vec::new(); // (cfg, digests, depth)
    // jit build: warm and cold, as worker processes
    let mut children = Vec::new();
    for cold in [false, true].iter() {
      let prefix = format!("{}/c03_{}_{}", tmp, ci, if *cold { "cold" } else { "warm" });
      let child = std::process::Command::new(&jit_bin)
        .args(&["C03", "--worker", "run", tier, &ci.to_string(), &image, if *cold { "1" } else { "0" }, &prefix])
        .env("GBMC_WORKERS", "4")
        .spawn();
      match child {
        Ok(c) => children.push((c, prefix, *cold)),
        Err(e) => {
          rep.machinery_error(format!("cannot start jit worker: {}", e));
          return rep.finish();
        },
      }
    }
    let depth = depth_for(tier, false);
    let r = run_cfg(&image, &evs, depth, false, 8);
    let nojit = r.results.clone();
    let total = r.cases_total;
    let c = rep.add_stage(
      &format!("histories-{}", ctl.name),
      &format!("all histories of length <= {} over {} events on a {}-bank {} image, non-jit build (jit warm / jit cold run the same enumeration)", depth, evs.len(), ctl.banks, ctl.name),
      r,
    );
    histories += total;
    events += c[0];
    for (child, prefix, cold) in children {
      match child.wait_with_output() {
        Ok(o) if o.status.success() => {},
        other => {
          rep.machinery_error(format!("jit worker (cold={}) failed: {:?}", cold, other.map(|o| o.status)));
          continue;
        },
      }
      match progrun::read_u64s(&format!("{}.u64", prefix)) {
        Ok(v) => results.push((if cold { "jit-cold".to_string() } else { "jit-warm".to_string() }, v, depth_for(tier, cold))),
        Err(e) => rep.machinery_error(e),
      }
      if let Ok(meta) = progrun::parse_json_file(&format!("{}.json", prefix)) {
        if let Some(vs) = meta.get("violations").and_then(|v| v.as_arr()) {
          for v in vs {
            rep.add_violation(&v.str_of("key"), v.get("detail").cloned().unwrap_or(J::Null));
          }
        }
        events += meta.int_of("events") as u64;
      }
    }
    // compare each jit configuration with the non-jit build, shortest history first
    for (cfg, res, d) in results.iter() {
      let n = gen::count_sequences(evs.len(), *d).min(total) as usize;
      let mut reported: Vec<Vec<usize>> = Vec::new();
      for i in 0..n.min(res.len()) {
        states += 1;
        // index spaces agree for the common depth prefix (shortest-first enumeration)
        if res[i] == nojit[i] {
          continue;
        }
        let h = gen::nth_sequence(evs.len(), *d, i as u64).unwrap();
        if reported.iter().any(|r| contains(&h, r)) || reported.len() >= 8 {
          continue;
        }
        let cold = cfg == "jit-cold";
        let dj = format!("{}/c03_dj.json", tmp);
        let dn = format!("{}/c03_dn.json", tmp);
        let mk = |cold: bool, depth: usize, out: &str| {
          vec!["C03".to_string(), "--worker".to_string(), "detail".to_string(), tier.to_string(), ci.to_string(), image.clone(), if cold { "1".to_string() } else { "0".to_string() }, i.to_string(), depth.to_string(), out.to_string()]
        };
        let r1 = progrun::spawn_worker("GBMC_JIT_BIN", &mk(cold, *d, &dj));
        let r2 = progrun::spawn_worker("GBMC_NOJIT_BIN", &mk(false, *d, &dn));
        let obs = match (r1, r2) {
          (Ok(_), Ok(_)) => match (progrun::parse_json_file(&dj), progrun::parse_json_file(&dn)) {
            (Ok(a), Ok(b)) => match progrun::first_diff(&b, &a) {
              Some((step, field, vn, vj)) => J::obj().set("first_diff_event", J::u(step)).set("field", J::s(field)).set("nojit", J::s(vn)).set(cfg.as_str(), J::s(vj)),
              None => J::obj().set("note", J::s("digests differ, detailed runs agree")),
            },
            _ => J::obj().set("note", J::s("detail unreadable")),
          },
          (a, b) => J::obj().set("note", J::s(format!("detail run failed: {:?} {:?}", a.err(), b.err()))),
        };
        let hn = hist_name(&evs, &h);
        rep.add_violation(
          &format!("C03 ctl={} cfg={}-vs-nojit hist={}", ctl.name, cfg, hn),
          J::obj().set("case", J::obj().set("controller", J::s(ctl.name)).set("history", J::s(hn.as_str()))).set("observed", obs),
        );
        reported.push(h);
      }
    }
    let _ = std::fs::remove_file(&image);
  }
  rep.evaluations = histories * 3;
  rep.cov("states", J::u(histories));
  rep.cov("transitions", J::u(events));
  rep.cov("traces_validated_against_impl", J::u(states));
  rep.cov("rule", J::s("a state is the event history reaching it (live cores cannot be cloned); every history is executed on the real Core in all three configurations and compared by per-event digest of registers, device registers, all RAM and frame buffers"));
  rep.finish()
}
