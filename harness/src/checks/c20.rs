//! C20 — debugger command parsing and disassembly are total and agree with the decoder.
//! E1, bounded exhaustive enumeration on the real `parse_address`, `parse_command`,
//! `disassemble` (rendered through `Display`) and `decoder::decode`.
//!
//! (a) `parse_address`: all 65 536 values in every listed notation, the out-of-range
//!     neighbours and a list of malformed tokens; the same values through `p`/`break`.
//! (b) `parse_command`: every line of length <= L over two 17-symbol alphabets, every
//!     command word in every letter-case pattern with every listed framing/argument;
//!     oracle = the reference tokenizer `ref_command` below (written from the statement).
//! (c) `disassemble`: every sequence of <= 2 complete instructions over all first/CB bytes
//!     (operands from a small set), <= 3 over representatives, four start addresses; the
//!     rendered rows must tile the input with the decoder's lengths and wrapped addresses.
//!     Sequences are built from R1's lengths (`refm::r1::info`), never from the decoder.

use crate::debug::command::{parse_address, parse_command, Command};
use crate::debug::disassembly::disassemble;
use crate::decoder;
use crate::refm::r1;
use crate::util::json::J;
use crate::util::pool::{run_pool, Ctx, PoolOpts};
use crate::util::report::Report;
use std::panic::{catch_unwind, AssertUnwindSafe};

// counters
const N_ADDR: usize = 0; // parse_address calls judged
const N_ADDR_OPEN: usize = 1; // parse_address calls executed but not judged ('+', "0X")
const N_CMD: usize = 2; // parse_command calls judged
const N_CMD_OPEN: usize = 3; // parse_command calls executed, outcome left open by the statement
const N_DIS: usize = 4; // disassemble calls judged
const N_DIS_EXCL: usize = 5; // sequences excluded: decoder boundaries differ from R1's
const N_DIS_ROWS: usize = 6; // rendered rows parsed and compared
const N_DIS_UNPARSED: usize = 7; // rendered rows whose Display format was not understood (machinery)
const N_DEC_R1_DIFF: usize = 8; // single instructions where decoder length != R1 length
const N_DEC_SINGLE: usize = 9; // single instructions compared decoder vs R1

fn guard<T, F: FnOnce() -> T>(f: F) -> Result<T, ()> {
  catch_unwind(AssertUnwindSafe(f)).map_err(|_| ())
}

/// printable-ASCII rendering of an input line (for keys/details)
fn esc(s: &str) -> String {
  let mut o = String::new();
  for c in s.chars() {
    if c == '\\' {
      o.push_str("\\\\");
    } else if (c as u32) >= 0x20 && (c as u32) < 0x7f {
      o.push(c);
    } else {
      o.push_str(&format!("\\u{{{:04X}}}", c as u32));
    }
  }
  o
}

fn hex(b: &[u8]) -> String {
  b.iter().map(|x| format!("{:02X}", x)).collect::<Vec<_>>().join(" ")
}

// ------------------------------------------------------------------------------------
// Reference models (written from the property statement)
// ------------------------------------------------------------------------------------

#[derive(Clone, Copy, Debug, PartialEq, Eq)]
enum AddrWant {
  Val(u16),
  Reject,
  /// the statement does not say ('+' sign, "0X" prefix)
  Open,
}

/// A token (no surrounding whitespace) is an address iff it is a non-empty string of
/// ASCII decimal digits, or "0x" followed by a non-empty string of ASCII hex digits,
/// whose value is <= 0xFFFF.  Leading zeros do not change the value.
fn ref_address(t: &str) -> AddrWant {
  if t.starts_with('+') || t.starts_with("0X") || t.starts_with("0x+") {
    return AddrWant::Open;
  }
  let (digits, radix) = if t.len() >= 2 && &t.as_bytes()[..2] == b"0x" { (&t[2..], 16u32) } else { (t, 10u32) };
  if digits.is_empty() {
    return AddrWant::Reject;
  }
  let mut v: u32 = 0;
  let mut over = false;
  for c in digits.chars() {
    let d = match c {
      '0'..='9' => c as u32 - '0' as u32,
      'a'..='f' if radix == 16 => c as u32 - 'a' as u32 + 10,
      'A'..='F' if radix == 16 => c as u32 - 'A' as u32 + 10,
      _ => return AddrWant::Reject,
    };
    if !over {
      v = v * radix + d;
      if v > 0xFFFF {
        over = true;
      }
    }
  }
  if over { AddrWant::Reject } else { AddrWant::Val(v as u16) }
}

#[derive(Clone, Copy, Debug, PartialEq, Eq)]
enum Want {
  Cmd(Command),
  Reject,
  Open,
}

#[derive(Clone, Copy, PartialEq, Eq)]
enum WordMatch {
  Yes(usize),
  No,
  Open,
}

/// "regardless of letter case": a token is the command word iff it equals it after ASCII
/// case folding.  A token with non-ASCII letters that some Unicode case mapping turns
/// into a command word (Kelvin sign, long s, ...) is left open.
fn word_match(tok: &str, words: &[&str]) -> WordMatch {
  for (i, w) in words.iter().enumerate() {
    if tok.eq_ignore_ascii_case(w) {
      return WordMatch::Yes(i);
    }
  }
  if !tok.is_ascii() {
    let lo = tok.to_lowercase();
    let up = tok.to_uppercase();
    for w in words.iter() {
      if lo == *w || up == w.to_uppercase() {
        return WordMatch::Open;
      }
    }
  }
  WordMatch::No
}

const FIRST_WORDS: [&str; 8] = ["break", "c", "continue", "info", "p", "print", "s", "step"];
const INFO_WORDS: [&str; 2] = ["reg", "registers"];
/// key names of the recognised command (index into this table is also the class index)
const WORD_KEYS: [&str; 11] = ["none", "break", "c", "continue", "info", "info-reg", "info-registers", "p", "print", "s", "step"];

/// Reference tokenizer: tokens are the maximal runs of non-whitespace (Unicode
/// White_Space) characters; the first token selects the command; `break`, `p`, `print`
/// take one address token; tokens after the last one a command needs are ignored.
fn ref_command(line: &str) -> (Want, usize) {
  let mut toks = line.split(|c: char| c.is_whitespace()).filter(|t| !t.is_empty());
  let first = match toks.next() {
    Some(t) => t,
    None => return (Want::Reject, 0),
  };
  let w = match word_match(first, &FIRST_WORDS) {
    WordMatch::Yes(i) => i,
    WordMatch::No => return (Want::Reject, 0),
    WordMatch::Open => return (Want::Open, 0),
  };
  let addr_cmd = |tok: Option<&str>, mk: fn(u16) -> Command| -> Want {
    match tok {
      None => Want::Reject,
      Some(t) => match ref_address(t) {
        AddrWant::Val(v) => Want::Cmd(mk(v)),
        AddrWant::Reject => Want::Reject,
        AddrWant::Open => Want::Open,
      },
    }
  };
  match FIRST_WORDS[w] {
    "break" => (addr_cmd(toks.next(), Command::BreakSet), 1),
    "c" => (Want::Cmd(Command::Continue), 2),
    "continue" => (Want::Cmd(Command::Continue), 3),
    "info" => match toks.next() {
      None => (Want::Reject, 4),
      Some(t) => match word_match(t, &INFO_WORDS) {
        WordMatch::Yes(i) => (Want::Cmd(Command::ReadRegisters), 5 + i),
        WordMatch::No => (Want::Reject, 4),
        WordMatch::Open => (Want::Open, 4),
      },
    },
    "p" => (addr_cmd(toks.next(), Command::ReadMemory), 7),
    "print" => (addr_cmd(toks.next(), Command::ReadMemory), 8),
    "s" => (Want::Cmd(Command::Step), 9),
    _ => (Want::Cmd(Command::Step), 10),
  }
}

fn variant_index(c: &Command) -> u64 {
  match c {
    Command::BreakClear(_) => 0,
    Command::BreakList => 1,
    Command::BreakSet(_) => 2,
    Command::Continue => 3,
    Command::ReadMemory(_) => 4,
    Command::ReadMemoryRange(_, _) => 5,
    Command::ReadRegisters => 6,
    Command::Step => 7,
  }
}

fn same_variant(a: &Command, b: &Command) -> bool {
  variant_index(a) == variant_index(b)
}

// ------------------------------------------------------------------------------------
// Judging one call
// ------------------------------------------------------------------------------------

fn check_command(ctx: &mut Ctx, line: &str) {
  let (want, widx) = ref_command(line);
  let got = guard(|| parse_command(line));
  let gotk: u64 = match &got {
    Err(()) => 9,
    Ok(None) => 8,
    Ok(Some(c)) => variant_index(c),
  };
  let wantk: u64 = match &want {
    Want::Cmd(_) => 0,
    Want::Reject => 1,
    Want::Open => 2,
  };
  // outcome class: (recognised word, expected kind, observed kind, leading / trailing whitespace)
  let lead_ws = line.chars().next().map_or(false, |c| c.is_whitespace()) as u64;
  let trail_ws = line.chars().next_back().map_or(false, |c| c.is_whitespace()) as u64;
  ctx.class(0x1000 + ((widx as u64) * 32 + wantk * 10 + gotk) * 4 + lead_ws * 2 + trail_ws);
  let kind: Option<&str> = match (&want, &got) {
    (_, Err(())) => Some("panic"),
    (Want::Open, _) => None,
    (Want::Reject, Ok(None)) => None,
    (Want::Reject, Ok(Some(_))) => Some(if widx == 0 { "accepted-unknown-word" } else { "accepted-bad-argument" }),
    (Want::Cmd(_), Ok(None)) => Some("rejected"),
    (Want::Cmd(w), Ok(Some(g))) => {
      if w == g {
        None
      } else if same_variant(w, g) {
        Some("wrong-address")
      } else {
        Some("wrong-command")
      }
    },
  };
  if want == Want::Open && got.is_ok() {
    ctx.count(N_CMD_OPEN, 1);
  } else {
    ctx.count(N_CMD, 1);
  }
  if let Some(kind) = kind {
    ctx.violation(&format!("C20 parse_command word={} kind={}", WORD_KEYS[widx], kind), || {
      J::obj()
        .set("case", J::obj().set("fn", J::s("parse_command")).set("input", J::s(line)).set("input_escaped", J::s(esc(line))))
        .set("expected", J::s(match &want { Want::Cmd(c) => format!("Some({:?})", c), Want::Reject => "None".to_string(), Want::Open => "any result, no panic".to_string() }))
        .set("observed", J::s(match &got { Err(()) => "panic".to_string(), Ok(g) => format!("{:?}", g) }))
    });
  }
}

const NOTATIONS: [&str; 9] = ["dec", "hex-lower", "hex-upper", "dec-padded", "hex-padded", "ws-framed", "dec-out-of-range", "hex-out-of-range", "malformed"];

/// `want`: Some(v) = must return exactly v; None = must be rejected.
fn check_address(ctx: &mut Ctx, notation: usize, s: &str, want: Option<u16>) {
  let got = guard(|| parse_address(s));
  ctx.count(N_ADDR, 1);
  let outcome: u64 = match (&got, want) {
    (Err(()), _) => 0,
    (Ok(None), None) => 1,
    (Ok(None), Some(_)) => 2,
    (Ok(Some(_)), None) => 3,
    (Ok(Some(g)), Some(w)) => if *g == w { 4 } else { 5 },
  };
  ctx.class(0x2000 + (notation as u64) * 8 + outcome);
  let kind = match outcome {
    0 => "panic",
    2 => "rejected-valid",
    3 => if notation == 8 { "accepted-malformed" } else { "accepted-out-of-range" },
    5 => "wrong-value",
    _ => return,
  };
  ctx.violation(&format!("C20 parse_address notation={} kind={}", NOTATIONS[notation], kind), || {
    J::obj()
      .set("case", J::obj().set("fn", J::s("parse_address")).set("input", J::s(s)).set("input_escaped", J::s(esc(s))))
      .set("expected", J::s(format!("{:?}", want)))
      .set("observed", J::s(match &got { Err(()) => "panic".to_string(), Ok(g) => format!("{:?}", g) }))
  });
}

// ------------------------------------------------------------------------------------
// (a) parse_address
// ------------------------------------------------------------------------------------

const MALFORMED: [&str; 44] = [
  "", " ", "\t", "0x", "0x ", " 0x", "0xg", "0xG", "0x1g", "g", "x", "x10", "ff", "FF", "abc", "-1", "-0", "-", "0x-1", "0x-", "1 2", "0x1 2",
  "0x 1", "0 x1", "1.0", "1e3", "1,000", "1_000", "0x1_0", "0b1", "0o7", "0x0x1", "0xx1", "10h", "$10", "#10", "1\u{0}", "\u{0}1",
  "\u{661}\u{662}", "\u{ff11}\u{ff12}", "0\u{ff58}10", "0x\u{ff11}", "1\u{3000}2", "0x1\u{e9}",
];

fn addr_case(ctx: &mut Ctx, case: u64) {
  if case == 65536 {
    for s in MALFORMED.iter() {
      check_address(ctx, 8, s, None);
      for cmd in ["p", "print", "break"].iter() {
        check_command(ctx, &format!("{} {}", cmd, s));
      }
    }
    // executed for totality, not judged on the value ('+' sign and "0X" are left open)
    for s in ["+1", "+0", "+65535", "+65536", "+", "0x+1", "0x+", "0X10", "0XFFFF", "0X", "0X10000", "+0x1"].iter() {
      let got = guard(|| parse_address(s));
      ctx.count(N_ADDR_OPEN, 1);
      ctx.class(0x2000 + 9 * 8 + if got.is_err() { 0 } else { 1 });
      if got.is_err() {
        ctx.violation("C20 parse_address notation=unjudged-sign-or-0X kind=panic", || {
          J::obj().set("case", J::obj().set("fn", J::s("parse_address")).set("input", J::s(*s))).set("expected", J::s("any result")).set("observed", J::s("panic"))
        });
      }
      check_command(ctx, &format!("p {}", s));
    }
    return;
  }
  let v = case as u16;
  ctx.sample(|| J::obj().set("parse_address", J::s(format!("value {} in dec / 0x lower / 0x upper / padded / framed, and 2^16+v, 2^32+v, 2^64+v rejected", v))));
  let dec = format!("{}", v);
  let hl = format!("0x{:x}", v);
  let hu = format!("0x{:X}", v);
  check_address(ctx, 0, &dec, Some(v));
  check_address(ctx, 1, &hl, Some(v));
  check_address(ctx, 2, &hu, Some(v));
  let z40 = "0".repeat(40);
  for s in [format!("{:05}", v), format!("{:06}", v), format!("{:016}", v), format!("{}{}", z40, v)].iter() {
    check_address(ctx, 3, s, Some(v));
  }
  for s in [format!("0x{:04x}", v), format!("0x{:04X}", v), format!("0x{:05x}", v), format!("0x{:08X}", v), format!("0x{}{:x}", z40, v)].iter() {
    check_address(ctx, 4, s, Some(v));
  }
  for base in [&dec, &hl, &hu].iter() {
    for (l, r) in [(" ", ""), ("", " "), ("\t", ""), ("", "\t"), (" ", " "), ("  \t ", " \t  ")].iter() {
      check_address(ctx, 5, &format!("{}{}{}", l, base, r), Some(v));
    }
  }
  // out of range: 65536+v (covers 65536..=70000 and every value that truncates to v),
  // 2^32+v, 2^64+v, in decimal and hex, plain / padded / framed
  let o16 = 0x1_0000u128 + v as u128;
  let o32 = 0x1_0000_0000u128 + v as u128;
  let o64 = 0x1_0000_0000_0000_0000u128 + v as u128;
  for o in [o16, o32, o64].iter() {
    check_address(ctx, 6, &format!("{}", o), None);
    check_address(ctx, 7, &format!("0x{:x}", o), None);
    check_address(ctx, 7, &format!("0x{:X}", o), None);
  }
  check_address(ctx, 6, &format!("000{}", o16), None);
  check_address(ctx, 6, &format!(" {}\t", o16), None);
  check_address(ctx, 7, &format!("0x000{:x}", o16), None);
  check_address(ctx, 7, &format!("\t0x{:X} ", o16), None);
  // through the command path: every address in both notations
  for cmd in ["p", "print", "break"].iter() {
    check_command(ctx, &format!("{} {}", cmd, dec));
    check_command(ctx, &format!("{} {}", cmd, hl));
  }
  check_command(ctx, &format!("P {}", hu));
  check_command(ctx, &format!("break {}", o16));
  check_command(ctx, &format!("p 0x{:x}", o16));
}

// ------------------------------------------------------------------------------------
// (b) parse_command: short lines over an alphabet
// ------------------------------------------------------------------------------------

const ALPHA_LOWER: [char; 17] = [' ', '\t', '\u{3000}', 'b', 'r', 'e', 'a', 'k', 'c', 's', 'p', '0', '1', 'x', 'f', '\u{130}', '\u{df}'];
const ALPHA_UPPER: [char; 17] = [' ', '\t', '\u{3000}', 'B', 'R', 'E', 'A', 'K', 'C', 'S', 'P', '0', '1', 'x', 'F', '\u{130}', '\u{df}'];

fn pow17(n: u32) -> u64 {
  17u64.pow(n)
}

/// all strings `prefix + suffix` with |suffix| <= extra
fn lines_rec(ctx: &mut Ctx, alpha: &[char; 17], buf: &mut String, extra: u32) {
  check_command(ctx, buf);
  if extra == 0 {
    return;
  }
  for c in alpha.iter() {
    let n = buf.len();
    buf.push(*c);
    lines_rec(ctx, alpha, buf, extra - 1);
    buf.truncate(n);
  }
}

/// all strings of length exactly `len` then nothing more
fn lines_exact(ctx: &mut Ctx, alpha: &[char; 17], buf: &mut String, len: u32) {
  if len == 0 {
    check_command(ctx, buf);
    return;
  }
  for c in alpha.iter() {
    let n = buf.len();
    buf.push(*c);
    lines_exact(ctx, alpha, buf, len - 1);
    buf.truncate(n);
  }
}

fn lines_case(ctx: &mut Ctx, alpha: &[char; 17], max_len: u32, plen: u32, case: u64) {
  let n_prefix = pow17(plen);
  let mut buf = String::new();
  if case == n_prefix {
    // every string shorter than the prefix length
    for l in 0..plen {
      lines_exact(ctx, alpha, &mut buf, l);
    }
    return;
  }
  ctx.sample(|| J::obj().set("parse_command", J::s(format!("every line of length <= {} starting with the {}-symbol prefix number {}", max_len, plen, case))));
  let mut c = case;
  let mut idx = Vec::new();
  for _ in 0..plen {
    idx.push((c % 17) as usize);
    c /= 17;
  }
  for i in idx.iter().rev() {
    buf.push(alpha[*i]);
  }
  lines_rec(ctx, alpha, &mut buf, max_len - plen);
}

// ------------------------------------------------------------------------------------
// (b) parse_command: command words x letter case x framing x arguments
// ------------------------------------------------------------------------------------

/// (first token, optional second token); the first nine are the command words, the rest
/// are near misses that must be rejected
const WORD_SPECS: [(&str, &str); 36] = [
  ("break", ""), ("c", ""), ("continue", ""), ("info", "reg"), ("info", "registers"), ("p", ""), ("print", ""), ("s", ""), ("step", ""),
  ("brea", ""), ("breakk", ""), ("breaks", ""), ("b", ""), ("br", ""), ("cont", ""), ("continu", ""), ("continues", ""), ("cc", ""),
  ("ste", ""), ("steps", ""), ("ss", ""), ("st", ""), ("pr", ""), ("prin", ""), ("prints", ""), ("pp", ""), ("inf", ""), ("i", ""),
  ("info", ""), ("info", "r"), ("info", "regs"), ("info", "register"), ("infos", "reg"), ("reg", ""), ("registers", ""), ("x", ""),
];
const LEADS: [&str; 4] = ["", " ", "\t", "\u{3000} "];
const SEPS: [&str; 4] = [" ", "\t\t", "\u{3000}", ""];
const TRAILS: [&str; 5] = ["", " ", "\n", "\r\n", "\u{3000}\t"];
const ARGS: [&str; 16] = ["", "0", "65535", "65536", "0x0", "0xffff", "0xFFFF", "0x10000", "007", "0x", "x", "-1", "1 2", "0x1f junk", "junk 1", "c"];

fn word_letters(w: &(&str, &str)) -> u32 {
  (w.0.len() + w.1.len()) as u32
}

fn apply_case(s: &str, pattern: u64, bit0: u32) -> String {
  s.chars()
    .enumerate()
    .map(|(i, c)| if pattern >> (bit0 + i as u32) & 1 == 1 { c.to_ascii_uppercase() } else { c })
    .collect()
}

fn words_total() -> u64 {
  WORD_SPECS.iter().map(|w| 1u64 << word_letters(w)).sum()
}

fn words_case(ctx: &mut Ctx, case: u64) {
  let mut c = case;
  let mut wi = 0;
  while c >= (1u64 << word_letters(&WORD_SPECS[wi])) {
    c -= 1u64 << word_letters(&WORD_SPECS[wi]);
    wi += 1;
  }
  let w = &WORD_SPECS[wi];
  let t0 = apply_case(w.0, c, 0);
  let t1 = apply_case(w.1, c, w.0.len() as u32);
  ctx.sample(|| J::obj().set("parse_command", J::s(format!("\"{}\" \"{}\" with every lead / separator / argument / trailer", t0, t1))));
  let inner: &[&str] = if w.1.is_empty() { &[""] } else { &SEPS };
  let mut line = String::new();
  for lead in LEADS.iter() {
    for isep in inner.iter() {
      for arg in ARGS.iter() {
        let seps: &[&str] = if arg.is_empty() { &[""] } else { &SEPS };
        for sep in seps.iter() {
          for trail in TRAILS.iter() {
            line.clear();
            line.push_str(lead);
            line.push_str(&t0);
            line.push_str(isep);
            line.push_str(&t1);
            line.push_str(sep);
            line.push_str(arg);
            line.push_str(trail);
            check_command(ctx, &line);
          }
        }
      }
    }
  }
}

// ------------------------------------------------------------------------------------
// (c) disassemble
// ------------------------------------------------------------------------------------

const CL_NAMES: [&str; 6] = ["len1", "len2", "len3", "cb", "undefined", "stop"];
const STARTS: [u16; 4] = [0x0000, 0x7FFE, 0xFFFD, 0xFFFF];

#[derive(Clone)]
struct Var {
  bytes: Vec<u8>,
  class: usize,
}

/// every complete instruction: first byte (and CB second byte) exhaustive, operand bytes
/// from {00, FF, CB, A1} / {(00,00), (FF,FF), (A1,B2), (CB,01)}; lengths from R1.
fn variants() -> Vec<Var> {
  let mut v = Vec::new();
  for op in 0..=255u8 {
    if op == 0xCB {
      for cb in 0..=255u8 {
        let l = r1::info_cb(cb).0;
        assert!(l == 2);
        v.push(Var { bytes: vec![0xCB, cb], class: 3 });
      }
      continue;
    }
    if r1::is_undefined(op) {
      v.push(Var { bytes: vec![op], class: 4 });
      continue;
    }
    let len = r1::info(op).expect("R1 length").0;
    match len {
      1 => v.push(Var { bytes: vec![op], class: 0 }),
      2 => {
        for o in [0x00u8, 0xFF, 0xCB, 0xA1].iter() {
          v.push(Var { bytes: vec![op, *o], class: if op == 0x10 { 5 } else { 1 } });
        }
      },
      3 => {
        for (lo, hi) in [(0x00u8, 0x00u8), (0xFF, 0xFF), (0xA1, 0xB2), (0xCB, 0x01)].iter() {
          v.push(Var { bytes: vec![op, *lo, *hi], class: 2 });
        }
      },
      _ => panic!("R1 length out of range"),
    }
  }
  v
}

/// representatives per length class (indices into `variants()`)
fn representatives(vars: &[Var]) -> Vec<usize> {
  let want: [&[u8]; 12] = [
    &[0x00], &[0xFF], &[0xD3], &[0x06, 0xCB], &[0x3E, 0xFF], &[0x18, 0x00], &[0x10, 0x00], &[0x01, 0xCB, 0x01], &[0xC3, 0xFF, 0xFF], &[0xEA, 0xA1, 0xB2],
    &[0xCB, 0x46], &[0xCB, 0xCB],
  ];
  want.iter().map(|w| vars.iter().position(|v| v.bytes.as_slice() == *w).expect("representative exists")).collect()
}

struct Row {
  addr: u16,
  bytes: Vec<u8>,
}

fn hexval(b: u8) -> Option<u32> {
  match b {
    b'0'..=b'9' => Some((b - b'0') as u32),
    b'a'..=b'f' => Some((b - b'a') as u32 + 10),
    b'A'..=b'F' => Some((b - b'A') as u32 + 10),
    _ => None,
  }
}

/// "0xAAAA  BB BB BB    TEXT": 6 columns address, 2 blanks, four 3-column byte slots
fn parse_row(s: &str) -> Option<Row> {
  let b = s.as_bytes();
  if b.len() < 20 || b[0] != b'0' || (b[1] != b'x' && b[1] != b'X') || b[6] != b' ' || b[7] != b' ' {
    return None;
  }
  let mut addr = 0u32;
  for i in 2..6 {
    addr = addr * 16 + hexval(b[i])?;
  }
  let mut bytes = Vec::new();
  let mut blank = false;
  for k in 0..4 {
    let g = &b[8 + 3 * k..11 + 3 * k];
    if g == b"   " {
      blank = true;
    } else {
      if blank || g[2] != b' ' {
        return None;
      }
      bytes.push((hexval(g[0])? * 16 + hexval(g[1])?) as u8);
    }
  }
  Some(Row { addr: addr as u16, bytes })
}

fn seq_name(parts: &[&Var]) -> String {
  parts.iter().map(|p| CL_NAMES[p.class]).collect::<Vec<_>>().join("+")
}

fn check_dis(ctx: &mut Ctx, parts: &[&Var], start_idx: usize) {
  let start = STARTS[start_idx];
  let mut bytes: Vec<u8> = Vec::with_capacity(9);
  for p in parts.iter() {
    bytes.extend_from_slice(&p.bytes);
  }
  // the decoder's own tiling of the sequence (the property's yardstick)
  let mut expect: Vec<(u16, usize, usize)> = Vec::with_capacity(3); // (address, offset, length)
  let mut cursor = 0usize;
  let mut addr = start;
  let mut tiles = true;
  let mut decoder_panicked = false;
  while cursor < bytes.len() {
    match guard(|| decoder::decode(&bytes[cursor..]).1) {
      Ok(l) if l >= 1 && cursor + l <= bytes.len() => {
        expect.push((addr, cursor, l));
        addr = addr.wrapping_add(l as u16);
        cursor += l;
      },
      Err(()) => {
        // the decoder itself fails on what is left.  If what is left starts with a complete
        // defined instruction (R1), disassembly of this sequence cannot be total either: that is
        // judged below against R1's tiling, not excluded
        decoder_panicked = true;
        tiles = false;
        break;
      },
      _ => {
        tiles = false;
        break;
      },
    }
  }
  if decoder_panicked && parts.iter().all(|p| p.class <= 3) {
    expect.clear();
    let mut a = start;
    let mut off = 0usize;
    for p in parts.iter() {
      expect.push((a, off, p.bytes.len()));
      a = a.wrapping_add(p.bytes.len() as u16);
      off += p.bytes.len();
    }
    tiles = true;
  }
  // boundaries by construction (R1)
  let same_as_r1 = tiles && expect.len() == parts.len() && expect.iter().zip(parts.iter()).all(|(e, p)| e.2 == p.bytes.len());
  if !same_as_r1 {
    // the decoder does not put the instruction boundaries where R1 does: the sequence is
    // not one the statement speaks about in an unambiguous way; counted, not judged
    ctx.count(N_DIS_EXCL, 1);
    return;
  }
  ctx.count(N_DIS, 1);
  let wrapped = (start as usize) + bytes.len() > 0x10000;
  let mut cls = 0x3000u64 + (start_idx as u64) * 2 + wrapped as u64;
  let mut m = 8u64;
  for p in parts.iter().take(3) {
    cls += (p.class as u64 + 1) * m;
    m *= 8;
  }
  if parts.len() > 3 {
    // long runs: (class of the first two instructions, length bucket)
    cls += 0x100000 * (1 + (parts.len() as u64).min(1024).next_power_of_two().trailing_zeros() as u64);
  }
  ctx.class(cls);
  let got = guard(|| disassemble(start, &bytes).iter().map(|i| i.to_string()).collect::<Vec<String>>());
  let detail = |what: &str, rows: &[String]| {
    J::obj()
      .set("case", J::obj().set("fn", J::s("disassemble")).set("start", J::s(format!("0x{:04X}", start))).set("bytes", J::s(hex(&bytes))))
      .set("expected", J::Arr(expect.iter().map(|e| J::s(format!("0x{:04X} len={} bytes={}", e.0, e.2, hex(&bytes[e.1..e.1 + e.2])))).collect()))
      .set("observed", J::Arr(rows.iter().map(|r| J::s(r.as_str())).collect()))
      .set("what", J::s(what))
  };
  let rows = match got {
    Err(()) => {
      // class of the first instruction only: one root cause must not fan out into one key per sequence shape
      let first = parts.first().map_or("empty", |p| CL_NAMES[p.class]);
      ctx.violation(&format!("C20 disassemble field=panic op={}", first), || detail(&format!("disassemble or Display panicked on a sequence of complete instructions ({})", seq_name(parts)), &[]));
      return;
    },
    Ok(r) => r,
  };
  for (k, r) in rows.iter().enumerate() {
    ctx.count(N_DIS_ROWS, 1);
    let row = match parse_row(r) {
      Some(row) => row,
      None => {
        ctx.count(N_DIS_UNPARSED, 1);
        // a row that is not in the listing format while other rows are: the instruction's address
        // or bytes are not shown as what they are (if *no* row parses the layout itself has
        // changed, which run() turns into a machinery error instead)
        ctx.violation("C20 disassemble field=rendering kind=row-not-in-listing-format", || detail(&format!("row {:?} is not of the form 0xAAAA  BB BB BB    TEXT", r), &rows));
        return;
      },
    };
    if k >= expect.len() {
      break;
    }
    let e = &expect[k];
    let cl = CL_NAMES[parts[k].class];
    if row.addr != e.0 {
      ctx.violation(&format!("C20 disassemble field=address op={}", cl), || detail("instruction address differs from start + sum of the decoder's lengths (mod 65536)", &rows));
      return;
    }
    if row.bytes.len() != e.2 {
      ctx.violation(&format!("C20 disassemble field=length op={}", cl), || detail("instruction length differs from the decoder's", &rows));
      return;
    }
    if row.bytes.as_slice() != &bytes[e.1..e.1 + e.2] {
      ctx.violation(&format!("C20 disassemble field=bytes op={}", cl), || detail("bytes shown are not the input bytes at that position", &rows));
      return;
    }
  }
  if rows.len() != expect.len() {
    let k = rows.len().min(expect.len()).min(parts.len() - 1);
    ctx.violation(&format!("C20 disassemble field=count op={}", CL_NAMES[parts[k].class]), || detail("number of instructions differs from the decoder's tiling", &rows));
  }
}

/// decoder length vs R1 length for one instruction (information for the report; a
/// difference is the business of C06, not a C20 violation)
fn check_single_len(ctx: &mut Ctx, v: &Var) {
  ctx.count(N_DEC_SINGLE, 1);
  let l = guard(|| decoder::decode(&v.bytes).1);
  if l != Ok(v.bytes.len()) {
    ctx.count(N_DEC_R1_DIFF, 1);
  }
}

struct DisWorld {
  vars: Vec<Var>,
  reps: Vec<usize>,
  is_rep: Vec<bool>,
}

fn dis_world() -> DisWorld {
  let vars = variants();
  let reps = representatives(&vars);
  let mut is_rep = vec![false; vars.len()];
  for r in reps.iter() {
    is_rep[*r] = true;
  }
  DisWorld { vars, reps, is_rep }
}

/// pairs stage: case a < n: [a] alone and [a, b] for every b; case n: the empty sequence
fn pairs_case(w: &DisWorld, ctx: &mut Ctx, case: u64) {
  let n = w.vars.len() as u64;
  if case == n {
    for s in 0..4 {
      check_dis(ctx, &[], s);
    }
    return;
  }
  let a = &w.vars[case as usize];
  ctx.sample(|| J::obj().set("disassemble", J::s(format!("[{}] alone and followed by each of the {} instruction variants, at 0x0000 / 0x7FFE / 0xFFFD / 0xFFFF", hex(&a.bytes), n))));
  check_single_len(ctx, a);
  for s in 0..4 {
    check_dis(ctx, &[a], s);
  }
  for b in w.vars.iter() {
    for s in 0..4 {
      check_dis(ctx, &[a, b], s);
    }
  }
}

/// operand stage: case = first byte of a 2- or 3-byte instruction; every operand value (all
/// 256, or all 65536 in the thorough tier / both bytes over all 256 against a boundary set in
/// the quick tier), alone and followed by NOP, at the four start addresses
fn operands_case(ctx: &mut Ctx, case: u64, thorough: bool) {
  let op = case as u8;
  if op == 0xCB || r1::is_undefined(op) {
    return;
  }
  let len = r1::info(op).expect("R1 length").0;
  let nop = Var { bytes: vec![0x00], class: 0 };
  let edge: [u8; 8] = [0x00, 0x01, 0x7F, 0x80, 0x81, 0xCB, 0xFE, 0xFF];
  let mut run = |bytes: Vec<u8>, class: usize| {
    let v = Var { bytes, class };
    for s in 0..4 {
      check_dis(ctx, &[&v], s);
      check_dis(ctx, &[&v, &nop], s);
    }
  };
  match len {
    2 => {
      for o in 0..=255u8 {
        run(vec![op, o], if op == 0x10 { 5 } else { 1 });
      }
    },
    3 => {
      for lo in 0..=255u8 {
        for hi in 0..=255u8 {
          if thorough || edge.contains(&lo) || edge.contains(&hi) {
            run(vec![op, lo, hi], 2);
          }
        }
      }
    },
    _ => {},
  }
}

/// runs: one instruction variant repeated n times, alone and behind each representative (a
/// listing is usually hundreds of instructions long, and fill bytes repeat)
fn runs_case(w: &DisWorld, ctx: &mut Ctx, case: u64, thorough: bool) {
  let v = &w.vars[case as usize];
  let lens: Vec<usize> = if thorough { (4..=40).chain([64usize, 100, 255, 256, 257, 1000].iter().cloned()).collect() } else { vec![15, 16, 17, 64, 257] };
  for n in lens.iter() {
    let mut parts: Vec<&Var> = Vec::with_capacity(n + 1);
    for _ in 0..*n {
      parts.push(v);
    }
    for s in [0usize, 2] {
      check_dis(ctx, &parts, s);
    }
    for ri in w.reps.iter() {
      parts.insert(0, &w.vars[*ri]);
      for s in [0usize, 2] {
        check_dis(ctx, &parts, s);
      }
      parts.remove(0);
    }
  }
}

/// triples over representatives only: case = index of the first representative
fn triples_rep_case(w: &DisWorld, ctx: &mut Ctx, case: u64) {
  let a = &w.vars[w.reps[case as usize]];
  for bi in w.reps.iter() {
    for ci in w.reps.iter() {
      for s in 0..4 {
        check_dis(ctx, &[a, &w.vars[*bi], &w.vars[*ci]], s);
      }
    }
  }
}

/// thorough: triples with two positions free and one position a representative (triples
/// already covered by an earlier shape are skipped so that every triple is run once)
fn triples_wide_case(w: &DisWorld, ctx: &mut Ctx, case: u64) {
  let ai = case as usize;
  let a = &w.vars[ai];
  for (bi, b) in w.vars.iter().enumerate() {
    for (ci, c) in w.vars.iter().enumerate() {
      let reps = w.is_rep[ai] as u32 + w.is_rep[bi] as u32 + w.is_rep[ci] as u32;
      if reps == 0 || reps == 3 {
        continue; // no representative position / done by triples_rep_case
      }
      for s in 0..4 {
        check_dis(ctx, &[a, b, c], s);
      }
    }
  }
}

// ------------------------------------------------------------------------------------

pub fn run(tier: &str) -> i32 {
  let mut rep = Report::new("C20", tier, "exploration");
  let thorough = rep.thorough();
  rep.assume("address token grammar (from the statement): ASCII decimal digits, or \"0x\" + ASCII hex digits of either case, any number of leading zeros, value <= 0xFFFF; everything else is malformed");
  rep.assume("not judged (statement silent): '+'-prefixed numbers, the upper-case prefix \"0X\"; such inputs are still executed and must not panic");
  rep.assume("parse_address called directly is expected to tolerate surrounding blanks/tabs (DESIGN section 5, C20a); parse_command never hands it whitespace");
  rep.assume("command table: break <addr> -> BreakSet, c|continue -> Continue, info reg|registers -> ReadRegisters, p|print <addr> -> ReadMemory, s|step -> Step; tokens = maximal runs of non-White_Space characters; a missing or invalid address makes the line invalid (None)");
  rep.assume("tokens after the last one a command needs are ignored by the oracle, as the implementation does (statement silent on trailing tokens)");
  rep.assume("letter case = ASCII case folding; a token containing non-ASCII letters that a Unicode case mapping turns into a command word is left open (does not occur over the enumerated alphabets: U+0130 and U+00DF never fold to ASCII)");
  rep.assume("the eleven undefined opcodes are included in the sequences as 1-byte instructions (the decoder assigns Op::Invalid length 1; R1 has no length for them)");
  rep.assume("instruction sequences are composed with R1's lengths; disassemble is judged against decoder::decode's own tiling of the same bytes; a sequence where the decoder's boundaries differ from R1's is excluded and counted (a decoder length defect belongs to C06)");
  rep.assume("only addresses, lengths, bytes and count of the rendered rows are judged, not the mnemonic text");

  // (a) parse_address -------------------------------------------------------------
  let opts = PoolOpts { chunk: 128, bitmap_bits: 1 << 16, ..PoolOpts::default() };
  let crash = |stage: &'static str| move |case: u64, how: &str| (format!("C20 {} crash={}", stage, how), J::obj().set("case", J::obj().set("stage", J::s(stage)).set("index", J::u(case))));
  let r = run_pool(65537, &opts, |_| (), |_, case, ctx| addr_case(ctx, case), crash("parse_address"));
  let ca = rep.add_stage(
    "parse_address",
    "65536 values x {dec, 0x lower, 0x upper, 4 dec paddings, 5 hex paddings, 18 blank/tab framings} + 2^16+v, 2^32+v, 2^64+v in dec/hex (plain, padded, framed) + 44 malformed tokens + the same through p/print/break",
    r,
  );

  // (b1) short lines over the alphabets ---------------------------------------------
  let max_len: u32 = if thorough { 7 } else { 6 };
  let plen: u32 = 3;
  let mut cb = [0u64; crate::util::pool::NCOUNTERS];
  for (name, alpha) in [("lines-lower", &ALPHA_LOWER), ("lines-upper", &ALPHA_UPPER)].iter() {
    let opts = PoolOpts { chunk: if thorough { 1 } else { 4 }, bitmap_bits: 1 << 16, ..PoolOpts::default() };
    let alpha: &[char; 17] = alpha;
    let r = run_pool(pow17(plen) + 1, &opts, |_| (), |_, case, ctx| lines_case(ctx, alpha, max_len, plen, case), crash("parse_command-lines"));
    let c = rep.add_stage(
      name,
      &format!("every string of length <= {} over the 17 symbols {}", max_len, esc(&alpha.iter().collect::<String>())),
      r,
    );
    for i in 0..cb.len() {
      cb[i] += c[i];
    }
  }

  // (b2) command words ---------------------------------------------------------------
  let opts = PoolOpts { chunk: 32, bitmap_bits: 1 << 16, ..PoolOpts::default() };
  let r = run_pool(words_total(), &opts, |_| (), |_, case, ctx| words_case(ctx, case), crash("parse_command-words"));
  let cw = rep.add_stage(
    "command-words",
    "9 command words + 27 near misses x every letter-case pattern x 4 leads x 4 inner separators (info) x (no argument + 15 arguments x 4 separators incl. none) x 5 trailers",
    r,
  );

  // (c) disassemble ------------------------------------------------------------------
  let nvars = variants().len() as u64;
  let nreps = representatives(&variants()).len() as u64;
  let opts = PoolOpts { chunk: 4, bitmap_bits: 1 << 16, ..PoolOpts::default() };
  let r = run_pool(nvars + 1, &opts, |_| dis_world(), |w, case, ctx| pairs_case(w, ctx, case), crash("disassemble-pairs"));
  let mut cd = rep.add_stage(
    "disassemble-pairs",
    &format!("empty + every sequence of 1 and 2 complete instructions over {} instruction variants (255 first bytes + 256 CB bytes, operand sets {{00,FF,CB,A1}} / {{0000,FFFF,B2A1,01CB}}) x 4 start addresses", nvars),
    r,
  );
  let r = run_pool(256, &PoolOpts { chunk: 1, bitmap_bits: 1 << 16, ..PoolOpts::default() }, |_| (), |_, case, ctx| operands_case(ctx, case, thorough), crash("disassemble-operands"));
  let c2 = rep.add_stage(
    "disassemble-operands",
    if thorough {
      "every 2-byte instruction x all 256 operand bytes and every 3-byte instruction x all 65536 operand words, alone and followed by NOP, x 4 start addresses"
    } else {
      "every 2-byte instruction x all 256 operand bytes and every 3-byte instruction x (all 256 low bytes x 8 boundary high bytes + 8 boundary low bytes x all 256 high bytes), alone and followed by NOP, x 4 start addresses"
    },
    r,
  );
  for i in 0..cd.len() {
    cd[i] += c2[i];
  }
  let r = run_pool(nreps, &PoolOpts { chunk: 1, bitmap_bits: 1 << 16, ..PoolOpts::default() }, |_| dis_world(), |w, case, ctx| triples_rep_case(w, ctx, case), crash("disassemble-triples"));
  let c3 = rep.add_stage("disassemble-triples", &format!("every triple over {} representatives (>= 2 per length class) x 4 start addresses", nreps), r);
  for i in 0..cd.len() {
    cd[i] += c3[i];
  }
  let r = run_pool(nvars, &PoolOpts { chunk: 4, bitmap_bits: 1 << 16, samples_per_child: 0, ..PoolOpts::default() }, |_| dis_world(), |w, case, ctx| runs_case(w, ctx, case, thorough), crash("disassemble-runs"));
  let c5 = rep.add_stage(
    "disassemble-runs",
    &format!("every one of the {} instruction variants repeated n times, n in {}, alone and behind each of the {} representatives, at 0x0000 and 0xFFFD", nvars, if thorough { "4..40, 64, 100, 255, 256, 257, 1000" } else { "{15, 16, 17, 64, 257}" }, nreps),
    r,
  );
  for i in 0..cd.len() {
    cd[i] += c5[i];
  }
  if thorough {
    let r = run_pool(nvars, &PoolOpts { chunk: 1, bitmap_bits: 1 << 16, ..PoolOpts::default() }, |_| dis_world(), |w, case, ctx| triples_wide_case(w, ctx, case), crash("disassemble-triples-wide"));
    let c4 = rep.add_stage(
      "disassemble-triples-wide",
      &format!("every triple over {} variants in which one or two positions hold one of the {} representatives x 4 start addresses", nvars, nreps),
      r,
    );
    for i in 0..cd.len() {
      cd[i] += c4[i];
    }
  }

  if cd[N_DIS_UNPARSED] > 0 && cd[N_DIS_UNPARSED] >= cd[N_DIS_ROWS] {
    // nothing parsed at all: the listing layout is different, the row parser must follow it
    rep.violations.retain(|v| v.key != "C20 disassemble field=rendering kind=row-not-in-listing-format");
    rep.machinery_error(format!("none of the {} rendered rows matched the expected Display layout \"0xAAAA  BB BB BB    TEXT\"; the row parser must be updated", cd[N_DIS_UNPARSED]));
  }

  if cd[N_DIS_EXCL] > 0 {
    rep.capped.push(format!("{} instruction sequences not judged: decoder::decode places the instruction boundaries differently from R1 ({} of {} single instructions differ in length)", cd[N_DIS_EXCL], cd[N_DEC_R1_DIFF], cd[N_DEC_SINGLE]));
  }
  let addr_calls = ca[N_ADDR];
  let cmd_calls = ca[N_CMD] + cb[N_CMD] + cw[N_CMD];
  let cmd_open = ca[N_CMD_OPEN] + cb[N_CMD_OPEN] + cw[N_CMD_OPEN];
  let dis_calls = cd[N_DIS];
  rep.evaluations = addr_calls + ca[N_ADDR_OPEN] + cmd_calls + cmd_open + dis_calls;
  rep.cov("parse_address_calls_judged", J::u(addr_calls));
  rep.cov("parse_address_calls_unjudged", J::u(ca[N_ADDR_OPEN]));
  rep.cov("parse_command_calls_judged", J::u(cmd_calls));
  rep.cov("parse_command_calls_outcome_open", J::u(cmd_open));
  rep.cov("parse_command_max_line_length", J::u(max_len as u64));
  rep.cov("disassemble_calls_judged", J::u(dis_calls));
  rep.cov("disassemble_rows_compared", J::u(cd[N_DIS_ROWS]));
  rep.cov("disassemble_sequences_excluded_decoder_boundaries_differ_from_r1", J::u(cd[N_DIS_EXCL]));
  rep.cov("single_instructions_decoder_length_vs_r1", J::obj().set("compared", J::u(cd[N_DEC_SINGLE])).set("different", J::u(cd[N_DEC_R1_DIFF])));
  rep.cov("instruction_variants", J::u(nvars));
  rep.cov(
    "rule",
    J::s("every input of the listed spaces is passed to the real function under catch_unwind; a class is (sub-check, recognised word / notation / length-class sequence + start address + wrap, expected kind, observed kind) and is counted once"),
  );
  rep.finish()
}
