//! C07 — interrupt dispatch follows priority, masking and master-enable rules.
//!
//! E2b, complete product: IF (32) x IE (32) x IME (3) x run state (3) x PC x SP, executed on
//! the real `Core` three ways and judged against R4 (written below from the property text
//! and DESIGN.md appendix B, never from `emulator.rs`):
//!
//!  * via=direct : `Core::handle_interrupt()` called on the injected state;
//!  * via=halt / via=stop : `Core::update()` from the Halt / Stop run state (4 clocks of
//!    device time pass first; devices are kept quiescent so no request arises on its own);
//!  * via=run : `Core::update()` in Run state with a NOP planted at PC.  Modelled explicitly:
//!    the NOP completes first (PC + 1, one machine cycle = 4 clocks of device time), an
//!    `EnableNext` master enable is promoted to `Enabled` by that completed instruction, and
//!    only then is the dispatch rule evaluated.
//!
//! One pinned flat core per worker (32 KiB ROM without controller, 8 KiB WRAM, 32 KiB cart
//! RAM: every address is accessible).  State is injected through `Core`'s public fields and
//! everything the subject writes is undone from a pristine 64 KiB image; a digest of all
//! memory arrays is compared with the pristine digest after every SP value, so a write that
//! bypassed the bus recorder would still be seen.

use crate::cpustep::{peek_raw, poke_raw};
use crate::devices::interrupts::InterruptFlag;
use crate::devices::io::IO;
use crate::devices::joypad::Joypad;
use crate::devices::serial::SerialComms;
use crate::devices::timer::Timer;
use crate::devices::video::VideoState;
use crate::emulator::{Core, InterruptState, RunState};
use crate::mem::{memory_read_byte, verif_trace, MemoryAreas};
use crate::timing::ClockCycles;
use crate::util::json::J;
use crate::util::pool::{run_pool, Ctx, PoolOpts};
use crate::util::report::Report;
use crate::world::{self, Fx};

const V_DIRECT: usize = 0;
const V_HALT: usize = 1;
const V_STOP: usize = 2;
const V_RUN: usize = 3;
const VIA: [&str; 4] = ["direct", "halt", "stop", "run"];

// codes as in world::ime_code / world::run_code
const IME_DISABLED: u8 = 0;
const IME_ENABLED: u8 = 1;
const IME_NEXT: u8 = 2;
const IME_NAME: [&str; 3] = ["disabled", "enabled", "enablenext"];
const RUN_RUN: u8 = 0;
const RUN_HALT: u8 = 1;
const RUN_STOP: u8 = 2;
const RUN_NAME: [&str; 3] = ["run", "halt", "stop"];

/// PC values of the direct / halt / stop product (the design's set)
const PCS: [u16; 4] = [0x0000, 0x1234, 0xABCD, 0xFFFF];
/// PC values of the via=run product: a NOP must be executable there (ROM, ROM, WRAM, HRAM)
const RUN_PCS: [u16; 4] = [0x0000, 0x1234, 0xCDAB, 0xFF80];

// counters
const N_TRANS: usize = 0;
const N_STATES: usize = 1;
const N_VEC0: usize = 2; // ..=6
const N_CANCEL: usize = 7;
const N_WAKE: usize = 8;
const N_NOTHING: usize = 9;
const N_AMBIG: usize = 10;
const N_AMBIG_WTC: usize = 11;
const N_AMBIG_CTW: usize = 12;
const N_ENV_RAISED: usize = 13;
const N_QUIESCENCE_FAIL: usize = 14;
const N_DIGESTS: usize = 15;
const N_CHARGE: usize = 16;
const N_READBACK: usize = 17;
const N_IO_PUSH: usize = 18;
const N_WAKE_HALT: usize = 19;
const N_WAKE_STOP: usize = 20;
const N_VIA0: usize = 24; // ..=27 transitions per via

// outcome kinds
const K_NOTHING: u8 = 0;
const K_WAKE: u8 = 1;
const K_VEC0: u8 = 2; // ..=6
const K_CANCEL: u8 = 7;

// ------------------------------------------------------------------ address classes

#[derive(Clone, Copy, PartialEq, Eq)]
enum Rg {
  Rom,
  Ram,
  Echo,
  Oam,
  Unused,
  Io,
  If,
  Ie,
}

fn region(a: u16) -> Rg {
  match a {
    0x0000..=0x7FFF => Rg::Rom,
    0x8000..=0xDFFF => Rg::Ram,
    0xE000..=0xFDFF => Rg::Echo,
    0xFE00..=0xFE9F => Rg::Oam,
    0xFEA0..=0xFEFF => Rg::Unused,
    0xFF0F => Rg::If,
    0xFF00..=0xFF7F => Rg::Io,
    0xFF80..=0xFFFE => Rg::Ram,
    0xFFFF => Rg::Ie,
  }
}

fn rg_name(r: Rg) -> &'static str {
  match r {
    Rg::Rom => "rom",
    Rg::Ram => "ram",
    Rg::Echo => "echo",
    Rg::Oam => "oam",
    Rg::Unused => "unused",
    Rg::Io => "io",
    Rg::If => "if",
    Rg::Ie => "ie",
  }
}

/// class of an SP value = where the two pushed bytes land (high byte first)
fn sp_class(sp: u16) -> String {
  let h = region(sp.wrapping_sub(1));
  let l = region(sp.wrapping_sub(2));
  if h == l {
    rg_name(h).to_string()
  } else {
    format!("{}+{}", rg_name(h), rg_name(l))
  }
}

fn sp_class_index(sp: u16) -> u64 {
  (region(sp.wrapping_sub(1)) as u64) * 8 + region(sp.wrapping_sub(2)) as u64
}

/// storage that keeps a written byte and returns it on read
fn is_ram(a: u16) -> bool {
  matches!(region(a), Rg::Ram | Rg::Oam)
}

fn is_dev_io(a: u16) -> bool {
  region(a) == Rg::Io
}

// ------------------------------------------------------------------ R4

#[derive(Clone, Copy)]
struct St {
  iflag: u8,
  ie: u8,
  ime: u8,
  run: u8,
  pc: u16,
  sp: u16,
}

/// what the surrounding devices do when a pushed byte lands on one of their registers
/// (requests they raise by themselves); environment, not part of the dispatch rule
#[derive(Clone, Copy, Default)]
struct Env {
  raised_hi: u8,
  raised_lo: u8,
}

#[derive(Clone, Copy)]
struct Exp {
  kind: u8,
  run: u8,
  ime: u8,
  pc: u16,
  sp: u16,
  /// accepted IF values: "low-byte write / device request, then acknowledge" and
  /// "acknowledge, then write"; equal wherever the order cannot be observed
  if_wtc: u8,
  if_ctw: u8,
  /// IE as the full byte last written (the bus may keep only 5 bits of it)
  ie: u8,
  nw: usize,
  w: [(u16, u8); 2],
  charged: u32,
  div_reset: bool,
}

fn lowest_bit_index(p: u8) -> u8 {
  let mut i = 0;
  while p & (1 << i) == 0 {
    i += 1;
  }
  i
}

/// effect of one bus write on the (IF, IE) pair
fn bus_effect(addr: u16, value: u8, raised: u8, iflag: u8, ie: u8) -> (u8, u8) {
  match region(addr) {
    Rg::Ie => (iflag, value),
    Rg::If => (value & 0x1F, ie),
    Rg::Io => (iflag | raised, ie),
    _ => (iflag, ie),
  }
}

fn r4(s: &St, env: &Env) -> Exp {
  let mut e = Exp {
    kind: K_NOTHING,
    run: s.run,
    ime: s.ime,
    pc: s.pc,
    sp: s.sp,
    if_wtc: s.iflag,
    if_ctw: s.iflag,
    ie: s.ie,
    nw: 0,
    w: [(0, 0); 2],
    charged: 0,
    div_reset: false,
  };
  let pending = s.iflag & s.ie & 0x1F;
  if pending == 0 {
    return e;
  }
  e.run = RUN_RUN;
  if s.ime != IME_ENABLED {
    e.kind = K_WAKE;
    return e;
  }
  e.ime = IME_DISABLED;
  let a_hi = s.sp.wrapping_sub(1);
  let a_lo = s.sp.wrapping_sub(2);
  let hi = (s.pc >> 8) as u8;
  let lo = (s.pc & 0xFF) as u8;
  // high byte first
  let (if1, ie1) = bus_effect(a_hi, hi, env.raised_hi, s.iflag, s.ie);
  // the source is chosen after the first push, from what is then requested and enabled
  let pending2 = if1 & ie1 & 0x1F;
  let ack = if pending2 == 0 { 0 } else { 1u8 << lowest_bit_index(pending2) };
  // low byte; its order against the acknowledge is open when both touch IF
  let (if_w, ie2) = bus_effect(a_lo, lo, env.raised_lo, if1, ie1);
  e.if_wtc = if_w & !ack;
  e.if_ctw = bus_effect(a_lo, lo, env.raised_lo, if1 & !ack, ie1).0;
  e.ie = ie2;
  e.nw = 2;
  e.w = [(a_hi, hi), (a_lo, lo)];
  e.sp = s.sp.wrapping_sub(2);
  e.charged = 5;
  e.div_reset = a_hi == 0xFF04 || a_lo == 0xFF04;
  if pending2 == 0 {
    e.kind = K_CANCEL;
    e.pc = 0x0000;
  } else {
    let i = lowest_bit_index(pending2);
    e.kind = K_VEC0 + i;
    e.pc = 0x40 + 8 * i as u16;
  }
  e
}

// ------------------------------------------------------------------ world

struct W {
  core: Box<Core>,
  pristine: Vec<u8>,
  digest: u64,
  small_dirty: bool,
  video_dirty: bool,
  upd_since_video: u32,
  quiescent: bool,
  /// stage dispatch-relation-dma-in-flight: an OAM DMA from this page is armed (through the
  /// bus) immediately before every case
  dma_page: Option<u8>,
}

fn mem_digest(m: &MemoryAreas) -> u64 {
  let mut h = Fx::new();
  h.bytes(&m.rom);
  h.bytes(&m.video_ram);
  h.bytes(&m.cart_ram);
  h.bytes(&m.work_ram);
  h.bytes(&m.oam_ram);
  h.bytes(&m.high_ram);
  h.get()
}

fn ime_of(c: u8) -> InterruptState {
  match c {
    IME_DISABLED => InterruptState::Disabled,
    IME_ENABLED => InterruptState::Enabled,
    _ => InterruptState::EnableNext,
  }
}

fn run_of(c: u8) -> RunState {
  match c {
    RUN_RUN => RunState::Run,
    RUN_HALT => RunState::Halt,
    _ => RunState::Stop,
  }
}

/// a fresh IO must be quiescent: timer off, PPU at line 144 mode 1 with no STAT source, and
/// 1000 x 4 clocks must neither raise a request nor leave the vertical blank
fn quiescent_io(vram: &Box<[u8]>, oam: &Box<[u8]>) -> bool {
  let mut io = IO::new();
  let mut ok = io.interrupt_flag.as_u8() == 0
    && io.interrupt_mask == 0
    && io.timer.get_timer_control() & 4 == 0
    && io.timer.verif_cycle_count() == 0
    && io.video.verif_position() == (144, 1, 0)
    && io.video.get_lcd_status() & 0x78 == 0
    && io.video.get_lcd_control() == 0;
  for i in 0..1000u32 {
    io.run_clock_cycles(ClockCycles(4), vram, oam);
    ok &= io.interrupt_flag.as_u8() == 0 && io.video.get_current_mode() == 1;
    ok &= io.timer.verif_cycle_count() == 4 * (i + 1);
  }
  ok
}

impl W {
  fn new() -> W {
    let mut rom = vec![0u8; 0x8000];
    for (i, b) in rom.iter_mut().enumerate() {
      *b = (((i * 7) ^ (i >> 8)) as u8) | 0x01; // position dependent, never a NOP
    }
    // NOP where control can arrive (vectors, cancellation target) and at the ROM run PCs
    for a in [0x0000usize, 0x0001, 0x0040, 0x0048, 0x0050, 0x0058, 0x0060] {
      rom[a] = 0x00;
    }
    for pc in RUN_PCS.iter() {
      if *pc < 0x8000 {
        rom[*pc as usize] = 0x00;
      }
    }
    let mut core = world::flat_core(rom);
    for (i, b) in core.memory.work_ram.iter_mut().enumerate() {
      *b = (i as u8).wrapping_mul(3) ^ 0x5A ^ ((i >> 8) as u8);
    }
    for (i, b) in core.memory.video_ram.iter_mut().enumerate() {
      *b = (i as u8).wrapping_mul(5) ^ 0xA5 ^ ((i >> 8) as u8);
    }
    for (i, b) in core.memory.cart_ram.iter_mut().enumerate() {
      *b = (i as u8).wrapping_mul(11) ^ 0x3C ^ ((i >> 8) as u8);
    }
    for (i, b) in core.memory.oam_ram.iter_mut().enumerate() {
      *b = (i as u8).wrapping_mul(13) ^ 0xC3;
    }
    for (i, b) in core.memory.high_ram.iter_mut().enumerate() {
      *b = (i as u8).wrapping_mul(17) ^ 0x69;
    }
    for pc in RUN_PCS.iter() {
      if *pc >= 0x8000 {
        poke_raw(&mut core.memory, *pc, 0x00);
      }
    }
    world::set_regs(&mut core, 0x1230, 0x4567, 0x89AB, 0xCDEF, 0xD000, 0x0000);
    let mut pristine = vec![0u8; 0x10000];
    for a in 0..0x10000usize {
      pristine[a] = if a == 0xFFFF { 0 } else { peek_raw(&core.memory, a as u16) };
    }
    let digest = mem_digest(&core.memory);
    let quiescent = quiescent_io(&core.memory.video_ram, &core.memory.oam_ram);
    W { core, pristine, digest, small_dirty: true, video_dirty: true, upd_since_video: 0, quiescent, dma_page: None }
  }

  fn full_reset(&mut self) {
    self.core.memory.io = IO::new();
    self.core.memory.oam_dma = None;
    self.small_dirty = false;
    self.video_dirty = false;
    self.upd_since_video = 0;
  }

  /// requests the devices raise by themselves when the two pushed bytes land on their
  /// registers, measured on a separate fresh device set in the same phase (`pre` clocks
  /// after power-on) as the one the subject's push will meet
  fn env_of(&self, sp: u16, pc: u16, pre: usize) -> Env {
    let a_hi = sp.wrapping_sub(1);
    let a_lo = sp.wrapping_sub(2);
    if !is_dev_io(a_hi) && !is_dev_io(a_lo) {
      return Env::default();
    }
    let mut io = IO::new();
    if pre > 0 {
      io.run_clock_cycles(ClockCycles(pre), &self.core.memory.video_ram, &self.core.memory.oam_ram);
    }
    let mut env = Env::default();
    io.interrupt_flag = InterruptFlag::empty();
    if is_dev_io(a_hi) && a_hi != 0xFF46 {
      io.set_byte(a_hi, (pc >> 8) as u8);
      env.raised_hi = io.interrupt_flag.as_u8() & 0x1F;
    }
    io.interrupt_flag = InterruptFlag::empty();
    if is_dev_io(a_lo) && a_lo != 0xFF46 {
      io.set_byte(a_lo, (pc & 0xFF) as u8);
      env.raised_lo = io.interrupt_flag.as_u8() & 0x1F;
    }
    env
  }
}

#[derive(Clone, Copy, Default)]
struct Obs {
  run: u8,
  ime: u8,
  pc: u32,
  sp: u32,
  iflag: u8,
  ie: u8,
  cycles: u32,
  t0: u32,
  t1: u32,
  nw: usize,
  w: [(u16, u8); 4],
  trace_overflow: bool,
}

/// inject the state, execute the subject once, observe
#[inline(always)]
fn exec(w: &mut W, via: usize, s: &St, touches_small: bool, touches_video: bool) -> Obs {
  if w.small_dirty {
    let io = &mut w.core.memory.io;
    io.joypad = Box::new(Joypad::new());
    io.serial = Box::new(SerialComms::new());
    io.timer = Box::new(Timer::new());
    w.small_dirty = false;
  }
  if w.video_dirty || w.upd_since_video >= 1000 {
    w.core.memory.io.video = Box::new(VideoState::new());
    w.video_dirty = false;
    w.upd_since_video = 0;
  }
  let dma_page = w.dma_page;
  let core: &mut Core = &mut w.core;
  core.registers.ip = s.pc as u32;
  core.registers.sp = s.sp as u32;
  core.registers.cycles = 0;
  core.interrupts_enabled = ime_of(s.ime);
  core.run_state = run_of(s.run);
  core.memory.io.interrupt_flag = InterruptFlag::new(s.iflag);
  crate::mem::memory_write_byte(&mut core.memory as *mut MemoryAreas, 0xFFFF, s.ie);
  core.memory.oam_dma = None;
  if let Some(page) = dma_page {
    crate::mem::memory_write_byte(&mut core.memory as *mut MemoryAreas, 0xFF46, page);
  }
  let mut o = Obs::default();
  o.t0 = core.memory.io.timer.verif_cycle_count();
  unsafe {
    verif_trace::LEN = 0;
    verif_trace::OVERFLOW = false;
    verif_trace::ENABLED = true;
  }
  if via == V_DIRECT {
    core.handle_interrupt();
  } else {
    core.update();
  }
  unsafe {
    verif_trace::ENABLED = false;
    let n = verif_trace::LEN;
    o.trace_overflow = verif_trace::OVERFLOW;
    if n != 0 {
      let p = std::ptr::addr_of!(verif_trace::BUF) as *const u32;
      for i in 0..n {
        let e = *p.add(i);
        // (the DMA engine's own stores into OAM are not the dispatch's: the SP values of that
        // stage never push into OAM)
        if e >> 24 == 1 && !(dma_page.is_some() && (0xFE00..=0xFE9F).contains(&((e >> 8) & 0xFFFF))) {
          if o.nw < 4 {
            o.w[o.nw] = (((e >> 8) & 0xFFFF) as u16, (e & 0xFF) as u8);
          }
          o.nw += 1;
        }
      }
    }
  }
  if via != V_DIRECT {
    w.upd_since_video += 1;
    // the next case must again meet devices exactly 0 clocks after power-on
    w.small_dirty |= touches_small;
    w.video_dirty |= touches_video;
  }
  o.run = world::run_code(&core.run_state);
  o.ime = world::ime_code(&core.interrupts_enabled);
  o.pc = core.registers.ip;
  o.sp = core.registers.sp;
  o.cycles = core.registers.cycles;
  o.iflag = core.memory.io.interrupt_flag.as_u8();
  o.ie = memory_read_byte(&core.memory as *const MemoryAreas, 0xFFFF);
  o.t1 = core.memory.io.timer.verif_cycle_count();
  if dma_page.is_some() {
    // the engine copied a byte per machine cycle of the step: put OAM back (the digest at the
    // end of the SP's sweep still covers all of OAM)
    core.memory.oam_dma = None;
    for i in 0..16u16 {
      let p = w.pristine[0xFE00 + i as usize];
      poke_raw(&mut w.core.memory, 0xFE00 + i, p);
    }
  }
  o
}

/// undo what the subject wrote
#[inline(always)]
fn restore(w: &mut W, o: &Obs) {
  if o.nw == 0 {
    return;
  }
  if o.nw > 4 {
    // more writes than were kept: rebuild everything
    *w = W::new();
    return;
  }
  for i in 0..o.nw {
    let a = o.w[i].0;
    match a {
      0xFF0F | 0xFFFF => {},
      0xFF00..=0xFF3F => w.small_dirty = true,
      0xFF40..=0xFF7F => w.video_dirty = true,
      _ => {
        let p = w.pristine[a as usize];
        poke_raw(&mut w.core.memory, a, p);
      },
    }
  }
}

fn st_json(via: usize, s: &St) -> J {
  J::obj()
    .set("via", J::s(VIA[via]))
    .set("if", J::u(s.iflag as u64))
    .set("ie", J::u(s.ie as u64))
    .set("ime", J::s(IME_NAME[s.ime as usize]))
    .set("run_state", J::s(RUN_NAME[s.run as usize]))
    .set("pc", J::s(format!("{:04X}", s.pc)))
    .set("sp", J::s(format!("{:04X}", s.sp)))
    .set("world", J::s("flat core: 32K ROM without controller, 8K WRAM, 32K cart RAM, devices at power-on, NOP planted at PC for via=run"))
}

fn writes_json(w: &[(u16, u8)]) -> J {
  J::Arr(w.iter().map(|(a, v)| J::s(format!("{:04X}<-{:02X}", a, v))).collect())
}

/// Execute and judge one state.  `model` is the state the dispatch rule is evaluated on
/// (for via=run: after the NOP), `s` the injected one.
#[inline(always)]
fn one(w: &mut W, ctx: &mut Ctx, via: usize, s: &St, model: &St, env: &Env, ts: bool, tv: bool, cls: &str, cls_i: u64, local: &mut [u64; 32]) {
  let e = r4(model, env);
  let o = exec(w, via, s, ts, tv);
  local[N_TRANS] += 1;
  local[N_VIA0 + via] += 1;
  match e.kind {
    K_NOTHING => local[N_NOTHING] += 1,
    K_WAKE => {
      local[N_WAKE] += 1;
      if s.run == RUN_HALT {
        local[N_WAKE_HALT] += 1;
      } else if s.run == RUN_STOP {
        local[N_WAKE_STOP] += 1;
      }
    },
    K_CANCEL => local[N_CANCEL] += 1,
    k => local[N_VEC0 + (k - K_VEC0) as usize] += 1,
  }
  // outcome class: (via, outcome kind, run state before, IME before, SP class)
  ctx.class(((((via as u64) * 8 + e.kind as u64) * 3 + s.run as u64) * 3 + s.ime as u64) * 64 + cls_i);

  let pre_clocks: u32 = if via == V_DIRECT { 0 } else { 4 };
  let t_want = if e.div_reset { 0 } else { (o.t0 + pre_clocks) & 0xFFFF };
  let if_ok = o.iflag == e.if_wtc || o.iflag == e.if_ctw;
  let ie_ok = o.ie == e.ie || o.ie == e.ie & 0x1F;
  let mut bad = 0u32;
  if o.run != e.run {
    bad |= 1;
  }
  if o.ime != e.ime {
    bad |= 2;
  }
  if o.pc != e.pc as u32 {
    bad |= 4;
  }
  if o.sp != e.sp as u32 {
    bad |= 8;
  }
  if !if_ok {
    bad |= 16;
  }
  if !ie_ok {
    bad |= 32;
  }
  if o.cycles != e.charged || o.t1 != t_want {
    bad |= 64;
  }
  // bus trace: exactly the two pushes, high byte first
  if o.nw != e.nw || o.trace_overflow {
    bad |= if o.nw > e.nw { 512 } else { 128 };
  } else if e.nw == 2 && (o.w[0] != e.w[0] || o.w[1] != e.w[1]) {
    if o.w[0] == e.w[1] && o.w[1] == e.w[0] {
      bad |= 256;
    } else {
      bad |= 128;
    }
  }
  // memory read-back where the target keeps what is written
  if e.nw == 2 {
    if e.if_wtc != e.if_ctw {
      local[N_AMBIG] += 1;
      if o.iflag == e.if_wtc {
        local[N_AMBIG_WTC] += 1;
      } else if o.iflag == e.if_ctw {
        local[N_AMBIG_CTW] += 1;
      }
    }
    if env.raised_hi | env.raised_lo != 0 {
      local[N_ENV_RAISED] += 1;
    }
    if is_dev_io(e.w[0].0) || is_dev_io(e.w[1].0) {
      local[N_IO_PUSH] += 1;
    }
    let mp = &w.core.memory as *const MemoryAreas;
    for i in 0..2 {
      let (a, v) = e.w[i];
      if is_ram(a) {
        local[N_READBACK] += 1;
        if memory_read_byte(mp, a) != v || peek_raw(&w.core.memory, a) != v {
          bad |= 128;
        }
      } else if a == 0xFFFF {
        let rb = memory_read_byte(mp, a);
        if rb != o.ie {
          bad |= 32;
        }
      }
    }
  }
  if bad != 0 {
    let mp = &w.core.memory as *const MemoryAreas;
    let readback: Vec<J> = (0..e.nw).map(|i| J::s(format!("{:04X}={:02X}", e.w[i].0, memory_read_byte(mp, e.w[i].0)))).collect();
    let detail = |field: &str| {
      J::obj()
        .set("case", st_json(via, s))
        .set("field", J::s(field))
        .set(
          "expected",
          J::obj()
            .set("run_state", J::s(RUN_NAME[e.run as usize]))
            .set("ime", J::s(IME_NAME[e.ime as usize]))
            .set("pc", J::s(format!("{:04X}", e.pc)))
            .set("sp", J::s(format!("{:04X}", e.sp)))
            .set("if_accepted", J::Arr(vec![J::u(e.if_wtc as u64), J::u(e.if_ctw as u64)]))
            .set("ie_accepted", J::Arr(vec![J::u(e.ie as u64), J::u((e.ie & 0x1F) as u64)]))
            .set("registers_cycles", J::u(e.charged as u64))
            .set("divider_phase", J::u(t_want as u64))
            .set("bus_writes", writes_json(&e.w[..e.nw])),
        )
        .set(
          "observed",
          J::obj()
            .set("run_state", J::s(RUN_NAME[o.run as usize]))
            .set("ime", J::s(IME_NAME[o.ime as usize]))
            .set("pc", J::s(format!("{:04X}", o.pc)))
            .set("sp", J::s(format!("{:04X}", o.sp)))
            .set("if", J::u(o.iflag as u64))
            .set("ie", J::u(o.ie as u64))
            .set("registers_cycles", J::u(o.cycles as u64))
            .set("divider_phase_before", J::u(o.t0 as u64))
            .set("divider_phase", J::u(o.t1 as u64))
            .set("bus_writes_total", J::u(o.nw as u64))
            .set("bus_writes", writes_json(&o.w[..o.nw.min(4)]))
            .set("read_back", J::Arr(readback.clone())),
        )
        .set("model_state", J::s(format!("IF={:02X} IE={:02X} IME={} PC={:04X} SP={:04X}", model.iflag, model.ie, IME_NAME[model.ime as usize], model.pc, model.sp)))
        .set("device_raised", J::Arr(vec![J::u(env.raised_hi as u64), J::u(env.raised_lo as u64)]))
    };
    const FIELDS: [(u32, &str); 10] = [
      (1, "run"),
      (2, "ime"),
      (4, "pc"),
      (8, "sp"),
      (16, "if"),
      (32, "ie"),
      (64, "cycles"),
      (128, "push-bytes"),
      (256, "push-order"),
      (512, "extra-writes"),
    ];
    for (bit, name) in FIELDS.iter() {
      if bad & bit != 0 {
        let key = format!("C07 via={} ime={} field={} sp={}", VIA[via], IME_NAME[s.ime as usize], name, cls);
        ctx.violation(&key, || detail(name));
      }
    }
  }
  restore(w, &o);
  // a write the model did not predict may have disturbed a device: start from scratch
  if bad & (128 | 256 | 512) != 0 {
    let mut io_hit = false;
    for i in 0..o.nw.min(4) {
      io_hit |= (0xFF00..=0xFF7F).contains(&o.w[i].0);
    }
    if io_hit {
      w.full_reset();
    }
  }
}

/// everything for one SP value
fn sweep_sp(w: &mut W, ctx: &mut Ctx, sp: u16) {
  let cls = if w.dma_page.is_some() { format!("{}+oam-dma-in-flight", sp_class(sp)) } else { sp_class(sp) };
  let cls_i = sp_class_index(sp);
  let a_hi = sp.wrapping_sub(1);
  let a_lo = sp.wrapping_sub(2);
  let ts = (0xFF00..=0xFF3F).contains(&a_hi) || (0xFF00..=0xFF3F).contains(&a_lo);
  let tv = (0xFF40..=0xFF7F).contains(&a_hi) || (0xFF40..=0xFF7F).contains(&a_lo);
  if ts || tv {
    w.small_dirty = true;
    w.video_dirty = true;
  }
  let mut local = [0u64; 32];
  if !w.quiescent {
    local[N_QUIESCENCE_FAIL] += 1;
  }
  // (1) direct call, all run states; (2) update() from Halt and Stop
  for pc in PCS.iter() {
    let env0 = w.env_of(sp, *pc, 0);
    let env4 = w.env_of(sp, *pc, 4);
    for run in [RUN_RUN, RUN_HALT, RUN_STOP] {
      for ime in [IME_DISABLED, IME_ENABLED, IME_NEXT] {
        for ie in 0..32u8 {
          for iflag in 0..32u8 {
            let s = St { iflag, ie, ime, run, pc: *pc, sp };
            one(w, ctx, V_DIRECT, &s, &s, &env0, ts, tv, &cls, cls_i, &mut local);
            local[N_STATES] += 1;
            if run != RUN_RUN {
              let via = if run == RUN_HALT { V_HALT } else { V_STOP };
              one(w, ctx, via, &s, &s, &env4, ts, tv, &cls, cls_i, &mut local);
            }
          }
        }
      }
    }
  }
  // (3) update() in Run state, NOP at PC
  for pc in RUN_PCS.iter() {
    let pc1 = pc.wrapping_add(1);
    let env4 = w.env_of(sp, pc1, 4);
    let new_state = !PCS.contains(pc);
    for ime in [IME_DISABLED, IME_ENABLED, IME_NEXT] {
      // the NOP has completed: PC + 1, and a delayed enable has taken effect
      let ime_after = if ime == IME_NEXT { IME_ENABLED } else { ime };
      for ie in 0..32u8 {
        for iflag in 0..32u8 {
          let s = St { iflag, ie, ime, run: RUN_RUN, pc: *pc, sp };
          let m = St { iflag, ie, ime: ime_after, run: RUN_RUN, pc: pc1, sp };
          one(w, ctx, V_RUN, &s, &m, &env4, ts, tv, &cls, cls_i, &mut local);
          if new_state {
            local[N_STATES] += 1;
          }
        }
      }
    }
  }
  check_digest(w, ctx, sp, &cls, "all IF x IE x IME x run state x PC x via cases of this SP", &mut local);
  for i in 0..32 {
    if local[i] != 0 {
      ctx.count(i, local[i]);
    }
  }
}

/// every array of the memory map must be back at its pristine content
fn check_digest(w: &mut W, ctx: &mut Ctx, sp: u16, cls: &str, what: &str, local: &mut [u64; 32]) {
  local[N_DIGESTS] += 1;
  if mem_digest(&w.core.memory) != w.digest {
    let key = format!("C07 via=any ime=any field=extra-writes sp={}", cls);
    ctx.violation(&key, || {
      J::obj()
        .set("case", J::obj().set("sp", J::s(format!("{:04X}", sp))).set("what", J::s(what)))
        .set("expected", J::s("after undoing every traced bus write all memory arrays equal the pristine image"))
        .set("observed", J::s("memory digest differs: a store was made that the bus trace did not show"))
    });
    *w = W::new();
  }
}

/// SP values that put a pushed byte on IE or IF: there the pushed *value* decides between
/// vector and cancellation, so the PC is swept as well (direct call, run state Run).
const VALUE_SPS: [u16; 4] = [0x0000, 0x0001, 0xFF10, 0xFF11];

fn value_sweep(w: &mut W, ctx: &mut Ctx, case: u64, thorough: bool) {
  let sp = VALUE_SPS[(case >> 8) as usize];
  let hi = (case & 0xFF) as u16;
  let cls = sp_class(sp);
  let cls_i = sp_class_index(sp);
  w.small_dirty = true;
  w.video_dirty = true;
  let mut local = [0u64; 32];
  let all_lo = thorough || PCS.iter().any(|p| p >> 8 == hi);
  for lo in 0..256u16 {
    if !all_lo && !matches!(lo, 0x00 | 0x01 | 0x1F | 0x20 | 0x34 | 0xCD | 0xE0 | 0xFF) {
      continue;
    }
    let pc = (hi << 8) | lo;
    let env0 = w.env_of(sp, pc, 0);
    let new_state = !PCS.contains(&pc);
    for ime in [IME_DISABLED, IME_ENABLED, IME_NEXT] {
      for ie in 0..32u8 {
        for iflag in 0..32u8 {
          let s = St { iflag, ie, ime, run: RUN_RUN, pc, sp };
          one(w, ctx, V_DIRECT, &s, &s, &env0, true, false, &cls, cls_i, &mut local);
          if new_state {
            local[N_STATES] += 1;
          }
        }
      }
    }
  }
  check_digest(w, ctx, sp, &cls, "all IF x IE x IME cases of this SP and PC high byte", &mut local);
  for i in 0..32 {
    if local[i] != 0 {
      ctx.count(i, local[i]);
    }
  }
}

/// The five charged machine cycles must turn into device time with the next `update()`:
/// after a dispatch reached through `update()` the following `update()` (a NOP at the
/// vector) has to advance the divider by 4 x (5 + 1) clocks.
fn charge_case(w: &mut W, ctx: &mut Ctx, case: u64) {
  let via = 1 + (case % 3) as usize;
  let pci = (case / 3) as usize % 4;
  let sp: u16 = 0xDFF0;
  let cls = sp_class(sp);
  let mut n = 0u64;
  for ime in [IME_DISABLED, IME_ENABLED, IME_NEXT] {
    for ie in 0..32u8 {
      for iflag in 0..32u8 {
        let (s, m) = if via == V_RUN {
          let pc = RUN_PCS[pci];
          (
            St { iflag, ie, ime, run: RUN_RUN, pc, sp },
            St { iflag, ie, ime: if ime == IME_NEXT { IME_ENABLED } else { ime }, run: RUN_RUN, pc: pc.wrapping_add(1), sp },
          )
        } else {
          let s = St { iflag, ie, ime, run: if via == V_HALT { RUN_HALT } else { RUN_STOP }, pc: PCS[pci], sp };
          (s, s)
        };
        let e = r4(&m, &Env::default());
        if e.nw == 0 {
          continue;
        }
        let o = exec(w, via, &s, false, false);
        // second update: NOP at the vector (or at 0x0000), nothing can be dispatched (IME off)
        let t_mid = w.core.memory.io.timer.verif_cycle_count();
        unsafe {
          verif_trace::LEN = 0;
          verif_trace::ENABLED = true;
        }
        w.core.update();
        unsafe {
          verif_trace::ENABLED = false;
        }
        w.upd_since_video += 8;
        let t_end = w.core.memory.io.timer.verif_cycle_count();
        n += 1;
        let want = (t_mid + 24) & 0xFFFF;
        if o.pc == e.pc as u32 && o.cycles == 5 && (t_end != want || { w.core.registers.cycles } != 0) {
          let key = format!("C07 via={} ime={} field=cycles sp={}", VIA[via], IME_NAME[s.ime as usize], cls);
          let left = { w.core.registers.cycles };
          ctx.violation(&key, || {
            J::obj()
              .set("case", st_json(via, &s).set("then", J::s("a second update() executing the NOP at the vector")))
              .set("field", J::s("cycles"))
              .set("expected", J::obj().set("divider_phase_delta_second_update", J::u(24)).set("registers_cycles_left", J::u(0)))
              .set("observed", J::obj().set("divider_phase_delta_second_update", J::u(((t_end + 0x10000 - t_mid) & 0xFFFF) as u64)).set("registers_cycles_left", J::u(left as u64)))
          });
        }
        restore(w, &o);
      }
    }
  }
  ctx.count(N_CHARGE, n);
}

// ------------------------------------------------------------------ SP sets

fn quick_sps() -> Vec<u16> {
  let mut v: Vec<u16> = vec![
    // wrap: high byte on IE / low byte on IE, and the first ROM bytes
    0x0000, 0x0001, 0x0002, 0x0003, // ROM / controller register ranges and their edges
    0x0100, 0x1FFF, 0x2000, 0x2001, 0x2002, 0x3FFF, 0x4000, 0x4001, 0x4002, 0x5FFF, 0x6000, 0x6001, 0x6002, 0x7FFF,
    // ROM | VRAM | cart RAM | WRAM bank 0 | WRAM bank 1 | echo
    0x8000, 0x8001, 0x8002, 0x9FFF, 0xA000, 0xA001, 0xA002, 0xBFFF, 0xC000, 0xC001, 0xC002, 0xCFFF, 0xD000, 0xD001, 0xD002, 0xDFFE, 0xDFFF, 0xE000, 0xE001, 0xE002, 0xF000,
    // echo | OAM | unused | I/O
    0xFDFF, 0xFE00, 0xFE01, 0xFE02, 0xFE9F, 0xFEA0, 0xFEA1, 0xFEA2, 0xFEFF, 0xFF00, 0xFF01, 0xFF02,
    // P1, serial, DIV, TIMA, TMA, TAC in either byte position
    0xFF03, 0xFF04, 0xFF05, 0xFF06, 0xFF07, 0xFF08, 0xFF09,
    // IF: neighbours, high byte on IF, low byte on IF
    0xFF0F, 0xFF10, 0xFF11, 0xFF12,
    // LCDC, STAT, SCY, SCX, LY, LYC, DMA, palettes, WY, WX in either byte position
    0xFF40, 0xFF41, 0xFF42, 0xFF43, 0xFF44, 0xFF45, 0xFF46, 0xFF47, 0xFF48, 0xFF49, 0xFF4A, 0xFF4B, 0xFF4C, 0xFF4D,
    // I/O | HRAM | IE
    0xFF7F, 0xFF80, 0xFF81, 0xFF82, 0xFFFD, 0xFFFE, 0xFFFF,
    // pushes onto the vector area, the header, and the last bytes of each region
    0x0004, 0x0042, 0x0150, 0x7FFE, 0x9FFE, 0xBFFE, 0xCFFE, 0xDFFD, 0xFDFE, 0xFE9E, 0xFEFE, 0xFF7E, 0xFFFC,
  ];
  v.sort();
  v.dedup();
  v
}

pub fn run(tier: &str) -> i32 {
  let mut rep = Report::new("C07", tier, "model_checking");
  let thorough = rep.thorough();
  rep.assume("R4 written from the property text and DESIGN.md appendix B: pending = IF & IE & 0x1F; pending != 0 wakes Halt/Stop; iff IME == Enabled: IME <- Disabled, PC high -> SP-1, source re-evaluated from the post-write IF/IE, PC low -> SP-2, SP -= 2, lowest pending bit acknowledged and PC = 0x40 + 8*index, or PC = 0x0000 with no acknowledge when nothing is pending any more; 5 machine cycles charged; otherwise nothing changes");
  rep.assume("order left open by the property and accepted both ways (set-valued oracle): the low-byte push landing on IF (0xFF0F) — or a device raising a request because the low byte landed on one of its registers — in the same step as the acknowledge: 'write then clear' and 'clear then write' are both accepted for IF");
  rep.assume("IE: the oracle does not depend on how many bits IE stores; after a push onto 0xFFFF the read-back may be the full byte or its low 5 bits, and only IF & IE & 0x1F enters the pending computation");
  rep.assume("a pushed byte landing on IF stores value & 0x1F");
  rep.assume("requests a device raises by itself because a pushed byte landed on one of its registers (TAC, STAT, LYC …) are environment: they are measured on a separate device set in the same power-on phase and OR-ed into the model's IF at the moment of that write; the device side effects themselves are judged by C13-C17, not here");
  rep.assume("via=run is modelled explicitly: the NOP at PC completes first (PC+1, one machine cycle = 4 clocks), EnableNext is promoted to Enabled by that completed instruction, then the dispatch rule is evaluated");
  rep.assume("through update() the 5 charged cycles are observed in registers.cycles (they are handed to the devices by the next update(): stage charge-consumed) and the device time that passed before the dispatch through the divider phase (4 clocks); in the direct call registers.cycles only");
  rep.assume("devices are at power-on state for every case whose push touches a device register and are kept in the vertical blank with timer off otherwise; asserted: 1000 x 4 clocks on a fresh IO raise nothing (counter quiescence_failures must be 0)");
  rep.assume("world: flat 32 KiB ROM without controller (pushes into 0x0000-0x7FFF are bus writes that change nothing), 8 KiB WRAM, 32 KiB cart RAM; a push onto real MBC registers changes banking per C10/C11 and is not part of this relation");
  rep.assume("registers other than PC/SP are not judged (the statement does not mention them)");

  // thorough: every SP value; the ones whose push meets a device register cost most (the
  // devices are rebuilt for every case) and are scheduled first
  let sps: Vec<u16> = if thorough {
    let heavy = |x: &u32| (0xFF01..=0xFF81).contains(x);
    (0..=0xFFFFu32).filter(|x| heavy(x)).chain((0..=0xFFFFu32).filter(|x| !heavy(x))).map(|x| x as u16).collect()
  } else {
    quick_sps()
  };
  let n_sp = sps.len() as u64;
  let opts = PoolOpts { chunk: if thorough { 4 } else { 1 }, bitmap_bits: 1 << 16, ..PoolOpts::default() };
  let sps_ref = &sps;
  let r = run_pool(
    n_sp,
    &opts,
    |_| W::new(),
    |w, case, ctx| {
      let sp = sps_ref[case as usize];
      if case == 0 {
        ctx.sample(|| {
          J::obj()
            .set("sp", J::s(format!("{:04X}", sp)))
            .set("cases", J::s("IF 0..31 x IE 0..31 x IME {disabled,enabled,enablenext} x run {run,halt,stop} x PC {0000,1234,ABCD,FFFF} by direct call; the halt/stop states again through update(); run state with NOP at PC {0000,1234,CDAB,FF80} through update()"))
        });
      }
      sweep_sp(w, ctx, sp);
    },
    |case, how| {
      let sp = sps_ref[case as usize];
      (format!("C07 crash={} sp={}", how, sp_class(sp)), J::obj().set("case", J::obj().set("sp", J::s(format!("{:04X}", sp))).set("what", J::s("whole IF x IE x IME x run x PC x via product of this SP"))))
    },
  );
  let space = if thorough {
    "SP: all 65536 values; per SP: IF 32 x IE 32 x IME 3 x (run state 3 x PC 4 direct + {halt,stop} x PC 4 via update + run x PC 4 with NOP via update)"
  } else {
    "SP: boundary set (IE, IF, timer/LCD/DMA registers, ROM ranges, echo, OAM, unused, region edges, wrap); per SP: IF 32 x IE 32 x IME 3 x (run state 3 x PC 4 direct + {halt,stop} x PC 4 via update + run x PC 4 with NOP via update)"
  };
  let c = rep.add_stage("dispatch-relation", space, r);

  // pushed-value sweep on the SP values that put a byte on IE / IF
  let opts1 = PoolOpts { chunk: 1, bitmap_bits: 1 << 16, samples_per_child: 0, ..PoolOpts::default() };
  let r1 = run_pool(
    4 * 256,
    &opts1,
    |_| W::new(),
    |w, case, ctx| value_sweep(w, ctx, case, thorough),
    |case, how| {
      let sp = VALUE_SPS[(case >> 8) as usize];
      (format!("C07 crash={} sp={}", how, sp_class(sp)), J::obj().set("case", J::obj().set("sp", J::s(format!("{:04X}", sp))).set("pc_high", J::u(case & 0xFF))))
    },
  );
  let c1 = rep.add_stage(
    "pushed-value",
    if thorough {
      "SP {0000,0001,FF10,FF11} (high / low byte on IE / IF) x all 65536 PC x IF 32 x IE 32 x IME 3, run state Run, direct call"
    } else {
      "SP {0000,0001,FF10,FF11} (high / low byte on IE / IF) x PC (all 256 high bytes x low {00,01,1F,20,34,CD,E0,FF}, all low bytes for high {00,12,AB,FF}) x IF 32 x IE 32 x IME 3, run state Run, direct call"
    },
    r1,
  );
  let mut c = c;
  for i in 0..crate::util::pool::NCOUNTERS {
    c[i] += c1[i];
  }

  // the same relation while the OAM DMA engine is busy: the rule makes no exception for it
  let dma_sps: Vec<u16> = {
    let clear = |sp: &u16| {
      let (a, b) = (sp.wrapping_sub(1), sp.wrapping_sub(2));
      !(0xFE00..=0xFF7F).contains(&a) && !(0xFE00..=0xFF7F).contains(&b)
    };
    if thorough {
      (0..=0xFFFFu32).filter(|x| x % 0x11 == 0 || x & 0xFFF <= 2 || x & 0xFF == 0xA0).map(|x| x as u16).filter(clear).collect()
    } else {
      vec![0x0000u16, 0x0001, 0x0002, 0x2001, 0x8001, 0xA001, 0xC000, 0xC001, 0xC1A0, 0xD001, 0xDFF0, 0xE001, 0xFDFF, 0xFF82, 0xFFFE, 0xFFFF]
    }
  };
  let dma_ref = &dma_sps;
  let rd = run_pool(
    dma_sps.len() as u64,
    &PoolOpts { chunk: 1, bitmap_bits: 1 << 16, samples_per_child: 0, ..PoolOpts::default() },
    |_| {
      let mut w = W::new();
      w.dma_page = Some(0xC1);
      w
    },
    |w, case, ctx| sweep_sp(w, ctx, dma_ref[case as usize]),
    |case, how| {
      let sp = dma_ref[case as usize];
      (format!("C07 crash={} sp={}+oam-dma-in-flight", how, sp_class(sp)), J::obj().set("case", J::obj().set("sp", J::s(format!("{:04X}", sp))).set("what", J::s("whole product of this SP with an OAM DMA armed"))))
    },
  );
  let cd = rep.add_stage(
    "dispatch-relation-dma-in-flight",
    &format!("the dispatch-relation product again on {} SP values whose pushes land outside OAM and the device registers, with an OAM DMA from page C1 armed through the bus immediately before every case (the engine copies during the step; OAM is put back and digested)", dma_sps.len()),
    rd,
  );
  for i in 0..crate::util::pool::NCOUNTERS {
    c[i] += cd[i];
  }

  // charge consumed by the following update()
  let opts2 = PoolOpts { chunk: 1, bitmap_bits: 64, samples_per_child: 0, ..PoolOpts::default() };
  let r2 = run_pool(12, &opts2, |_| W::new(), |w, case, ctx| charge_case(w, ctx, case), |case, how| (format!("C07 crash={} stage=charge", how), J::obj().set("case", J::u(case))));
  let c2 = rep.add_stage("charge-consumed", "via {halt,stop,run} x PC 4 x IF 32 x IE 32 x IME 3 at SP=DFF0: every dispatching case followed by a second update()", r2);

  // the same question for the recompiler: the charge must reach the devices when the *next
  // translated block* is accounted (the block prologue has to carry registers.cycles in)
  let c3n = match next_block_stage(&mut rep) {
    Some(r3) => {
      let c3 = rep.add_stage(
        "charge-consumed-by-next-block",
        "jit build (separate process) and this build: IF 32 x IE 32 x run state 3 x PC 4, IME on, SP=DFF0: handle_interrupt() then update() on the block at the vector, against the same update() entered with the charge removed (difference must be exactly 20 clocks of device time and nothing may be left in registers.cycles)",
        r3,
      );
      c3[0]
    },
    None => 0,
  };

  // pool cases are SP values; the evidence counts executed transitions
  rep.evaluations = c[N_TRANS] + c2[N_CHARGE] + c3n;

  // non-vacuity
  for i in 0..5 {
    if c[N_VEC0 + i] == 0 {
      rep.machinery_soft(format!("vacuous: vector {:#04x} never taken", 0x40 + 8 * i));
    }
  }
  if c[N_CANCEL] == 0 {
    rep.machinery_soft("vacuous: cancellation path (PC = 0x0000) never taken".to_string());
  }
  if c[N_WAKE] == 0 || c[N_WAKE_HALT] == 0 || c[N_WAKE_STOP] == 0 {
    rep.machinery_soft("vacuous: wake-up without dispatch never taken from Halt and from Stop".to_string());
  }
  if c[N_AMBIG] == 0 {
    rep.machinery_soft("vacuous: the open-order case (low byte on IF with the acknowledge) never occurred".to_string());
  }
  if c[N_QUIESCENCE_FAIL] != 0 {
    rep.machinery_error("a fresh IO is not quiescent (timer off, PPU in vertical blank without STAT sources, nothing raised in 4000 clocks): the update() paths cannot be judged".to_string());
  }
  let expected_per_sp: u64 = 1024 * 3 * (3 * 4 + 2 * 4 + 4);
  rep.cov("states", J::u(c[N_STATES]));
  rep.cov("transitions", J::u(c[N_TRANS] + c2[N_CHARGE]));
  rep.cov("traces_validated_against_impl", J::u(c[N_TRANS] + c2[N_CHARGE]));
  rep.cov("sp_values", J::u(n_sp));
  rep.cov("transitions_per_sp_in_stage_dispatch_relation", J::u(expected_per_sp));
  rep.cov(
    "transitions_by_path",
    J::obj().set("direct", J::u(c[N_VIA0])).set("halt", J::u(c[N_VIA0 + 1])).set("stop", J::u(c[N_VIA0 + 2])).set("run", J::u(c[N_VIA0 + 3])).set("second_update_after_dispatch", J::u(c2[N_CHARGE])),
  );
  rep.cov(
    "outcomes",
    J::obj()
      .set("vector_40", J::u(c[N_VEC0]))
      .set("vector_48", J::u(c[N_VEC0 + 1]))
      .set("vector_50", J::u(c[N_VEC0 + 2]))
      .set("vector_58", J::u(c[N_VEC0 + 3]))
      .set("vector_60", J::u(c[N_VEC0 + 4]))
      .set("cancelled_pc_0000", J::u(c[N_CANCEL]))
      .set("wake_without_dispatch", J::u(c[N_WAKE]))
      .set("wake_without_dispatch_from_halt", J::u(c[N_WAKE_HALT]))
      .set("wake_without_dispatch_from_stop", J::u(c[N_WAKE_STOP]))
      .set("nothing_pending", J::u(c[N_NOTHING])),
  );
  rep.cov(
    "open_order_cases",
    J::obj().set("total", J::u(c[N_AMBIG])).set("observed_write_then_clear", J::u(c[N_AMBIG_WTC])).set("observed_clear_then_write", J::u(c[N_AMBIG_CTW])),
  );
  rep.cov("dispatches_with_push_on_device_register", J::u(c[N_IO_PUSH]));
  rep.cov("dispatches_where_device_raised_request", J::u(c[N_ENV_RAISED]));
  rep.cov("ram_read_backs", J::u(c[N_READBACK]));
  rep.cov("memory_digests_compared", J::u(c[N_DIGESTS]));
  rep.cov("quiescence_failures", J::u(c[N_QUIESCENCE_FAIL]));
  rep.cov(
    "rule",
    J::s(if thorough {
      "complete product IF x IE x IME x run state x PC {0000,1234,ABCD,FFFF} x all 65536 SP by direct call, the Halt/Stop part again through update(), and Run with a NOP at PC {0000,1234,CDAB,FF80} through update(); a class is (path, outcome kind, run state, IME, where the two pushed bytes land)"
    } else {
      "complete product IF x IE x IME x run state x PC {0000,1234,ABCD,FFFF} x boundary SP set by direct call, the Halt/Stop part again through update(), and Run with a NOP at PC {0000,1234,CDAB,FF80} through update(); a class is (path, outcome kind, run state, IME, where the two pushed bytes land)"
    }),
  );
  rep.finish()
}

// ---------------------------------------------------------------------------------------------
// charge consumed by the next block, in whatever engine this build uses for ROM code

/// One case = (run state, PC): all IF x IE with IME on.  After a dispatch the next `update()`
/// runs the block at the vector (`NOP; HALT` planted there).  The divider must advance by
/// exactly 20 clocks more than when the same `update()` is entered from the same state with
/// `registers.cycles` cleared, whatever the engine and however long the block is.
fn next_block_case(core: &mut Core, ctx: &mut Ctx, case: u64) {
  let run = (case % 3) as u8;
  let pc = PCS[(case / 3) as usize % 4];
  let sp: u16 = 0xDFF0;
  let mut n = 0u64;
  for ie in 0..32u8 {
    for iflag in 0..32u8 {
      let m = St { iflag, ie, ime: IME_ENABLED, run, pc, sp };
      let e = r4(&m, &Env::default());
      if e.nw == 0 {
        continue;
      }
      let mut delta = [0u32; 2];
      let mut left = [0u32; 2];
      let mut vec_pc = 0u32;
      for pass in 0..2 {
        core.memory.io.timer = Box::new(Timer::new());
        core.memory.io.video = Box::new(VideoState::new());
        core.registers.ip = pc as u32;
        core.registers.sp = sp as u32;
        core.registers.cycles = 0;
        core.registers.af = 0;
        core.interrupts_enabled = ime_of(IME_ENABLED);
        core.run_state = run_of(run);
        core.memory.io.interrupt_flag = InterruptFlag::new(iflag);
        crate::mem::memory_write_byte(&mut core.memory as *mut MemoryAreas, 0xFFFF, ie);
        core.memory.oam_dma = None;
        core.handle_interrupt();
        vec_pc = core.registers.ip;
        if pass == 1 {
          core.registers.cycles = 0; // the charge removed: baseline
        }
        let t_mid = core.memory.io.timer.verif_cycle_count();
        core.update();
        let t_end = core.memory.io.timer.verif_cycle_count();
        delta[pass] = (t_end.wrapping_sub(t_mid)) & 0xFFFF;
        left[pass] = core.registers.cycles;
      }
      n += 1;
      ctx.class(((delta[0] as u64) << 8) | (vec_pc as u64 >> 3));
      if delta[0] != delta[1] + 20 || left[0] != 0 {
        let key = format!("C07 via=next-block build={} field=cycles kind=charge-not-delivered", crate::progrun::this_build());
        ctx.violation(&key, || {
          J::obj()
            .set("case", J::obj().set("if", J::u(iflag as u64)).set("ie", J::u(ie as u64)).set("ime", J::s("enabled")).set("run", J::s(RUN_NAME[run as usize])).set("pc", J::s(format!("{:04X}", pc))).set("sp", J::s("DFF0")).set("then", J::s("update() on the block at the vector (NOP; HALT)")))
            .set("expected", J::obj().set("device_clocks_more_than_without_the_charge", J::u(20)).set("registers_cycles_left", J::u(0)))
            .set("observed", J::obj().set("device_clocks_with_charge", J::u(delta[0] as u64)).set("device_clocks_without_charge", J::u(delta[1] as u64)).set("registers_cycles_left", J::u(left[0] as u64)))
        });
      }
    }
  }
  ctx.count(0, n);
}

fn next_block_core() -> Box<Core> {
  let mut rom = vec![0u8; 0x8000];
  rom[0x100..0x150].copy_from_slice(&world::header_bytes(0x00, 0x00, 0x00)[0x100..0x150]);
  for v in [0x0000usize, 0x40, 0x48, 0x50, 0x58, 0x60].iter() {
    rom[*v] = 0x00; // NOP
    rom[*v + 1] = 0x76; // HALT: ends the block
  }
  world::flat_core(rom)
}

fn next_block_pool() -> crate::util::pool::PoolResult {
  let opts = PoolOpts { chunk: 1, bitmap_bits: 1 << 16, samples_per_child: 0, workers: 4, ..PoolOpts::default() };
  run_pool(12, &opts, |_| next_block_core(), |core, case, ctx| next_block_case(core, ctx, case), |case, how| (format!("C07 via=next-block build={} crash={}", crate::progrun::this_build(), how), J::obj().set("case", J::u(case))))
}

/// worker entry (jit build): `gbmc C07 --worker next-block <out.json>`
pub fn worker(args: &[String]) -> i32 {
  if args.len() < 2 || args[0] != "next-block" {
    eprintln!("C07 worker: bad arguments {:?}", args);
    return 2;
  }
  let r = next_block_pool();
  if std::fs::write(&args[1], r.to_json().to_string()).is_err() {
    return 2;
  }
  0
}

fn next_block_stage(rep: &mut Report) -> Option<crate::util::pool::PoolResult> {
  let mut r = next_block_pool();
  let bin = match std::env::var("GBMC_JIT_BIN") {
    Ok(b) => b,
    Err(_) => {
      rep.machinery_error("GBMC_JIT_BIN not set (run through bin/check)".to_string());
      return None;
    },
  };
  let out = format!("{}/c07_next_block.json", crate::util::pool::tmp_dir());
  match std::process::Command::new(&bin).args(&["C07", "--worker", "next-block", &out]).status() {
    Ok(s) if s.success() => {},
    Ok(s) => {
      rep.machinery_error(format!("jit worker failed: {:?}", s));
      return None;
    },
    Err(e) => {
      rep.machinery_error(format!("cannot start jit worker {}: {}", bin, e));
      return None;
    },
  }
  match crate::progrun::parse_json_file(&out) {
    Ok(m) => {
      let rj = crate::util::pool::PoolResult::from_json(&m, "jit worker");
      if rj.cases_done != 12 || rj.counters[0] != r.counters[0] {
        rep.machinery_error(format!("jit worker covered {} cases / {} dispatches, this build {} / {}", rj.cases_done, rj.counters[0], r.cases_done, r.counters[0]));
      }
      r.merge(rj);
    },
    Err(e) => {
      rep.machinery_error(format!("jit worker result: {}", e));
      return None;
    },
  }
  let _ = std::fs::remove_file(&out);
  Some(r)
}
