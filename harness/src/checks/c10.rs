//! C10 — every bus address decodes to the documented Game Boy memory region.
//!
//! E1 (bounded exhaustive enumeration on the real `memory_write_byte` /
//! `memory_read_byte` / `get_executable_memory_slice`), oracle R2 (bus map written from
//! the Pan Docs memory map and the property text).
//!
//! Worlds are real `Core`s loaded from generated ROM files (ROM-only, MBC1+RAM, MBC3+RAM)
//! whose ROM banks, cartridge RAM banks, VRAM, WRAM, OAM and HRAM carry position- and
//! bank-dependent bytes.  A *step* is: one write through `memory_write_byte`, then a read
//! of all 65 536 addresses through `memory_read_byte`; R2 predicts which addresses may
//! differ from the image read before the write and what they must read.
//!
//!  * stage `single-write`: set-up x every address as write target x value set
//!  * stage `pair+fetch`  : set-up x ordered pairs of writes over the boundary set x 2
//!    values (both writes fully probed); the fetch view is compared with the data view in
//!    the base state and after every first write of a pair.
//!
//! What R2 judges after a write to `w` (everything relative to the image read before):
//!  * RAM-like target (VRAM, cart RAM, WRAM, OAM, HRAM, IE): `w` reads the written byte,
//!    every other address reads what it read before (full byte; P1 bits 6-7 and STAT
//!    bit 7 excluded),
//!  * unmapped target (echo, 0xFEA0-0xFEFF, unassigned I/O): nothing changes at all,
//!  * one of the 17 listed registers: its writable bits read back; all memory, all
//!    unmapped addresses and the writable bits of the other listed registers are
//!    unchanged (IF, and TIMA after DIV/TAC writes, are not judged: hardware couples
//!    them); unlisted assigned I/O (serial, sound, 0xFF46, 0xFF50) is not judged as probe,
//!  * 0x0000-0x7FFF (controller registers): the two ROM windows still show unmodified
//!    banks of the ROM image, the cart RAM window still shows an unmodified bank of the
//!    cart RAM contents (*which* bank is C12's subject), nothing else changes.

use crate::emulator::Core;
use crate::mem::{get_executable_memory_slice, memory_push_word, memory_read_byte, memory_read_word, memory_write_byte, memory_write_word, MemoryAreas};
use crate::util::json::J;
use crate::util::pool::{run_pool, Ctx, PoolOpts, PoolResult};
use crate::util::report::Report;
use crate::world::{load_like_main, make_image, ram_bytes_for_code, rom_banks_for_code, write_rom_file};

// ------------------------------------------------------------------ R2: the bus map

#[derive(Clone, Copy, PartialEq, Eq, Debug)]
enum Rg {
  Rom0,
  RomN,
  Vram,
  CartRam,
  Wram0,
  WramN,
  Echo,
  Oam,
  Unused,
  IoListed(usize),
  IoDma,
  IoOther,
  IoUnassigned,
  Hram,
  Ie,
}

/// The 17 registers the property lists as readable: (address, writable bits judged on
/// read-back, name).  DIV and LY have no writable bits.
const LISTED: [(u16, u8, &str); 17] = [
  (0xFF00, 0x30, "P1"),
  (0xFF04, 0x00, "DIV"),
  (0xFF05, 0xFF, "TIMA"),
  (0xFF06, 0xFF, "TMA"),
  (0xFF07, 0x07, "TAC"),
  (0xFF0F, 0x1F, "IF"),
  (0xFF40, 0xFF, "LCDC"),
  (0xFF41, 0x78, "STAT"),
  (0xFF42, 0xFF, "SCY"),
  (0xFF43, 0xFF, "SCX"),
  (0xFF44, 0x00, "LY"),
  (0xFF45, 0xFF, "LYC"),
  (0xFF47, 0xFF, "BGP"),
  (0xFF48, 0xFF, "OBP0"),
  (0xFF49, 0xFF, "OBP1"),
  (0xFF4A, 0xFF, "WY"),
  (0xFF4B, 0xFF, "WX"),
];

fn region(a: u16) -> Rg {
  match a {
    0x0000..=0x3FFF => Rg::Rom0,
    0x4000..=0x7FFF => Rg::RomN,
    0x8000..=0x9FFF => Rg::Vram,
    0xA000..=0xBFFF => Rg::CartRam,
    0xC000..=0xCFFF => Rg::Wram0,
    0xD000..=0xDFFF => Rg::WramN,
    0xE000..=0xFDFF => Rg::Echo,
    0xFE00..=0xFE9F => Rg::Oam,
    0xFEA0..=0xFEFF => Rg::Unused,
    0xFF00..=0xFF7F => {
      if let Some(i) = LISTED.iter().position(|r| r.0 == a) {
        return Rg::IoListed(i);
      }
      match a & 0xFF {
        0x46 => Rg::IoDma,
        // assigned on the DMG but not among the 17: serial, sound, wave RAM, boot-ROM latch
        0x01 | 0x02 | 0x10..=0x14 | 0x16..=0x1E | 0x20..=0x26 | 0x30..=0x3F | 0x50 => Rg::IoOther,
        // 03, 08-0E, 15, 1F, 27-2F, 4C-4F, 51-7F: no register on the DMG
        _ => Rg::IoUnassigned,
      }
    },
    0xFF80..=0xFFFE => Rg::Hram,
    0xFFFF => Rg::Ie,
  }
}

const CLS_NONE: u64 = 31;

fn cls_id(r: Rg) -> u64 {
  match r {
    Rg::Rom0 => 0,
    Rg::RomN => 1,
    Rg::Vram => 2,
    Rg::CartRam => 3,
    Rg::Wram0 => 4,
    Rg::WramN => 5,
    Rg::Echo => 6,
    Rg::Oam => 7,
    Rg::Unused => 8,
    Rg::IoUnassigned => 9,
    Rg::IoOther => 10,
    Rg::Hram => 11,
    Rg::Ie => 12,
    Rg::IoDma => 13,
    Rg::IoListed(i) => 14 + i as u64,
  }
}

fn cls_name(r: Rg) -> String {
  match r {
    Rg::Rom0 => "rom0".into(),
    Rg::RomN => "romN".into(),
    Rg::Vram => "vram".into(),
    Rg::CartRam => "cartram".into(),
    Rg::Wram0 => "wram0".into(),
    Rg::WramN => "wramN".into(),
    Rg::Echo => "echo".into(),
    Rg::Oam => "oam".into(),
    Rg::Unused => "unused".into(),
    Rg::IoUnassigned => "io-unassigned".into(),
    Rg::IoOther => "io-other".into(),
    Rg::Hram => "hram".into(),
    Rg::Ie => "ie".into(),
    Rg::IoDma => "io:ff46".into(),
    Rg::IoListed(i) => format!("io:{:04x}", LISTED[i].0),
  }
}

fn ram_like(r: Rg) -> bool {
  matches!(r, Rg::Vram | Rg::CartRam | Rg::Wram0 | Rg::WramN | Rg::Oam | Rg::Hram | Rg::Ie)
}

fn assigned_io(r: Rg) -> bool {
  matches!(r, Rg::IoListed(_) | Rg::IoDma | Rg::IoOther)
}

/// Bits of probe `a` (region `pr`) that must read as before a write to `w` (region `wr`),
/// `a != w`.
fn stable_mask(wr: Rg, w: u16, pr: Rg) -> u8 {
  match pr {
    Rg::IoListed(i) => {
      let a = LISTED[i].0;
      if assigned_io(wr) {
        // a write to an assigned I/O register may have documented effects on request
        // bits and on the timer counter; only the *writable* bits of other registers
        // are required to keep their value
        if a == 0xFF0F {
          0
        } else if a == 0xFF05 && (w == 0xFF04 || w == 0xFF07) {
          0
        } else {
          LISTED[i].1
        }
      } else {
        match a {
          0xFF00 => 0x3F,
          0xFF41 => 0x7F,
          _ => 0xFF,
        }
      }
    },
    Rg::IoDma | Rg::IoOther => {
      if assigned_io(wr) {
        0
      } else {
        0xFF
      }
    },
    _ => 0xFF,
  }
}

fn kind_of(pr: Rg, same: bool) -> &'static str {
  match pr {
    Rg::Rom0 | Rg::RomN => "rom-changed",
    Rg::Vram | Rg::CartRam | Rg::Wram0 | Rg::WramN | Rg::Oam | Rg::Hram | Rg::Ie => {
      if same {
        "not-stored"
      } else {
        "aliased"
      }
    },
    Rg::IoListed(_) => "io-bits",
    Rg::Echo | Rg::Unused | Rg::IoUnassigned => "constant-changed",
    Rg::IoDma | Rg::IoOther => "aliased",
  }
}

// fill patterns (R2's storage contents)
fn rom_fill(b: usize, o: usize) -> u8 {
  (o * 5 + (o >> 8) * 3 + b * 59 + 0x11) as u8
}
fn vram_fill(i: usize) -> u8 {
  (i * 3 + (i >> 8) * 7 + 0x21) as u8
}
fn cram_fill(b: usize, o: usize) -> u8 {
  (o * 7 + (o >> 8) * 13 + b * 37 + 0x42) as u8
}
fn wram_fill(i: usize) -> u8 {
  (i * 11 + (i >> 8) * 5 + 0x63) as u8
}
fn oam_fill(i: usize) -> u8 {
  (i * 13 + 0x84) as u8
}
fn hram_fill(i: usize) -> u8 {
  (i * 17 + 0xA5) as u8
}

// ------------------------------------------------------------------ set-ups

struct Setup {
  name: &'static str,
  cart_type: u8,
  rom_code: u8,
  ram_code: u8,
  /// values written to 0x0000 (RAM enable, always 0x0A), 0x2000, 0x4000, 0x6000
  mbc: [u8; 4],
  ie: u8,
  iflag: u8,
  iov: usize,
  dma: Option<u8>,
  /// clocks of device time that pass after the set-up writes (0 = none: devices at power-on)
  advance: u32,
}

const IO_ORDER: [u16; 14] = [
  0xFF00, 0xFF07, 0xFF05, 0xFF06, 0xFF40, 0xFF41, 0xFF42, 0xFF43, 0xFF45, 0xFF47, 0xFF48, 0xFF49, 0xFF4A, 0xFF4B,
];
const IO_VALUES: [[u8; 14]; 4] = [
  [0x30, 0x00, 0x00, 0x00, 0x00, 0x00, 0x00, 0x00, 0x00, 0x00, 0x00, 0x00, 0x00, 0x00],
  [0x20, 0x05, 0x3C, 0xA7, 0x91, 0x48, 0x12, 0x34, 0x90, 0xE4, 0xD2, 0x1B, 0x77, 0x07],
  [0x10, 0x03, 0xFF, 0x5A, 0x6E, 0x30, 0xFE, 0x01, 0x2B, 0x1B, 0xFF, 0x00, 0x8F, 0xA6],
  // display on, no STAT source selected, timer off: time may pass without any register changing
  // on its own except LY and the STAT mode bits
  [0x30, 0x00, 0x3C, 0xA7, 0x91, 0x00, 0x12, 0x34, 0x90, 0xE4, 0xD2, 0x1B, 0x77, 0x07],
];

fn all_setups() -> Vec<Setup> {
  let s = |name, cart_type, rom_code, ram_code, mbc, ie, iflag, iov, dma| Setup { name, cart_type, rom_code, ram_code, mbc, ie, iflag, iov, dma, advance: 0 };
  vec![
    s("rom-only power-on", 0x00, 0x00, 0x00, [0x0A, 1, 0, 0], 0x00, 0x00, 0, None),
    s("rom-only ie=1f if=1f dma", 0x00, 0x00, 0x00, [0x0A, 1, 0, 0], 0x1F, 0x1F, 1, Some(0xC1)),
    s("mbc1 4x16K 8K mode0 rom1", 0x03, 0x01, 0x02, [0x0A, 1, 0, 0], 0x00, 0x00, 0, None),
    s("mbc1 8x16K 8K mode0 rom5", 0x03, 0x02, 0x02, [0x0A, 5, 0, 0], 0x01, 0x04, 2, None),
    s("mbc1 16x16K 32K mode1 rom9 ram2", 0x03, 0x03, 0x03, [0x0A, 9, 2, 1], 0x04, 0x10, 1, None),
    s("mbc1 32x16K 32K mode1 rom31 ram3", 0x03, 0x04, 0x03, [0x0A, 31, 3, 1], 0x1F, 0x00, 2, None),
    s("mbc1 32x16K 32K mode0 rom18", 0x03, 0x04, 0x03, [0x0A, 0x12, 0, 0], 0x00, 0x1F, 1, None),
    s("mbc1 32x16K 32K mode1 rom1 ram1", 0x03, 0x04, 0x03, [0x0A, 1, 1, 1], 0x15, 0x0A, 0, None),
    s("mbc1 128x16K 32K mode0 rom7 hi2", 0x03, 0x06, 0x03, [0x0A, 7, 2, 0], 0x0A, 0x15, 2, None),
    s("mbc1 128x16K 32K mode1 rom30 ram1", 0x03, 0x06, 0x03, [0x0A, 0x1E, 1, 1], 0x00, 0x00, 1, Some(0x80)),
    s("mbc3 32x16K 32K rom17 ram2", 0x13, 0x04, 0x03, [0x0A, 17, 2, 0], 0x03, 0x18, 0, None),
    s("mbc3 128x16K 32K rom85 ram3", 0x13, 0x06, 0x03, [0x0A, 0x55, 3, 0], 0x1F, 0x1F, 2, None),
    s("mbc1 4x16K 32K mode1 rom3 ram3 ie=ff dma", 0x03, 0x01, 0x03, [0x0A, 3, 3, 1], 0xFF, 0x00, 1, Some(0xFE)),
    s("mbc3 128x16K 32K rom1 ram0", 0x13, 0x06, 0x03, [0x0A, 1, 0, 0], 0x10, 0x01, 1, None),
    // ROM sizes that are not a power of two (header codes 0x52-0x54: 72, 80, 96 banks)
    s("mbc1 72x16K 32K mode0 rom41 hi1", 0x03, 0x52, 0x03, [0x0A, 9, 1, 0], 0x00, 0x00, 1, None),
    s("mbc3 96x16K 32K rom45 ram1", 0x13, 0x54, 0x03, [0x0A, 45, 1, 0], 0x05, 0x02, 0, None),
    s("mbc1 80x16K 8K mode1 rom19 ", 0x03, 0x53, 0x02, [0x0A, 19, 0, 1], 0x1F, 0x11, 2, None),
    // the display running (LCDC = 0x91) and the LCD controller standing inside a visible line:
    // OAM search, pixel transfer, horizontal blank
    Setup { advance: 4560 + 456 * 5 + 40, ..s("rom-only lcd on, line 5 mode 2", 0x00, 0x00, 0x00, [0x0A, 1, 0, 0], 0x00, 0x00, 3, None) },
    Setup { advance: 4560 + 456 * 5 + 152, ..s("mbc1 4x16K 8K lcd on, line 5 mode 3", 0x03, 0x01, 0x02, [0x0A, 2, 0, 0], 0x03, 0x00, 3, None) },
    Setup { advance: 4560 + 456 * 5 + 300, ..s("rom-only lcd on, line 5 mode 0", 0x00, 0x00, 0x00, [0x0A, 1, 0, 0], 0x1F, 0x00, 3, None) },
  ]
}

fn setup_writes(su: &Setup) -> Vec<(u16, u8)> {
  let mut v = vec![(0x0000u16, su.mbc[0]), (0x2000, su.mbc[1]), (0x4000, su.mbc[2]), (0x6000, su.mbc[3])];
  for (i, a) in IO_ORDER.iter().enumerate() {
    v.push((*a, IO_VALUES[su.iov][i]));
  }
  v.push((0xFF01, 0));
  v.push((0xFF02, 0));
  if let Some(d) = su.dma {
    v.push((0xFF46, d));
  }
  v.push((0xFFFF, su.ie));
  v.push((0xFF0F, su.iflag));
  v
}

/// Both sides of every region edge, every implemented register, the controller windows
/// and the partners of plausible aliasing bugs.
fn boundary_set() -> Vec<u16> {
  let mut b: Vec<u16> = vec![
    0x0000, 0x0001, 0x0100, 0x0147, 0x1000, 0x1FFF, 0x2000, 0x3000, 0x3FFF, 0x4000, 0x5000, 0x5FFF, 0x6000, 0x7000, 0x7FFF,
    0x8000, 0x8001, 0x9000, 0x9FFF, 0xA000, 0xA001, 0xB000, 0xBFFF, 0xC000, 0xC001, 0xCFFF, 0xD000, 0xDDFF, 0xDE00, 0xDFFF,
    0xE000, 0xE001, 0xEFFF, 0xF000, 0xFDFF, 0xFE00, 0xFE01, 0xFE20, 0xFE7F, 0xFE80, 0xFE9F, 0xFEA0, 0xFEA1, 0xFEFF,
    0xFF10, 0xFF26, 0xFF30, 0xFF3F, 0xFF4C, 0xFF4D, 0xFF4F, 0xFF50, 0xFF51, 0xFF70, 0xFF7F,
    0xFF80, 0xFF81, 0xFF84, 0xFF8F, 0xFFA0, 0xFFC0, 0xFFC6, 0xFFFD, 0xFFFE, 0xFFFF,
    0x0150, 0x97FF, 0x9800, 0xA7FF, 0xA800, 0xC0FF, 0xD001, 0xFE10, 0xFF11, 0xFF15, 0xFF27, 0xFF85, 0xFF87, 0xFFC1, 0xFFC5,
    0xFFC7, 0xFFCB,
  ];
  for a in 0xFF00..=0xFF0Fu16 {
    b.push(a);
  }
  for a in 0xFF40..=0xFF4Bu16 {
    b.push(a);
  }
  b.sort();
  b.dedup();
  b
}

const PAIR_VALUES: [u8; 2] = [0x03, 0xEA];

// ------------------------------------------------------------------ environment and world

struct Env {
  setups: Vec<Setup>,
  /// indices into `setups` used by this tier
  active: Vec<usize>,
  images: Vec<Vec<u8>>,
  paths: Vec<String>,
  bset: Vec<u16>,
  values: Vec<u8>,
}

const C_PROBES: usize = 0;
const C_WRITES: usize = 1;
const C_NOT_JUDGED: usize = 2;
const C_ENDED_EARLY: usize = 3;
const C_UNREAD: usize = 4;
const C_REBUILDS: usize = 5;
const C_FETCH_STATES: usize = 6;
const C_FETCH_BYTES: usize = 7;
const C_HIST1: usize = 8;
const C_HIST2: usize = 9;
const C_BASE_PROBES: usize = 10;
const C_FETCH_PARTIAL: usize = 11;
const C_WORD_CASES: usize = 12;
const C_WORD_READS: usize = 13;

struct World {
  sid: usize,
  core: Box<Core>,
  nbanks: usize,
  has_ram: bool,
  has_mbc: bool,
  rom0_banks: Vec<usize>,
  cram_m: Vec<u8>,
  vram_m: Vec<u8>,
  wram_m: Vec<u8>,
  oam_m: Vec<u8>,
  hram_m: Vec<u8>,
  journal: Vec<(usize, u8)>,
  writes: Vec<(u16, u8)>,
  base_obs: Vec<u8>,
  base_banks: (usize, usize),
  base_ram_bank: Option<usize>,
  pre: Vec<u8>,
  new: Vec<u8>,
  ram_sure: bool,
  cur_ram_bank: Option<usize>,
  dirty: bool,
}

fn mp(core: &mut Core) -> *mut MemoryAreas {
  &mut core.memory as *mut MemoryAreas
}

fn copy_min(dst: &mut [u8], src: &[u8]) {
  let n = dst.len().min(src.len());
  dst[..n].copy_from_slice(&src[..n]);
}

fn guards(core: &Core, has_ram: bool) -> (bool, bool, usize, usize) {
  let rb = core.memory.cart_state.get_rom_bank();
  let kb = core.memory.cart_state.get_ram_bank();
  let rom_ok = rb.checked_add(1).and_then(|x| x.checked_mul(0x4000)).map(|e| e <= core.memory.rom.len()).unwrap_or(false);
  let ram_ok = has_ram && kb.checked_add(1).and_then(|x| x.checked_mul(0x2000)).map(|e| e <= core.memory.cart_ram.len()).unwrap_or(false);
  (rom_ok, ram_ok, rb, kb)
}

/// Read the whole address space; ranges that cannot be read without leaving the image
/// (C11's subject) are copied from `prev`.  Returns the number of addresses read.
fn sweep(core: &mut Core, out: &mut [u8], prev: &[u8], rom_ok: bool, ram_ok: bool) -> u64 {
  let m = mp(core) as *const MemoryAreas;
  let mut n = 0u64;
  let mut rd = |lo: usize, hi: usize, out: &mut [u8]| {
    for a in lo..hi {
      out[a] = memory_read_byte(m, a as u16);
    }
    n += (hi - lo) as u64;
  };
  rd(0x0000, 0x4000, out);
  if rom_ok {
    rd(0x4000, 0x8000, out);
  } else {
    out[0x4000..0x8000].copy_from_slice(&prev[0x4000..0x8000]);
  }
  rd(0x8000, 0xA000, out);
  if ram_ok {
    rd(0xA000, 0xC000, out);
  } else {
    out[0xA000..0xC000].copy_from_slice(&prev[0xA000..0xC000]);
  }
  rd(0xC000, 0x10000, out);
  n
}

fn build_core(env: &Env, sid: usize, w: &World) -> Box<Core> {
  let mut core = match load_like_main(&env.paths[sid]) {
    Ok(c) => c,
    Err(e) => panic!("C10 harness: cannot load generated ROM: {}", e),
  };
  copy_min(&mut core.memory.video_ram, &w.vram_m);
  copy_min(&mut core.memory.cart_ram, &w.cram_m);
  copy_min(&mut core.memory.work_ram, &w.wram_m);
  copy_min(&mut core.memory.oam_ram, &w.oam_m);
  copy_min(&mut core.memory.high_ram, &w.hram_m);
  let m = mp(&mut core);
  for (a, v) in w.writes.iter() {
    memory_write_byte(m, *a, *v);
  }
  let adv = env.setups[sid].advance;
  if adv != 0 {
    core.memory.run_clock_cycles(crate::timing::ClockCycles(adv as usize));
  }
  core
}

fn find_rom_bank(image: &[u8], nbanks: usize, win: &[u8], hint: usize) -> Option<usize> {
  if hint < nbanks && win == &image[hint * 0x4000..hint * 0x4000 + 0x4000] {
    return Some(hint);
  }
  (0..nbanks).find(|k| win[0x200..0x210] == image[k * 0x4000 + 0x200..k * 0x4000 + 0x210] && win == &image[k * 0x4000..k * 0x4000 + 0x4000])
}

fn find_ram_bank(cram: &[u8], win: &[u8], hint: Option<usize>) -> Option<usize> {
  let nb = cram.len() / 0x2000;
  if let Some(h) = hint {
    if h < nb && win == &cram[h * 0x2000..h * 0x2000 + 0x2000] {
      return Some(h);
    }
  }
  (0..nb).find(|k| win == &cram[k * 0x2000..k * 0x2000 + 0x2000])
}

fn first_diff(a: &[u8], b: &[u8]) -> usize {
  a.iter().zip(b.iter()).position(|(x, y)| x != y).unwrap_or(0)
}

fn hist_json(h: &[(u16, u8)]) -> J {
  J::Arr(h.iter().map(|(a, v)| J::s(format!("{:04X}<-{:02X}", a, v))).collect())
}

impl World {
  fn new(env: &Env, sid: usize) -> World {
    let su = &env.setups[sid];
    let nbanks = rom_banks_for_code(su.rom_code).unwrap();
    let cram_len = ram_bytes_for_code(su.ram_code).unwrap();
    let mut cram_m = vec![0u8; cram_len];
    for i in 0..cram_len {
      cram_m[i] = cram_fill(i / 0x2000, i % 0x2000);
    }
    let is_mbc1 = matches!(su.cart_type, 0x01 | 0x02 | 0x03);
    let rom0_banks: Vec<usize> = if is_mbc1 { [0usize, 32, 64, 96].iter().cloned().filter(|k| *k < nbanks).collect() } else { vec![0] };
    let mut w = World {
      sid,
      core: Box::new(Core::with_code_block(vec![0u8; 1].into_boxed_slice())),
      nbanks,
      has_ram: cram_len >= 0x2000,
      has_mbc: su.cart_type != 0,
      rom0_banks,
      cram_m,
      vram_m: (0..0x2000).map(vram_fill).collect(),
      wram_m: (0..0x2000).map(wram_fill).collect(),
      oam_m: (0..0xA0).map(oam_fill).collect(),
      hram_m: (0..127).map(hram_fill).collect(),
      journal: Vec::new(),
      writes: setup_writes(su),
      base_obs: vec![0u8; 0x10000],
      base_banks: (0, 0),
      base_ram_bank: None,
      pre: vec![0u8; 0x10000],
      new: vec![0u8; 0x10000],
      ram_sure: true,
      cur_ram_bank: None,
      dirty: false,
    };
    w.core = build_core(env, sid, &w);
    let (rom_ok, ram_ok, rb, kb) = guards(&w.core, w.has_ram);
    if !rom_ok || (w.has_ram && !ram_ok) {
      panic!("C10 harness: set-up {} selects a bank outside the image", su.name);
    }
    let zero = vec![0u8; 0x10000];
    let mut obs = vec![0u8; 0x10000];
    sweep(&mut w.core, &mut obs, &zero, rom_ok, ram_ok);
    w.base_banks = (rb, kb);
    w.base_ram_bank = if w.has_ram { find_ram_bank(&w.cram_m, &obs[0xA000..0xC000], Some(kb)) } else { None };
    w.cur_ram_bank = w.base_ram_bank;
    w.pre.copy_from_slice(&obs);
    w.base_obs = obs;
    w
  }

  fn setup_json(&self, env: &Env) -> J {
    let su = &env.setups[self.sid];
    J::obj()
      .set("name", J::s(su.name))
      .set("cart_type", J::s(format!("{:02X}", su.cart_type)))
      .set("rom_code", J::s(format!("{:02X}", su.rom_code)))
      .set("ram_code", J::s(format!("{:02X}", su.ram_code)))
      .set("fill", J::s("rom[b][o]=(o*5+(o>>8)*3+b*59+0x11)&FF, vram[i]=(i*3+(i>>8)*7+0x21)&FF, cartram[b][o]=(o*7+(o>>8)*13+b*37+0x42)&FF, wram[i]=(i*11+(i>>8)*5+0x63)&FF, oam[i]=(i*13+0x84)&FF, hram[i]=(i*17+0xA5)&FF (buffers poked directly)"))
      .set("bus_writes", hist_json(&self.writes))
  }

  fn detail(&self, env: &Env, hist: &[(u16, u8)], probe: usize, expected: String, observed: u8, before: u8, what: &str) -> J {
    J::obj()
      .set("case", J::obj().set("setup", self.setup_json(env)).set("history", hist_json(hist)).set("probe", J::s(format!("{:04X}", probe))))
      .set("expected", J::s(expected))
      .set("observed", J::s(format!("{:02X}", observed)))
      .set("read_before_last_write", J::s(format!("{:02X}", before)))
      .set("what", J::s(what))
  }

  /// One write, one full probe, judged against R2.  `hist` ends with (w, v).
  /// Returns false when the history must end here (state left the image: C11/C12).
  fn step(&mut self, env: &Env, ctx: &mut Ctx, hist: &[(u16, u8)]) -> bool {
    let (w, v) = *hist.last().unwrap();
    let wr = region(w);
    let wname = cls_name(wr);
    if wr == Rg::CartRam && (!self.has_ram || !self.ram_sure || self.cur_ram_bank.is_none()) {
      // no cart RAM (C11) or the RAM gate may be closed (not part of the statement)
      ctx.count(C_NOT_JUDGED, 1);
      return false;
    }
    let m = mp(&mut self.core);
    memory_write_byte(m, w, v);
    ctx.count(C_WRITES, 1);
    // R2 storage
    if w < 0x2000 && self.has_mbc {
      self.ram_sure = v & 0x0F == 0x0A;
    }
    if wr == Rg::CartRam {
      let idx = self.cur_ram_bank.unwrap() * 0x2000 + (w as usize & 0x1FFF);
      self.journal.push((idx, self.cram_m[idx]));
      self.cram_m[idx] = v;
    }
    let (rom_ok, ram_ok, rb, _kb) = guards(&self.core, self.has_ram);
    let mut new = std::mem::take(&mut self.new);
    let nread = sweep(&mut self.core, &mut new, &self.pre, rom_ok, ram_ok);
    ctx.count(C_PROBES, nread);
    ctx.count(C_UNREAD, 0x10000 - nread);
    let sid = self.sid as u64;
    let wcls = cls_id(wr);
    let mut any_change = false;
    let mut viol = false;
    let is_ctl = w < 0x8000;
    let image = &env.images[self.sid];

    if is_ctl {
      if new[0..0x4000] != self.pre[0..0x4000] {
        any_change = true;
        ctx.class(sid * 1024 + wcls * 32 + cls_id(Rg::Rom0));
        if !self.rom0_banks.iter().any(|k| new[0..0x4000] == image[k * 0x4000..k * 0x4000 + 0x4000]) {
          viol = true;
          let o = first_diff(&new[0..0x4000], &self.pre[0..0x4000]);
          ctx.violation(&format!("C10 write={} probe=rom0 kind=rom-changed", wname), || {
            self.detail(env, hist, o, "0x0000-0x3FFF shows an unmodified bank of the ROM image".into(), new[o], self.pre[o], "ROM window no longer equals any bank of the image")
          });
        }
      }
      if rom_ok && new[0x4000..0x8000] != self.pre[0x4000..0x8000] {
        any_change = true;
        ctx.class(sid * 1024 + wcls * 32 + cls_id(Rg::RomN));
        if find_rom_bank(image, self.nbanks, &new[0x4000..0x8000], rb).is_none() {
          viol = true;
          let o = 0x4000 + first_diff(&new[0x4000..0x8000], &self.pre[0x4000..0x8000]);
          ctx.violation(&format!("C10 write={} probe=romN kind=rom-changed", wname), || {
            self.detail(env, hist, o, "0x4000-0x7FFF shows an unmodified bank of the ROM image".into(), new[o], self.pre[o], "ROM window no longer equals any bank of the image")
          });
        }
      }
      if ram_ok {
        if new[0xA000..0xC000] != self.pre[0xA000..0xC000] {
          any_change = true;
          ctx.class(sid * 1024 + wcls * 32 + cls_id(Rg::CartRam));
          match find_ram_bank(&self.cram_m, &new[0xA000..0xC000], self.cur_ram_bank) {
            Some(k) => self.cur_ram_bank = Some(k),
            None => {
              self.cur_ram_bank = None;
              let gate_closed_view = !self.ram_sure && new[0xA000..0xC000].iter().all(|b| *b == 0xFF);
              if !gate_closed_view {
                viol = true;
                let o = 0xA000 + first_diff(&new[0xA000..0xC000], &self.pre[0xA000..0xC000]);
                ctx.violation(&format!("C10 write={} probe=cartram kind=aliased", wname), || {
                  self.detail(env, hist, o, "0xA000-0xBFFF shows an unmodified bank of the cart RAM contents".into(), new[o], self.pre[o], "a controller-register write changed cart RAM contents")
                });
              }
            },
          }
        }
      } else if self.has_ram {
        self.cur_ram_bank = None;
      }
    }

    // addresses that read differently than before the write
    let mut changed: Vec<usize> = Vec::new();
    {
      let mut scan = |lo: usize, hi: usize| {
        let mut a = lo;
        while a < hi {
          if new[a..a + 64] != self.pre[a..a + 64] {
            for x in a..a + 64 {
              if new[x] != self.pre[x] && changed.len() < 64 {
                changed.push(x);
              }
            }
          }
          a += 64;
        }
      };
      if is_ctl {
        scan(0x8000, 0xA000);
        scan(0xC000, 0x10000);
      } else {
        scan(0x0000, 0x10000);
      }
    }

    // the target itself
    let wi = w as usize;
    let target_read = match wr {
      Rg::CartRam => ram_ok,
      _ => true,
    };
    if ram_like(wr) && target_read && new[wi] != v {
      viol = true;
      ctx.violation(&format!("C10 write={} probe={} kind=not-stored", wname, wname), || {
        self.detail(env, hist, wi, format!("{:02X}", v), new[wi], self.pre[wi], "the written byte is not returned by the next read of that address")
      });
    }
    if let Rg::IoListed(i) = wr {
      let wm = LISTED[i].1;
      if (new[wi] ^ v) & wm != 0 {
        viol = true;
        ctx.violation(&format!("C10 write={} probe={} kind=io-bits", wname, wname), || {
          self.detail(env, hist, wi, format!("{:02X} under mask {:02X} ({})", v & wm, wm, LISTED[i].2), new[wi], self.pre[wi], "writable bits of the register do not read back")
        });
      }
    }
    for &a in changed.iter() {
      let pr = region(a as u16);
      any_change = true;
      ctx.class(sid * 1024 + wcls * 32 + cls_id(pr));
      if a == wi && (ram_like(wr) || assigned_io(wr)) {
        continue;
      }
      let jm = stable_mask(wr, w, pr);
      if (new[a] ^ self.pre[a]) & jm != 0 {
        viol = true;
        let kind = kind_of(pr, a == wi);
        ctx.violation(&format!("C10 write={} probe={} kind={}", wname, cls_name(pr), kind), || {
          self.detail(env, hist, a, format!("{:02X} under mask {:02X} (unchanged)", self.pre[a] & jm, jm), new[a], self.pre[a], "a write changed what is read at an address that must not depend on it")
        });
      }
    }
    if !any_change {
      ctx.class(sid * 1024 + wcls * 32 + CLS_NONE);
    }

    // cart RAM banks that are not mapped right now (not visible through the window)
    if self.has_ram && self.core.memory.cart_ram.len() == self.cram_m.len() && self.core.memory.cart_ram[..] != self.cram_m[..] {
      let idx = first_diff(&self.core.memory.cart_ram, &self.cram_m);
      let hidden = match self.cur_ram_bank {
        Some(k) => idx / 0x2000 != k,
        None => self.ram_sure,
      };
      if hidden {
        viol = true;
        let obs = self.core.memory.cart_ram[idx];
        let want = self.cram_m[idx];
        ctx.violation(&format!("C10 write={} probe=cartram kind=aliased", wname), || {
          self.detail(env, hist, 0xA000 + (idx & 0x1FFF), format!("{:02X} (cart RAM bank {} offset {:04X}, bank not mapped at the time of the write)", want, idx / 0x2000, idx & 0x1FFF), obs, want, "a write changed a byte of a cart RAM bank other than the mapped one")
        });
      }
    }

    if viol {
      self.dirty = true;
    }
    std::mem::swap(&mut self.pre, &mut new);
    self.new = new;
    if is_ctl && (!rom_ok || (self.has_ram && !ram_ok)) {
      ctx.count(C_ENDED_EARLY, 1);
      return false;
    }
    true
  }

  /// Back to the base state of the set-up.
  fn restore(&mut self, env: &Env, ctx: &mut Ctx) {
    while let Some((idx, old)) = self.journal.pop() {
      self.cram_m[idx] = old;
    }
    let mut ok = !self.dirty;
    if ok {
      copy_min(&mut self.core.memory.video_ram, &self.vram_m);
      copy_min(&mut self.core.memory.cart_ram, &self.cram_m);
      copy_min(&mut self.core.memory.work_ram, &self.wram_m);
      copy_min(&mut self.core.memory.oam_ram, &self.oam_m);
      copy_min(&mut self.core.memory.high_ram, &self.hram_m);
      self.core.memory.oam_dma = None;
      let m = mp(&mut self.core);
      for (a, v) in self.writes.iter() {
        memory_write_byte(m, *a, *v);
      }
      let (_, _, rb, kb) = guards(&self.core, self.has_ram);
      ok = (rb, kb) == self.base_banks;
      if ok {
        for a in 0xFF00..=0xFFFFusize {
          if memory_read_byte(m as *const MemoryAreas, a as u16) != self.base_obs[a] {
            ok = false;
            break;
          }
        }
      }
    }
    if !ok {
      ctx.count(C_REBUILDS, 1);
      let c = build_core(env, self.sid, self);
      self.core = c;
      let zero = vec![0u8; 0x10000];
      let mut obs = std::mem::take(&mut self.new);
      sweep(&mut self.core, &mut obs, &zero, true, self.has_ram);
      if obs != self.base_obs {
        panic!("C10 harness: rebuilt world differs from the base image of set-up {}", env.setups[self.sid].name);
      }
      self.new = obs;
      self.dirty = false;
    }
    self.ram_sure = true;
    self.cur_ram_bank = self.base_ram_bank;
    self.pre.copy_from_slice(&self.base_obs);
  }

  /// R2's absolute view of the state reached by the set-up history.
  fn validate_base(&self, env: &Env, ctx: &mut Ctx) {
    let su = &env.setups[self.sid];
    let obs = &self.base_obs;
    let image = &env.images[self.sid];
    ctx.count(C_BASE_PROBES, if self.has_ram { 0x10000 } else { 0x10000 - 0x2000 });
    let none: [(u16, u8); 0] = [];
    if !self.rom0_banks.iter().any(|k| obs[0..0x4000] == image[k * 0x4000..k * 0x4000 + 0x4000]) {
      let o = first_diff(&obs[0..0x4000], &image[0..0x4000]);
      ctx.violation("C10 write=setup probe=rom0 kind=rom-changed", || self.detail(env, &none, o, format!("{:02X}", image[o]), obs[o], obs[o], "0x0000-0x3FFF does not show a bank of the ROM image after the set-up"));
    }
    if find_rom_bank(image, self.nbanks, &obs[0x4000..0x8000], self.base_banks.0).is_none() {
      ctx.violation("C10 write=setup probe=romN kind=rom-changed", || self.detail(env, &none, 0x4000, "a bank of the image".into(), obs[0x4000], obs[0x4000], "0x4000-0x7FFF does not show a bank of the ROM image after the set-up"));
    }
    let mut cmp = |lo: usize, model: &[u8], r: Rg| {
      let win = &obs[lo..lo + model.len()];
      if win != model {
        let o = first_diff(win, model);
        let key = format!("C10 write=setup probe={} kind=not-stored", cls_name(region((lo + o) as u16)));
        let _ = r;
        ctx.violation(&key, || self.detail(env, &none, lo + o, format!("{:02X}", model[o]), win[o], win[o], "region does not read the bytes its storage holds"));
      }
    };
    cmp(0x8000, &self.vram_m, Rg::Vram);
    cmp(0xC000, &self.wram_m[..0x1000], Rg::Wram0);
    cmp(0xD000, &self.wram_m[0x1000..], Rg::WramN);
    cmp(0xFE00, &self.oam_m, Rg::Oam);
    cmp(0xFF80, &self.hram_m, Rg::Hram);
    if self.has_ram && self.base_ram_bank.is_none() {
      ctx.violation("C10 write=setup probe=cartram kind=not-stored", || self.detail(env, &none, 0xA000, "a bank of the cart RAM contents".into(), obs[0xA000], obs[0xA000], "0xA000-0xBFFF does not show a bank of the cart RAM contents"));
    }
    if obs[0xFFFF] != su.ie {
      ctx.violation("C10 write=ie probe=ie kind=not-stored", || self.detail(env, &[(0xFFFF, su.ie)], 0xFFFF, format!("{:02X}", su.ie), obs[0xFFFF], obs[0xFFFF], "IE does not return the byte written by the set-up"));
    }
    let mut want: Vec<(u16, u8)> = IO_ORDER.iter().cloned().zip(IO_VALUES[su.iov].iter().cloned()).collect();
    want.push((0xFF0F, su.iflag));
    for (a, v) in want {
      if let Rg::IoListed(i) = region(a) {
        let wm = LISTED[i].1;
        if (obs[a as usize] ^ v) & wm != 0 {
          let n = cls_name(region(a));
          ctx.violation(&format!("C10 write={} probe={} kind=io-bits", n, n), || self.detail(env, &[(a, v)], a as usize, format!("{:02X} under mask {:02X}", v & wm, wm), obs[a as usize], obs[a as usize], "register does not return the writable bits written by the set-up"));
        }
      }
    }
  }

  /// Fetch view against the data view `self.pre` of the current state.
  fn fetch_check(&mut self, env: &Env, ctx: &mut Ctx, hist: &[(u16, u8)]) {
    let (rom_ok, _ram_ok, _, _) = guards(&self.core, self.has_ram);
    ctx.count(C_FETCH_STATES, 1);
    let m = mp(&mut self.core) as *const MemoryAreas;
    let ranges: [(usize, usize, Rg); 5] = [(0x0000, 0x4000, Rg::Rom0), (0x4000, 0x8000, Rg::RomN), (0xC000, 0xD000, Rg::Wram0), (0xD000, 0xE000, Rg::WramN), (0xFF80, 0xFFFF, Rg::Hram)];
    for (lo, hi, r) in ranges.iter() {
      if *r == Rg::RomN && !rom_ok {
        ctx.count(C_FETCH_PARTIAL, 1);
        continue;
      }
      let key = format!("C10 fetch={}", cls_name(*r));
      let mut bytes = 0u64;
      // (pointer, length) of the first slice of the range that was compared byte by byte:
      // a later slice that is exactly its tail consists of the same host bytes, so every
      // (a, i) pair of it is already decided and is only counted
      let mut anchor: Option<(usize, *const u8, usize)> = None;
      for a in *lo..*hi {
        let got = std::panic::catch_unwind(std::panic::AssertUnwindSafe(|| get_executable_memory_slice(a, m)));
        let s: &[u8] = match got {
          Ok(s) => s,
          Err(_) => {
            ctx.violation(&key, || self.detail(env, hist, a, "a slice starting at the address".into(), 0, self.pre[a], "get_executable_memory_slice panicked"));
            break;
          },
        };
        if s.is_empty() || a + s.len() > 0x10000 {
          let l = s.len();
          ctx.violation(&key, || self.detail(env, hist, a, "1..=(0x10000-a) bytes".into(), 0, self.pre[a], &format!("fetch slice has {} bytes", l)));
          break;
        }
        bytes += s.len() as u64;
        if let Some((a0, p0, l0)) = anchor {
          let d = a - a0;
          if d < l0 && s.len() == l0 - d && s.as_ptr() == p0.wrapping_add(d) {
            continue;
          }
        }
        anchor = Some((a, s.as_ptr(), s.len()));
        if s != &self.pre[a..a + s.len()] {
          let i = first_diff(s, &self.pre[a..a + s.len()]);
          ctx.violation(&key, || {
            self.detail(env, hist, a + i, format!("{:02X} (memory_read_byte)", self.pre[a + i]), s[i], self.pre[a + i], &format!("get_executable_memory_slice({:04X})[{}] differs from memory_read_byte({:04X})", a, i, a + i))
          });
          self.dirty = true;
          break;
        }
      }
      ctx.count(C_FETCH_BYTES, bytes);
    }
  }
}

/// digest of every backing array, mapped or not
fn raw_digest(core: &Core) -> u64 {
  let mut h = crate::world::Fx::new();
  h.bytes(&core.memory.video_ram);
  h.bytes(&core.memory.cart_ram);
  h.bytes(&core.memory.work_ram);
  h.bytes(&core.memory.oam_ram);
  h.bytes(&core.memory.high_ram);
  h.get()
}

const WORD_HELPER: [&str; 2] = ["write-word", "push-word"];

impl World {
  /// The 16-bit store helpers (LD (nn),SP and the interrupt push use `memory_write_word`,
  /// translated PUSH/CALL/RST use `memory_push_word`) are bus accesses like any other: a word
  /// stored at `a` must leave the machine exactly as the two byte stores at a and a+1 do, in the
  /// helper's byte order.  Differential: the same base state, once through the helper and once
  /// through two byte stores, then the whole address space and every backing array compared.
  fn word_case(&mut self, env: &Env, ctx: &mut Ctx, a: u16, helper: usize, v: u16) {
    let lo = (v & 0xFF) as u8;
    let hi = (v >> 8) as u8;
    let a1 = a.wrapping_add(1);
    ctx.count(C_WORD_CASES, 1);
    let m = mp(&mut self.core);
    if helper == 0 {
      memory_write_word(m, a, v);
    } else {
      memory_push_word(m, a, v);
    }
    let (rom_ok, ram_ok, rb, kb) = guards(&self.core, self.has_ram);
    let mut obs_a = vec![0u8; 0x10000];
    let n = sweep(&mut self.core, &mut obs_a, &self.base_obs, rom_ok, ram_ok);
    ctx.count(C_PROBES, n);
    let raw_a = raw_digest(&self.core);
    self.dirty |= a < 0x8000 || a1 < 0x8000;
    self.restore(env, ctx);
    let m = mp(&mut self.core);
    if helper == 0 {
      memory_write_byte(m, a, lo);
      memory_write_byte(m, a1, hi);
    } else {
      memory_write_byte(m, a1, hi);
      memory_write_byte(m, a, lo);
    }
    let (rom_ok2, ram_ok2, rb2, kb2) = guards(&self.core, self.has_ram);
    let mut obs_b = vec![0u8; 0x10000];
    let n = sweep(&mut self.core, &mut obs_b, &self.base_obs, rom_ok2, ram_ok2);
    ctx.count(C_PROBES, n);
    let raw_b = raw_digest(&self.core);
    let banks_differ = (rom_ok, ram_ok, rb, kb) != (rom_ok2, ram_ok2, rb2, kb2);
    if obs_a != obs_b || raw_a != raw_b || banks_differ {
      let o = if obs_a != obs_b { first_diff(&obs_a, &obs_b) } else { a as usize };
      let what = if obs_a != obs_b { "an address reads differently after the word store than after the two byte stores" } else if banks_differ { "the selected banks differ" } else { "a backing array (a bank not mapped at the moment) differs" };
      let key = format!("C10 {}={}+{} probe={} kind=differs-from-byte-stores", WORD_HELPER[helper], cls_name(region(a)), cls_name(region(a1)), cls_name(region(o as u16)));
      let hist = [(a, lo), (a1, hi)];
      ctx.violation(&key, || self.detail(env, &hist, o, format!("{:02X} (after byte stores {:04X}<-{:02X}, {:04X}<-{:02X} in the helper's order)", obs_b[o], a, lo, a1, hi), obs_a[o], self.base_obs[o], what));
    }
    self.dirty |= a < 0x8000 || a1 < 0x8000;
    self.restore(env, ctx);
  }

  /// `memory_read_word(a)` against the two byte reads, every address, in the base state.
  fn word_reads(&mut self, env: &Env, ctx: &mut Ctx) {
    let m = mp(&mut self.core);
    for a in 0..=0xFFFFu16 {
      let a1 = a.wrapping_add(1);
      if !self.has_ram && ((0xA000..0xC000).contains(&a) || (0xA000..0xC000).contains(&a1)) {
        continue;
      }
      ctx.count(C_WORD_READS, 1);
      let want = memory_read_byte(m as *const MemoryAreas, a) as u16 | (memory_read_byte(m as *const MemoryAreas, a1) as u16) << 8;
      let got = memory_read_word(m, a);
      if got != want {
        let key = format!("C10 read-word={}+{} kind=differs-from-byte-reads", cls_name(region(a)), cls_name(region(a1)));
        ctx.violation(&key, || self.detail(env, &[], a as usize, format!("{:04X}", want), (got & 0xFF) as u8, self.base_obs[a as usize], &format!("memory_read_word returned {:04X}", got)));
      }
    }
  }
}

fn world_for<'a>(slot: &'a mut Option<World>, env: &Env, sid: usize) -> &'a mut World {
  let stale = match slot {
    Some(w) => w.sid != sid,
    None => true,
  };
  if stale {
    *slot = None;
    *slot = Some(World::new(env, sid));
  }
  slot.as_mut().unwrap()
}

// ------------------------------------------------------------------ run

const TARGETS_PER_CASE: u64 = 256;

pub fn run(tier: &str) -> i32 {
  let mut rep = Report::new("C10", tier, "exploration");
  let thorough = rep.thorough();
  rep.assume("R2 bus map written from the Pan Docs memory map and the property text: 0000-3FFF/4000-7FFF ROM, 8000-9FFF VRAM, A000-BFFF cart RAM, C000-DFFF WRAM, E000-FDFF echo, FE00-FE9F OAM, FEA0-FEFF unused, FF00-FF7F I/O, FF80-FFFE HRAM, FFFF IE");
  rep.assume("every judgement is relative to the image read immediately before the write (no time passes: DIV, LY, STAT mode bits are constant); unmapped regions must keep the value they read before");
  rep.assume("read-back masks: P1 30, TIMA/TMA FF, TAC 07, IF 1F, LCDC FF, STAT 78, SCY/SCX/LYC/BGP/OBP0/OBP1/WY/WX FF; DIV and LY have no writable bits; P1 bits 6-7 and STAT bit 7 are never judged");
  rep.assume("after a write to an assigned I/O register only the writable bits of the other listed registers are required to be unchanged; IF, and TIMA after a DIV/TAC write, are not judged (documented couplings); serial, sound, 0xFF46 and 0xFF50 are not judged as probes of such writes");
  rep.assume("unassigned I/O = FF03, FF08-FF0E, FF15, FF1F, FF27-FF2F, FF4C-FF4F, FF51-FF7F (no register on the DMG)");
  rep.assume("writes to 0x0000-0x7FFF: the ROM windows must show unmodified image banks (0x0000-0x3FFF: bank 0, or 0/32/64/96 on MBC1) and the cart RAM window an unmodified cart RAM bank; which bank is selected is C12's subject");
  rep.assume("RAM gate: every set-up enables cart RAM; after a write to 0x0000-0x1FFF whose low nibble is not 0xA the cart RAM window may also read all FF and cart RAM writes are not judged");
  rep.assume("states whose selected ROM/RAM bank lies outside the image (C11/C12's subject) are not read in the affected window and end the history; ROM-only set-ups have no cart RAM and 0xA000-0xBFFF is neither written nor read there");
  rep.assume("echo RAM is judged as the statement words it (constant, ignores writes), not as a WRAM mirror");

  let setups = all_setups();
  let active: Vec<usize> = if thorough { (0..setups.len()).collect() } else { vec![1, 5, 11, 14, 18] };
  let values: Vec<u8> = if thorough { vec![0x00, 0x55, 0xAA, 0xFF, 0x0A, 0x80] } else { vec![0x55, 0xAA] };
  let mut images: Vec<Vec<u8>> = Vec::new();
  let mut paths: Vec<String> = Vec::new();
  for (i, su) in setups.iter().enumerate() {
    if active.contains(&i) {
      let nb = rom_banks_for_code(su.rom_code).unwrap();
      let img = make_image(su.cart_type, su.rom_code, su.ram_code, nb, rom_fill);
      paths.push(write_rom_file(&img));
      images.push(img);
    } else {
      paths.push(String::new());
      images.push(Vec::new());
    }
  }
  let env = Env { setups, active, images, paths, bset: boundary_set(), values };
  let n_act = env.active.len() as u64;

  // ---- stage 1: every address as write target
  let per_setup = 0x10000 / TARGETS_PER_CASE;
  let opts = PoolOpts { chunk: 2, bitmap_bits: 16 * 1024, ..PoolOpts::default() };
  let r1 = run_pool(
    n_act * per_setup,
    &opts,
    |_| None::<World>,
    |slot, case, ctx| {
      let sid = env.active[(case / per_setup) as usize];
      let first = (case % per_setup) * TARGETS_PER_CASE;
      let w = world_for(slot, &env, sid);
      if case % per_setup == 0 {
        ctx.sample(|| J::obj().set("setup", w.setup_json(&env)).set("targets", J::s(format!("{:04X}..{:04X}", first, first + TARGETS_PER_CASE - 1))).set("values", J::Arr(env.values.iter().map(|v| J::s(format!("{:02X}", v))).collect())).set("probe", J::s("all 65536 addresses after every write")));
      }
      for t in first..first + TARGETS_PER_CASE {
        for v in env.values.iter() {
          let h = [(t as u16, *v)];
          ctx.count(C_HIST1, 1);
          w.step(&env, ctx, &h);
          w.restore(&env, ctx);
        }
      }
    },
    |case, how| {
      let sid = env.active[(case / per_setup) as usize];
      let first = (case % per_setup) * TARGETS_PER_CASE;
      (
        format!("C10 write={} crash={}", cls_name(region(first as u16)), how),
        J::obj().set("case", J::obj().set("setup", J::s(env.setups[sid].name)).set("targets", J::s(format!("{:04X}..{:04X}", first, first + TARGETS_PER_CASE - 1)))),
      )
    },
  );
  let space1 = format!("{} set-ups x 65536 write targets x {} values, all 65536 addresses probed after each write", n_act, env.values.len());
  let c1 = rep.add_stage("single-write", &space1, r1);

  // ---- stage 2: ordered pairs over the boundary set, fetch view
  let nb = env.bset.len() as u64;
  let firsts = 1 + nb * 2;
  let opts2 = PoolOpts { chunk: 1, bitmap_bits: 16 * 1024, ..PoolOpts::default() };
  let r2: PoolResult = run_pool(
    n_act * firsts,
    &opts2,
    |_| None::<World>,
    |slot, case, ctx| {
      let sid = env.active[(case / firsts) as usize];
      let f = case % firsts;
      let w = world_for(slot, &env, sid);
      if f == 0 {
        w.validate_base(&env, ctx);
        w.fetch_check(&env, ctx, &[]);
        w.restore(&env, ctx);
        return;
      }
      let w1 = env.bset[((f - 1) / 2) as usize];
      let v1 = PAIR_VALUES[((f - 1) % 2) as usize];
      let h1 = [(w1, v1)];
      if !w.step(&env, ctx, &h1) {
        w.restore(&env, ctx);
        return;
      }
      w.fetch_check(&env, ctx, &h1);
      // snapshot of the state after the first write
      let obs1 = w.pre.clone();
      let sure1 = w.ram_sure;
      let bank1 = w.cur_ram_bank;
      let mut fresh = true;
      for w2 in env.bset.iter() {
        for v2 in PAIR_VALUES.iter() {
          if !fresh {
            w.restore(&env, ctx);
            let m = mp(&mut w.core);
            memory_write_byte(m, w1, v1);
            if region(w1) == Rg::CartRam {
              if let Some(k) = w.base_ram_bank {
                let idx = k * 0x2000 + (w1 as usize & 0x1FFF);
                w.journal.push((idx, w.cram_m[idx]));
                w.cram_m[idx] = v1;
              }
            }
            w.ram_sure = sure1;
            w.cur_ram_bank = bank1;
            w.pre.copy_from_slice(&obs1);
          }
          fresh = false;
          ctx.count(C_HIST2, 1);
          let h2 = [(w1, v1), (*w2, *v2)];
          w.step(&env, ctx, &h2);
        }
      }
      w.restore(&env, ctx);
    },
    |case, how| {
      let sid = env.active[(case / firsts) as usize];
      let f = case % firsts;
      let first = if f == 0 { "base".to_string() } else { cls_name(region(env.bset[((f - 1) / 2) as usize])) };
      (
        format!("C10 pair first={} crash={}", first, how),
        J::obj().set("case", J::obj().set("setup", J::s(env.setups[sid].name)).set("first_write_index", J::u(f))),
      )
    },
  );
  let space2 = format!("{} set-ups x (base state + {} boundary addresses x 2 values as first write) x ({} x 2 second writes), both writes fully probed; fetch view compared in the base state and after every first write", n_act, nb, nb);
  let c2 = rep.add_stage("pair+fetch", &space2, r2);

  // ---- stage 3: the 16-bit helpers against byte accesses
  let wtargets: Vec<u16> = {
    let mut t: Vec<u16> = Vec::new();
    for b in env.bset.iter() {
      t.push(b.wrapping_sub(1));
      t.push(*b);
    }
    let low: &[u16] = if thorough { &[0xE, 0xF, 0x0] } else { &[0xFF] };
    for a in 0..=0xFFFFu16 {
      if low.contains(&(a & if thorough { 0xF } else { 0xFF })) {
        t.push(a);
      }
    }
    t.sort();
    t.dedup();
    t
  };
  let wvalues: Vec<u16> = if thorough { vec![0xEA03, 0x0A55] } else { vec![0xEA03] };
  let nt = wtargets.len() as u64;
  let chunk_t = 16u64;
  let per_setup3 = (nt + chunk_t - 1) / chunk_t + 1;
  let r3: PoolResult = run_pool(
    n_act * per_setup3,
    &PoolOpts { chunk: 1, bitmap_bits: 16 * 1024, samples_per_child: 0, ..PoolOpts::default() },
    |_| None::<World>,
    |slot, case, ctx| {
      let sid = env.active[(case / per_setup3) as usize];
      let k = case % per_setup3;
      let w = world_for(slot, &env, sid);
      if k == 0 {
        w.word_reads(&env, ctx);
        return;
      }
      let lo = (k - 1) * chunk_t;
      for i in lo..(lo + chunk_t).min(nt) {
        let a = wtargets[i as usize];
        if !w.has_ram && ((0xA000..0xC000).contains(&a) || (0xA000..0xC000).contains(&a.wrapping_add(1))) {
          continue;
        }
        for v in wvalues.iter() {
          for h in 0..2 {
            w.word_case(&env, ctx, a, h, *v);
          }
        }
      }
    },
    |case, how| {
      let sid = env.active[(case / per_setup3) as usize];
      (format!("C10 word-access crash={}", how), J::obj().set("case", J::obj().set("setup", J::s(env.setups[sid].name)).set("target_chunk", J::u(case % per_setup3))))
    },
  );
  let space3 = format!("{} set-ups x {} word targets (both sides of every boundary address, every address at the end{} of a {}) x {} values x {{memory_write_word, memory_push_word}}: state after the helper against the state after the two byte stores (all 65536 addresses read, every backing array digested); memory_read_word against two byte reads at all 65536 addresses", n_act, nt, if thorough { " or start" } else { "" }, if thorough { "16-byte line" } else { "256-byte page" }, wvalues.len());
  let c3 = rep.add_stage("word-accesses", &space3, r3);

  // ------------------------------------------------------------ cartridge RAM smaller than its window
  // A 2 KiB chip (header RAM code 01) mirrors inside 0xA000-0xBFFF, so "changes what is read at
  // no other address" cannot be asked of it and R2 leaves it unjudged; the other half of the
  // sentence can be asked: a byte written with the RAM gate open is returned by the next read
  // of that address.  Every address of the window, two values, every controller with RAM.
  let small_types: [u8; 4] = [0x02, 0x03, 0x12, 0x13];
  let r4: PoolResult = run_pool(
    (small_types.len() * 2) as u64,
    &PoolOpts { chunk: 1, bitmap_bits: 1024, samples_per_child: 0, ..PoolOpts::default() },
    |_| (),
    |_, case, ctx| {
      let ty = small_types[(case / 2) as usize];
      let rom_code = (case % 2) as u8;
      let header = crate::world::header_bytes(ty, rom_code, 0x01);
      let path = crate::world::write_sparse_rom_file((2u64 << rom_code) * 0x4000, &[(0x100, &header[0x100..0x150])]);
      let loaded = crate::world::load_like_main(&path);
      let _ = std::fs::remove_file(&path);
      let mut core = match loaded {
        Ok(c) => c,
        Err(e) => {
          ctx.violation(&format!("C10 write=cartram-2K setup-refused type={:02X}", ty), || J::obj().set("case", J::obj().set("cart_type", J::u(ty as u64)).set("rom_code", J::u(rom_code as u64)).set("error", J::s(e.as_str()))));
          return;
        },
      };
      let m = mp(&mut core);
      memory_write_byte(m, 0x0000, 0x0A);
      for round in 0..2u16 {
        for a in 0xA000u16..=0xBFFF {
          let v = ((a as u8) ^ ((a >> 8) as u8).wrapping_mul(5) ^ 0x5A) ^ if round == 1 { 0xFF } else { 0 };
          memory_write_byte(m, a, v);
          let got = memory_read_byte(m as *const MemoryAreas, a);
          ctx.count(C_WRITES, 1);
          ctx.count(C_PROBES, 1);
          if got != v {
            ctx.violation("C10 write=cartram-2K probe=same-address kind=not-stored", || {
              J::obj().set("case", J::obj().set("cart_type", J::s(format!("{:02X}", ty))).set("rom_code", J::u(rom_code as u64)).set("ram_code", J::u(1)).set("address", J::s(format!("{:04X}", a))).set("written", J::s(format!("{:02X}", v))).set("read_back", J::s(format!("{:02X}", got))).set("what", J::s("0x0A written to 0x0000 (RAM gate open), then the byte written to the address and the address read")))
            });
            return;
          }
        }
      }
      ctx.class(0x7000 | case);
    },
    |case, how| (format!("C10 cartram-2K crash={}", how), J::obj().set("case", J::obj().set("small_ram_case", J::u(case)))),
  );
  let c4 = rep.add_stage("cart-ram-2K-write-then-read", "cartridge types 02, 03, 12, 13 x ROM size codes 00, 01 with RAM size code 01 (2 KiB), loaded from a file, RAM gate opened; every address 0xA000-0xBFFF x 2 values written and read back at the same address", r4);

  let sum = |i: usize| c1[i] + c2[i] + c3[i] + c4[i];
  rep.evaluations = sum(C_PROBES);
  rep.cov("write_probe_pairs_compared", J::u(sum(C_PROBES)));
  rep.cov("writes_executed_and_probed", J::u(sum(C_WRITES)));
  rep.cov("histories_depth1", J::u(sum(C_HIST1)));
  rep.cov("histories_depth2", J::u(sum(C_HIST2)));
  rep.cov("steps_not_judged_cart_ram_absent_or_gate_possibly_closed", J::u(sum(C_NOT_JUDGED)));
  rep.cov("histories_ended_by_out_of_image_bank", J::u(sum(C_ENDED_EARLY)));
  rep.cov("probe_addresses_not_read_out_of_image_or_no_cart_ram", J::u(sum(C_UNREAD)));
  rep.cov("base_state_probes_against_absolute_model", J::u(sum(C_BASE_PROBES)));
  rep.cov("fetch_states", J::u(sum(C_FETCH_STATES)));
  rep.cov("fetch_states_without_romN_window", J::u(sum(C_FETCH_PARTIAL)));
  rep.cov("fetch_start_offset_pairs_decided", J::u(sum(C_FETCH_BYTES)));
  rep.cov("fetch_rule", J::s("for every start a in ROM, WRAM, HRAM and every i of the returned slice, slice[i] is compared with the byte memory_read_byte(a+i) returned in the sweep of the same state; a slice that is exactly the tail (same host pointer + offset, same end) of a slice already compared is decided by that comparison and only counted"));
  rep.cov("word_store_cases_compared_with_byte_stores", J::u(c3[C_WORD_CASES]));
  rep.cov("word_reads_compared_with_byte_reads", J::u(c3[C_WORD_READS]));
  rep.cov("world_rebuilds", J::u(sum(C_REBUILDS)));
  rep.cov("setups", J::Arr(env.active.iter().map(|i| J::s(env.setups[*i].name)).collect()));
  rep.cov("values", J::Arr(env.values.iter().map(|v| J::s(format!("{:02X}", v))).collect()));
  rep.cov("boundary_set_size", J::u(nb));
  rep.cov("pair_values", J::s("03, EA"));
  rep.cov("rule", J::s("evaluations = (write, probe address) pairs read back and compared with R2; an outcome class is (set-up, region class of the write target, region class of an address whose read value changed, or 'none')"));
  rep.finish()
}
