//! C15 — the frame presented at VBlank equals the reference composition of BG, window
//! and objects.
//!
//! E1: every case builds a fresh `VideoState`, programs LCDC/SCX/SCY/WX/WY/BGP/OBP0/OBP1
//! through the public setters, drives `run_clock_cycles` in batches until the VBlank
//! flag (bit 0) is returned for a frame whose lines 0-143 were all drawn with these
//! settings, and compares all 160x144 bytes of `get_visible_buffer()` with R7
//! (`refm::r7`, a pure per-pixel function written from the Pan Docs rules).
//!
//! The space is factor-complete over the parameters on structured contents (DESIGN §5
//! C15): 3 VRAM images (every tile row a distinct 16-bit pattern, the two maps differ at
//! every index), nested ranges over scroll, window, object position/attributes, object
//! pairs, objects per line, palettes and LCDC bits 1-6.  No sampling, no randomness.

use crate::devices::video::VideoState;
use crate::refm::r7::{self, feat, Regs, Variant};
use crate::timing::ClockCycles;
use crate::util::json::J;
use crate::util::pool::{run_pool, PoolOpts};
use crate::util::report::Report;

const W: usize = 160;
const H: usize = 144;

// ---------------------------------------------------------------------------------------
// structured contents
// ---------------------------------------------------------------------------------------

/// bijection on 16-bit values (odd multipliers and xor-shifts are invertible mod 2^16)
fn mix16(i: u32, a: u32, b: u32, c: u32) -> u16 {
  let mut x = i.wrapping_mul(a).wrapping_add(c) & 0xffff;
  x ^= x >> 7;
  x = x.wrapping_mul(b) & 0xffff;
  x ^= x >> 9;
  x as u16
}

fn hash32(i: u32, seed: u32) -> u32 {
  let mut h = i.wrapping_add(seed).wrapping_mul(2654435761);
  h ^= h >> 15;
  h = h.wrapping_mul(0x2C1B3C6D);
  h ^= h >> 12;
  h = h.wrapping_mul(0x297A2D39);
  h ^= h >> 15;
  h
}

const IMG_PARAMS: [(u32, u32, u32, u32); 3] =
  [(0x9E37, 0x6A2B, 0x1234, 11), (0x5BD1, 0xC2B3, 0xBEEF, 222), (0x7F4B, 0x2545, 0x0F0F, 3333)];

/// VRAM image `id`.  0..2: every one of the 3072 tile rows is a distinct 16-bit pattern
/// (bijection of the row number), both tile maps pseudo-random and different at every
/// index.  3 ("plain", minimal witnesses only): like image 0 but tile 0 blank and both
/// maps all zero, so the background is colour 0 everywhere.
pub fn make_vram(id: usize) -> Box<[u8]> {
  let (a, b, c, seed) = IMG_PARAMS[if id == 3 { 0 } else { id }];
  let mut v = vec![0u8; 0x2000];
  for row in 0..3072u32 {
    let p = mix16(row, a, b, c);
    v[2 * row as usize] = (p & 0xff) as u8;
    v[2 * row as usize + 1] = (p >> 8) as u8;
  }
  for i in 0..1024u32 {
    let h = hash32(i, seed);
    let t0 = (h & 0xff) as u8;
    let d = (((h >> 8) & 0xff) as u8) | 1;
    v[0x1800 + i as usize] = t0;
    v[0x1C00 + i as usize] = t0 ^ d;
  }
  if id == 3 {
    for i in 0..16 {
      v[i] = 0;
    }
    for i in 0x1800..0x2000 {
      v[i] = 0;
    }
  }
  v.into_boxed_slice()
}

/// the stated structure of images 0..2, verified on every run
fn verify_images(imgs: &[Box<[u8]>]) -> Result<(), String> {
  for (k, v) in imgs.iter().enumerate().take(3) {
    let mut rows: Vec<u16> = (0..3072).map(|r| v[2 * r] as u16 | (v[2 * r + 1] as u16) << 8).collect();
    rows.sort();
    rows.dedup();
    if rows.len() != 3072 {
      return Err(format!("image {}: only {} distinct tile rows", k, rows.len()));
    }
    for i in 0..1024 {
      if v[0x1800 + i] == v[0x1C00 + i] {
        return Err(format!("image {}: maps equal at index {}", k, i));
      }
    }
  }
  Ok(())
}

// ---------------------------------------------------------------------------------------
// cases
// ---------------------------------------------------------------------------------------

#[derive(Clone, Copy, PartialEq, Eq, Debug)]
enum Fam {
  Bg,
  Window,
  Obj1,
  Obj2,
  ObjLine,
  Palette,
  Lcdc,
  Steady,
  Toggle,
  Moved,
  Rewrite,
}

impl Fam {
  fn name(self) -> &'static str {
    match self {
      Fam::Bg => "bg",
      Fam::Window => "window",
      Fam::Obj1 => "obj1",
      Fam::Obj2 => "obj2",
      Fam::ObjLine => "objline",
      Fam::Palette => "palette",
      Fam::Lcdc => "lcdc",
      Fam::Steady => "steady",
      Fam::Toggle => "toggle",
      Fam::Moved => "moved",
      Fam::Rewrite => "rewrite",
    }
  }
  fn id(self) -> u64 {
    self as u64
  }
}

#[derive(Clone)]
struct Case {
  fam: Fam,
  img: usize,
  regs: Regs,
  oam: [u8; 160],
  /// clocks per `run_clock_cycles` call (multiple of 4)
  batch: usize,
  /// number of consecutive presented frames compared
  frames: usize,
  /// finer parameter class, reported in the violation detail
  pclass: String,
  /// Some(reason): outside the judged domain (hardware glitch area), not executed
  excluded: Option<&'static str>,
  /// not a member of the space (padding of a rectangular index range)
  void: bool,
  /// contents (image, registers, OAM) of the even-numbered presented frames, programmed
  /// right after the previous VBlank flag was returned (inside VBlank); odd-numbered
  /// frames use `img`/`regs`/`oam`.  None: one scene for all frames.
  then: Option<(usize, Regs, [u8; 160])>,
  /// registers are written only where the new scene differs from the one in force
  delta: bool,
  /// registers programmed (all of them) at power-on before `regs` is reached by writing only
  /// the ones that differ, without any time passing in between
  pre: Option<Regs>,
}

const BGP_DEF: u8 = 0xE4;
const OBP0_DEF: u8 = 0xD8;
const OBP1_DEF: u8 = 0x2D;

fn regs(lcdc: u8, scx: u8, scy: u8, wx: u8, wy: u8) -> Regs {
  Regs { lcdc, scx, scy, wx, wy, bgp: BGP_DEF, obp0: OBP0_DEF, obp1: OBP1_DEF }
}

fn put(oam: &mut [u8; 160], slot: usize, y: u8, x: u8, tile: u8, attr: u8) {
  oam[4 * slot] = y;
  oam[4 * slot + 1] = x;
  oam[4 * slot + 2] = tile;
  oam[4 * slot + 3] = attr;
}

fn glitch_exclusion(r: &Regs) -> Option<&'static str> {
  if r.lcdc & 0x20 == 0 {
    return None;
  }
  if r.wx == 166 {
    return Some("wx=166");
  }
  if r.wx == 0 {
    return Some("wx=0");
  }
  if r.wx < 7 && r.scx & 7 != 0 {
    return Some("wx<7 with scx&7!=0");
  }
  None
}

fn wx_class(wx: u8) -> &'static str {
  match wx {
    0 => "0",
    1..=6 => "1-6",
    7 => "7",
    8..=165 => "8-165",
    166 => "166",
    _ => "167+",
  }
}

/// 40 objects: rows 0, 2, 4 spread over the width (left-clipped to right off-screen),
/// rows 1, 3 packed at a pitch of 5 pixels (heavy overlap).  `mixed` = odd and even tile
/// indices, otherwise even only.
fn rich_oam(mixed: bool) -> [u8; 160] {
  let mut oam = [0u8; 160];
  for i in 0..40usize {
    let row = i / 8;
    let col = i % 8;
    let y = 16 + 6 + row * 26 + (col & 1) * 3;
    let x = if row & 1 == 0 { 2 + col * 23 + row * 3 } else { 30 + col * 5 + row };
    let tile = if mixed { (i * 3 + 7) & 0xff } else { (i * 2 + 8) & 0xfe };
    let attr = ((i * 11 + 3) & 0xf) << 4;
    put(&mut oam, i, y as u8, x as u8, tile as u8, attr as u8);
  }
  oam
}

/// objects on the first and the last visible line and at the left and right screen edges:
/// what a frame leaves behind in per-line state is what its last line put there
fn edge_oam() -> [u8; 160] {
  let mut oam = [0u8; 160];
  for i in 0..40usize {
    let grp = i / 10;
    let k = i % 10;
    let y = [159usize, 152, 16, 9][grp];
    let x = if grp & 1 == 0 { 4 + k * 17 } else { 1 + k * 19 };
    let tile = (i * 5 + 9) & 0xff;
    let attr = ((i * 7 + 1) & 0xf) << 4;
    put(&mut oam, i, y as u8, x as u8, tile as u8, attr as u8);
  }
  oam
}

/// Class part of a violation key when no cause could be derived: a coarse scene class
/// (bg | window | obj | mixed) and its primary parameter class.  The finer parameter
/// class (`pclass`) goes into the detail only, so one root cause maps to a few keys.
fn scene_class(c: &Case) -> String {
  let l = c.regs.lcdc;
  match c.fam {
    Fam::Bg => format!("scene=bg data={}", if l & 0x10 != 0 { "8000" } else { "8800" }),
    Fam::Window => format!("scene=window wx={}", if l & 0x20 != 0 { wx_class(c.regs.wx) } else { "off" }),
    Fam::Obj1 | Fam::Obj2 | Fam::ObjLine => format!("scene=obj size={}", if l & 0x04 != 0 { "8x16" } else { "8x8" }),
    Fam::Palette | Fam::Lcdc | Fam::Steady | Fam::Toggle => "scene=mixed".to_string(),
    Fam::Moved => "scene=obj-moved".to_string(),
    Fam::Rewrite => "scene=register-rewritten".to_string(),
  }
}

fn new_case(fam: Fam, img: usize, regs: Regs) -> Case {
  Case { fam, img, regs, oam: [0u8; 160], batch: 456, frames: 1, pclass: String::new(), excluded: None, void: false, then: None, delta: false, pre: None }
}

const X1_SET: [u16; 10] = [0, 1, 7, 8, 9, 80, 159, 160, 167, 168];
const BATCHES: [u16; 12] = [4, 8, 12, 20, 80, 160, 228, 376, 456, 460, 912, 4560];

/// Build the case of family `fam` for the axis values `a` (positional, see `stages`).
fn build(fam: Fam, a: &[u16]) -> Case {
  let img = a[0] as usize;
  match fam {
    // [img, b3, b4, scx, scy]
    Fam::Bg => {
      let lcdc = 0x81 | ((a[1] as u8) << 3) | ((a[2] as u8) << 4);
      let mut c = new_case(fam, img, regs(lcdc, a[3] as u8, a[4] as u8, 30, 40));
      // objects and window are disabled: their registers/OAM must not matter
      put(&mut c.oam, 0, 80, 80, 0x31, 0);
      c.pclass = format!("map={} data={}", a[1], if a[2] != 0 { "8000" } else { "8800" });
      c
    },
    // [img, b3, b4, b5, b6, scx, wx, wy]
    Fam::Window => {
      let lcdc = 0x81 | ((a[1] as u8) << 3) | ((a[2] as u8) << 4) | ((a[3] as u8) << 5) | ((a[4] as u8) << 6);
      let mut c = new_case(fam, img, regs(lcdc, a[5] as u8, 0x45, a[6] as u8, a[7] as u8));
      c.pclass = format!("wx={} win={}", wx_class(a[6] as u8), a[3]);
      c.excluded = glitch_exclusion(&c.regs);
      c
    },
    // [img, tall, tile, attr_hi, x, y]
    Fam::Obj1 => {
      let tall = a[1] as u8;
      // window (map 1) covers the lower right part, BG scrolled by a fine amount
      let lcdc = 0xF3 | (tall << 2);
      let mut c = new_case(fam, img, regs(lcdc, 0x0D, 0x25, 87, 72));
      put(&mut c.oam, 5, a[5] as u8, a[4] as u8, a[2] as u8, (a[3] as u8) << 4);
      c.pclass = format!("size={} tile={}", if tall != 0 { "8x16" } else { "8x8" }, if a[2] & 1 != 0 { "odd" } else { "even" });
      c
    },
    // [img, variant, order, x1, dx, attrA, attrB]
    Fam::Obj2 => {
      let (tall, ta, tb) = match a[1] {
        0 => (0u8, 0x10u8, 0x21u8),
        1 => (1, 0x10, 0x22),
        _ => (1, 0x11, 0x22),
      };
      let lcdc = 0x93 | (tall << 2);
      let mut c = new_case(fam, img, regs(lcdc, 5, 9, 0, 0));
      let x1 = a[3] as u8;
      let x2 = x1.wrapping_add((a[4] as i16 - 8) as u8);
      let (sa, sb) = if a[2] == 0 { (3, 20) } else { (20, 3) };
      put(&mut c.oam, sa, 76, x1, ta, (a[5] as u8) << 4);
      put(&mut c.oam, sb, 79, x2, tb, (a[6] as u8) << 4);
      c.pclass = format!("size={} tiles={}", if tall != 0 { "8x16" } else { "8x8" }, if a[1] == 2 { "odd+even" } else if a[1] == 1 { "even" } else { "any" });
      c
    },
    // [img, tall, nk, offx, placement, layout, stride, stagger]
    Fam::ObjLine => {
      let tall = a[1] as u8;
      let n = (a[2] >> 4) as usize;
      let k = (a[2] & 15) as usize;
      let lcdc = 0x93 | (tall << 2);
      let mut c = new_case(fam, img, regs(lcdc, 3, 6, 0, 0));
      if k > n {
        c.void = true;
        return c;
      }
      let mut on = 0usize;
      let n_on = n - k;
      for i in 0..n {
        let slot = if a[6] == 0 { i } else { 1 + 3 * i };
        let off = if a[4] == 0 { i < k } else { i >= n - k };
        let x = if off {
          a[3] as usize
        } else {
          let j = on;
          on += 1;
          match a[5] {
            0 => 8 + 12 * j,
            1 => 8 + 12 * (n_on - 1 - j),
            2 => 20 + 3 * j,
            _ => 60,
          }
        };
        let y = 66 + if a[7] != 0 { i % 3 } else { 0 };
        let tile = 2 * (i + 4);
        let attr = ((i * 7 + a[5] as usize) & 0xf) << 4;
        put(&mut c.oam, slot, y as u8, x as u8, tile as u8, attr as u8);
      }
      c.pclass = format!("n={}", if n > 10 { ">10" } else { "<=10" });
      c
    },
    // [img, mixed, tall, which, v]
    Fam::Palette => {
      let lcdc = 0xF3 | ((a[2] as u8) << 2);
      let mut c = new_case(fam, img, regs(lcdc, 0x13, 0x07, 60, 50));
      c.oam = rich_oam(a[1] != 0);
      let v = a[4] as u8;
      match a[3] {
        0 => c.regs.bgp = v,
        1 => c.regs.obp0 = v,
        2 => c.regs.obp1 = v,
        _ => {
          c.regs.bgp = v;
          c.regs.obp0 = v.rotate_left(3);
          c.regs.obp1 = !v;
        },
      }
      c.pclass = format!("reg={}", ["bgp", "obp0", "obp1", "all"][a[3] as usize & 3]);
      c
    },
    // [img, scene(0..8), bits(0..64)]
    Fam::Lcdc => {
      let lcdc = 0x81 | ((a[2] as u8) << 1);
      let s = a[1];
      let (wx, wy) = if s & 2 != 0 { (7, 0) } else { (99, 60) };
      let (scx, scy) = if s & 4 != 0 { (0, 0) } else { (0xA3, 0xC9) };
      let mut c = new_case(fam, img, regs(lcdc, scx, scy, wx, wy));
      c.oam = rich_oam(s & 1 != 0);
      c.pclass = format!("obj={} tall={} win={}", (lcdc >> 1) & 1, (lcdc >> 2) & 1, (lcdc >> 5) & 1);
      c
    },
    // [img, scene(0..8), lcdcsel(0..4), batch, alternate]
    Fam::Steady => {
      let lcdc = [0x91u8, 0xB3, 0xE7, 0xFB][a[2] as usize & 3];
      let s = a[1];
      let (wx, wy) = if s & 2 != 0 { (7, 0) } else { (99, 60) };
      let (scx, scy) = if s & 4 != 0 { (0, 0) } else { (0xA3, 0xC9) };
      let mut c = new_case(fam, img, regs(lcdc, scx, scy, wx, wy));
      c.oam = rich_oam(s & 1 != 0);
      c.batch = a[3] as usize;
      c.frames = 3;
      if a[4] != 0 {
        // a different scene for the second presented frame, the first one again for the third
        let lcdc2 = [0xFBu8, 0x91, 0xB3, 0xE7][a[2] as usize & 3];
        let (wx2, wy2) = if s & 2 != 0 { (99, 60) } else { (7, 0) };
        let mut r2 = regs(lcdc2, scx.wrapping_add(37), scy.wrapping_add(91), wx2, wy2);
        r2.bgp = 0x1B;
        r2.obp0 = 0x93;
        r2.obp1 = 0xC6;
        c.then = Some(((img + 1) % 3, r2, rich_oam(s & 1 == 0)));
      }
      c.pclass = format!("batch={} alternate={}", if c.batch < 456 { "<456" } else if c.batch == 456 { "456" } else { ">456" }, a[4]);
      c
    },
    // [tall, tile, position 1, position 2, flip in the second frame]
    // consecutive frames that show the same pixels in other places: one object over a blank
    // background, moved and / or mirrored between frames (every frame has the same number of
    // pixels of every shade, so nothing that summarises a frame can tell them apart)
    Fam::Moved => {
      let tall = a[0] as u8;
      let pos: [(u8, u8); 4] = [(8, 16), (80, 80), (152, 136), (40, 100)];
      let mut c = new_case(fam, 3, regs(0x93 | (tall << 2), 0, 0, 0, 0));
      let (x1, y1) = pos[a[2] as usize & 3];
      let (x2, y2) = pos[a[3] as usize & 3];
      put(&mut c.oam, 0, y1, x1, a[1] as u8, 0);
      let mut oam2 = [0u8; 160];
      put(&mut oam2, 0, y2, x2, a[1] as u8, if a[4] != 0 { 0x20 } else { 0 });
      c.frames = 3;
      c.then = Some((3, c.regs.clone(), oam2));
      c.void = a[2] == a[3] && a[4] == 0;
      c.pclass = format!("size={} moved={} flipped={}", if tall != 0 { "8x16" } else { "8x8" }, a[2] != a[3], a[4] != 0);
      c
    },
    // [img, final scene, which register held another value before, a frame in between]
    // the scene of the judged frame is reached by one register write from a scene that differs
    // in that register only (window parked below / beside the screen and brought back, a layer
    // switched on, a scroll or palette changed): the frame depends on the values in force, not
    // on how they got there
    Fam::Rewrite => {
      let fin = [regs(0xF3, 0x0D, 0x25, 87, 72), regs(0xF3, 0, 0, 7, 0), regs(0xB3, 3, 200, 99, 40)][a[1] as usize % 3];
      let mut parked = fin.clone();
      let what = match a[2] {
        0 => { parked.wy = 150; "wy 150>" },
        1 => { parked.wy = 144; "wy 144>" },
        2 => { parked.wy = 255; "wy 255>" },
        3 => { parked.wx = 167; "wx 167>" },
        4 => { parked.wx = 200; "wx 200>" },
        5 => { parked.lcdc &= !0x20; "window off>on" },
        6 => { parked.lcdc &= !0x02; "objects off>on" },
        7 => { parked.lcdc ^= 0x10; "tile data switched" },
        8 => { parked.scx = parked.scx.wrapping_add(8); "scx" },
        9 => { parked.scy = parked.scy.wrapping_add(100); "scy" },
        10 => { parked.bgp = 0x1B; "bgp" },
        _ => { parked.wy = fin.wy + 8; "wy on-screen>" },
      };
      let between = a[3] != 0;
      let mut c = new_case(fam, img, if between { parked.clone() } else { fin.clone() });
      c.oam = rich_oam(true);
      c.delta = true;
      if between {
        c.frames = 2;
        c.then = Some((img, fin.clone(), c.oam));
      } else {
        c.pre = Some(parked.clone());
      }
      c.excluded = glitch_exclusion(&fin).or(glitch_exclusion(&parked));
      c.pclass = format!("rewritten={} frame-between={}", what, between);
      c
    },
    // [img, lcdc bits 1-6, bit toggled for the second frame, oam layout, batch]
    Fam::Toggle => {
      let lcdc = 0x81 | ((a[1] as u8) << 1);
      let bit = 1u8 << (a[2] as u8);
      let mut c = new_case(fam, img, regs(lcdc, 0x0D, 0x25, 87, 72));
      c.oam = if a[3] != 0 { edge_oam() } else { rich_oam(true) };
      c.batch = a[4] as usize;
      c.frames = 3;
      // the second presented frame differs in exactly one LCDC bit (changed inside VBlank),
      // the third is the first scene again: both directions of every single-bit change
      let r2 = regs(lcdc ^ bit, 0x0D, 0x25, 87, 72);
      c.then = Some((img, r2, c.oam));
      c.excluded = glitch_exclusion(&c.regs).or(glitch_exclusion(&r2));
      c.pclass = format!("lcdc-bit{} {} oam={}", a[2], if lcdc & bit != 0 { "on>off>on" } else { "off>on>off" }, if a[3] != 0 { "edge-lines" } else { "rich" });
      c
    },
  }
}

struct Stage {
  name: &'static str,
  fam: Fam,
  axes: Vec<(&'static str, Vec<u16>)>,
}

impl Stage {
  fn n(&self) -> u64 {
    self.axes.iter().map(|(_, v)| v.len() as u64).product()
  }
  /// mixed-radix decode, last axis fastest
  fn case(&self, mut idx: u64) -> Case {
    let mut vals = vec![0u16; self.axes.len()];
    for k in (0..self.axes.len()).rev() {
      let n = self.axes[k].1.len() as u64;
      vals[k] = self.axes[k].1[(idx % n) as usize];
      idx /= n;
    }
    build(self.fam, &vals)
  }
  fn space(&self) -> String {
    let parts: Vec<String> = self
      .axes
      .iter()
      .map(|(n, v)| {
        if v.len() == 1 {
          format!("{}={}", n, v[0])
        } else if v.len() > 12 && v.windows(2).all(|w| w[1] == w[0] + 1) {
          format!("{} all {}..={}", n, v[0], v[v.len() - 1])
        } else if v.len() > 24 {
          format!("{} x{}", n, v.len())
        } else {
          format!("{} in {:?}", n, v)
        }
      })
      .collect();
    format!("{}: {}", self.fam.name(), parts.join(" x "))
  }
}

fn all(n: u16) -> Vec<u16> {
  (0..n).collect()
}
fn all256() -> Vec<u16> {
  (0..256).collect()
}

fn stages(thorough: bool) -> Vec<Stage> {
  let imgs3 = all(3);
  let bits = vec![0u16, 1];
  let mut st = Vec::new();
  // ---- background
  let scy9: Vec<u16> = if thorough { vec![0, 1, 7, 8, 111, 112, 113, 248, 255] } else { vec![0, 113, 255] };
  let scx9: Vec<u16> = if thorough { vec![0, 1, 7, 8, 95, 96, 97, 248, 255] } else { vec![0, 97, 255] };
  st.push(Stage { name: "bg-scx", fam: Fam::Bg, axes: vec![("image", imgs3.clone()), ("lcdc3", bits.clone()), ("lcdc4", bits.clone()), ("scx", all256()), ("scy", scy9)] });
  st.push(Stage { name: "bg-scy", fam: Fam::Bg, axes: vec![("image", imgs3.clone()), ("lcdc3", bits.clone()), ("lcdc4", bits.clone()), ("scx", scx9), ("scy", all256())] });
  if thorough {
    // the full scroll plane on one image
    st.push(Stage { name: "bg-plane", fam: Fam::Bg, axes: vec![("image", vec![1]), ("lcdc3", bits.clone()), ("lcdc4", bits.clone()), ("scx", all256()), ("scy", all256())] });
  }
  // ---- window
  if thorough {
    st.push(Stage {
      name: "window",
      fam: Fam::Window,
      axes: vec![("image", imgs3.clone()), ("lcdc3", bits.clone()), ("lcdc4", bits.clone()), ("lcdc5", bits.clone()), ("lcdc6", bits.clone()), ("scx", vec![0, 3]), ("wx", all256()), ("wy", vec![0, 1, 72, 143, 144, 200])],
    });
    // every WY on one image (window enabled)
    st.push(Stage {
      name: "window-wy",
      fam: Fam::Window,
      axes: vec![("image", vec![2]), ("lcdc3", vec![0]), ("lcdc4", vec![1]), ("lcdc5", vec![1]), ("lcdc6", bits.clone()), ("scx", vec![0, 3]), ("wx", all256()), ("wy", all(146))],
    });
  } else {
    st.push(Stage {
      name: "window",
      fam: Fam::Window,
      axes: vec![("image", imgs3.clone()), ("lcdc3", vec![0]), ("lcdc4", vec![1]), ("lcdc5", bits.clone()), ("lcdc6", bits.clone()), ("scx", vec![0, 3]), ("wx", all256()), ("wy", vec![0, 72, 144])],
    });
  }
  // ---- one object
  let coarse_x: Vec<u16> = vec![0, 1, 4, 7, 8, 9, 12, 80, 83, 159, 160, 161, 164, 167, 168, 169, 200, 255];
  let coarse_y: Vec<u16> = vec![0, 1, 2, 8, 9, 15, 16, 17, 24, 80, 143, 144, 151, 152, 153, 159, 160, 161, 200, 255];
  if thorough {
    st.push(Stage { name: "obj1-grid", fam: Fam::Obj1, axes: vec![("image", vec![0]), ("tall", bits.clone()), ("tile", vec![0x42, 0x43]), ("attr", vec![0x0, 0xF]), ("x", all256()), ("y", all256())] });
    st.push(Stage { name: "obj1-attr", fam: Fam::Obj1, axes: vec![("image", imgs3.clone()), ("tall", bits.clone()), ("tile", vec![0x42, 0x43, 0x00, 0xFF]), ("attr", all(16)), ("x", coarse_x), ("y", coarse_y)] });
  } else {
    let qx: Vec<u16> = (0..176).step_by(1).filter(|x| x % 3 == 0 || *x < 10 || (157..170).contains(x)).collect();
    let qy: Vec<u16> = (0..162).filter(|y| y % 5 == 0 || *y < 18 || (143..162).contains(y)).collect();
    st.push(Stage { name: "obj1-grid", fam: Fam::Obj1, axes: vec![("image", vec![0]), ("tall", bits.clone()), ("tile", vec![0x42, 0x43]), ("attr", vec![0x0]), ("x", qx), ("y", qy)] });
    st.push(Stage { name: "obj1-attr", fam: Fam::Obj1, axes: vec![("image", vec![1]), ("tall", bits.clone()), ("tile", vec![0x42, 0xFF]), ("attr", all(16)), ("x", vec![0, 4, 8, 83, 160, 164, 168]), ("y", vec![0, 9, 16, 80, 152, 159, 160])] });
  }
  // ---- two objects
  if thorough {
    st.push(Stage { name: "obj2", fam: Fam::Obj2, axes: vec![("image", imgs3.clone()), ("variant", all(3)), ("order", bits.clone()), ("x1", X1_SET.to_vec()), ("dx+8", all(17)), ("attrA", all(16)), ("attrB", all(16))] });
  } else {
    st.push(Stage { name: "obj2", fam: Fam::Obj2, axes: vec![("image", vec![2]), ("variant", all(3)), ("order", bits.clone()), ("x1", vec![7, 80, 160]), ("dx+8", all(17)), ("attrA", vec![0, 8, 1, 0xE]), ("attrB", vec![0, 8, 1, 0x7])] });
  }
  // ---- 0..12 objects on a line
  let mut nk = Vec::new();
  for n in 0..=12u16 {
    for k in 0..=n {
      nk.push(n << 4 | k);
    }
  }
  if thorough {
    st.push(Stage { name: "objline", fam: Fam::ObjLine, axes: vec![("image", imgs3.clone()), ("tall", bits.clone()), ("n<<4|offscreen", nk), ("offx", vec![0, 168, 255]), ("placement", bits.clone()), ("layout", all(4)), ("stride", bits.clone()), ("stagger", bits.clone())] });
  } else {
    st.push(Stage { name: "objline", fam: Fam::ObjLine, axes: vec![("image", vec![0]), ("tall", bits.clone()), ("n<<4|offscreen", nk), ("offx", vec![0, 168]), ("placement", bits.clone()), ("layout", vec![0, 2]), ("stride", vec![0]), ("stagger", bits.clone())] });
  }
  // ---- palettes
  st.push(Stage { name: "palette", fam: Fam::Palette, axes: vec![("image", if thorough { imgs3.clone() } else { vec![0] }), ("mixed", vec![0, 1]), ("tall", bits.clone()), ("which", all(4)), ("value", all256())] });
  // ---- LCDC bits 1-6
  st.push(Stage { name: "lcdc", fam: Fam::Lcdc, axes: vec![("image", imgs3.clone()), ("scene", if thorough { all(8) } else { vec![0, 3, 5, 6] }), ("lcdc bits1-6", all(64))] });
  // ---- batch size independence, second and third presented frame
  st.push(Stage { name: "steady", fam: Fam::Steady, axes: vec![("image", vec![0]), ("scene", if thorough { all(8) } else { vec![0, 7] }), ("lcdc", all(4)), ("batch", BATCHES.to_vec()), ("alternate scenes", bits.clone())] });
  // ---- the same pixels elsewhere in the next frame
  st.push(Stage { name: "obj-moved", fam: Fam::Moved, axes: vec![("tall", bits.clone()), ("tile", vec![2, 5, 8, 0x31]), ("position in frame 1", all(4)), ("position in frame 2", all(4)), ("mirrored in frame 2", bits.clone())] });
  // ---- the scene reached by rewriting one register
  st.push(Stage { name: "register-rewritten", fam: Fam::Rewrite, axes: vec![("image", if thorough { imgs3.clone() } else { vec![0] }), ("final scene", all(3)), ("register that held another value", all(12)), ("a frame in between", bits.clone())] });
  // ---- one LCDC bit changed between consecutive frames, every bit, both directions
  st.push(Stage { name: "lcdc-toggle", fam: Fam::Toggle, axes: vec![("image", if thorough { imgs3.clone() } else { vec![0] }), ("lcdc bits1-6", all(64)), ("toggled bit", vec![1, 2, 3, 4, 5, 6]), ("oam layout", bits.clone()), ("batch", if thorough { vec![4, 456, 912] } else { vec![456] })] });
  st
}

/// Minimal witnesses run first so that a key shared with a big stage carries the
/// smallest case (plain image: blank background, maps all zero).
fn canonical() -> Vec<Case> {
  let mut v = Vec::new();
  let plain = 3;
  let one = |tall: u8, tile: u8, attr: u8| {
    let mut c = new_case(Fam::Obj1, plain, regs(0x93 | (tall << 2), 0, 0, 0, 0));
    put(&mut c.oam, 0, 16, 8, tile, attr);
    c.pclass = format!("size={} tile={}", if tall != 0 { "8x16" } else { "8x8" }, if tile & 1 != 0 { "odd" } else { "even" });
    c
  };
  v.push(one(0, 2, 0));
  v.push(one(0, 3, 0));
  v.push(one(1, 2, 0));
  v.push(one(1, 3, 0));
  v.push(one(1, 3, 0x40));
  v.push(one(0, 3, 0x20));
  v.push(one(0, 3, 0x80));
  {
    let mut c = new_case(Fam::Bg, 0, regs(0x91, 0, 0, 0, 0));
    c.pclass = "map=0 data=8000".to_string();
    v.push(c);
    let mut c = new_case(Fam::Bg, 0, regs(0x89, 0, 0, 0, 0));
    c.pclass = "map=1 data=8800".to_string();
    v.push(c);
    let mut c = new_case(Fam::Window, 0, regs(0xB1, 0, 0, 7, 0));
    c.pclass = "wx=7 win=1".to_string();
    v.push(c);
    let mut c = new_case(Fam::Window, 0, regs(0xF1, 0, 0, 87, 72));
    c.pclass = "wx=8-165 win=1".to_string();
    v.push(c);
  }
  {
    let mut c = new_case(Fam::Obj2, plain, regs(0x93, 0, 0, 0, 0));
    put(&mut c.oam, 0, 16, 12, 2, 0);
    put(&mut c.oam, 1, 16, 8, 4, 0);
    c.pclass = "size=8x8 tiles=any".to_string();
    v.push(c);
    let mut c = new_case(Fam::ObjLine, plain, regs(0x93, 0, 0, 0, 0));
    for i in 0..11 {
      put(&mut c.oam, i, 16, (8 + 9 * i) as u8, (2 + 2 * i) as u8, 0);
    }
    c.pclass = "n=>10".to_string();
    v.push(c);
  }
  v
}

// ---------------------------------------------------------------------------------------
// executing a case on the real code
// ---------------------------------------------------------------------------------------

struct Worker {
  imgs: Vec<Box<[u8]>>,
  oam: Box<[u8]>,
  exp: Vec<u8>,
  alt: Vec<u8>,
}

fn make_worker() -> Worker {
  Worker { imgs: (0..4).map(make_vram).collect(), oam: vec![0u8; 160].into_boxed_slice(), exp: vec![0u8; W * H], alt: vec![0u8; W * H] }
}

fn program(r: &Regs) -> VideoState {
  let mut v = VideoState::new();
  apply(&mut v, r);
  v
}

/// write only the registers in which `to` differs from `from`
fn apply_delta(v: &mut VideoState, from: &Regs, to: &Regs) {
  if from.lcdc != to.lcdc {
    v.set_lcd_control(to.lcdc);
  }
  if from.scx != to.scx {
    v.set_scroll_x(to.scx);
  }
  if from.scy != to.scy {
    v.set_scroll_y(to.scy);
  }
  if from.wx != to.wx {
    v.set_window_x(to.wx);
  }
  if from.wy != to.wy {
    v.set_window_y(to.wy);
  }
  if from.bgp != to.bgp {
    v.set_bgp(to.bgp);
  }
  if from.obp0 != to.obp0 {
    v.set_obj_palette(0, to.obp0);
  }
  if from.obp1 != to.obp1 {
    v.set_obj_palette(1, to.obp1);
  }
}

fn apply(v: &mut VideoState, r: &Regs) {
  v.set_lcd_control(r.lcdc);
  v.set_scroll_x(r.scx);
  v.set_scroll_y(r.scy);
  v.set_window_x(r.wx);
  v.set_window_y(r.wy);
  v.set_bgp(r.bgp);
  v.set_obj_palette(0, r.obp0);
  v.set_obj_palette(1, r.obp1);
}

/// Drive until the VBlank flag is returned by a batch after a visible line (LY < 144)
/// has been observed since the previous presentation: the PPU powers on at LY 144 inside
/// VBlank, so the flag then closes a frame whose lines 0-143 were all drawn.  Nothing
/// here depends on the length of a frame.
fn drive_to_vblank(v: &mut VideoState, vram: &Box<[u8]>, oam: &Box<[u8]>, batch: usize) -> bool {
  let mut seen_visible = false;
  let mut clocks = 0usize;
  while clocks < 3 * 70224 + 2 * batch {
    let f = v.run_clock_cycles(ClockCycles(batch), vram, oam).as_u8();
    clocks += batch;
    if f & 1 != 0 && seen_visible {
      return true;
    }
    if v.get_ly() < 144 {
      seen_visible = true;
    }
  }
  false
}

struct Diff {
  x: usize,
  y: usize,
  expected: u8,
  observed: u8,
  count: usize,
  lines: usize,
}

fn compare(exp: &[u8], got: &[u8]) -> Option<Diff> {
  if exp == got {
    return None;
  }
  let mut d: Option<Diff> = None;
  for y in 0..H {
    let mut line_hit = false;
    for x in 0..W {
      let (e, g) = (exp[y * W + x], got[y * W + x]);
      if e != g {
        match d.as_mut() {
          None => d = Some(Diff { x, y, expected: e, observed: g, count: 1, lines: 0 }),
          Some(d) => d.count += 1,
        }
        line_hit = true;
      }
    }
    if line_hit {
      if let Some(d) = d.as_mut() {
        d.lines += 1;
      }
    }
  }
  d
}

fn scene_json(img: usize, r: &Regs, oam: &[u8; 160]) -> J {
  let mut objs = Vec::new();
  for i in 0..40 {
    let e = &oam[4 * i..4 * i + 4];
    if e != [0, 0, 0, 0] {
      objs.push(J::obj().set("slot", J::u(i as u64)).set("y", J::u(e[0] as u64)).set("x", J::u(e[1] as u64)).set("tile", J::u(e[2] as u64)).set("attr", J::s(format!("{:02X}", e[3]))));
    }
  }
  J::obj()
    .set("vram_image", J::s(format!("checks::c15::make_vram({})", img)))
    .set("lcdc", J::s(format!("{:02X}", r.lcdc)))
    .set("scx", J::u(r.scx as u64))
    .set("scy", J::u(r.scy as u64))
    .set("wx", J::u(r.wx as u64))
    .set("wy", J::u(r.wy as u64))
    .set("bgp", J::s(format!("{:02X}", r.bgp)))
    .set("obp0", J::s(format!("{:02X}", r.obp0)))
    .set("obp1", J::s(format!("{:02X}", r.obp1)))
    .set("oam_nonzero_entries", J::Arr(objs))
    .set("oam_rest", J::s("all other entries 00 00 00 00"))
}

fn case_json(c: &Case, stage: &str, index: u64, frame: usize) -> J {
  let mut j = J::obj().set("stage", J::s(stage)).set("index", J::u(index)).set("batch_clocks", J::u(c.batch as u64)).set("presented_frame", J::u(frame as u64));
  j.put("scene", scene_json(c.img, &c.regs, &c.oam));
  if let Some(p) = &c.pre {
    j.put("registers_programmed_at_power_on_before_the_scene", scene_json(c.img, p, &c.oam));
    j.put("then", J::s("only the registers in which `scene` differs are written, immediately"));
  }
  if c.delta && c.then.is_some() {
    j.put("note", J::s("between frames only the registers that differ are written"));
  }
  if let Some((img2, r2, oam2)) = &c.then {
    j.put("scene_of_even_frames", scene_json(*img2, r2, oam2));
    j.put("how", J::s("power on with `scene`; each time the VBlank flag is returned, program the other scene through the setters (inside VBlank) and pass its VRAM/OAM from then on"));
  } else {
    j.put("how", J::s("power on, program `scene` through the setters, run batches until the VBlank flag is returned after a visible line was seen"));
  }
  j
}

fn feature_names(f: u32) -> String {
  const N: [&str; 13] =
    ["obj-over-bg-nonzero", "obj-behind-bg", "window-visible", "obj-overlap", "line-over-10", "obj-clipped", "bg-wrap", "signed-low-tile", "flip-x", "flip-y", "8x16-bottom", "obj-over-window", "obp1"];
  let v: Vec<&str> = (0..13).filter(|b| f & (1 << b) != 0).map(|b| N[b]).collect();
  v.join(",")
}

// counters
const C_FRAMES: usize = 0;
const C_CASES: usize = 1;
const C_EXCL: usize = 2;
const C_VOID: usize = 3;
const C_MISMATCH: usize = 4;
const C_FEAT0: usize = 8; // .. 8+13
const C_EXCL_KIND: usize = 24; // wx=166, wx=0, wx<7&scx

fn run_case(w: &mut Worker, c: &Case, stage_no: u64, stage: &str, index: u64, ctx: &mut crate::util::pool::Ctx) {
  if c.void {
    ctx.count(C_VOID, 1);
    return;
  }
  if let Some(why) = c.excluded {
    ctx.count(C_EXCL, 1);
    ctx.count(C_EXCL_KIND + match why { "wx=166" => 0, "wx=0" => 1, _ => 2 }, 1);
    return;
  }
  ctx.count(C_CASES, 1);
  let f = r7::render(&w.imgs[c.img], &c.oam, &c.regs, Variant::Reference, &mut w.exp);
  for b in 0..feat::BITS as usize {
    if f & (1 << b) != 0 {
      ctx.count(C_FEAT0 + b, 1);
    }
  }
  ctx.sample(|| case_json(c, stage, index, 1).set("reference_features", J::s(feature_names(f))));
  let mut v = match &c.pre {
    Some(p) => {
      let mut v = program(p);
      apply_delta(&mut v, p, &c.regs);
      v
    },
    None => program(&c.regs),
  };
  let mut any_mismatch = false;
  let mut first_frame_mismatch = false;
  let mut first_suffix = "";
  for frame in 1..=c.frames {
    let (img, regs, oam) = match (&c.then, frame % 2) {
      (Some(t), 0) => (t.0, &t.1, &t.2),
      _ => (c.img, &c.regs, &c.oam),
    };
    w.oam.copy_from_slice(oam);
    let vram = &w.imgs[img];
    if frame > 1 && c.then.is_some() {
      // the previous VBlank flag has just been returned: still inside VBlank
      if c.delta {
        let prev = match (&c.then, frame % 2) {
          (Some(_), 0) => &c.regs,
          (Some(t), _) => &t.1,
          _ => &c.regs,
        };
        apply_delta(&mut v, prev, regs);
      } else {
        apply(&mut v, regs);
      }
      r7::render(vram, oam, regs, Variant::Reference, &mut w.exp);
    }
    if !drive_to_vblank(&mut v, vram, &w.oam, c.batch) {
      ctx.violation("C15 cause=no-vblank-flag", || {
        J::obj().set("case", case_json(c, stage, index, frame)).set("expected", J::s("VBlank flag (bit 0) returned within three frame times after a visible line was seen")).set("observed", J::s("no flag"))
      });
      any_mismatch = true;
      break;
    }
    ctx.count(C_FRAMES, 1);
    let got: &[u8] = &v.get_visible_buffer()[..];
    if got.len() != W * H {
      ctx.violation("C15 cause=buffer-size", || J::obj().set("case", case_json(c, stage, index, frame)).set("expected", J::u((W * H) as u64)).set("observed", J::u(got.len() as u64)));
      any_mismatch = true;
      break;
    }
    if let Some(d) = compare(&w.exp, got) {
      any_mismatch = true;
      ctx.count(C_MISMATCH, 1);
      // label: try the diagnostic hypotheses, else layer + parameter class
      let tall_objs = regs.lcdc & 0x06 == 0x06;
      let mut key = None;
      let odd_tile = (0..40).any(|i| oam[4 * i + 2] & 1 != 0);
      if tall_objs && odd_tile {
        // hypothesis frame: identical to the reference on lines without objects
        w.alt.copy_from_slice(&w.exp);
        for y in 0..H {
          let (sel, n, _) = r7::line_objects(oam, regs.lcdc, y);
          if n > 0 {
            for x in 0..W {
              w.alt[y * W + x] = r7::pixel_with(vram, oam, regs, x, y, &sel[..n], Variant::TallTileBit0Kept).shade;
            }
          }
        }
        if w.alt[..] == *got {
          key = Some("C15 scene=obj-8x16 cause=tile-index-bit0-not-ignored".to_string());
        }
      }
      let (sel, n, _) = r7::line_objects(oam, regs.lcdc, d.y);
      let p = r7::pixel_with(vram, oam, regs, d.x, d.y, &sel[..n], Variant::Reference);
      let layer = if p.obj_shown {
        "obj"
      } else if p.obj.is_some() {
        "bg-over-obj"
      } else if p.from_window {
        "window"
      } else {
        "bg"
      };
      let mut suffix = first_suffix;
      if frame > 1 && !first_frame_mismatch {
        // the first presented frame was right, a later one is not: a different failure
        suffix = " frame=later-only";
      } else if frame == 1 && c.batch != 456 {
        // does the same scene match when driven one line per batch?
        let mut v2 = program(regs);
        if drive_to_vblank(&mut v2, vram, &w.oam, 456) && v2.get_visible_buffer()[..] == w.exp[..] {
          suffix = " batch-dependent";
        }
      }
      let key = key.unwrap_or_else(|| format!("C15 {} layer={}{}", scene_class(c), layer, suffix));
      if frame == 1 {
        first_frame_mismatch = true;
        first_suffix = suffix;
      }
      ctx.violation(&key, || {
        let x0 = d.x.saturating_sub(2);
        let x1 = (d.x + 10).min(W);
        let row = |b: &[u8]| J::Arr(b[d.y * W + x0..d.y * W + x1].iter().map(|s| J::u(*s as u64)).collect());
        J::obj()
          .set("case", case_json(c, stage, index, frame))
          .set("first_differing_pixel", J::obj().set("x", J::u(d.x as u64)).set("y", J::u(d.y as u64)))
          .set("expected", J::obj().set("shade", J::u(d.expected as u64)).set("layer", J::s(layer)).set("bg_colour_index", J::u(p.bg_ci as u64)).set("winning_object_slot", match p.obj { Some(i) => J::u(i as u64), None => J::Null }))
          .set("observed", J::obj().set("shade", J::u(d.observed as u64)))
          .set("differing_pixels", J::u(d.count as u64))
          .set("differing_lines", J::u(d.lines as u64))
          .set("row_excerpt", J::obj().set("from_x", J::u(x0 as u64)).set("expected", row(&w.exp)).set("observed", row(got)))
          .set("reference_features", J::s(feature_names(f)))
          .set("family", J::s(c.fam.name()))
          .set("parameter_class", J::s(c.pclass.as_str()))
      });
    }
  }
  ctx.class((stage_no << 14) | ((f as u64) << 1) | any_mismatch as u64);
}

pub fn run(tier: &str) -> i32 {
  let mut rep = Report::new("C15", tier, "exploration");
  let thorough = rep.thorough();
  rep.assume("R7 (refm/r7.rs) is the reference composition: per-pixel function of VRAM, OAM, LCDC, SCX, SCY, WX, WY, BGP, OBP0, OBP1 written from Pan Docs (DESIGN appendix B); LCDC bits 7 and 0 are set in every case; registers, VRAM and OAM are constant from power-on to the compared VBlank (stage 'steady' with alternate scenes: changed only right after a VBlank flag was returned, i.e. inside VBlank, and constant over the whole next frame)");
  rep.assume("contents are structured, not arbitrary: 3 VRAM images (3072 distinct 16-bit tile rows each, the two maps differ at every index) and generated OAM layouts; parameters are enumerated factor-complete as listed per stage");
  rep.assume("not judged (Pan Docs hardware glitches), cases skipped when the window is enabled: WX=166; WX=0; WX in 1..6 combined with SCX&7 != 0.  WX in 1..6 with SCX&7 == 0 is judged with X = x+7-WX");
  rep.assume("window line = y - WY (registers constant over the frame, so the hardware window line counter coincides)");
  rep.assume("the frame compared is the one presented with the first VBlank flag returned after a visible line was observed; no assumption on the number of clocks per frame; batches are multiples of 4 clocks");

  let imgs: Vec<Box<[u8]>> = (0..4).map(make_vram).collect();
  if let Err(e) = verify_images(&imgs) {
    rep.machinery_error(format!("VRAM image structure: {}", e));
  }
  // the reference's two entry points must agree (pixel() is the definition)
  {
    let c = build(Fam::Lcdc, &[0, 1, 0x3F]);
    let mut out = vec![0u8; W * H];
    r7::render(&imgs[0], &c.oam, &c.regs, Variant::Reference, &mut out);
    for y in 0..H {
      for x in 0..W {
        if r7::pixel(&imgs[0], &c.oam, &c.regs, x, y) != out[y * W + x] {
          rep.machinery_error(format!("R7 render/pixel disagree at {},{}", x, y));
          return rep.finish();
        }
      }
    }
  }

  let mut totals = [0u64; crate::util::pool::NCOUNTERS];
  let mut fold = |rep: &mut Report, name: &str, space: &str, r: crate::util::pool::PoolResult| {
    let c = rep.add_stage(name, space, r);
    for i in 0..c.len() {
      totals[i] += c[i];
    }
  };

  // stage 0: minimal witnesses
  let canon = canonical();
  {
    let opts = PoolOpts { chunk: 1, bitmap_bits: 1 << 19, samples_per_child: 0, ..PoolOpts::default() };
    let r = run_pool(
      canon.len() as u64,
      &opts,
      |_| make_worker(),
      |w, i, ctx| run_case(w, &canon[i as usize], 0, "canonical", i, ctx),
      |i, how| {
        let c = &canon[i as usize];
        (format!("C15 {} crash={}", scene_class(c), how), J::obj().set("case", case_json(c, "canonical", i, 1)))
      },
    );
    fold(&mut rep, "canonical", "13 minimal scenes (plain image: blank background; single objects 8x8/8x16 even/odd tile, flips, BG priority; BG maps; window; two objects; eleven objects)", r);
  }

  // (measured on 16 idle cores: quick 2 s, thorough 50 s; the cap only bounds a heavily loaded machine)
  let deadline = std::time::Duration::from_secs(if thorough { 900 } else { 240 });
  let t0 = std::time::Instant::now();
  for (k, s) in stages(thorough).into_iter().enumerate() {
    let n = s.n();
    let stage_no = 1 + k as u64;
    let left = deadline.checked_sub(t0.elapsed()).unwrap_or(std::time::Duration::from_millis(1));
    let opts = PoolOpts { chunk: 64, bitmap_bits: 1 << 19, deadline: Some(left), ..PoolOpts::default() };
    let r = run_pool(
      n,
      &opts,
      |_| make_worker(),
      |w, i, ctx| {
        let c = s.case(i);
        run_case(w, &c, stage_no, s.name, i, ctx)
      },
      |i, how| {
        let c = s.case(i);
        (format!("C15 {} crash={}", scene_class(&c), how), J::obj().set("case", case_json(&c, s.name, i, 1)))
      },
    );
    fold(&mut rep, s.name, &s.space(), r);
  }

  // ---- in the machine: the same comparison with the scene where a guest puts it.  VRAM and OAM
  // are written through the bus (before the display is switched on), the registers through the
  // bus, time is delivered by MemoryAreas::run_clock_cycles, the end of the frame is read from
  // IF bit 0 through the bus, and the presented frame is the one the real Core's LCD holds.
  {
    let mut cases: Vec<Case> = canon.clone();
    let lc = stages(false).into_iter().find(|s| s.name == "lcdc").expect("lcdc family");
    for i in (0..lc.n()).step_by(7) {
      cases.push(lc.case(i));
    }
    let opts = PoolOpts { chunk: 4, bitmap_bits: 1 << 19, samples_per_child: 1, ..PoolOpts::default() };
    let r = run_pool(
      cases.len() as u64,
      &opts,
      |_| {
        let mut rom = vec![0u8; 0x8000];
        rom[0x100..0x150].copy_from_slice(&crate::world::header_bytes(0x00, 0x00, 0x00)[0x100..0x150]);
        (make_worker(), crate::world::flat_core(rom))
      },
      |wc, i, ctx| {
        let (w, core) = (&mut wc.0, &mut wc.1);
        let c = &cases[i as usize];
        if c.void || c.excluded.is_some() {
          return;
        }
        ctx.count(C_CASES, 1);
        r7::render(&w.imgs[c.img], &c.oam, &c.regs, Variant::Reference, &mut w.exp);
        core.memory.io = crate::devices::io::IO::new();
        core.memory.oam_dma = None;
        let m = &mut core.memory as *mut crate::mem::MemoryAreas;
        let wr = |a: u16, v: u8| crate::mem::memory_write_byte(m, a, v);
        wr(0xFF40, 0x00);
        for (k, b) in w.imgs[c.img].iter().enumerate().take(0x2000) {
          wr(0x8000 + k as u16, *b);
        }
        for (k, b) in c.oam.iter().enumerate() {
          wr(0xFE00 + k as u16, *b);
        }
        wr(0xFF42, c.regs.scy);
        wr(0xFF43, c.regs.scx);
        wr(0xFF4A, c.regs.wy);
        wr(0xFF4B, c.regs.wx);
        wr(0xFF47, c.regs.bgp);
        wr(0xFF48, c.regs.obp0);
        wr(0xFF49, c.regs.obp1);
        wr(0xFF41, 0x00);
        wr(0xFFFF, 0x00);
        wr(0xFF40, c.regs.lcdc);
        wr(0xFF0F, 0x00);
        // run until VBlank is requested after a visible line was seen, twice (the second
        // presented frame is drawn entirely with the scene in place)
        let mut presented = 0;
        let mut seen_visible = false;
        let mut clocks = 0usize;
        while presented < 2 && clocks < 5 * 70224 {
          core.memory.run_clock_cycles(ClockCycles(c.batch.max(4)));
          clocks += c.batch.max(4);
          let ly = crate::mem::memory_read_byte(m as *const crate::mem::MemoryAreas, 0xFF44);
          if ly < 144 {
            seen_visible = true;
          }
          if crate::mem::memory_read_byte(m as *const crate::mem::MemoryAreas, 0xFF0F) & 1 != 0 {
            wr(0xFF0F, 0x00);
            if seen_visible {
              presented += 1;
              seen_visible = false;
            }
          }
        }
        ctx.count(C_FRAMES, 1);
        ctx.sample(|| case_json(c, "in-the-machine", i, 2));
        if presented < 2 {
          ctx.violation("C15 via=machine cause=no-vblank-request", || J::obj().set("case", case_json(c, "in-the-machine", i, 2)).set("expected", J::s("IF bit 0 set twice within five frame times")).set("observed", J::u(presented as u64)));
          return;
        }
        let got: &[u8] = &core.memory.io.video.get_visible_buffer()[..];
        ctx.class((15u64 << 40) | (scene_class(c).len() as u64) << 8 | (got == &w.exp[..]) as u64);
        if let Some(d) = compare(&w.exp, got) {
          ctx.count(C_MISMATCH, 1);
          ctx.violation(&format!("C15 via=machine {}", scene_class(c)), || {
            J::obj()
              .set("case", case_json(c, "in-the-machine", i, 2).set("how", J::s("VRAM, OAM and registers written through the bus with the display off, display switched on, time delivered by MemoryAreas::run_clock_cycles, frame end read from IF, frame taken from the Core's LCD")))
              .set("first_difference", J::obj().set("x", J::u(d.x as u64)).set("y", J::u(d.y as u64)).set("expected", J::u(d.expected as u64)).set("observed", J::u(d.observed as u64)))
              .set("pixels_differing", J::u(d.count as u64))
          });
        }
      },
      |i, how| (format!("C15 via=machine crash={}", how), J::obj().set("case", J::u(i))),
    );
    fold(&mut rep, "in-the-machine", "the 13 minimal scenes and every 7th scene of the LCDC family, loaded into a real Core through the bus (VRAM, OAM, registers), time delivered by MemoryAreas::run_clock_cycles, frame end read from IF bit 0, second presented frame compared with R7", r);
  }

  // evidence
  rep.evaluations = totals[C_FRAMES];
  // classes carry the stage number, so the per-stage distinct counts summed by add_stage
  // are exactly the number of distinct (stage, feature set, verdict) classes
  rep.cov("frames_compared", J::u(totals[C_FRAMES]));
  rep.cov("cases_executed", J::u(totals[C_CASES]));
  rep.cov("frames_mismatching", J::u(totals[C_MISMATCH]));
  rep.cov("cases_excluded_as_hardware_glitch", J::obj().set("total", J::u(totals[C_EXCL])).set("wx=166", J::u(totals[C_EXCL_KIND])).set("wx=0", J::u(totals[C_EXCL_KIND + 1])).set("wx<7 with scx&7!=0", J::u(totals[C_EXCL_KIND + 2])));
  let mut fj = J::obj();
  const NAMES: [&str; 13] = [
    "object_pixel_shown_over_bg_colour_nonzero",
    "object_pixel_hidden_by_bg_over_obj",
    "window_visible",
    "two_objects_nonzero_on_one_pixel",
    "more_than_ten_candidates_on_a_line",
    "object_partly_off_screen_shown",
    "bg_scroll_wrapped",
    "signed_addressing_low_tile",
    "flip_x_shown",
    "flip_y_shown",
    "8x16_bottom_half_shown",
    "object_over_window",
    "obp1_used",
  ];
  for b in 0..13 {
    fj.put(NAMES[b], J::u(totals[C_FEAT0 + b]));
    if totals[C_FEAT0 + b] == 0 && rep.capped.is_empty() {
      rep.machinery_soft(format!("vacuous: no frame with reference feature '{}'", NAMES[b]));
    }
  }
  rep.cov("frames_with_feature", fj);
  rep.cov("rule", J::s("each case runs the real VideoState from power-on to the presented frame and compares all 23040 bytes with R7; an outcome class is (stage, set of 13 reference features present in the frame, match/mismatch); distinct classes are counted per stage and summed"));
  rep.finish()
}
