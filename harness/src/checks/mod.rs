//! One module per property.

pub mod c01;
#[cfg(gb_dynarec_verif)]
pub mod c03;
#[cfg(gb_dynarec_verif)]
pub mod c04;
#[cfg(gb_dynarec_verif)]
pub mod c07;
#[cfg(gb_dynarec_verif)]
pub mod c08;
#[cfg(gb_dynarec_verif)]
pub mod c09;
#[cfg(gb_dynarec_verif)]
pub mod c10;
#[cfg(gb_dynarec_verif)]
pub mod c11;
#[cfg(gb_dynarec_verif)]
pub mod c12;
#[cfg(gb_dynarec_verif)]
pub mod c19;
#[cfg(gb_dynarec_verif)]
pub mod c20;
pub mod cpusweep;
#[cfg(gb_dynarec_verif)]
pub mod c13;
#[cfg(gb_dynarec_verif)]
pub mod c14;
#[cfg(gb_dynarec_verif)]
pub mod c15;
#[cfg(gb_dynarec_verif)]
pub mod c16;
#[cfg(gb_dynarec_verif)]
pub mod c17;
#[cfg(gb_dynarec_verif)]
pub mod c18;

pub fn run(id: &str, tier: &str) -> i32 {
  match id {
    "C01" => c01::run("C01", tier),
    "C02" => c01::run("C02", tier),
    #[cfg(gb_dynarec_verif)]
    "C03" => c03::run(tier),
    #[cfg(gb_dynarec_verif)]
    "C04" => c04::run(tier),
    "C05" => cpusweep::run("C05", tier),
    "C06" => cpusweep::run("C06", tier),
    #[cfg(gb_dynarec_verif)]
    "C07" => c07::run(tier),
    #[cfg(gb_dynarec_verif)]
    "C08" => c08::run(tier),
    #[cfg(gb_dynarec_verif)]
    "C09" => c09::run(tier),
    #[cfg(gb_dynarec_verif)]
    "C10" => c10::run(tier),
    #[cfg(gb_dynarec_verif)]
    "C11" => c11::run(tier),
    #[cfg(gb_dynarec_verif)]
    "C12" => c12::run(tier),
    #[cfg(gb_dynarec_verif)]
    "C13" => c13::run(tier),
    #[cfg(gb_dynarec_verif)]
    "C14" => c14::run(tier),
    #[cfg(gb_dynarec_verif)]
    "C15" => c15::run(tier),
    #[cfg(gb_dynarec_verif)]
    "C16" => c16::run(tier),
    #[cfg(gb_dynarec_verif)]
    "C17" => c17::run(tier),
    #[cfg(gb_dynarec_verif)]
    "C18" => c18::run(tier),
    #[cfg(gb_dynarec_verif)]
    "C19" => c19::run(tier),
    #[cfg(gb_dynarec_verif)]
    "C20" => c20::run(tier),
    _ => {
      eprintln!("unknown property id {}", id);
      2
    },
  }
}

/// Re-execute the single case stored in a replay file, twice, and require identical
/// observations.
pub fn replay(id: &str, path: &str) -> i32 {
  let text = match std::fs::read_to_string(path) {
    Ok(t) => t,
    Err(e) => {
      eprintln!("cannot read {}: {}", path, e);
      return 2;
    },
  };
  let j = match crate::util::json::parse(&text) {
    Ok(j) => j,
    Err(e) => {
      eprintln!("cannot parse {}: {}", path, e);
      return 2;
    },
  };
  let key = j.str_of("key");
  let tier = if j.str_of("tier") == "thorough" { "thorough" } else { "quick" };
  println!("replay of {} key: {}", id, key);
  println!("recorded case: {}", j.get("detail").and_then(|d| d.get("case")).map(|d| d.to_string()).unwrap_or_default());
  // single-case re-execution where the module supports it, twice, identical observations required
  if let Some(code) = cpusweep::replay_case(id, &j) {
    return code;
  }
  // otherwise re-run the deterministic enumeration of the tier that found it and report whether
  // this key reproduces (exit 1) or not (exit 0)
  std::env::set_var("GBMC_REPLAY_KEY", &key);
  run(id, tier)
}

pub fn worker(id: &str, args: &[String]) -> i32 {
  match id {
    "C01" => c01::worker("C01", args),
    "C02" => c01::worker("C02", args),
    "C05" => cpusweep::worker("C05", args),
    "C06" => cpusweep::worker("C06", args),
    #[cfg(gb_dynarec_verif)]
    "C03" => c03::worker(args),
    #[cfg(gb_dynarec_verif)]
    "C04" => c04::worker(args),
    #[cfg(gb_dynarec_verif)]
    "C07" => c07::worker(args),
    #[cfg(gb_dynarec_verif)]
    "C09" => c09::worker(args),
    #[cfg(gb_dynarec_verif)]
    "C18" => c18::worker(args),
    _ => {
      eprintln!("no worker mode for {}", id);
      2
    },
  }
}
