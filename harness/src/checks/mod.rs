//! One module per property.

pub mod c0506;
pub mod c17;

pub fn run(id: &str, tier: &str) -> i32 {
  match id {
    "C05" => c0506::run("C05", tier),
    "C06" => c0506::run("C06", tier),
    "C17" => c17::run(tier),
    _ => {
      eprintln!("unknown property id {}", id);
      2
    },
  }
}

/// Re-execute the single case stored in a replay file, twice, and require identical
/// observations.
pub fn replay(id: &str, path: &str) -> i32 {
  let text = match std::fs::read_to_string(path) {
    Ok(t) => t,
    Err(e) => {
      eprintln!("cannot read {}: {}", path, e);
      return 2;
    },
  };
  let j = match crate::util::json::parse(&text) {
    Ok(j) => j,
    Err(e) => {
      eprintln!("cannot parse {}: {}", path, e);
      return 2;
    },
  };
  println!("replay of {} (key: {})", id, j.str_of("key"));
  println!("{}", j.get("detail").map(|d| d.to_pretty()).unwrap_or_default());
  2
}

pub fn worker(id: &str, _args: &[String]) -> i32 {
  eprintln!("no worker mode for {}", id);
  2
}
