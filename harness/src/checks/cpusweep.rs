//! C05 (interpreter data semantics) and C06 (control flow, length, timing) — E1 sweeps of
//! `interpreter::run_next_op` against R1 on the shared single-step engine — and, with the
//! same sweep generator, C01/C02: the single-instruction block `insn [+ JP nn]` executed by
//! the real emitter and by `interpreter::run_code_block` from every enumerated state.
//!
//! A *sweep* fixes an encoding and an operand class and enumerates that class completely;
//! the pool case index is (sweep, outer value) and the inner loops run inside the case.

use crate::cpustep::{cpu_of, diff, Exp, Obs, StepWorld};
use crate::jitstep::{BlockObs, JitWorld};
use crate::refm::r1::{self, Cpu};
use crate::util::json::J;
use crate::util::pool::{run_pool, Ctx, PoolOpts};
use crate::util::report::Report;
use crate::world::hex;

#[derive(Clone, Copy, Debug, PartialEq)]
enum Kind {
  /// A (outer) x operand x F; operand delivered in register z, memory at HL, or immediate
  AluReg(u8),
  AluHl,
  AluImm,
  AluSelf,
  /// value x F(outer) for INC/DEC r / (HL) and all CB forms
  Val8Reg(u8),
  Val8Hl,
  /// accumulator/flag ops: A(outer) x F
  Acc,
  /// LD r,r' / LD r,n / LD r,(HL) / LD (HL),r / LD (HL),n : value(inner) x F(outer)
  Ld8,
  /// 16-bit immediates / inc / dec: all 2^16 values, outer = high byte
  Imm16,
  IncDec16(u8),
  /// ADD HL,rr boundary product (outer = index into B), or full (outer = HL value)
  AddHlB(u8),
  AddHlFull(u8),
  /// ADD SP,e8 / LD HL,SP+e8: outer = SP high byte, inner SP low x e8
  SpRel,
  /// POP rr: stack word all 2^16 (outer = high byte)
  PopWord(u8),
  /// PUSH rr: pair value all 2^16 (outer = high byte)
  PushWord(u8),
  /// pointer forms: the pointer takes all 65536 values (outer = high byte)
  Ptr(PtrVia),
  // ---- C06
  /// every encoding x 16 F x placements (outer = placement index)
  Place,
  /// JR family: all 256 displacements x placements x F (outer = displacement)
  JrDisp,
  /// JP / CALL family: all 65536 targets (outer = high byte) x F in {0x00, 0xF0}
  Target,
  /// stack/control forms with SP over all 65536 (outer = high byte) x F {0x00,0xF0}
  SpAll,
  /// thorough: the encoding at every executable PC (outer = PC high byte) x F {0x00, 0xF0}
  PcAll,
}

#[derive(Clone, Copy, Debug, PartialEq)]
enum PtrVia {
  Bc,
  De,
  Hl,
  C,
  Imm8,
  Imm16,
  Sp, // LD (a16),SP data = SP
}

#[derive(Clone, Debug)]
struct Sweep {
  kind: Kind,
  code: [u8; 3],
  len: u8,
  outer: u32,
}

pub const BOUNDARY16: [u16; 96] = {
  let mut b = [0u16; 96];
  let seeds: [u16; 24] = [
    0x0000, 0x0100, 0x0FFF, 0x1000, 0x3FFF, 0x4000, 0x7FFF, 0x8000, 0x9FFF, 0xA000, 0xBFFF, 0xC000, 0xCFFF, 0xD000, 0xDFFF, 0xE000, 0xF000, 0xFDFF,
    0xFE9F, 0xFF00, 0xFF0F, 0xFF80, 0xFFF0, 0xFFFF,
  ];
  let mut i = 0;
  while i < 24 {
    b[i * 4] = seeds[i].wrapping_sub(1);
    b[i * 4 + 1] = seeds[i];
    b[i * 4 + 2] = seeds[i].wrapping_add(1);
    b[i * 4 + 3] = seeds[i] ^ 0x0808;
    i += 1;
  }
  b
};

/// PC placements for C06: (pc, region name)
const PLACES: [(u16, &str); 12] = [
  (0x0000, "rom0"),
  (0x00FE, "rom0"),
  (0x3FFD, "rom0-end"),
  (0x4000, "romN"),
  (0x7FFD, "romN-end"),
  (0xC000, "wram0"),
  (0xCFFD, "wram0-end"),
  (0xD000, "wramN"),
  (0xDFFD, "wramN-end"),
  (0xFF80, "hram"),
  (0xFFFC, "hram-end"),
  (0x0150, "rom0"),
];
/// placements where a multi-byte instruction straddles a region end
const STRADDLE: [(u16, &str); 3] = [(0x3FFF, "rom0|romN"), (0xCFFF, "wram0|wramN"), (0xFFFE, "hram|ie")];

fn enc(op: u8) -> ([u8; 3], u8) {
  let len = r1::info(op).map(|i| i.0).unwrap_or(1);
  ([op, 0x5A, 0xC3], len)
}

/// ROM-only placements for the block modes (translated code exists for ROM only)
const PLACES_JIT: [(u16, &str); 12] = [
  (0x0000, "rom0"),
  (0x0001, "rom0"),
  (0x00FF, "rom0"),
  (0x0150, "rom0"),
  (0x3FF0, "rom0-end"),
  (0x3FFA, "rom0->romN"),
  (0x3FFD, "rom0->romN"),
  (0x3FFE, "rom0|romN"),
  (0x3FFF, "rom0|romN"),
  (0x4000, "romN"),
  (0x4001, "romN"),
  (0x7FF8, "romN-end"),
];

fn build_sweeps(prop: &str, thorough: bool) -> Vec<Sweep> {
  let jit = prop == "C01" || prop == "C02";
  let mut v = Vec::new();
  let n_places = if jit { PLACES_JIT.len() } else { PLACES.len() + STRADDLE.len() } as u32;
  let mut add = |kind: Kind, code: [u8; 3], len: u8, outer: u32| v.push(Sweep { kind, code, len, outer });
  if prop == "C05" || jit {
    // x=2 ALU A,r and x=3,z=6 ALU A,d8
    for y in 0..8u8 {
      for z in 0..8u8 {
        let op = 0x80 | (y << 3) | z;
        match z {
          6 => add(Kind::AluHl, [op, 0, 0], 1, 256),
          7 => add(Kind::AluSelf, [op, 0, 0], 1, 256),
          _ => add(Kind::AluReg(z), [op, 0, 0], 1, 256),
        }
      }
      add(Kind::AluImm, [0xC6 | (y << 3), 0, 0], 2, 256);
    }
    // INC/DEC r
    for y in 0..8u8 {
      for z in 4..6u8 {
        let op = (y << 3) | z;
        if y == 6 { add(Kind::Val8Hl, [op, 0, 0], 1, 16) } else { add(Kind::Val8Reg(y), [op, 0, 0], 1, 16) }
      }
    }
    // CB xx
    for cb in 0..=255u8 {
      let z = cb & 7;
      if z == 6 { add(Kind::Val8Hl, [0xCB, cb, 0], 2, 16) } else { add(Kind::Val8Reg(z), [0xCB, cb, 0], 2, 16) }
    }
    // RLCA RRCA RLA RRA DAA CPL SCF CCF
    for y in 0..8u8 {
      add(Kind::Acc, [(y << 3) | 7, 0, 0], 1, 256);
    }
    // LD r,r' ; LD r,d8
    for op in 0x40..=0x7Fu8 {
      if op != 0x76 {
        add(Kind::Ld8, [op, 0, 0], 1, 16);
      }
    }
    for y in 0..8u8 {
      add(Kind::Ld8, [(y << 3) | 6, 0, 0], 2, 256); // outer = the immediate
    }
    // LD rr,d16 ; INC/DEC rr ; ADD HL,rr
    for p in 0..4u8 {
      add(Kind::Imm16, [(p << 4) | 1, 0, 0], 3, 256);
      add(Kind::IncDec16(p), [(p << 4) | 3, 0, 0], 1, 256);
      add(Kind::IncDec16(p), [(p << 4) | 0xB, 0, 0], 1, 256);
      if thorough && p != 2 {
        add(Kind::AddHlFull(p), [(p << 4) | 9, 0, 0], 1, 65536);
      } else if p == 2 {
        add(Kind::AddHlFull(p), [(p << 4) | 9, 0, 0], 1, 256);
      } else {
        add(Kind::AddHlB(p), [(p << 4) | 9, 0, 0], 1, 96);
      }
    }
    add(Kind::SpRel, [0xE8, 0, 0], 2, 256);
    add(Kind::SpRel, [0xF8, 0, 0], 2, 256);
    for p in 0..4u8 {
      add(Kind::PopWord(p), [0xC1 | (p << 4), 0, 0], 1, 256);
      add(Kind::PushWord(p), [0xC5 | (p << 4), 0, 0], 1, 256);
    }
    // pointer forms, all 65536 pointer values
    add(Kind::Ptr(PtrVia::Bc), [0x02, 0, 0], 1, 256);
    add(Kind::Ptr(PtrVia::Bc), [0x0A, 0, 0], 1, 256);
    add(Kind::Ptr(PtrVia::De), [0x12, 0, 0], 1, 256);
    add(Kind::Ptr(PtrVia::De), [0x1A, 0, 0], 1, 256);
    for op in [0x22u8, 0x2A, 0x32, 0x3A, 0x36, 0x34, 0x35, 0x46, 0x70, 0x77, 0x7E, 0x86, 0xBE].iter() {
      add(Kind::Ptr(PtrVia::Hl), [*op, 0x99, 0], r1::info(*op).unwrap().0, 256);
    }
    for cb in [0x06u8, 0x46, 0x7E, 0x86, 0xC6, 0x36].iter() {
      add(Kind::Ptr(PtrVia::Hl), [0xCB, *cb, 0], 2, 256);
    }
    add(Kind::Ptr(PtrVia::C), [0xE2, 0, 0], 1, 1);
    add(Kind::Ptr(PtrVia::C), [0xF2, 0, 0], 1, 1);
    add(Kind::Ptr(PtrVia::Imm8), [0xE0, 0, 0], 2, 1);
    add(Kind::Ptr(PtrVia::Imm8), [0xF0, 0, 0], 2, 1);
    add(Kind::Ptr(PtrVia::Imm16), [0xEA, 0, 0], 3, 256);
    add(Kind::Ptr(PtrVia::Imm16), [0xFA, 0, 0], 3, 256);
    add(Kind::Ptr(PtrVia::Sp), [0x08, 0, 0], 3, 256);
    add(Kind::Imm16, [0xF9, 0, 0], 1, 256); // LD SP,HL over all HL
  }
  if prop == "C06" || jit {
    // every encoding (incl. undefined) x F x placement
    for op in 0..=255u8 {
      if op == 0xCB {
        for cb in 0..=255u8 {
          add(Kind::Place, [0xCB, cb, 0], 2, n_places);
        }
      } else {
        let (c, l) = enc(op);
        add(Kind::Place, c, l, n_places);
      }
    }
    if thorough && !jit {
      for op in 0..=255u8 {
        if op == 0xCB {
          for cb in 0..=255u8 {
            add(Kind::PcAll, [0xCB, cb, 0], 2, 256);
          }
        } else {
          let (c, l) = enc(op);
          add(Kind::PcAll, c, l, 256);
        }
      }
    }
    for op in [0x18u8, 0x20, 0x28, 0x30, 0x38].iter() {
      add(Kind::JrDisp, [*op, 0, 0], 2, 256);
    }
    for op in [0xC3u8, 0xC2, 0xCA, 0xD2, 0xDA, 0xCD, 0xC4, 0xCC, 0xD4, 0xDC].iter() {
      add(Kind::Target, [*op, 0, 0], 3, 256);
    }
    let mut stack_ops: Vec<u8> = vec![0xC5, 0xD5, 0xE5, 0xF5, 0xC1, 0xD1, 0xE1, 0xF1, 0xCD, 0xC4, 0xCC, 0xD4, 0xDC, 0xC9, 0xC0, 0xC8, 0xD0, 0xD8, 0xD9];
    for y in 0..8u8 {
      stack_ops.push(0xC7 | (y << 3));
    }
    for op in stack_ops {
      let (c, l) = enc(op);
      add(Kind::SpAll, c, l, if thorough { 256 } else { 1 });
    }
  }
  if jit && !thorough {
    // sweeps whose 16-bit value is part of the code cost one translation per value: the
    // quick tier of the recompiler checks takes the 96-value boundary set there
    for s in v.iter_mut() {
      let code_varies = match s.kind {
        Kind::Imm16 => s.len == 3,
        Kind::Ptr(PtrVia::Imm16) | Kind::Ptr(PtrVia::Sp) | Kind::Target => true,
        _ => false,
      };
      if code_varies {
        s.outer = 1;
      }
    }
  }
  v
}

struct Job {
  prop: &'static str,
  /// true: recompiler vs interpreter on blocks (C01/C02); false: interpreter vs R1 (C05/C06)
  jit: bool,
  sweeps: Vec<Sweep>,
  starts: Vec<u64>,
  total: u64,
  thorough: bool,
}

impl Job {
  fn locate(&self, case: u64) -> (usize, u32) {
    let i = match self.starts.binary_search(&case) {
      Ok(i) => i,
      Err(i) => i - 1,
    };
    (i, (case - self.starts[i]) as u32)
  }
}

fn judged(prop: &str, field: &str, op: u8) -> bool {
  // stack/control instructions: their SP and writes belong to C06
  let stackish = matches!(op, 0xC0..=0xFF) && {
    let z = op & 7;
    let y = (op >> 3) & 7;
    (z == 0 && y < 4) || (z == 1 && (op & 0x0F == 1 || op == 0xC9 || op == 0xD9)) || z == 4 || z == 5 || z == 7
  };
  if prop == "C05" {
    match field {
      "a" | "f" | "bc" | "de" | "hl" | "pair-range" => true,
      "sp" | "writes" => !stackish || matches!(op, 0xC5 | 0xD5 | 0xE5 | 0xF5 | 0xC1 | 0xD1 | 0xE1 | 0xF1),
      _ => false,
    }
  } else {
    match field {
      "pc" | "cycles" | "status" | "block-end" | "undefined-executed" | "refused" => true,
      "sp" | "writes" => stackish,
      _ => false,
    }
  }
}

fn exp_json(e: &Exp) -> J {
  J::obj()
    .set("af", J::s(format!("{:04X}", e.cpu.af())))
    .set("bc", J::s(format!("{:04X}", e.cpu.bc())))
    .set("de", J::s(format!("{:04X}", e.cpu.de())))
    .set("hl", J::s(format!("{:04X}", e.cpu.hl())))
    .set("sp", J::s(format!("{:04X}", e.cpu.sp)))
    .set("pc", J::s(format!("{:04X}", e.cpu.pc)))
    .set("cycles", J::u(e.cycles as u64))
    .set("status", J::u(e.status as u64))
    .set("block_end", J::Bool(e.block_end))
    .set("undefined", J::Bool(e.undefined))
    .set("writes", J::Arr(e.writes.iter().map(|(a, v)| J::s(format!("{:04X}<-{:02X}", a, v))).collect()))
}

fn obs_json(o: &Obs) -> J {
  J::obj()
    .set("af", J::s(format!("{:04X}", o.af)))
    .set("bc", J::s(format!("{:04X}", o.bc)))
    .set("de", J::s(format!("{:04X}", o.de)))
    .set("hl", J::s(format!("{:04X}", o.hl)))
    .set("sp", J::s(format!("{:04X}", o.sp)))
    .set("pc", J::s(format!("{:04X}", o.ip)))
    .set("cycles", J::u(o.cycles as u64))
    .set("status", J::u(o.status as u64))
    .set("block_end", J::Bool(o.block_end))
    .set("refused", J::Bool(o.refused))
    .set("panic", J::s(o.panic_msg.as_str()))
    .set("writes", J::Arr(o.writes.iter().map(|(a, v)| J::s(format!("{:04X}<-{:02X}", a, v))).collect()))
}

fn cpu_json(c: &Cpu) -> J {
  J::obj()
    .set("af", J::s(format!("{:04X}", c.af())))
    .set("bc", J::s(format!("{:04X}", c.bc())))
    .set("de", J::s(format!("{:04X}", c.de())))
    .set("hl", J::s(format!("{:04X}", c.hl())))
    .set("sp", J::s(format!("{:04X}", c.sp)))
    .set("pc", J::s(format!("{:04X}", c.pc)))
    .set("oam_dma_armed_before_the_step", J::Bool(crate::cpustep::dma_armed_for(c)))
}

struct W {
  w: StepWorld,
  jw: Option<JitWorld>,
  planted: Vec<(u16, u8)>,
  /// block modes: the planted bytes are kept across cases of the same sweep so that an
  /// unchanged block is not translated again (translation costs two mprotect calls)
  last_sweep: usize,
}

/// terminator appended to non-terminating instructions in the block modes: JP 0x0213
const TERM: [u8; 3] = [0xC3, 0x13, 0x02];

fn is_terminator(code: &[u8]) -> bool {
  if code[0] == 0xCB {
    return false;
  }
  match r1::info(code[0]) {
    Some(i) => i.3,
    None => true, // undefined: both engines must refuse, nothing follows
  }
}

impl W {
  fn plant(&mut self, pc: u16, code: &[u8]) {
    if let Some(jw) = self.jw.as_mut() {
      // instruction bytes (or a data byte when code.len() == 1 and the address is not ROM)
      jw.plant_bytes(pc, code);
      if !is_terminator(code) {
        jw.plant_bytes(pc.wrapping_add(code.len() as u16), &TERM);
      }
      return;
    }
    self.plant_data(pc, code);
  }
  fn plant_data(&mut self, pc: u16, code: &[u8]) {
    if let Some(jw) = self.jw.as_mut() {
      jw.plant_bytes(pc, code);
      return;
    }
    for (i, b) in code.iter().enumerate() {
      let a = pc.wrapping_add(i as u16);
      if a == 0xFFFF {
        continue;
      }
      let old = self.w.peek(a);
      if old != *b {
        self.planted.push((a, old));
        self.w.poke(a, *b);
      }
    }
  }
  fn unplant(&mut self) {
    if let Some(jw) = self.jw.as_mut() {
      jw.unplant_all();
      return;
    }
    while let Some((a, old)) = self.planted.pop() {
      self.w.poke(a, old);
    }
  }
}

/// one evaluated case; returns nothing, reports through ctx
#[inline]
fn eval(job: &Job, wk: &mut W, ctx: &mut Ctx, sw: &Sweep, c: &Cpu, mem: Option<(u16, u8)>, place: &str) {
  if job.jit {
    return eval_jit(job, wk, ctx, sw, c, mem, place);
  }
  let exp = wk.w.expect(c);
  let obs = wk.w.run_interp(c);
  ctx.count(0, 1);
  let d = diff(&exp, &obs);
  // outcome class: (opcode, cb, flags out, taken, wrote?) — bounded
  let opid = if sw.code[0] == 0xCB { 256 + sw.code[1] as u64 } else { sw.code[0] as u64 };
  let cls = (opid << 7) | ((exp.cpu.f as u64 >> 4) << 3) | ((exp.taken == Some(true)) as u64) << 2 | ((!exp.writes.is_empty()) as u64) << 1 | exp.undefined as u64;
  ctx.class(cls);
  if !d.is_empty() {
    let opname = if sw.code[0] == 0xCB { format!("CB{:02X}", sw.code[1]) } else { format!("{:02X}", sw.code[0]) };
    for f in d.iter() {
      if !judged(job.prop, f, sw.code[0]) {
        continue;
      }
      let mut key = format!("{} op={} field={}", job.prop, opname, f);
      if *f == "refused" {
        // classify: fetch straddling a region end is one root cause for all opcodes
        if place.contains('|') {
          key = format!("{} fetch=straddle {} field=refused", job.prop, place);
        }
      }
      if *f == "pc" && (obs.ip > 0xffff) {
        key = format!("{} op={} field=pc kind=not-reduced-mod-65536", job.prop, opname);
      }
      ctx.violation(&key, || {
        J::obj()
          .set("case", J::obj().set("regs", cpu_json(c)).set("code", J::s(hex(&sw.code[..sw.len as usize]))).set("mem", match mem {
            Some((a, v)) => J::s(format!("{:04X}={:02X}", a, v)),
            None => J::Null,
          }).set("place", J::s(place)))
          .set("expected", exp_json(&exp))
          .set("observed", obs_json(&obs))
          .set("differing_fields", J::Arr(d.iter().map(|x| J::s(*x)).collect()))
      });
    }
  }
  wk.w.undo(&exp, &obs);
}

fn bobs_json(o: &BlockObs) -> J {
  J::obj()
    .set("af", J::s(format!("{:04X}", o.af & 0xffff)))
    .set("bc", J::s(format!("{:04X}", o.bc & 0xffff)))
    .set("de", J::s(format!("{:04X}", o.de & 0xffff)))
    .set("hl", J::s(format!("{:04X}", o.hl & 0xffff)))
    .set("sp", J::s(format!("{:04X}", o.sp & 0xffff)))
    .set("pc", J::s(format!("{:04X}", o.ip & 0xffff)))
    .set("cycles", J::u(o.cycles as u64))
    .set("status", J::u(o.status as u64))
    .set("refused", J::Bool(o.refused))
    .set("panic", J::s(o.panic_msg.as_str()))
    .set("writes", J::Arr(o.writes.iter().map(|(a, v)| J::s(format!("{:04X}<-{:02X}", a, v))).collect()))
    .set("reads", J::Arr(o.reads.iter().take(16).map(|a| J::s(format!("{:04X}", a))).collect()))
    .set("device_digest", J::s(format!("{:016x}", o.io_digest)))
}

/// `Core::run_code_block` maps both STATUS_INTERRUPT_ENABLE (4) and
/// STATUS_INTERRUPT_ENABLE_IMMEDIATE (5) to "enabled": they are one outcome for a block.
pub fn status_class(s: u8) -> u8 {
  // anything outside STATUS_STOP..=STATUS_INTERRUPT_ENABLE_IMMEDIATE falls into run_code_block's
  // `_ => ()` arm exactly like STATUS_NORMAL (translated CB/rotate templates leave 0x80 there)
  match s {
    1 | 2 | 3 => s,
    4 | 5 => 4,
    _ => 0,
  }
}

pub fn block_diff(i: &BlockObs, j: &BlockObs) -> Vec<&'static str> {
  let mut d = Vec::new();
  if i.refused || j.refused {
    if i.refused != j.refused {
      d.push(if j.refused { "jit-refused" } else { "interp-refused" });
    }
    return d;
  }
  if (i.af ^ j.af) & 0xff00 != 0 { d.push("a"); }
  if (i.af ^ j.af) & 0x00ff != 0 { d.push("f"); }
  if (i.bc ^ j.bc) & 0xffff != 0 { d.push("bc"); }
  if (i.de ^ j.de) & 0xffff != 0 { d.push("de"); }
  if (i.hl ^ j.hl) & 0xffff != 0 { d.push("hl"); }
  if (i.sp ^ j.sp) & 0xffff != 0 { d.push("sp"); }
  if (i.ip ^ j.ip) & 0xffff != 0 { d.push("pc"); }
  if status_class(i.status) != status_class(j.status) { d.push("status"); }
  if i.cycles != j.cycles { d.push("cycles"); }
  if i.writes != j.writes {
    let mut a = i.writes.clone();
    let mut b = j.writes.clone();
    a.sort();
    b.sort();
    if a == b {
      d.push("bus-order");
    } else if j.writes.len() > i.writes.len() {
      d.push("bus-extra");
    } else {
      d.push("bus-writes");
    }
  }
  if i.io_digest != j.io_digest { d.push("device-state"); }
  if j.host_clobber != 0 { d.push("host-callee-saved-registers"); }
  d
}

fn eval_jit(job: &Job, wk: &mut W, ctx: &mut Ctx, sw: &Sweep, c: &Cpu, mem: Option<(u16, u8)>, place: &str) {
  let jw = wk.jw.as_mut().unwrap();
  jw.dma_armed = crate::cpustep::dma_armed_for(c);
  let oi = jw.run_interp_block(c);
  jw.restore(&oi);
  let t0 = jw.total_translations;
  let oj = jw.run_jit_block(c, 2);
  jw.restore(&oj);
  ctx.count(0, 1);
  ctx.count(1, jw.total_translations - t0);
  let opid = if sw.code[0] == 0xCB { 256 + sw.code[1] as u64 } else { sw.code[0] as u64 };
  let cls = (opid << 8) | (((oi.af as u64) >> 4) & 0xf) << 4 | ((!oi.writes.is_empty()) as u64) << 3 | (oi.refused as u64) << 2 | ((oi.cycles as u64) & 3);
  ctx.class(cls);
  let d = block_diff(&oi, &oj);
  if d.is_empty() {
    return;
  }
  let opname = if sw.code[0] == 0xCB { format!("CB{:02X}", sw.code[1]) } else { format!("{:02X}", sw.code[0]) };
  for f in d.iter() {
    let is_cycles = *f == "cycles";
    if (job.prop == "C02") != is_cycles {
      continue;
    }
    let key = if is_cycles {
      // the constant depends on opcode and branch outcome only
      format!("C02 op={} jit={} interp={}", opname, oj.cycles, oi.cycles)
    } else {
      format!("C01 op={} field={}", opname, f)
    };
    ctx.violation(&key, || {
      J::obj()
        .set("case", J::obj().set("regs", cpu_json(c)).set("block", J::s(format!("{} + JP if not a terminator", hex(&sw.code[..sw.len as usize])))).set("mem", match mem {
          Some((a, v)) => J::s(format!("{:04X}={:02X}", a, v)),
          None => J::Null,
        }).set("place", J::s(place)))
        .set("interpreter", bobs_json(&oi))
        .set("translated", bobs_json(&oj))
        .set("differing_fields", J::Arr(d.iter().map(|x| J::s(*x)).collect()))
    });
  }
}

const SENT: [(u8, u8, u8, u8, u8, u8); 2] = [(0x12, 0x34, 0x56, 0x78, 0xC2, 0xF0), (0xED, 0xCB, 0xA9, 0x87, 0xC3, 0x0F)];
const PC0: u16 = 0x0150;

fn set_r(c: &mut Cpu, i: u8, v: u8) {
  match i {
    0 => c.b = v,
    1 => c.c = v,
    2 => c.d = v,
    3 => c.e = v,
    4 => c.h = v,
    5 => c.l = v,
    7 => c.a = v,
    _ => {},
  }
}

fn base_cpu(s: usize, pc: u16) -> Cpu {
  let t = SENT[s & 1];
  cpu_of(0x9C, 0, t.0, t.1, t.2, t.3, t.4, t.5, 0xDFF0, pc)
}

/// 16-bit values of one case: the 256 values sharing the high byte `outer`, or — for the
/// code-varying sweeps of the recompiler modes in the quick tier, where every value costs a
/// translation — the 96-value boundary set (the sweep then has a single case).
fn vals16(job: &Job, sw: &Sweep, outer: u32) -> Vec<u16> {
  if sw.outer == 1 {
    BOUNDARY16.to_vec()
  } else {
    (0..=255u16).map(|lo| ((outer as u16) << 8) | lo).collect()
  }
}

fn run_case(job: &Job, wk: &mut W, case: u64, ctx: &mut Ctx) {
  let (si, outer) = job.locate(case);
  let sw = job.sweeps[si].clone();
  let code = &sw.code[..sw.len as usize];
  if job.jit && wk.last_sweep != si {
    wk.unplant();
    wk.last_sweep = si;
  }
  if outer == 0 {
    ctx.sample(|| J::obj().set("sweep", J::s(format!("{:?}", sw.kind))).set("code", J::s(hex(code))).set("outer_values", J::u(sw.outer as u64)));
  }
  match sw.kind {
    Kind::AluReg(z) => {
      wk.plant(PC0, code);
      for s in 0..2 {
        for v in 0..=255u8 {
          for f in 0..16u8 {
            let mut c = base_cpu(s, PC0);
            c.a = outer as u8;
            c.f = f << 4;
            set_r(&mut c, z, v);
            eval(job, wk, ctx, &sw, &c, None, "rom0");
          }
        }
      }
    },
    Kind::AluSelf => {
      wk.plant(PC0, code);
      for s in 0..2 {
        for f in 0..16u8 {
          let mut c = base_cpu(s, PC0);
          c.a = outer as u8;
          c.f = f << 4;
          eval(job, wk, ctx, &sw, &c, None, "rom0");
        }
      }
    },
    Kind::AluHl => {
      wk.plant(PC0, code);
      for v in 0..=255u8 {
        for f in 0..16u8 {
          let mut c = base_cpu(0, PC0);
          c.a = outer as u8;
          c.f = f << 4;
          let hl = c.hl();
          wk.plant_data(hl, &[v]);
          eval(job, wk, ctx, &sw, &c, Some((hl, v)), "rom0");
        }
      }
    },
    Kind::AluImm => {
      // outer = the immediate (one translation per case in the recompiler modes)
      let v = outer as u8;
      let mut s2 = sw.clone();
      s2.code[1] = v;
      wk.plant(PC0, &s2.code[..2]);
      for a in 0..=255u8 {
        for f in 0..16u8 {
          let mut c = base_cpu((a & 1) as usize, PC0);
          c.a = a;
          c.f = f << 4;
          eval(job, wk, ctx, &s2, &c, None, "rom0");
        }
      }
    },
    Kind::Val8Reg(r) => {
      wk.plant(PC0, code);
      for s in 0..2 {
        for v in 0..=255u8 {
          let mut c = base_cpu(s, PC0);
          c.f = (outer as u8) << 4;
          set_r(&mut c, r, v);
          eval(job, wk, ctx, &sw, &c, None, "rom0");
        }
      }
    },
    Kind::Val8Hl => {
      wk.plant(PC0, code);
      for v in 0..=255u8 {
        let mut c = base_cpu(0, PC0);
        c.f = (outer as u8) << 4;
        let hl = c.hl();
        wk.plant_data(hl, &[v]);
        eval(job, wk, ctx, &sw, &c, Some((hl, v)), "rom0");
      }
    },
    Kind::Acc => {
      wk.plant(PC0, code);
      for s in 0..2 {
        for f in 0..16u8 {
          let mut c = base_cpu(s, PC0);
          c.a = outer as u8;
          c.f = f << 4;
          eval(job, wk, ctx, &sw, &c, None, "rom0");
        }
      }
    },
    Kind::Ld8 => {
      let op = sw.code[0];
      if sw.len == 2 {
        let v = outer as u8;
        let mut s2 = sw.clone();
        s2.code[1] = v;
        wk.plant(PC0, &s2.code[..2]);
        for f in 0..16u8 {
          let mut c = base_cpu((v & 1) as usize, PC0);
          c.f = f << 4;
          eval(job, wk, ctx, &s2, &c, None, "rom0");
        }
      } else {
        wk.plant(PC0, code);
        for v in 0..=255u8 {
          let mut c = base_cpu((v & 1) as usize, PC0);
          c.f = (outer as u8) << 4;
          let z = op & 7;
          if z == 6 {
            let hl = c.hl();
            wk.plant_data(hl, &[v]);
            eval(job, wk, ctx, &sw, &c, Some((hl, v)), "rom0");
          } else {
            set_r(&mut c, z, v);
            eval(job, wk, ctx, &sw, &c, None, "rom0");
          }
        }
      }
    },
    Kind::Imm16 => {
      for v in vals16(job, &sw, outer) {
        let lo = v as u8;
        for f in [0x00u8, 0xF0].iter() {
          let mut c = base_cpu((lo & 1) as usize, PC0);
          c.f = *f;
          let mut s2 = sw.clone();
          if sw.len == 3 {
            s2.code[1] = lo;
            s2.code[2] = (v >> 8) as u8;
            wk.plant(PC0, &s2.code[..3]);
          } else {
            c.set_hl(v);
            wk.plant(PC0, code);
          }
          eval(job, wk, ctx, &s2, &c, None, "rom0");
        }
      }
    },
    Kind::IncDec16(p) => {
      wk.plant(PC0, code);
      for lo in 0..=255u8 {
        let v = ((outer as u16) << 8) | lo as u16;
        for f in [0x00u8, 0xF0].iter() {
          let mut c = base_cpu((lo & 1) as usize, PC0);
          c.f = *f;
          match p {
            0 => c.set_bc(v),
            1 => c.set_de(v),
            2 => c.set_hl(v),
            _ => c.sp = v,
          }
          eval(job, wk, ctx, &sw, &c, None, "rom0");
        }
      }
    },
    Kind::AddHlB(p) => {
      wk.plant(PC0, code);
      let hl = BOUNDARY16[outer as usize];
      for rr in BOUNDARY16.iter() {
        for f in 0..16u8 {
          let mut c = base_cpu(0, PC0);
          c.f = f << 4;
          c.set_hl(hl);
          match p {
            0 => c.set_bc(*rr),
            1 => c.set_de(*rr),
            _ => c.sp = *rr,
          }
          eval(job, wk, ctx, &sw, &c, None, "rom0");
        }
      }
    },
    Kind::AddHlFull(p) => {
      wk.plant(PC0, code);
      if p == 2 {
        for lo in 0..=255u8 {
          for f in 0..16u8 {
            let mut c = base_cpu(0, PC0);
            c.f = f << 4;
            c.set_hl(((outer as u16) << 8) | lo as u16);
            eval(job, wk, ctx, &sw, &c, None, "rom0");
          }
        }
      } else {
        let hl = outer as u16;
        for rr in 0..=65535u16 {
          let mut c = base_cpu(0, PC0);
          c.f = (((hl ^ rr) as u8) & 0x0F) << 4;
          c.set_hl(hl);
          match p {
            0 => c.set_bc(rr),
            1 => c.set_de(rr),
            _ => c.sp = rr,
          }
          eval(job, wk, ctx, &sw, &c, None, "rom0");
        }
      }
    },
    Kind::SpRel => {
      // outer = e8, inner = all 65536 SP values
      let mut s2 = sw.clone();
      s2.code[1] = outer as u8;
      wk.plant(PC0, &s2.code[..2]);
      for sp in 0..=65535u16 {
        let mut c = base_cpu((sp & 1) as usize, PC0);
        c.f = if sp & 2 != 0 { 0xF0 } else { 0x00 };
        c.sp = sp;
        eval(job, wk, ctx, &s2, &c, None, "rom0");
      }
    },
    Kind::PopWord(_) => {
      wk.plant(PC0, code);
      for lo in 0..=255u8 {
        let mut c = base_cpu((lo & 1) as usize, PC0);
        c.f = if lo & 2 != 0 { 0xF0 } else { 0x00 };
        c.sp = 0xD100;
        wk.plant_data(0xD100, &[lo, outer as u8]);
        eval(job, wk, ctx, &sw, &c, Some((0xD100, lo)), "rom0");
      }
    },
    Kind::PushWord(p) => {
      wk.plant(PC0, code);
      for lo in 0..=255u8 {
        let v = ((outer as u16) << 8) | lo as u16;
        let mut c = base_cpu((lo & 1) as usize, PC0);
        c.sp = 0xD100;
        match p {
          0 => c.set_bc(v),
          1 => c.set_de(v),
          2 => c.set_hl(v),
          _ => {
            c.a = (v >> 8) as u8;
            c.f = (v as u8) & 0xF0;
          },
        }
        eval(job, wk, ctx, &sw, &c, None, "rom0");
      }
    },
    Kind::Ptr(via) => {
      let ptrs: Vec<u16> = match via {
        PtrVia::C | PtrVia::Imm8 => (0..=255u16).map(|lo| 0xFF00 | lo).collect(),
        _ => vals16(job, &sw, outer),
      };
      let mut last_pc = 0xFFFFu16;
      for ptr in ptrs {
        let lo = ptr & 0xff;
        for av in [0x00u8, 0xA7].iter() {
          let mut c = base_cpu((lo & 1) as usize, PC0);
          c.a = *av;
          c.f = if lo & 2 != 0 { 0xF0 } else { 0x00 };
          let mut s2 = sw.clone();
          match via {
            PtrVia::Bc => c.set_bc(ptr),
            PtrVia::De => c.set_de(ptr),
            PtrVia::Hl => c.set_hl(ptr),
            PtrVia::C => c.c = lo as u8,
            PtrVia::Imm8 => s2.code[1] = lo as u8,
            PtrVia::Imm16 => {
              s2.code[1] = ptr as u8;
              s2.code[2] = (ptr >> 8) as u8;
            },
            PtrVia::Sp => {
              s2.code[1] = ptr as u8;
              s2.code[2] = (ptr >> 8) as u8;
              c.sp = 0xB7E3 ^ (*av as u16);
            },
          }
          // keep the instruction out of the way of its own pointer target
          let pc = if (0x0100..0x0200).contains(&ptr) { 0x0300 } else { PC0 };
          c.pc = pc;
          if last_pc != pc {
            wk.unplant();
            last_pc = pc;
          }
          wk.plant(pc, &s2.code[..s2.len as usize]);
          eval(job, wk, ctx, &s2, &c, None, "rom0");
        }
      }
    },
    Kind::Place => {
      let (pc, name) = if job.jit {
        PLACES_JIT[outer as usize]
      } else if (outer as usize) < PLACES.len() {
        PLACES[outer as usize]
      } else {
        STRADDLE[outer as usize - PLACES.len()]
      };
      let straddle = !job.jit && (outer as usize) >= PLACES.len();
      if straddle && sw.len < 2 {
        return;
      }
      if straddle && pc == 0xFFFE && sw.len == 3 {
        return; // third byte would be at 0x0000 after wrap: not a placement the property names
      }
      wk.plant(pc, code);
      // target of conditional jumps irrelevant: single step
      for f in 0..16u8 {
        let mut c = base_cpu((f & 1) as usize, pc);
        c.f = f << 4;
        c.sp = 0xDFF0;
        // RET/POP read the stack; give it defined content
        eval(job, wk, ctx, &sw, &c, None, name);
      }
    },
    Kind::JrDisp => {
      let e = outer as u8;
      let mut s2 = sw.clone();
      s2.code[1] = e;
      for (pc, name) in [(0x0000u16, "rom0"), (0x0070, "rom0"), (0x3FFE, "rom0-end"), (0x4000, "romN"), (0x7FFE, "romN-end"), (0xC000, "wram0"), (0xDFFE, "wramN-end"), (0xFF80, "hram"), (0xFFFD, "hram-end")].iter() {
        if job.jit && *pc >= 0x8000 {
          continue;
        }
        wk.plant(*pc, &s2.code[..2]);
        for f in 0..16u8 {
          let mut c = base_cpu(0, *pc);
          c.f = f << 4;
          eval(job, wk, ctx, &s2, &c, None, name);
        }
        wk.unplant();
      }
    },
    Kind::Target => {
      for v in vals16(job, &sw, outer) {
        let lo = v as u8;
        let mut s2 = sw.clone();
        s2.code[1] = lo;
        s2.code[2] = (v >> 8) as u8;
        wk.plant(PC0, &s2.code[..3]);
        for f in [0x00u8, 0xF0, 0x80, 0x10].iter() {
          let mut c = base_cpu((lo & 1) as usize, PC0);
          c.f = *f;
          c.sp = 0xD100;
          eval(job, wk, ctx, &s2, &c, None, "rom0");
        }
      }
    },
    Kind::PcAll => {
      for lo in 0..=255u16 {
        let pc = ((outer as u16) << 8) | lo;
        let executable = pc < 0x8000 || (0xC000..0xE000).contains(&pc) || (0xFF80..0xFFFF).contains(&pc);
        // the whole instruction must lie in executable memory (its last byte may be 0xFFFE)
        let end = pc as u32 + sw.len as u32 - 1;
        if !executable || end > 0xFFFE || (pc < 0x8000 && end >= 0x8000) || (pc < 0xE000 && pc >= 0xC000 && end >= 0xE000) {
          continue;
        }
        wk.plant(pc, code);
        for f in [0x00u8, 0xF0].iter() {
          let mut c = base_cpu((lo & 1) as usize, pc);
          c.f = *f;
          c.sp = if (0xDF00..0xE000).contains(&pc) { 0xC800 } else { 0xDFF0 };
          eval(job, wk, ctx, &sw, &c, None, "any-pc");
        }
        wk.unplant();
      }
    },
    Kind::SpAll => {
      wk.plant(PC0, code);
      let sps: Vec<u16> = if job.thorough { (0..=255u16).map(|lo| ((outer as u16) << 8) | lo).collect() } else { BOUNDARY16.to_vec() };
      for sp in sps {
        for f in [0x00u8, 0xF0].iter() {
          let mut c = base_cpu((sp & 1) as usize, PC0);
          c.f = *f;
          c.sp = sp;
          // the instruction must not sit where its own push lands
          let near = sp.wrapping_sub(PC0) < 8 || PC0.wrapping_sub(sp) < 8;
          if near {
            c.pc = 0x0300;
            wk.plant(0x0300, code);
          }
          eval(job, wk, ctx, &sw, &c, None, "rom0");
        }
      }
    },
  }
  if !job.jit {
    wk.unplant();
  }
}

pub fn run(prop: &'static str, tier: &str) -> i32 {
  let mut rep = Report::new(prop, tier, "exploration");
  let a = stage_single(prop, &mut rep);
  let b = stage_banked_fetch(prop, &mut rep);
  let c = stage_shipping(prop, &mut rep);
  rep.evaluations = a + b + c;
  rep.finish()
}

/// The same single-step conformance sweeps in the hooks-off build with the repository's
/// release settings (opt-level 3, no overflow checks, no debug assertions): what the
/// interpreter does with an instruction must not depend on how it was compiled.  Runs as a
/// separate process (`gbmc <prop> --worker shipping <tier> <out.json>`).
pub fn stage_shipping(prop: &'static str, rep: &mut Report) -> u64 {
  if std::env::var("GBMC_CHILD_OUT").is_ok() || std::env::var("GBMC_FAST").is_ok() {
    return 0; // this is itself a rerun in another build profile; the parent runs this stage
  }
  let bin = match std::env::var("GBMC_PLAIN_BIN") {
    Ok(b) => b,
    Err(_) => {
      rep.machinery_error("GBMC_PLAIN_BIN not set (run through bin/check)".to_string());
      return 0;
    },
  };
  let out = format!("{}/shipping_{}.json", crate::util::pool::tmp_dir(), prop);
  match std::process::Command::new(&bin).args(&[prop, "--worker", "shipping", rep.tier.as_str(), &out]).status() {
    Ok(st) if st.success() => {},
    Ok(st) => {
      rep.machinery_error(format!("shipping-build worker failed: {:?}", st));
      return 0;
    },
    Err(e) => {
      rep.machinery_error(format!("cannot start shipping-build worker {}: {}", bin, e));
      return 0;
    },
  }
  let m = match crate::progrun::parse_json_file(&out) {
    Ok(m) => m,
    Err(e) => {
      rep.machinery_error(format!("shipping-build worker result: {}", e));
      return 0;
    },
  };
  let _ = std::fs::remove_file(&out);
  let r = crate::util::pool::PoolResult::from_json(&m, "shipping-build worker");
  if r.cases_total == 0 || r.cases_done != r.cases_total && !r.capped {
    rep.machinery_error(format!("shipping-build worker covered {} of {} cases", r.cases_done, r.cases_total));
  }
  let c = rep.add_stage(
    "shipping-build",
    "the single-step conformance sweeps again in a hooks-off build with the repository's release settings (opt-level 3, no overflow checks, no debug assertions); registers, flags, PC, SP, cycles, status, refusal of undefined opcodes and the bytes at the predicted write addresses are compared with R1 (exactness of the write set is judged in the instrumented build only)",
    r,
  );
  c[0]
}

/// worker entry (hooks-off build)
pub fn worker(prop: &'static str, args: &[String]) -> i32 {
  if args.len() < 3 || args[0] != "shipping" {
    eprintln!("{} worker: bad arguments {:?}", prop, args);
    return 2;
  }
  if crate::world::hooks_on() {
    eprintln!("{} worker: the shipping stage must run in the hooks-off build", prop);
    return 2;
  }
  if let Err(e) = r1::self_test() {
    eprintln!("R1 self-test failed in the hooks-off build: {}", e);
    return 2;
  }
  let (_job, mut r) = single_pool(prop, args[1] == "thorough");
  for v in r.violations.iter_mut() {
    // bin/check --replay re-executes such a case in this build
    v.detail.put("build", J::s("shipping"));
  }
  if std::fs::write(&args[2], r.to_json().to_string()).is_err() {
    return 2;
  }
  0
}

fn single_pool(prop: &'static str, thorough: bool) -> (Job, crate::util::pool::PoolResult) {
  let jit = prop == "C01" || prop == "C02";
  let sweeps = build_sweeps(prop, thorough);
  let mut starts = Vec::with_capacity(sweeps.len());
  let mut total = 0u64;
  for s in sweeps.iter() {
    starts.push(total);
    total += s.outer as u64;
  }
  let job = Job { prop, jit, sweeps, starts, total, thorough };
  let opts = PoolOpts { chunk: if jit { 2 } else { 8 }, bitmap_bits: 1 << 18, samples_per_child: 1, ..PoolOpts::default() };
  let r = run_pool(
    total,
    &opts,
    |_| W { w: StepWorld::new(), jw: if jit { Some(JitWorld::new()) } else { None }, planted: Vec::new(), last_sweep: usize::MAX },
    |wk, case, ctx| run_case(&job, wk, case, ctx),
    |case, how| {
      let (si, outer) = job.locate(case);
      let sw = &job.sweeps[si];
      (
        format!("{} op={} crash={}", prop, if sw.code[0] == 0xCB { format!("CB{:02X}", sw.code[1]) } else { format!("{:02X}", sw.code[0]) }, how),
        J::obj().set("case", J::obj().set("sweep", J::s(format!("{:?}", sw.kind))).set("code", J::s(hex(&sw.code[..sw.len as usize]))).set("outer", J::u(outer as u64))),
      )
    },
  );
  (job, r)
}

/// Stage (a): every encoding as a single instruction (C05/C06) or single-instruction block
/// (C01/C02) over its complete operand class.  Returns the number of evaluations.
pub fn stage_single(prop: &'static str, rep: &mut Report) -> u64 {
  if let Err(e) = r1::self_test() {
    rep.machinery_error(format!("R1 self-test failed: {}", e));
    return 0;
  }
  let thorough = rep.thorough();
  let jit = prop == "C01" || prop == "C02";
  let (job, r) = single_pool(prop, thorough);
  let space = match prop {
    "C05" | "C01" => "every data opcode x complete operand class: A x operand x F (2^20) for ALU forms, value x F for INC/DEC/CB/LD, all 2^16 for 16-bit loads/inc/dec/POP/PUSH, 2^16 x 2^8 for SP-relative forms, all 65536 pointer values for memory forms, ADD HL,rr boundary product (quick) or all 2^32 pairs (thorough); C01 adds the control-flow sweeps: all 512 encodings x 16 F x 12 ROM placements, JR x 256 displacements, JP/CALL x 65536 targets, stack forms x SP set",
    _ => "all 512 encodings x 16 F x placements (+ region-straddling placements); JR x all 256 displacements x placements x 16 F; JP/CALL x all 65536 targets; stack/control forms x SP boundary set (quick) or all 65536 SP values (thorough)",
  };
  let counters = rep.add_stage(if jit { "single-instruction-blocks" } else { "single-step-conformance" }, space, r);
  rep.evaluations = counters[0];
  rep.cov("sweeps", J::u(job.sweeps.len() as u64));
  if jit {
    rep.cov("blocks_translated", J::u(counters[1]));
    rep.cov(
      "rule",
      J::s("each case executes one block twice on the real code (interpreter::run_code_block, then translate_code_block + CodeCache::call) from the same state and compares registers, status, cycles, ordered bus writes and device state; an outcome class is (encoding, flags out, wrote memory, refused, cycles mod 4)"),
    );
    rep.assume("the interpreter is the oracle here; it is itself judged against an independent SM83 reference by C05/C06");
  } else {
    rep.cov(
      "rule",
      J::s("each case is one real interpreter::run_next_op execution compared field by field with R1; an outcome class is (encoding, flags out, branch taken, wrote memory, undefined) and is counted once"),
    );
    rep.assume("R1 (harness/src/refm/r1.rs) is generated from the opcode bit fields and self-tested against arithmetic definitions before use");
    rep.assume("both sides read memory through the real bus helpers (the bus itself is judged by C10)");
    if prop == "C06" {
      rep.assume("PC placements are restricted to ROM, work RAM and high RAM (the regions the property names for instruction fetch)");
    }
  }
  counters[0]
}


/// C05/C06 on a banked cartridge: every encoding placed so that its operand bytes lie across
/// the 0x3FFF/0x4000 boundary (and, as controls, just before and after it) of a 4-bank MBC1
/// image with bank 2 or 3 mapped; the bytes beyond 0x3FFF must come from the mapped bank.
pub fn stage_banked_fetch(prop: &'static str, rep: &mut Report) -> u64 {
  let img = crate::world::make_image(0x03, 0x01, 0x02, 4, |b, o| ((o * 7) ^ (o >> 8) ^ (b * 0x55)) as u8);
  let image = crate::world::write_rom_file(&img);
  let mut encs: Vec<([u8; 3], u8)> = Vec::new();
  for op in 0..=255u8 {
    if op == 0xCB {
      for cb in 0..=255u8 {
        encs.push(([0xCB, cb, 0], 2));
      }
    } else {
      encs.push(enc(op));
    }
  }
  let places: [(u16, &str); 5] = [(0x3FFC, "rom0-end"), (0x3FFD, "rom0-end"), (0x3FFE, "rom0|romN"), (0x3FFF, "rom0|romN"), (0x4000, "romN")];
  let banks = [2u8, 3];
  let total = encs.len() as u64 * banks.len() as u64;
  let opts = PoolOpts { chunk: 32, bitmap_bits: 1 << 16, samples_per_child: 1, ..PoolOpts::default() };
  let img_path = image.clone();
  let job = Job { prop, jit: false, sweeps: Vec::new(), starts: Vec::new(), total, thorough: rep.thorough() };
  let r = run_pool(
    total,
    &opts,
    |_| {
      let mk = |bank: u8| {
        let mut core = crate::world::load_like_main(&img_path).expect("banked image loads");
        for (i, b) in core.memory.work_ram.iter_mut().enumerate() {
          *b = (i as u8).wrapping_mul(3) ^ 0x5A;
        }
        let mp = &mut core.memory as *mut crate::mem::MemoryAreas;
        crate::mem::memory_write_byte(mp, 0x2100, bank);
        W { w: StepWorld::from_core(core), jw: None, planted: Vec::new(), last_sweep: usize::MAX }
      };
      (mk(2), mk(3))
    },
    |ws, case, ctx| {
      let bi = (case % 2) as usize;
      let (code3, len) = encs[(case / 2) as usize];
      let wk = if bi == 0 { &mut ws.0 } else { &mut ws.1 };
      let sw = Sweep { kind: Kind::Place, code: code3, len, outer: 1 };
      ctx.sample(|| J::obj().set("code", J::s(hex(&code3[..len as usize]))).set("mapped_bank", J::u(banks[bi] as u64)).set("placements", J::s("3FFC 3FFD 3FFE 3FFF 4000")));
      for (pc, name) in places.iter() {
        if (*pc as usize) + (len as usize) <= 0x4000 && *pc < 0x3FFD {
          continue; // does not reach the boundary
        }
        wk.plant(*pc, &code3[..len as usize]);
        for f in [0x00u8, 0xF0, 0x80, 0x10].iter() {
          let mut c = base_cpu((*f >> 7) as usize, *pc);
          c.f = *f;
          c.sp = 0xDFF0;
          eval(&job, wk, ctx, &sw, &c, None, &format!("{}/bank{}", name, banks[bi]));
        }
        wk.unplant();
      }
    },
    |case, how| (format!("{} banked-fetch case={} crash={}", prop, case, how), J::obj().set("case", J::obj().set("index", J::u(case)))),
  );
  let c = rep.add_stage("banked-fetch", "all 512 encodings x placements 3FFD..4000 x mapped bank 2|3 of a 4-bank MBC1 image whose banks differ everywhere x 4 F", r);
  let _ = std::fs::remove_file(&image);
  c[0]
}

/// `--replay` for the single-instruction cases of C05/C06 (interpreter vs R1) and C01/C02
/// (translated block vs interpreter): re-executes exactly the recorded case, twice, in fresh
/// worlds, prints both observations and exits 1 if the difference is still there.
pub fn replay_case(id: &str, file: &J) -> Option<i32> {
  if !matches!(id, "C01" | "C02" | "C05" | "C06") {
    return None;
  }
  let case = file.get("detail")?.get("case")?;
  let regs = case.get("regs")?;
  let hexu16 = |k: &str| u16::from_str_radix(&regs.str_of(k), 16).ok();
  let (af, bc, de, hl, sp, pc) = (hexu16("af")?, hexu16("bc")?, hexu16("de")?, hexu16("hl")?, hexu16("sp")?, hexu16("pc")?);
  let code_s = if case.get("code").is_some() { case.str_of("code") } else { case.str_of("block").split(' ').next().unwrap_or("").to_string() };
  let mut code: Vec<u8> = Vec::new();
  let cs: Vec<char> = code_s.chars().collect();
  let mut i = 0;
  while i + 1 < cs.len() {
    code.push(u8::from_str_radix(&format!("{}{}", cs[i], cs[i + 1]), 16).ok()?);
    i += 2;
  }
  if code.is_empty() {
    return None;
  }
  let mem: Option<(u16, u8)> = case.get("mem").and_then(|m| m.as_str()).and_then(|m| {
    let mut it = m.split('=');
    Some((u16::from_str_radix(it.next()?, 16).ok()?, u8::from_str_radix(it.next()?, 16).ok()?))
  });
  let c = Cpu { a: (af >> 8) as u8, f: af as u8, b: (bc >> 8) as u8, c: bc as u8, d: (de >> 8) as u8, e: de as u8, h: (hl >> 8) as u8, l: hl as u8, sp, pc };
  let jit = id == "C01" || id == "C02";
  let mut outs: Vec<String> = Vec::new();
  let mut differs = false;
  for _ in 0..2 {
    if jit {
      let mut jw = JitWorld::new();
      jw.plant_bytes(pc, &code);
      if !is_terminator(&code) {
        jw.plant_bytes(pc.wrapping_add(code.len() as u16), &TERM);
      }
      if let Some((a, v)) = mem {
        jw.plant_bytes(a, &[v]);
      }
      let oi = jw.run_interp_block(&c);
      jw.restore(&oi);
      let oj = jw.run_jit_block(&c, 2);
      let d = block_diff(&oi, &oj);
      let d: Vec<&str> = d.into_iter().filter(|f| (id == "C02") == (*f == "cycles")).collect();
      differs |= !d.is_empty();
      outs.push(J::obj().set("interpreter", bobs_json(&oi)).set("translated", bobs_json(&oj)).set("differing_fields", J::Arr(d.iter().map(|x| J::s(*x)).collect())).to_string());
    } else {
      let mut w = StepWorld::new();
      for (k, b) in code.iter().enumerate() {
        w.poke(pc.wrapping_add(k as u16), *b);
      }
      if let Some((a, v)) = mem {
        w.poke(a, v);
      }
      let exp = w.expect(&c);
      let obs = w.run_interp(&c);
      let d: Vec<&str> = diff(&exp, &obs).into_iter().filter(|f| judged(id, f, code[0])).collect();
      differs |= !d.is_empty();
      outs.push(J::obj().set("expected", exp_json(&exp)).set("observed", obs_json(&obs)).set("differing_fields", J::Arr(d.iter().map(|x| J::s(*x)).collect())).to_string());
    }
  }
  println!("run 1: {}", outs[0]);
  println!("run 2: {}", outs[1]);
  if outs[0] != outs[1] {
    eprintln!("MACHINERY-ERROR property={} the two replays of one case differ", id);
    return Some(2);
  }
  if differs {
    println!("REPRODUCED property={} key={}", id, file.str_of("key"));
    Some(1)
  } else {
    println!("NOT-REPRODUCED property={} key={}", id, file.str_of("key"));
    Some(0)
  }
}
