//! C08 — EI delay, DI/RETI immediacy and HALT/STOP suspension hold for any sequence.
//!
//! E2a on the non-jit `Core::update()` (one instruction, or one 4-clock tick while the CPU
//! is suspended).  Every sequence over the 8-letter alphabet
//! {EI, DI, RETI, HALT, STOP, NOP, LDH (0F),A, LDH (FF),A} up to a bounded length is laid
//! out as a ROM program at 0x0150 and executed from every initial
//! (IME, run state, (IF, IE), A).  R1 (instruction semantics) + R4 (interrupt / IME /
//! suspension state machine, written below from the property text and DESIGN Appendix B)
//! run in lock-step; after EVERY `update()` IME, run state, PC, SP, IF, IE, A and the
//! stack window are compared, and the named invariants of the property are evaluated on
//! the subject's own before/after observations.  While the CPU is suspended the harness
//! raises one request the way a device does, so that HALT/STOP resumption (at the following
//! instruction, or in the handler) is exercised although the alphabet itself cannot raise
//! anything while no instruction executes.  Initial run state is part of the initial state.
//!
//! Memory picture (identical in the subject's ROM buffer and in the reference's own copy):
//!   0x0000-0x0067  8-byte blocks  NOP x6, JR -2   (0x40..0x60 are the five handlers)
//!   0x0068-0x7FFF  16-byte blocks NOP x14, JR -2
//!   0x0150-0x015F  the program (<= 16 bytes), NOP padded; 0x0160.. is an ordinary block
//!   0xDFF0..       the stack: slot k holds the address following the k-th RETI of the
//!                  program, so RETI returns into the program and the suffix still runs.

use crate::devices::interrupts::InterruptFlag;
use crate::devices::video::VideoState;
use crate::emulator::{Core, InterruptState, RunState};
use crate::refm::r1::{self, Bus, Cpu, Ctl};
use crate::util::json::J;
use crate::util::pool::{run_pool, Ctx, PoolOpts};
use crate::util::report::Report;
use crate::world::{self, Fx};

// ------------------------------------------------------------------ alphabet

const NLET: usize = 8;
const L_EI: u8 = 0;
const L_DI: u8 = 1;
const L_RETI: u8 = 2;
const L_HALT: u8 = 3;
const L_STOP: u8 = 4;
const L_NOP: u8 = 5;
const L_LDIF: u8 = 6;
const L_LDIE: u8 = 7;
// pseudo events for keys / traces
const E_SLED: u8 = 8;
const E_TICK: u8 = 9;
const E_WAKE: u8 = 10; // tick preceded by a device-style request injection
const E_START: u8 = 11;
const ENAME: [&str; 12] = ["EI", "DI", "RETI", "HALT", "STOP", "NOP", "LDIF", "LDIE", "SLED", "TICK", "INJ", "START"];
const ENC: [&[u8]; NLET] = [&[0xFB], &[0xF3], &[0xD9], &[0x76], &[0x10, 0x00], &[0x00], &[0xE0, 0x0F], &[0xE0, 0xFF]];

const BASE: u16 = 0x0150;
const PROG_AREA: usize = 16;
const SP0: u16 = 0xDFF0;
const STK_LO: u16 = 0xDFC0; // compared / reset window 0xDFC0..=0xDFFF
const STK_LEN: usize = 0x40;

const DIS: u8 = 0;
const EN: u8 = 1;
const NEXT: u8 = 2;
const RUN: u8 = 0;
const HALT: u8 = 1;
const STOP: u8 = 2;
const IME_NAME: [&str; 3] = ["Disabled", "Enabled", "EnableNext"];
const RUN_NAME: [&str; 3] = ["Run", "Halt", "Stop"];

/// initial (IF, IE): none, requested-only, enabled-only, requested+enabled, requested and
/// enabled but disjoint (there IE also has the three bits set that select no source: only
/// IF & IE & 0x1F is a request, and IF reads back with its upper bits high)
const IFIE: [(u8, u8); 5] = [(0x00, 0x00), (0x04, 0x00), (0x00, 0x04), (0x04, 0x04), (0x02, 0xE4)];
/// values LDIF / LDIE store: E4 requests / enables the timer and sets the unused upper bits
const AVAL: [u8; 3] = [0x00, 0xE4, 0x1F];

const QUIET: u32 = 8; // updates after the program is over / after the suspended CPU was poked
const SUSP_BEFORE_INJECT: u32 = 3;
const MAX_UPDATES: u32 = 64;

// counters
const K_UPD: usize = 0;
const K_HIST: usize = 1;
const K_CUT: usize = 2;
const K_DISP: usize = 3;
const K_INJ: usize = 4;
const K_WAKE_NODISP: usize = 5;
const K_WAKE_DISP: usize = 6;
const K_EI_DI: usize = 7;
const K_EI_EI: usize = 8;
const K_EI_RETI: usize = 9;
const K_HALT_FROM_NEXT: usize = 10;
const K_DISP_AFTER_SHADOW: usize = 11;
const K_DISP_AFTER_RETI: usize = 12;
const K_STOP_PENDING: usize = 13;
const K_BADBUS: usize = 14;
const K_VIDEO_RESET: usize = 15;
const K_STAY_ASLEEP_INJ: usize = 16;
const K_DIVERGED: usize = 17;
const K_MAXUPD: usize = 18;
const K_INSTR: usize = 19;
const K_SUSP_TICKS: usize = 20;
const K_DI_IN_SHADOW_PENDING: usize = 21;

// ------------------------------------------------------------------ reference (R1 + R4)

struct RefBus {
  rom: Vec<u8>,
  stack: [u8; STK_LEN],
  iflag: u8,
  ie: u8,
  bad: bool,
}

impl Bus for RefBus {
  fn rd(&mut self, addr: u16) -> u8 {
    match addr {
      0x0000..=0x7FFF => self.rom[addr as usize],
      0xDFC0..=0xDFFF => self.stack[(addr - STK_LO) as usize],
      0xFF0F => self.iflag | 0xE0,
      0xFFFF => self.ie,
      _ => {
        self.bad = true;
        0xFF
      },
    }
  }
  fn wr(&mut self, addr: u16, v: u8) {
    match addr {
      0xDFC0..=0xDFFF => self.stack[(addr - STK_LO) as usize] = v,
      0xFF0F => self.iflag = v & 0x1F,
      0xFFFF => self.ie = v,
      _ => self.bad = true,
    }
  }
}

#[derive(Clone, Copy, PartialEq, Eq, Debug)]
struct Obs {
  ime: u8,
  run: u8,
  pc: u32,
  sp: u32,
  iflag: u8,
  ie5: u8,
  af: u32,
}

struct RefSt {
  cpu: Cpu,
  ime: u8,
  run: u8,
}

/// One `update()` of the reference.  Returns (dispatched, pc the instruction left before
/// any dispatch).
fn ref_update(st: &mut RefSt, bus: &mut RefBus) -> (bool, u16) {
  if st.run == RUN {
    let was_next = st.ime == NEXT;
    let out = match r1::step(&mut st.cpu, bus) {
      Ok(o) => o,
      Err(_) => {
        bus.bad = true;
        return (false, st.cpu.pc);
      },
    };
    // EI becomes effective once the instruction after it has completed, before that
    // instruction's own effect on the master enable.
    if was_next {
      st.ime = EN;
    }
    match out.ctl {
      Ctl::Ei => {
        if st.ime == DIS {
          st.ime = NEXT;
        }
      },
      Ctl::Di => st.ime = DIS,
      Ctl::Reti => st.ime = EN,
      Ctl::Halt => st.run = HALT,
      Ctl::Stop => st.run = STOP,
      Ctl::None => {},
    }
  }
  let pc_instr = st.cpu.pc;
  // R4: interrupt rule, evaluated at the end of every update()
  let pending = bus.iflag & bus.ie & 0x1F;
  if pending == 0 {
    return (false, pc_instr);
  }
  st.run = RUN;
  if st.ime != EN {
    return (false, pc_instr);
  }
  st.ime = DIS;
  let pc = st.cpu.pc;
  st.cpu.sp = st.cpu.sp.wrapping_sub(1);
  bus.wr(st.cpu.sp, (pc >> 8) as u8);
  let pending2 = bus.iflag & bus.ie & 0x1F;
  st.cpu.sp = st.cpu.sp.wrapping_sub(1);
  bus.wr(st.cpu.sp, pc as u8);
  if pending2 == 0 {
    st.cpu.pc = 0x0000;
  } else {
    let idx = pending2.trailing_zeros() as u16;
    bus.iflag &= !(1u8 << idx);
    st.cpu.pc = 0x40 + 8 * idx;
  }
  (true, pc_instr)
}

fn ref_obs(st: &RefSt, bus: &RefBus) -> Obs {
  Obs { ime: st.ime, run: st.run, pc: st.cpu.pc as u32, sp: st.cpu.sp as u32, iflag: bus.iflag, ie5: bus.ie & 0x1F, af: st.cpu.af() as u32 }
}

// ------------------------------------------------------------------ subject

fn sub_obs(core: &Core) -> Obs {
  Obs {
    ime: world::ime_code(&core.interrupts_enabled),
    run: world::run_code(&core.run_state),
    pc: { core.registers.ip },
    sp: { core.registers.sp },
    iflag: core.memory.io.interrupt_flag.as_u8(),
    ie5: core.memory.io.interrupt_mask & 0x1F,
    af: { core.registers.af },
  }
}

fn ime_state(c: u8) -> InterruptState {
  match c {
    DIS => InterruptState::Disabled,
    EN => InterruptState::Enabled,
    _ => InterruptState::EnableNext,
  }
}

fn run_state(c: u8) -> RunState {
  match c {
    RUN => RunState::Run,
    HALT => RunState::Halt,
    _ => RunState::Stop,
  }
}

fn base_rom() -> Vec<u8> {
  let mut rom = vec![0u8; 0x8000];
  let mut a = 0usize;
  while a < 0x68 {
    rom[a + 6] = 0x18;
    rom[a + 7] = 0xFE;
    a += 8;
  }
  // 0x68..0x70 is a short block of its own
  rom[0x6E] = 0x18;
  rom[0x6F] = 0xFE;
  let mut a = 0x70usize;
  while a < 0x8000 {
    rom[a + 14] = 0x18;
    rom[a + 15] = 0xFE;
    a += 16;
  }
  for b in rom[BASE as usize..BASE as usize + PROG_AREA].iter_mut() {
    *b = 0;
  }
  rom
}

struct Worker {
  core: Box<Core>,
  bus: RefBus,
}

fn make_worker() -> Worker {
  let rom = base_rom();
  let core = world::flat_core(rom.clone());
  Worker { core, bus: RefBus { rom, stack: [0; STK_LEN], iflag: 0, ie: 0, bad: false } }
}

// ------------------------------------------------------------------ enumeration

/// case index -> (length, letters)
fn decode_case(case: u64, min_len: usize, max_len: usize) -> (usize, [u8; 8]) {
  let mut case = case + total_cases(min_len - 1);
  let mut len = 1usize;
  let mut n = NLET as u64;
  while len < max_len && case >= n {
    case -= n;
    n *= NLET as u64;
    len += 1;
  }
  let mut letters = [L_NOP; 8];
  // most significant letter first
  for i in (0..len).rev() {
    letters[i] = (case % NLET as u64) as u8;
    case /= NLET as u64;
  }
  (len, letters)
}

fn total_cases(max_len: usize) -> u64 {
  let mut t = 0u64;
  let mut n = 1u64;
  for _ in 0..max_len {
    n *= NLET as u64;
    t += n;
  }
  t
}

struct Program {
  len: usize,
  letters: [u8; 8],
  bytes: [u8; PROG_AREA],
  nbytes: usize,
  /// letter index + 1 at each program offset that starts an instruction, else 0
  at: [u8; PROG_AREA],
  stack: [u8; STK_LEN],
}

fn layout(len: usize, letters: [u8; 8]) -> Program {
  let mut p = Program { len, letters, bytes: [0; PROG_AREA], nbytes: 0, at: [0; PROG_AREA], stack: [0; STK_LEN] };
  // default return address for unused stack slots: a sled block well away from the program
  let mut slot = 0usize;
  for k in 0..8 {
    let o = (SP0 - STK_LO) as usize + 2 * k;
    p.stack[o] = 0x00;
    p.stack[o + 1] = 0x02; // 0x0200
  }
  for b in p.stack[..(SP0 - STK_LO) as usize].iter_mut() {
    *b = 0xAA;
  }
  for i in 0..len {
    let l = letters[i] as usize;
    p.at[p.nbytes] = i as u8 + 1;
    for &b in ENC[l] {
      p.bytes[p.nbytes] = b;
      p.nbytes += 1;
    }
    if letters[i] == L_RETI {
      let ret = BASE + p.nbytes as u16;
      let o = (SP0 - STK_LO) as usize + 2 * slot;
      p.stack[o] = ret as u8;
      p.stack[o + 1] = (ret >> 8) as u8;
      slot += 1;
    }
  }
  p
}

fn prog_string(p: &Program) -> String {
  let mut s = String::new();
  for i in 0..p.len {
    if i > 0 {
      s.push(';');
    }
    s.push_str(ENAME[p.letters[i] as usize]);
  }
  s
}

#[derive(Clone, Copy)]
struct Init {
  ime: u8,
  run: u8,
  iflag: u8,
  ie: u8,
  a: u8,
}

fn obs_json(o: &Obs) -> J {
  J::obj()
    .set("ime", J::s(IME_NAME[o.ime as usize % 3]))
    .set("run", J::s(RUN_NAME[o.run as usize % 3]))
    .set("pc", J::s(format!("{:04X}", o.pc)))
    .set("sp", J::s(format!("{:04X}", o.sp)))
    .set("if", J::s(format!("{:02X}", o.iflag)))
    .set("ie&1F", J::s(format!("{:02X}", o.ie5)))
    .set("af", J::s(format!("{:04X}", o.af)))
}

fn is_vector(pc: u32) -> bool {
  pc == 0 || (pc >= 0x40 && pc <= 0x60 && pc & 7 == 0)
}

/// Master enable that governs the interrupt check at the end of an update, from the state
/// before the update and the instruction executed (None: suspended tick) — the property's
/// own rules.
fn effective_ime(before: u8, letter: Option<u8>) -> u8 {
  match letter {
    None => before,
    Some(L_DI) => DIS,
    Some(L_RETI) => EN,
    Some(L_EI) => {
      if before == DIS {
        NEXT
      } else {
        EN
      }
    },
    Some(_) => {
      if before == NEXT {
        EN
      } else {
        before
      }
    },
  }
}

fn run_history(w: &mut Worker, p: &Program, init: Init, ctx: &mut Ctx) {
  let Worker { core, bus } = w;
  // ---- PPU: keep every history inside the window in which the power-on PPU (line 144,
  // mode 1, STAT = 0) cannot request anything: lines 144..153 and 0..119.
  {
    let (line, _, _) = core.memory.io.video.verif_position();
    if !(line >= 144 || line < 120) {
      *core.memory.io.video = VideoState::new();
      ctx.count(K_VIDEO_RESET, 1);
    }
  }
  // ---- install the initial state in both worlds
  world::set_regs(core, (init.a as u16) << 8, 0, 0, 0, SP0, BASE);
  core.interrupts_enabled = ime_state(init.ime);
  core.run_state = run_state(init.run);
  core.memory.io.interrupt_flag = InterruptFlag::new(init.iflag);
  crate::mem::memory_write_byte(&mut core.memory as *mut crate::mem::MemoryAreas, 0xFFFF, init.ie);
  let so = 0x1000 + (STK_LO as usize & 0xFFF);
  core.memory.work_ram[so..so + STK_LEN].copy_from_slice(&p.stack);

  let mut st = RefSt { cpu: Cpu { a: init.a, sp: SP0, pc: BASE, ..Cpu::default() }, ime: init.ime, run: init.run };
  bus.stack = p.stack;
  bus.iflag = init.iflag;
  bus.ie = init.ie;

  ctx.count(K_HIST, 1);
  let mut ev = [E_START; 2];
  let mut trace: [u8; MAX_UPDATES as usize] = [0; MAX_UPDATES as usize];
  let mut n_upd = 0u32;
  let mut quiet = 0u32;
  let mut susp = 0u32;
  let mut injected = false;
  let mut prev_letter: Option<u8> = None; // previous executed program letter (same straight line)
  let mut prev_ime_before = DIS;

  let detail = |what: &str, step: u32, trace: &[u8], before: &Obs, want: &Obs, got: &Obs, extra: J| -> J {
    let mut t = String::new();
    for (i, e) in trace.iter().enumerate() {
      if i > 0 {
        t.push(',');
      }
      t.push_str(ENAME[*e as usize]);
    }
    J::obj()
      .set(
        "case",
        J::obj()
          .set("program", J::s(prog_string(p)))
          .set("program_bytes_at_0150", J::s(world::hex(&p.bytes[..p.nbytes])))
          .set("ime0", J::s(IME_NAME[init.ime as usize]))
          .set("run0", J::s(RUN_NAME[init.run as usize]))
          .set("if0", J::u(init.iflag as u64))
          .set("ie0", J::u(init.ie as u64))
          .set("a", J::u(init.a as u64))
          .set("sp0", J::s("DFF0"))
          .set("stack_DFF0", J::s(world::hex(&p.stack[(SP0 - STK_LO) as usize..])))
          .set("how", J::s("flat 32K ROM = sled picture of checks/c08.rs with the program at 0x0150; install state; call Core::update() step+1 times (INJ in the trace: IF |= request before that update)")),
      )
      .set("step", J::u(step as u64))
      .set("events", J::s(t))
      .set("state_before_update", obs_json(before))
      .set("expected", obs_json(want))
      .set("observed", obs_json(got))
      .set("what", J::s(what))
      .set("extra", extra)
  };

  loop {
    if n_upd >= MAX_UPDATES {
      ctx.count(K_MAXUPD, 1);
      break;
    }
    // ---- what is about to happen (reference view; both worlds agree up to here)
    let suspended = st.run != RUN;
    let pc0 = st.cpu.pc;
    let in_prog = pc0 >= BASE && ((pc0 - BASE) as usize) < p.nbytes;
    let letter: Option<u8> = if suspended {
      None
    } else if in_prog {
      let k = p.at[(pc0 - BASE) as usize];
      if k == 0 {
        // landing inside an instruction cannot happen (RETI targets are boundaries)
        bus.bad = true;
        Some(L_NOP)
      } else {
        Some(p.letters[k as usize - 1])
      }
    } else {
      Some(E_SLED)
    };
    let mut this_ev = match letter {
      None => E_TICK,
      Some(l) => l,
    };
    // exclusion: HALT executed while an enabled request is already pending
    if letter == Some(L_HALT) && bus.iflag & bus.ie & 0x1F != 0 {
      ctx.count(K_CUT, 1);
      break;
    }
    // device-style request while suspended (the same `interrupt_flag |= flags` that
    // IO::run_clock_cycles performs): enabled bit if any is enabled, else a request that
    // is not enabled and must not wake the CPU.
    if suspended && !injected && susp >= SUSP_BEFORE_INJECT {
      let e = bus.ie & 0x1F;
      let v = if e != 0 { 1u8 << e.trailing_zeros() } else { 0x01 };
      bus.iflag |= v;
      core.memory.io.interrupt_flag |= InterruptFlag::new(v);
      injected = true;
      this_ev = E_WAKE;
      ctx.count(K_INJ, 1);
      if e == 0 {
        ctx.count(K_STAY_ASLEEP_INJ, 1);
      }
    }
    if suspended {
      susp += 1;
      if injected && this_ev != E_WAKE {
        quiet += 1;
      }
      ctx.count(K_SUSP_TICKS, 1);
    } else {
      susp = 0;
      ctx.count(K_INSTR, 1);
      if !in_prog {
        quiet += 1;
      }
    }

    let before_ref = ref_obs(&st, bus);
    let before = sub_obs(core);
    let pending_before = before.iflag & before.ie5;

    // ---- step both
    core.update();
    let (ref_disp, ref_pc_instr) = ref_update(&mut st, bus);
    ctx.count(K_UPD, 1);
    trace[n_upd as usize] = this_ev;
    n_upd += 1;
    ev = [ev[1], this_ev];

    let got = sub_obs(core);
    let want = ref_obs(&st, bus);
    let tr = &trace[..n_upd as usize];
    let step = n_upd - 1;

    // ---- scenario accounting (non-vacuity of the orderings the property names)
    if ref_disp {
      ctx.count(K_DISP, 1);
    }
    let real_letter = letter.filter(|l| (*l as usize) < NLET);
    if let (Some(l), Some(pl)) = (real_letter, prev_letter) {
      if pl == L_EI && prev_ime_before == DIS {
        match l {
          L_DI => {
            ctx.count(K_EI_DI, 1);
            if before_ref.iflag & before_ref.ie5 != 0 {
              ctx.count(K_DI_IN_SHADOW_PENDING, 1);
            }
          },
          L_EI => ctx.count(K_EI_EI, 1),
          L_RETI => ctx.count(K_EI_RETI, 1),
          L_HALT => ctx.count(K_HALT_FROM_NEXT, 1),
          _ => {},
        }
        if ref_disp && l != L_RETI {
          ctx.count(K_DISP_AFTER_SHADOW, 1);
        }
      }
    }
    if real_letter == Some(L_RETI) && ref_disp {
      ctx.count(K_DISP_AFTER_RETI, 1);
    }
    if real_letter == Some(L_STOP) && pending_before != 0 {
      ctx.count(K_STOP_PENDING, 1);
    }
    if suspended && want.run == RUN {
      if ref_disp {
        ctx.count(K_WAKE_DISP, 1);
      } else {
        ctx.count(K_WAKE_NODISP, 1);
      }
    }
    // reference state digest (model_checking "states")
    {
      let mut h = Fx::new();
      h.u64(want.ime as u64 | (want.run as u64) << 8 | (want.iflag as u64) << 16 | (want.ie5 as u64) << 24 | (bus.ie as u64) << 32);
      h.u64(want.pc as u64 | (want.sp as u64) << 16 | (want.af as u64) << 32);
      ctx.class(h.get());
    }

    // ---- invariants of the property, on the subject's own before/after observations
    let sub_disp = is_vector(got.pc) && !(before.pc == got.pc);
    let eff = effective_ime(before.ime, real_letter.or(if suspended { None } else { Some(L_NOP) }));
    let mut broke: Option<(String, &str)> = None;
    // IF bits that may be set after this update: what was there (incl. the harness
    // request), or what LDH (0F),A wrote; a dispatch only ever clears one
    let if_allowed = if real_letter == Some(L_LDIF) { init.a & 0x1F } else { before.iflag };
    if got.iflag & !if_allowed != 0 {
      broke = Some(("C08 invariant=if-bit-not-from-alphabet".to_string(), "an IF bit is set that no instruction of the sequence (or the harness request) raised"));
    } else if sub_disp && eff != EN {
      if real_letter == Some(L_EI) && before.ime == DIS {
        broke = Some(("C08 invariant=ei-too-early how=dispatch-right-after-ei".to_string(), "interrupt dispatched in the update that executed EI from Disabled: the following instruction has not completed"));
      } else if real_letter == Some(L_DI) {
        broke = Some((format!("C08 invariant=di-not-immediate how=dispatch-after-di ime-before={}", IME_NAME[before.ime as usize]), "interrupt dispatched at the end of the update that executed DI"));
      } else {
        broke = Some((format!("C08 invariant=dispatch-with-ime-off ime-before={} susp={}", IME_NAME[before.ime as usize], suspended), "interrupt dispatched while the master enable is not on"));
      }
    } else if real_letter == Some(L_EI) && before.ime == DIS && !sub_disp && got.ime == EN {
      broke = Some(("C08 invariant=ei-too-early how=enabled-right-after-ei".to_string(), "IME is Enabled right after EI executed from Disabled"));
    } else if real_letter == Some(L_DI) && got.ime != DIS {
      broke = Some((format!("C08 invariant=di-not-immediate ime-before={}", IME_NAME[before.ime as usize]), "IME is not Disabled after the update that executed DI"));
    } else if real_letter == Some(L_RETI) && !(got.ime == EN || sub_disp) {
      broke = Some((format!("C08 invariant=reti-not-immediate ime-before={}", IME_NAME[before.ime as usize]), "IME is not Enabled (and nothing was dispatched) after the update that executed RETI"));
    } else if !suspended && before.ime == NEXT && real_letter != Some(L_DI) && !(got.ime == EN || sub_disp) {
      broke = Some((format!("C08 invariant=ei-not-effective after={}", ENAME[this_ev as usize]), "IME was EnableNext, one more instruction completed, and IME is neither Enabled nor was an interrupt dispatched"));
    } else if suspended {
      if pending_before == 0 {
        if got.run != before.run || got.pc != before.pc || got.sp != before.sp {
          broke = Some((format!("C08 invariant=halt-resume kind=left-suspension-without-enabled-request run={}", RUN_NAME[before.run as usize]), "the suspended CPU moved although IF & IE & 0x1F == 0"));
        }
      } else if got.run != RUN {
        broke = Some((format!("C08 invariant=halt-resume kind=still-suspended-with-enabled-request run={}", RUN_NAME[before.run as usize]), "IF & IE & 0x1F != 0 and the CPU is still suspended after update()"));
      } else if before.ime == EN {
        let o = (got.sp.wrapping_sub(STK_LO as u32)) as usize;
        let ret_ok = got.sp == before.sp.wrapping_sub(2) && o + 1 < STK_LEN && {
          let base = 0x1000 + (STK_LO as usize & 0xFFF);
          let lo = core.memory.work_ram[base + o] as u32;
          let hi = core.memory.work_ram[base + o + 1] as u32;
          (hi << 8 | lo) == before.pc
        };
        if !sub_disp || !ret_ok {
          broke = Some((format!("C08 invariant=halt-resume kind=not-in-handler-with-following-instruction-as-return run={}", RUN_NAME[before.run as usize]), "woken with IME on: expected PC = vector and the address following HALT/STOP pushed"));
        }
      } else if got.pc != before.pc || got.sp != before.sp {
        broke = Some((format!("C08 invariant=halt-resume kind=wrong-resume-address run={}", RUN_NAME[before.run as usize]), "woken with IME off: expected to continue at the instruction following HALT/STOP"));
      }
    } else if real_letter == Some(L_STOP) && pending_before != 0 && got.run != RUN {
      broke = Some(("C08 invariant=halt-resume kind=still-suspended-with-enabled-request run=Stop how=request-already-pending-at-stop".to_string(), "STOP executed with IF & IE & 0x1F != 0: the interrupt rule of the same update() must leave the CPU running"));
    } else if (real_letter == Some(L_HALT) || real_letter == Some(L_STOP)) && pending_before == 0 {
      // nothing pending (the IF/IE letters cannot run in the same update): must suspend
      let wantrun = if real_letter == Some(L_HALT) { HALT } else { STOP };
      let len = if real_letter == Some(L_HALT) { 1 } else { 2 };
      if got.run != wantrun || got.pc != before.pc + len || ref_pc_instr as u32 != before.pc + len {
        broke = Some((format!("C08 invariant=halt-resume kind=not-suspended-at-following-instruction op={}", ENAME[this_ev as usize]), "HALT/STOP with nothing pending must suspend with PC at the following instruction"));
      }
    }
    if let Some((key, what)) = broke {
      ctx.violation(&key, || detail(what, step, tr, &before, &want, &got, J::obj().set("subject_dispatched", J::Bool(sub_disp)).set("reference_dispatched", J::Bool(ref_disp))));
      ctx.count(K_DIVERGED, 1);
      break;
    }

    // ---- lock-step comparison
    let field = if got.ime != want.ime {
      Some("ime")
    } else if got.run != want.run {
      Some("run")
    } else if got.pc != want.pc {
      Some("pc")
    } else if got.sp != want.sp {
      Some("sp")
    } else if got.iflag != want.iflag {
      Some("if")
    } else if got.ie5 != want.ie5 {
      Some("ie")
    } else if got.af != want.af {
      Some("a")
    } else if core.memory.work_ram[so..so + STK_LEN] != bus.stack[..] {
      Some("stack")
    } else {
      None
    };
    if let Some(f) = field {
      // a dispatch both worlds performed but with a different outcome (return address, IF
      // acknowledge, IME, vector) has one key per field and kind of update
      let key = if f == "stack" || (ref_disp && sub_disp) {
        format!("C08 dispatch-after={} field={}", if suspended { "wake" } else { "instruction" }, f)
      } else {
        format!("C08 after={},{} field={} ime0={}", ENAME[ev[0] as usize], ENAME[ev[1] as usize], f, IME_NAME[init.ime as usize])
      };
      let stk = J::obj()
        .set("stack_expected_DFC0", J::s(world::hex(&bus.stack[..])))
        .set("stack_observed_DFC0", J::s(world::hex(&core.memory.work_ram[so..so + STK_LEN])))
        .set("subject_dispatched", J::Bool(sub_disp))
        .set("reference_dispatched", J::Bool(ref_disp));
      ctx.violation(&key, || detail("state after update() differs from R1+R4", step, tr, &before, &want, &got, stk));
      ctx.count(K_DIVERGED, 1);
      break;
    }
    if before_ref != before {
      // cannot happen: the previous iteration compared these
      bus.bad = true;
    }

    if let Some(l) = real_letter {
      prev_letter = if ref_disp { None } else { Some(l) };
      prev_ime_before = before.ime;
    } else if !suspended {
      prev_letter = None;
    }
    if quiet >= QUIET {
      break;
    }
  }
  if bus.bad {
    bus.bad = false;
    ctx.count(K_BADBUS, 1);
  }
}

fn stage(rep: &mut Report, name: &str, min_len: usize, max_len: usize, inits: &[Init], what_inits: &str) -> ([u64; crate::util::pool::NCOUNTERS], u64) {
  let n_seq = total_cases(max_len) - total_cases(min_len - 1);
  let opts = PoolOpts { chunk: 256, bitmap_bits: 1 << 24, ..PoolOpts::default() };
  let r = run_pool(
    n_seq,
    &opts,
    |_| make_worker(),
    |w, case, ctx| {
      let (len, letters) = decode_case(case, min_len, max_len);
      let p = layout(len, letters);
      // patch the program into both ROM images
      let b = BASE as usize;
      w.core.memory.rom[b..b + PROG_AREA].copy_from_slice(&p.bytes);
      w.bus.rom[b..b + PROG_AREA].copy_from_slice(&p.bytes);
      ctx.sample(|| J::obj().set("program", J::s(prog_string(&p))).set("bytes", J::s(world::hex(&p.bytes[..p.nbytes]))).set("initial_states", J::u(inits.len() as u64)));
      for init in inits.iter() {
        // a CPU that starts suspended with nothing enabled never reaches the program:
        // those initial states are program independent and run with the 8 one-letter
        // programs only
        if init.run != RUN && init.ie & 0x1F == 0 && len > 1 {
          continue;
        }
        run_history(w, &p, *init, ctx);
      }
    },
    |case, how| {
      let (len, letters) = decode_case(case, min_len, max_len);
      let p = layout(len, letters);
      (format!("C08 crash={}", how), J::obj().set("case", J::obj().set("program", J::s(prog_string(&p))).set("bytes", J::s(world::hex(&p.bytes[..p.nbytes])))))
    },
  );
  let states = r.distinct;
  let space = format!("every sequence of length {}..={} over 8 letters ({} programs) x {} initial states ({})", min_len, max_len, n_seq, inits.len(), what_inits);
  (rep.add_stage(name, &space, r), states)
}

pub fn run(tier: &str) -> i32 {
  let mut rep = Report::new("C08", tier, "model_checking");
  let thorough = rep.thorough();
  let max_len: usize = if thorough { 8 } else { 6 };
  rep.assume("R4 (DESIGN Appendix B): an update() is 'one instruction (or one 4-clock tick while suspended), then the interrupt rule'; initial states are installed between two update() calls, so from IME=Enabled with an enabled request already pending the first instruction executes before the dispatch");
  rep.assume("EnableNext is promoted to Enabled when the next instruction completes, before that instruction's own effect on IME (EI;DI -> Disabled, EI;EI -> Enabled after the second EI, EI;RETI -> Enabled, EI;HALT suspends with IME Enabled); EI while already Enabled leaves Enabled; no promotion happens on suspended ticks");
  rep.assume("STOP with an enabled request already pending is woken by the interrupt rule of the same update(); HALT executed while IF & IE & 0x1F != 0 cuts the history (hardware quirk excluded by the property)");
  rep.assume("IE is compared through interrupt_mask & 0x1F only; pending = IF & IE & 0x1F");
  rep.assume("when the CPU has been suspended for 3 ticks the harness raises one request the way a device does (interrupt_flag |= bit): the lowest enabled bit if IE & 0x1F != 0 (must wake), else bit 0 (must not wake); otherwise IF changes only through the alphabet, asserted as invariant if-bit-not-from-alphabet; the PPU object is replaced before it can leave the request-free window (lines 144..153, 0..119 of the power-on frame, STAT = 0), the timer is disabled");
  rep.assume("RETI pops the address of the instruction that follows it in the program (pre-seeded stack slot k for the k-th RETI), so the suffix after RETI still executes; handlers and unused ROM are NOP sleds ending in JR -2 and never return");
  rep.assume("initial states that start suspended with IE & 0x1F == 0 never reach the program and are executed with the 8 one-letter programs only");

  let mut inits: Vec<Init> = Vec::new();
  for run in [RUN, HALT, STOP].iter() {
    for ime in [EN, DIS, NEXT].iter() {
      for (f, e) in IFIE.iter() {
        for a in AVAL.iter() {
          inits.push(Init { ime: *ime, run: *run, iflag: *f, ie: *e, a: *a });
        }
      }
    }
  }
  let what = "run {Run,Halt,Stop} x IME {Enabled,Disabled,EnableNext} x (IF,IE) {none, requested-only, enabled-only, requested+enabled, requested/enabled disjoint with IE = E4} x A {00,E4,1F}";
  let (c, states) = stage(&mut rep, "lock-step", 1, max_len, &inits, what);
  let programs = total_cases(max_len);
  let deepest = max_len;
  // (the thorough tier used to run length 8 from a reduced set of initial states only; it now
  // runs every length up to 8 from all 135)
  // lock-step bookkeeping lost without any reported disagreement is the harness's fault; lost
  // after the subject and the reference have already been reported to disagree it is a
  // consequence of that disagreement (the reference no longer knows where the subject is)
  if c[K_BADBUS] != 0 && rep.violations.is_empty() {
    rep.machinery_soft(format!("reference saw an access outside ROM / stack window / IF / IE, or lost lock-step bookkeeping, in {} histories", c[K_BADBUS]));
  } else if c[K_BADBUS] != 0 {
    rep.cov("histories_cut_after_lock_step_was_lost", J::u(c[K_BADBUS]));
  }
  if c[K_MAXUPD] != 0 && rep.violations.is_empty() {
    rep.machinery_soft(format!("{} histories hit the {}-update safety cap", c[K_MAXUPD], MAX_UPDATES));
  }
  rep.evaluations = c[K_UPD];
  rep.distinct = states;
  rep.cov("states", J::u(states));
  rep.cov("transitions", J::u(c[K_UPD]));
  rep.cov("traces_validated_against_impl", J::u(c[K_HIST]));
  rep.cov("programs", J::u(programs));
  rep.cov("max_program_length_all_initial_states", J::u(max_len as u64));
  rep.cov("max_program_length", J::u(deepest as u64));
  rep.cov("initial_states", J::u(inits.len() as u64));
  rep.cov("instructions_executed", J::u(c[K_INSTR]));
  rep.cov("suspended_ticks", J::u(c[K_SUSP_TICKS]));
  rep.cov("histories_cut_at_halt_with_pending_request", J::u(c[K_CUT]));
  rep.cov("histories_stopped_at_first_divergence", J::u(c[K_DIVERGED]));
  rep.cov("dispatches", J::u(c[K_DISP]));
  rep.cov("requests_raised_while_suspended", J::u(c[K_INJ]));
  rep.cov("not_enabled_requests_raised_while_suspended", J::u(c[K_STAY_ASLEEP_INJ]));
  rep.cov("wakes_resuming_at_following_instruction", J::u(c[K_WAKE_NODISP]));
  rep.cov("wakes_into_handler", J::u(c[K_WAKE_DISP]));
  rep.cov("ei_then_di", J::u(c[K_EI_DI]));
  rep.cov("ei_then_di_with_request_pending", J::u(c[K_DI_IN_SHADOW_PENDING]));
  rep.cov("ei_then_ei", J::u(c[K_EI_EI]));
  rep.cov("ei_then_reti", J::u(c[K_EI_RETI]));
  rep.cov("halt_entered_from_enablenext", J::u(c[K_HALT_FROM_NEXT]));
  rep.cov("dispatch_right_after_ei_shadow", J::u(c[K_DISP_AFTER_SHADOW]));
  rep.cov("dispatch_right_after_reti", J::u(c[K_DISP_AFTER_RETI]));
  rep.cov("stop_with_request_pending", J::u(c[K_STOP_PENDING]));
  rep.cov("ppu_objects_replaced", J::u(c[K_VIDEO_RESET]));
  rep.cov(
    "rule",
    J::s("a state is the reference state (IME, run state, PC, SP, IF, IE, AF) after an update(), counted by digest per stage (the larger stage count is reported, a lower bound of the union); a transition is one Core::update() executed on the real core and on R1+R4; a trace is one history (program x initial state) compared after every update(); histories end 8 updates after control left the program (or after the suspended CPU was poked) and are stopped at the first divergence"),
  );
  rep.finish()
}
