//! C19 — ROM files are validated by header checksum and sized from the header tables;
//! short / corrupt / unsupported files are rejected at load time with a message or a
//! controlled termination, never by a fault during later execution.
//!
//! E1 + E4 + E2E on the functions `main.rs::load_rom` calls, in its order
//! (`world::load_like_main`: open_rom_file -> read_header -> valid_checksum ->
//! Core::from_rom_file), with R9 (Pan Docs cartridge header) as oracle.
//!
//! stages
//!   checksum     (a) structured patterns of 0x134-0x14C x {rest 00, rest FF} x all 256
//!                values of 0x14D, on Headers obtained by read_header from a real file and
//!                through the whole load sequence
//!   table        (b) type x ROM code x RAM code on Headers obtained by read_header:
//!                size getters against the tables, create_cart_state against the
//!                supported-type list
//!   table-load   (b') type x {12 defined ROM codes + 3 undefined} x RAM codes through the
//!                whole load sequence on files of exactly the declared size: buffer sizes
//!                of the loaded Core against the tables, last ROM byte read through the bus
//!   length       (c) file lengths around 0x100 / 0x150 / declared size: load decision
//!   length-touch (c) same files in crash-isolated workers: load and, if accepted, read the
//!                last declared ROM byte through memory_read_byte (worker death = fault
//!                during later execution)
//!   e2e          (d) the (c) files and a subset of the (a) files through the real
//!                executable; stdout / wait status against the in-process decision

use crate::emulator::Core;
use crate::mem::{memory_read_byte, memory_write_byte, MemoryAreas};
use crate::util::json::J;
use crate::util::pool::{run_pool, tmp_dir, PoolOpts};
use crate::util::report::Report;
use crate::world::load_like_main;
use std::fs::File;
use std::os::unix::fs::FileExt;
use std::panic::{catch_unwind, AssertUnwindSafe};
use std::time::{Duration, Instant};

// ------------------------------------------------------------------ R9 (Pan Docs header)

/// header checksum over the 25 bytes 0x134..=0x14C
fn r9_checksum(b: &[u8]) -> u8 {
  let mut x: u8 = 0;
  for v in b.iter() {
    x = x.wrapping_sub(*v).wrapping_sub(1);
  }
  x
}

fn r9_rom_bytes(code: u8) -> Option<usize> {
  match code {
    0x00..=0x08 => Some((32 * 1024) << code),
    0x52 => Some(72 * 16 * 1024),
    0x53 => Some(80 * 16 * 1024),
    0x54 => Some(96 * 16 * 1024),
    _ => None,
  }
}

fn r9_ram_bytes(code: u8) -> Option<usize> {
  match code {
    0 => Some(0),
    1 => Some(2 * 1024),
    2 => Some(8 * 1024),
    3 => Some(32 * 1024),
    4 => Some(128 * 1024),
    5 => Some(64 * 1024),
    _ => None,
  }
}

#[derive(Clone, Copy, PartialEq, Debug)]
enum Ctl {
  Flat,
  Mbc1,
  Mbc3,
}

/// the controller types this emulator supports (fixed by the property's task statement)
fn r9_controller(t: u8) -> Option<Ctl> {
  match t {
    0x00 => Some(Ctl::Flat),
    0x01 | 0x02 | 0x03 => Some(Ctl::Mbc1),
    0x11 | 0x12 | 0x13 => Some(Ctl::Mbc3),
    _ => None,
  }
}

fn ctl_name(c: Option<Ctl>) -> &'static str {
  match c {
    Some(Ctl::Flat) => "none",
    Some(Ctl::Mbc1) => "MBC1",
    Some(Ctl::Mbc3) => "MBC3",
    None => "unsupported",
  }
}

const DEFINED_ROM_CODES: [u8; 12] = [0, 1, 2, 3, 4, 5, 6, 7, 8, 0x52, 0x53, 0x54];
const SUPPORTED_TYPES: [u8; 7] = [0x00, 0x01, 0x02, 0x03, 0x11, 0x12, 0x13];
const BIG: u64 = 8 * 1024 * 1024;
const MARK: u8 = 0xA5;

// ------------------------------------------------------------------ files

/// First 0x150 bytes of an image: program at the entry point (continued in the logo area,
/// which nothing validates, when longer than 4 bytes), title, type/size bytes, checksum.
fn head(cart_type: u8, rom_code: u8, ram_code: u8, prog: &[u8]) -> Vec<u8> {
  let mut h = vec![0u8; 0x150];
  if prog.len() <= 4 {
    h[0x100..0x100 + prog.len()].copy_from_slice(prog);
  } else {
    assert!(prog.len() <= 48);
    h[0x100] = 0x18; // JR +2 -> 0x104
    h[0x101] = 0x02;
    h[0x104..0x104 + prog.len()].copy_from_slice(prog);
  }
  for (i, b) in b"GBMC19".iter().enumerate() {
    h[0x134 + i] = *b;
  }
  h[0x147] = cart_type;
  h[0x148] = rom_code;
  h[0x149] = ram_code;
  h[0x14D] = r9_checksum(&h[0x134..0x14D]);
  h
}

/// Sparse file of `len` bytes; each part is written as far as it fits below `len`.
fn make_file(path: &str, len: u64, parts: &[(u64, &[u8])]) -> File {
  let f = std::fs::OpenOptions::new().read(true).write(true).create(true).truncate(true).open(path).expect("c19: create rom file");
  f.set_len(len).expect("c19: set_len");
  for (off, bytes) in parts {
    if *off < len {
      let n = ((len - *off) as usize).min(bytes.len());
      f.write_all_at(&bytes[..n], *off).expect("c19: write rom file");
    }
  }
  f
}

/// One sparse file per defined ROM size (index = position in DEFINED_ROM_CODES) plus an
/// 8 MiB one for undefined ROM codes (index 12); last byte of each = MARK.  Headers are
/// rewritten in place, so that every header is judged in a file of exactly the size it
/// declares (a loader that compares the two must not disturb the header checks).
struct SizedFiles {
  files: Vec<(String, File, File)>, // path, write handle, read handle from open_rom_file
}

fn size_index(rom_code: u8) -> usize {
  DEFINED_ROM_CODES.iter().position(|c| *c == rom_code).unwrap_or(DEFINED_ROM_CODES.len())
}

impl SizedFiles {
  fn new(dir: &str, tag: &str, slot: usize) -> SizedFiles {
    let mut files = Vec::new();
    for i in 0..=DEFINED_ROM_CODES.len() {
      let len = if i < DEFINED_ROM_CODES.len() { r9_rom_bytes(DEFINED_ROM_CODES[i]).unwrap() as u64 } else { BIG };
      let path = format!("{}/{}_s{}_{}_{}.gb", dir, tag, slot, unsafe { libc::getpid() }, i);
      let wf = make_file(&path, len, &[(len - 1, &[MARK])]);
      let rf = crate::system::open_rom_file(path.clone()).expect("c19: open_rom_file on own file");
      files.push((path, wf, rf));
    }
    SizedFiles { files }
  }
  /// put the 80 header bytes into the file whose length matches `rom_code`
  fn put(&mut self, rom_code: u8, header_block: &[u8]) -> usize {
    let i = size_index(rom_code);
    self.files[i].1.write_all_at(header_block, 0x100).expect("c19: rewrite header");
    i
  }
  fn len_of(i: usize) -> u64 {
    if i < DEFINED_ROM_CODES.len() { r9_rom_bytes(DEFINED_ROM_CODES[i]).unwrap() as u64 } else { BIG }
  }
}

fn rm(path: &str) {
  let _ = std::fs::remove_file(path);
}

// ------------------------------------------------------------------ the load sequence

enum Load {
  Accepted(Box<Core>),
  Msg(String),
  Panic(String),
}

fn payload_text(p: &Box<dyn std::any::Any + Send>) -> Option<String> {
  if let Some(s) = p.downcast_ref::<&str>() {
    Some(s.to_string())
  } else if let Some(s) = p.downcast_ref::<String>() {
    Some(s.clone())
  } else {
    None
  }
}

fn try_load(path: &str) -> Load {
  match catch_unwind(AssertUnwindSafe(|| load_like_main(path))) {
    Ok(Ok(core)) => Load::Accepted(core),
    Ok(Err(m)) => Load::Msg(m),
    Err(p) => Load::Panic(payload_text(&p).unwrap_or_default()),
  }
}

fn load_kind(l: &Load) -> (u64, &'static str) {
  match l {
    Load::Accepted(_) => (0, "accepted"),
    Load::Msg(_) => (1, "rejected-message"),
    Load::Panic(_) => (2, "rejected-panic"),
  }
}

fn load_json(l: &Load) -> J {
  match l {
    Load::Accepted(c) => J::obj().set("decision", J::s("accepted")).set("rom_len", J::u(c.memory.rom.len() as u64)).set("cart_ram_len", J::u(c.memory.cart_ram.len() as u64)),
    Load::Msg(m) => J::obj().set("decision", J::s("rejected with message")).set("message", J::s(m.as_str())),
    Load::Panic(m) => J::obj().set("decision", J::s("refused by catchable panic")).set("message", J::s(m.as_str())),
  }
}

/// Write the bank number of the last declared bank the way a program would.
fn select_last_bank(core: &mut Core, ctl: Ctl, banks: usize) {
  let want = banks - 1;
  let m = &mut core.memory as *mut MemoryAreas;
  match ctl {
    Ctl::Flat => {},
    Ctl::Mbc1 => {
      if want <= 127 {
        memory_write_byte(m, 0x2100, (want & 0x1f) as u8);
        memory_write_byte(m, 0x4000, (want >> 5) as u8);
      }
    },
    Ctl::Mbc3 => {
      if want <= 127 {
        memory_write_byte(m, 0x2100, want as u8);
      }
    },
  }
}

/// SM83 program with the same effect as `select_last_bank` + read of 0x7FFF, then a loop.
/// two bytes the program sends over the serial port before anything else: a file that is
/// accepted and runs shows them on standard output, whatever the loader prints around them
const RUN_MARK: [u8; 2] = [0x1B, 0x9D];

fn touch_prog(ctl: Ctl, banks: usize) -> Vec<u8> {
  let want = banks - 1;
  let mut p: Vec<u8> = Vec::new();
  for m in RUN_MARK.iter() {
    p.extend_from_slice(&[0x3E, *m, 0xE0, 0x01, 0x3E, 0x81, 0xE0, 0x02]);
  }
  match ctl {
    Ctl::Mbc1 if want <= 127 => p.extend_from_slice(&[0x3E, (want & 0x1f) as u8, 0xEA, 0x00, 0x21, 0x3E, (want >> 5) as u8, 0xEA, 0x00, 0x40]),
    Ctl::Mbc3 if want <= 127 => p.extend_from_slice(&[0x3E, want as u8, 0xEA, 0x00, 0x21]),
    _ => {},
  }
  p.extend_from_slice(&[0xFA, 0xFF, 0x7F, 0x18, 0xFE]); // LD A,(0x7FFF) ; JR -2
  p
}

/// Read the last declared ROM byte through the bus.  Returns (value, Some(file offset))
/// when the selected bank is the last declared one; when it is not reachable with this
/// controller (no controller and > 32 KiB, > 128 banks) 0x7FFF is read under whatever
/// bank is selected, provided that bank lies inside the mapped ROM (a read outside would
/// be a banking matter, not a file-validation one).
fn touch_last(core: &mut Core, ctl: Ctl, banks: usize) -> Option<(u8, Option<usize>)> {
  select_last_bank(core, ctl, banks);
  let bank = core.memory.get_rom_bank();
  let off = bank * 0x4000 + 0x3fff;
  if off >= core.memory.rom.len() {
    return None;
  }
  let v = memory_read_byte(&core.memory as *const MemoryAreas, 0x7FFF);
  Some((v, if bank == banks - 1 { Some(off) } else { None }))
}

// ------------------------------------------------------------------ (a) patterns

const N_PATTERNS: usize = 203;

fn pattern(p: usize) -> [u8; 25] {
  let mut b = [0u8; 25];
  if p < 200 {
    b[p / 8] = 1 << (p % 8);
  } else if p == 201 {
    b = [0xFF; 25];
  } else if p == 202 {
    for i in 0..25 {
      b[i] = i as u8;
    }
  }
  b
}

fn pattern_name(p: usize) -> String {
  if p < 200 {
    format!("one-hot: byte 0x{:03X} = 0x{:02X}, others 00", 0x134 + p / 8, 1u32 << (p % 8))
  } else if p == 200 {
    "all 00".to_string()
  } else if p == 201 {
    "all FF".to_string()
  } else {
    "counting 00,01,..,18".to_string()
  }
}

// ------------------------------------------------------------------ (c) cases

/// the first 12 are the quick tier's lengths, the thorough tier adds page / bank boundaries
const LEN_NAMES: [&str; 16] = ["0", "1", "0xFF", "0x100", "0x101", "0x14F", "0x150", "0x151", "declared-4096", "declared-1", "declared", "declared+1", "0x1000", "0x4000", "declared/2", "declared-4097"];

fn len_of(idx: usize, declared: u64) -> u64 {
  match idx {
    0 => 0,
    1 => 1,
    2 => 0xFF,
    3 => 0x100,
    4 => 0x101,
    5 => 0x14F,
    6 => 0x150,
    7 => 0x151,
    8 => declared - 4096,
    9 => declared - 1,
    10 => declared,
    11 => declared + 1,
    12 => 0x1000,
    13 => 0x4000,
    14 => declared / 2,
    _ => declared - 4097,
  }
}

fn len_class(len: u64, declared: u64) -> &'static str {
  if len < 0x150 {
    "lt-0x150"
  } else if len < declared {
    "short"
  } else if len == declared {
    "declared"
  } else {
    "longer"
  }
}

fn declared_class(declared: u64) -> &'static str {
  if declared == 0x8000 {
    "32K"
  } else {
    "banked"
  }
}

#[derive(Clone, Copy)]
struct LenCase {
  len_idx: usize,
  rom_code: u8,
  cart_type: u8,
}

impl LenCase {
  fn declared(&self) -> u64 {
    r9_rom_bytes(self.rom_code).unwrap() as u64
  }
  fn len(&self) -> u64 {
    len_of(self.len_idx, self.declared())
  }
  fn ctl(&self) -> Ctl {
    r9_controller(self.cart_type).unwrap()
  }
  fn banks(&self) -> usize {
    (self.declared() / 0x4000) as usize
  }
  fn json(&self) -> J {
    J::obj()
      .set("file_length", J::u(self.len()))
      .set("file_length_name", J::s(LEN_NAMES[self.len_idx]))
      .set("declared_bytes", J::u(self.declared()))
      .set("cart_type", J::s(format!("0x{:02X}", self.cart_type)))
      .set("rom_code", J::s(format!("0x{:02X}", self.rom_code)))
      .set("ram_code", J::s("0x00"))
      .set(
        "how",
        J::s("image = 0x150-byte header block (valid checksum) + zeros, byte[declared-1] = 0xA5, truncated/extended to file_length; load_rom sequence (open_rom_file, read_header, valid_checksum, Core::from_rom_file); if accepted select the last declared bank (MBC1: 0x2100<-bank&0x1F, 0x4000<-bank>>5; MBC3: 0x2100<-bank) and read 0x7FFF through memory_read_byte"),
      )
  }
  /// build the file; `prog` is placed at the entry point
  fn build(&self, path: &str, prog: &[u8]) {
    let h = head(self.cart_type, self.rom_code, 0, prog);
    let d = self.declared();
    let f = make_file(path, self.len(), &[(0, &h[..]), (d - 1, &[MARK]), (d, &[0x5A])]);
    drop(f);
  }
}

fn len_cases(thorough: bool) -> Vec<LenCase> {
  let rom_codes: Vec<u8> = if thorough { DEFINED_ROM_CODES.to_vec() } else { vec![0x00, 0x01, 0x05] };
  let types: Vec<u8> = if thorough { SUPPORTED_TYPES.to_vec() } else { vec![0x00, 0x01, 0x13] };
  let mut v = Vec::new();
  for &rom_code in rom_codes.iter() {
    for len_idx in 0..(if thorough { 16 } else { 12 }) {
      for &cart_type in types.iter() {
        v.push(LenCase { len_idx, rom_code, cart_type });
      }
    }
  }
  v
}

// ------------------------------------------------------------------ (d) E2E helpers

fn sig_name(s: i32) -> String {
  match s {
    libc::SIGABRT => "SIGABRT".to_string(),
    libc::SIGSEGV => "SIGSEGV".to_string(),
    libc::SIGBUS => "SIGBUS".to_string(),
    libc::SIGILL => "SIGILL".to_string(),
    libc::SIGFPE => "SIGFPE".to_string(),
    libc::SIGKILL => "SIGKILL".to_string(),
    o => format!("SIG{}", o),
  }
}

/// In-process decision in a forked grandchild: load sequence, and if accepted the effect
/// of the file's program (bank select writes + read of 0x7FFF, unguarded).
fn inproc_class(path: &str, ctl: Ctl, banks: usize) -> String {
  let pid = unsafe { libc::fork() };
  if pid < 0 {
    return "fork-failed".to_string();
  }
  if pid == 0 {
    let code = match try_load(path) {
      Load::Accepted(mut core) => {
        select_last_bank(&mut core, ctl, banks);
        let v = memory_read_byte(&core.memory as *const MemoryAreas, 0x7FFF);
        std::hint::black_box(v);
        0
      },
      Load::Msg(m) => {
        if m.is_empty() {
          12
        } else {
          10
        }
      },
      Load::Panic(_) => 11,
    };
    unsafe { libc::_exit(code) };
  }
  let mut status = 0;
  unsafe { libc::waitpid(pid, &mut status, 0) };
  if libc::WIFSIGNALED(status) {
    format!("fault={}", sig_name(libc::WTERMSIG(status)))
  } else {
    match libc::WEXITSTATUS(status) {
      0 => "running".to_string(),
      10 => "rejected-message".to_string(),
      11 => "panic".to_string(),
      12 => "rejected-silent".to_string(),
      o => format!("exit{}", o),
    }
  }
}

struct BinRun {
  class: String,
  stdout: String,
  stderr: String,
}

/// Run the real executable on `rom`.  It never exits on its own once a core runs (the
/// headless shell loops forever), so: poll; once stdout shows the load decision wait
/// `grace` for a fault, then kill it (alive = running).
fn run_binary(bin: &str, rom: &str, scratch: &str, grace: Duration) -> BinRun {
  use std::os::unix::process::ExitStatusExt;
  let outp = format!("{}.out", scratch);
  let errp = format!("{}.err", scratch);
  let fail = |what: &str| BinRun { class: format!("machinery:{}", what), stdout: String::new(), stderr: String::new() };
  let of = match File::create(&outp) {
    Ok(f) => f,
    Err(_) => return fail("stdout-file"),
  };
  let ef = match File::create(&errp) {
    Ok(f) => f,
    Err(_) => return fail("stderr-file"),
  };
  let mut child = match std::process::Command::new(bin).arg(rom).env("RUST_BACKTRACE", "0").stdin(std::process::Stdio::null()).stdout(of).stderr(ef).spawn() {
    Ok(c) => c,
    Err(_) => return fail("spawn"),
  };
  let t0 = Instant::now();
  let mut decided_at: Option<Instant> = None;
  let mut grace = grace;
  let mut exited: Option<std::process::ExitStatus> = None;
  let mut killed_silent = false;
  loop {
    match child.try_wait() {
      Ok(Some(st)) => {
        exited = Some(st);
        break;
      },
      Ok(None) => {},
      Err(_) => {
        let _ = child.kill();
        let _ = child.wait();
        return fail("wait");
      },
    }
    if decided_at.is_none() {
      let raw = std::fs::read(&outp).unwrap_or_default();
      let text = String::from_utf8_lossy(&raw).to_string();
      if raw.windows(2).any(|w| w == RUN_MARK) {
        // the file's own program is running (decided by behaviour, not by the loader's wording)
        decided_at = Some(Instant::now());
      } else if text.contains("No ROM, loading fallback") {
        // rejected: the built-in fallback program runs, the file plays no further part
        decided_at = Some(Instant::now());
        grace = Duration::from_millis(0);
      } else if t0.elapsed() > Duration::from_millis(2500) {
        // alive, silent about it in words we know, and the program's mark has not appeared:
        // the file was not run (a loader that words its refusal differently ends up here)
        decided_at = Some(Instant::now());
        grace = Duration::from_millis(0);
      }
    }
    if let Some(t) = decided_at {
      if t.elapsed() >= grace {
        let _ = child.kill();
        let _ = child.wait();
        break;
      }
    } else if t0.elapsed() > Duration::from_secs(20) {
      let _ = child.kill();
      let _ = child.wait();
      killed_silent = true;
      break;
    }
    std::thread::sleep(Duration::from_millis(2));
  }
  let raw_out = std::fs::read(&outp).unwrap_or_default();
  let ran = raw_out.windows(2).any(|w| w == RUN_MARK);
  let stdout = String::from_utf8_lossy(&raw_out).to_string();
  let stderr = std::fs::read(&errp).map(|b| String::from_utf8_lossy(&b).to_string()).unwrap_or_default();
  rm(&outp);
  rm(&errp);
  let class = if let Some(st) = exited {
    if let Some(s) = st.signal() {
      format!("fault={}", sig_name(s))
    } else if st.code() == Some(101) {
      "panic".to_string()
    } else {
      format!("exit{}", st.code().unwrap_or(-1))
    }
  } else if killed_silent {
    "machinery:no-decision-line-in-20s".to_string()
  } else if ran {
    "running".to_string()
  } else {
    // fallback core is running: the file was rejected; was there a message before it?
    let before = stdout.split("No ROM, loading fallback").next().unwrap_or("");
    if before.contains("ROM file is corrupt") || before.contains("File too short") || before.contains("Unable to") || !before.trim().is_empty() {
      "rejected-message".to_string()
    } else {
      "rejected-silent".to_string()
    }
  };
  let cut = |s: &str| -> String { s.chars().take(300).collect() };
  BinRun { class, stdout: cut(&stdout), stderr: cut(&stderr) }
}

#[derive(Clone, Copy)]
enum E2e {
  Length(LenCase),
  /// (pattern, delta added to the correct checksum)
  Checksum(usize, u8),
}

// ------------------------------------------------------------------ run

pub fn run(tier: &str) -> i32 {
  let mut rep = Report::new("C19", tier, "fault_enumeration");
  let thorough = rep.thorough();
  rep.assume("R9 written from the Pan Docs cartridge header: checksum x=0; for 0x134..=0x14C: x = x - byte - 1; ROM codes 00-08 -> 32 KiB << n, 52/53/54 -> 72/80/96 banks; RAM codes 0..5 -> 0, 2K, 8K, 32K, 128K, 64K");
  rep.assume("supported controller types are 00 (none), 01-03 (MBC1), 11-13 (MBC3); every other type byte must be refused (message or catchable panic)");
  rep.assume("undefined ROM/RAM size codes: only 'no crash' is judged (the tables give no value)");
  rep.assume("a file longer than its declared size may be accepted or rejected (the statement is silent); it must not crash");
  rep.assume("a rejection may be an Err(message) or a catchable panic (controlled termination); both are accepted everywhere a rejection is required");
  rep.assume("'random elsewhere' of the quantifier is replaced by structured patterns: 25x8 one-hot, all-00, all-FF, counting over 0x134-0x14C, each with the rest of the header 00 and FF");
  rep.assume("the loader is exercised through world::load_like_main, which mirrors main.rs::load_rom on the same public functions; the real main.rs is exercised by the e2e stage");
  // reference tables of the harness helpers agree with R9 of this module
  for c in 0..=255u8 {
    if crate::world::rom_banks_for_code(c).map(|b| b * 0x4000) != r9_rom_bytes(c) || crate::world::ram_bytes_for_code(c) != r9_ram_bytes(c) {
      rep.machinery_error(format!("world.rs size tables and R9 disagree on code {:02X}", c));
    }
  }
  let dir = format!("{}/c19", tmp_dir());
  let _ = std::fs::create_dir_all(&dir);
  let mut evaluations = 0u64;

  // ================================================================ (a) checksum
  {
    let n_cases = (N_PATTERNS * 2) as u64;
    let opts = PoolOpts { chunk: 2, bitmap_bits: 1 << 12, ..PoolOpts::default() };
    let dir2 = dir.clone();
    let r = run_pool(
      n_cases,
      &opts,
      |slot| SizedFiles::new(&dir2, "a", slot),
      |w, case, ctx| {
        let p = (case / 2) as usize;
        let outside: u8 = if case % 2 == 0 { 0x00 } else { 0xFF };
        let pat = pattern(p);
        let good = r9_checksum(&pat);
        let mut hb = [outside; 0x50];
        hb[0x34..0x4D].copy_from_slice(&pat);
        let (t, romc, ramc) = (pat[0x13], pat[0x14], pat[0x15]);
        let case_json = |ck: u8, hb: &[u8; 0x50], path: &str| {
          J::obj()
            .set("pattern_0x134_0x14C", J::s(pattern_name(p)))
            .set("other_header_bytes", J::s(format!("{:02X}", outside)))
            .set("byte_0x14D", J::s(format!("{:02X}", ck)))
            .set("header_0x100_0x14F", J::s(crate::world::hex(&hb[..])))
            .set("file", J::s(format!("{} bytes (the size the ROM code declares; 8 MiB for undefined codes), zeros outside the header, last byte A5; via {}", SizedFiles::len_of(size_index(romc)), path)))
        };
        // direct: Header::valid_checksum on a Header read by read_header
        for ck in 0..=255u8 {
          hb[0x4D] = ck;
          let fi = w.put(romc, &hb);
          let want = ck == good;
          ctx.count(0, 1);
          match crate::system::read_header(&mut w.files[fi].2) {
            Ok(h) => {
              let got = h.valid_checksum();
              ctx.class((got as u64) << 1 | want as u64);
              if got != want {
                let kind = if got { "accepted-bad" } else { "rejected-good" };
                ctx.violation(&format!("C19 case=checksum kind={}", kind), || {
                  J::obj().set("case", case_json(ck, &hb, "read_header + Header::valid_checksum")).set("expected", J::obj().set("valid", J::Bool(want)).set("r9_checksum", J::s(format!("{:02X}", good)))).set("observed", J::obj().set("valid", J::Bool(got)))
                });
              }
            },
            Err(m) => {
              if r9_rom_bytes(romc).is_some() {
                ctx.violation("C19 case=checksum kind=header-unreadable", || J::obj().set("case", case_json(ck, &hb, "read_header")).set("expected", J::s("Ok(header): the file is as long as its header declares")).set("observed", J::s(m.as_str())));
              } else {
                ctx.count(4, 1); // undefined ROM code refused by read_header: allowed
              }
            },
          }
        }
        // the load sequence; the one value that passes the checksum test goes last
        for i in 1..=256u32 {
          let ck = good.wrapping_add(i as u8);
          hb[0x4D] = ck;
          let fi = w.put(romc, &hb);
          let want = ck == good;
          ctx.count(1, 1);
          let l = try_load(&w.files[fi].0);
          let (k, _) = load_kind(&l);
          ctx.class(0x10 | k << 1 | want as u64);
          if want {
            ctx.count(2, 1);
          }
          if !want {
            if let Load::Accepted(_) = l {
              ctx.violation("C19 case=checksum kind=accepted-bad", || {
                J::obj().set("case", case_json(ck, &hb, "load sequence")).set("expected", J::obj().set("decision", J::s("rejected")).set("r9_checksum", J::s(format!("{:02X}", good)))).set("observed", load_json(&l))
              });
            }
          } else if r9_controller(t).is_some() && r9_rom_bytes(romc).is_some() && r9_ram_bytes(ramc).is_some() {
            // a completely valid image of exactly its declared size: must be accepted
            ctx.count(3, 1);
            match l {
              Load::Accepted(_) => {},
              _ => {
                ctx.violation("C19 case=checksum kind=rejected-good", || J::obj().set("case", case_json(ck, &hb, "load sequence")).set("expected", J::obj().set("decision", J::s("accepted"))).set("observed", load_json(&l)));
              },
            }
          }
        }
        if p == 202 && outside == 0 {
          ctx.sample(|| J::obj().set("stage", J::s("checksum")).set("pattern", J::s(pattern_name(p))).set("r9_checksum", J::s(format!("{:02X}", good))).set("values_of_0x14D", J::s("all 256")));
        }
      },
      |case, how| {
        let p = (case / 2) as usize;
        let outside: u8 = if case % 2 == 0 { 0x00 } else { 0xFF };
        let pat = pattern(p);
        let mut hb = [outside; 0x50];
        hb[0x34..0x4D].copy_from_slice(&pat);
        hb[0x4D] = r9_checksum(&pat);
        (
          format!("C19 case=checksum kind=crash={}", how),
          J::obj()
            .set(
              "case",
              J::obj()
                .set("pattern_0x134_0x14C", J::s(pattern_name(p)))
                .set("other_header_bytes", J::s(format!("{:02X}", outside)))
                .set("byte_0x14D", J::s(format!("{:02X} (the R9-valid value: the only one the load sequence lets past the checksum test; it is run last)", hb[0x4D])))
                .set("header_0x100_0x14F", J::s(crate::world::hex(&hb)))
                .set("file", J::s(format!("{} bytes (the size the ROM code declares), zeros outside the header, last byte A5; via the load sequence", SizedFiles::len_of(size_index(pat[0x14]))))),
            )
            .set("expected", J::s("a load decision (accepted / message / catchable panic)"))
            .set("observed", J::s("the process running the load sequence was killed")),
        )
      },
    );
    let crashes = r.crashes;
    let c = rep.add_stage("checksum", "203 patterns of 0x134-0x14C (25x8 one-hot, all-00, all-FF, counting) x rest-of-header {00,FF} x all 256 values of 0x14D, each through read_header+valid_checksum and through the load sequence", r);
    evaluations += c[0] + c[1] + crashes;
    rep.cov("checksum_headers_judged_direct", J::u(c[0]));
    rep.cov("checksum_headers_judged_via_load", J::u(c[1]));
    rep.cov("checksum_valid_headers", J::u(c[2]));
    rep.cov("checksum_valid_complete_images_required_accepted", J::u(c[3]));
  }

  // ================================================================ (b) tables on Headers
  {
    let ram_codes: Vec<u8> = if thorough { (0..=255u8).collect() } else { vec![0, 1, 2, 3, 4, 5, 6, 0xFF] };
    let n_cases = 65536u64;
    let opts = PoolOpts { chunk: 64, bitmap_bits: 1 << 16, ..PoolOpts::default() };
    let dir2 = dir.clone();
    let r = run_pool(
      n_cases,
      &opts,
      |slot| (SizedFiles::new(&dir2, "b", slot), head(0, 0, 0, &[0x18, 0xFE])),
      |wb, case, ctx| {
        let (w, base) = (&mut wb.0, &mut wb.1);
        let t = (case >> 8) as u8;
        let romc = (case & 0xff) as u8;
        for &ramc in ram_codes.iter() {
          ctx.count(0, 1);
          base[0x147] = t;
          base[0x148] = romc;
          base[0x149] = ramc;
          base[0x14D] = r9_checksum(&base[0x134..0x14D]);
          let fi = w.put(romc, &base[0x100..0x150]);
          let case_json = || J::obj().set("cart_type", J::s(format!("0x{:02X}", t))).set("rom_code", J::s(format!("0x{:02X}", romc))).set("ram_code", J::s(format!("0x{:02X}", ramc))).set("how", J::s("file of the declared size (8 MiB for undefined ROM codes), valid checksum; read_header, then the Header getters / create_cart_state"));
          let h = match crate::system::read_header(&mut w.files[fi].2) {
            Ok(h) => h,
            Err(_) if r9_rom_bytes(romc).is_none() => {
              ctx.count(4, 1); // undefined ROM code refused by read_header: allowed
              continue;
            },
            Err(m) => {
              ctx.violation("C19 case=table field=header code=any kind=unreadable", || J::obj().set("case", case_json()).set("expected", J::s("Ok(header): the file is as long as its header declares")).set("observed", J::s(m.as_str())));
              continue;
            },
          };
          if !h.valid_checksum() {
            ctx.violation("C19 case=checksum kind=rejected-good", || J::obj().set("case", case_json()).set("expected", J::obj().set("valid", J::Bool(true))).set("observed", J::obj().set("valid", J::Bool(false))));
          }
          // sizes
          let want_rom = r9_rom_bytes(romc);
          let want_ram = r9_ram_bytes(ramc);
          match catch_unwind(AssertUnwindSafe(|| (h.get_rom_size_bytes(), h.get_ram_size_bytes()))) {
            Ok((rom, ram)) => {
              if let Some(wr) = want_rom {
                if rom != wr {
                  ctx.violation(&format!("C19 case=table field=rom code=0x{:02X}", romc), || J::obj().set("case", case_json()).set("expected", J::obj().set("rom_bytes", J::u(wr as u64))).set("observed", J::obj().set("rom_bytes", J::u(rom as u64))));
                }
              }
              if let Some(wr) = want_ram {
                if ram != wr {
                  ctx.violation(&format!("C19 case=table field=ram code=0x{:02X}", ramc), || J::obj().set("case", case_json()).set("expected", J::obj().set("ram_bytes", J::u(wr as u64))).set("observed", J::obj().set("ram_bytes", J::u(ram as u64))));
                }
              }
            },
            Err(p) => {
              let (f, cls) = if want_rom.is_none() { ("rom", "undefined") } else if want_ram.is_none() { ("ram", "undefined") } else { ("rom", "defined") };
              ctx.violation(&format!("C19 case=table field={} code={} kind=panic", f, cls), || J::obj().set("case", case_json()).set("expected", J::s("size getters return")).set("observed", J::s(payload_text(&p).unwrap_or_default())));
            },
          }
          // controller
          let want_ctl = r9_controller(t);
          let res = catch_unwind(AssertUnwindSafe(|| h.create_cart_state()));
          match (want_ctl, res) {
            (Some(ctl), Ok(mut cs)) => {
              ctx.count(2, 1);
              ctx.class(0x100 | (ctl as u64) << 4 | (want_rom.is_some() as u64) << 1 | want_ram.is_some() as u64);
              // which controller? judged where the answer cannot depend on ROM-size
              // masking: 64..512 banks, bank register <- 0x25 at power-on
              let banks = want_rom.map(|b| b / 0x4000).unwrap_or(0);
              if banks >= 64 && banks.is_power_of_two() {
                ctx.count(3, 1);
                let got = catch_unwind(AssertUnwindSafe(|| {
                  cs.write_rom(0x2100, 0x25);
                  cs.get_rom_bank()
                }));
                let want_bank = match ctl {
                  Ctl::Flat => 1usize,
                  Ctl::Mbc1 => 0x05,
                  Ctl::Mbc3 => 0x25,
                };
                if got.as_ref().ok() != Some(&want_bank) {
                  ctx.violation(&format!("C19 case=table field=type code=0x{:02X} kind=wrong-controller", t), || {
                    J::obj()
                      .set("case", case_json())
                      .set("probe", J::s("fresh controller, write 0x25 to 0x2100, read selected ROM bank"))
                      .set("expected", J::obj().set("controller", J::s(ctl_name(Some(ctl)))).set("rom_bank", J::u(want_bank as u64)))
                      .set("observed", J::obj().set("rom_bank", match got { Ok(b) => J::u(b as u64), Err(_) => J::s("panic") }))
                  });
                }
              }
            },
            (Some(ctl), Err(p)) => {
              ctx.violation(&format!("C19 case=table field=type code=0x{:02X} kind=refused", t), || J::obj().set("case", case_json()).set("expected", J::obj().set("controller", J::s(ctl_name(Some(ctl))))).set("observed", J::obj().set("panic", J::s(payload_text(&p).unwrap_or_default()))));
            },
            (None, Ok(_)) => {
              ctx.class(0x200);
              ctx.violation("C19 case=table field=type code=unsupported kind=accepted", || J::obj().set("case", case_json()).set("expected", J::s("refused (message or catchable panic)")).set("observed", J::s("create_cart_state returned a controller")));
            },
            (None, Err(p)) => {
              ctx.count(1, 1);
              ctx.class(0x201 | (want_rom.is_some() as u64) << 2 | (want_ram.is_some() as u64) << 1);
              match payload_text(&p) {
                Some(m) if !m.is_empty() => {},
                _ => {
                  ctx.violation("C19 case=table field=type code=unsupported kind=panic-without-message", || J::obj().set("case", case_json()).set("expected", J::s("panic carrying a message")).set("observed", J::s("payload is not a string / empty")));
                },
              }
            },
          }
        }
        if case == 0x1305 {
          ctx.sample(|| J::obj().set("stage", J::s("table")).set("cart_type", J::s("0x13")).set("rom_code", J::s("0x05")).set("ram_codes", J::u(ram_codes.len() as u64)).set("expected", J::s("1 MiB, MBC3, RAM per code")));
        }
      },
      |case, how| (format!("C19 case=table field=header code=any kind=crash={}", how), J::obj().set("case", J::obj().set("cart_type", J::s(format!("0x{:02X}", case >> 8))).set("rom_code", J::s(format!("0x{:02X}", case & 0xff))).set("ram_code", J::s("one of the tier's RAM codes")))),
    );
    let crashes = r.crashes;
    let space = if thorough { "all 2^24 (type, ROM code, RAM code) triples, checksum valid, Header obtained by read_header from a real file" } else { "256 types x 256 ROM codes x RAM codes {0..6, 0xFF}, checksum valid, Header obtained by read_header from a real file" };
    let c = rep.add_stage("table", space, r);
    evaluations += c[0] + crashes;
    rep.cov("table_triples", J::u(c[0]));
    rep.cov("table_unsupported_refused_by_panic_with_message", J::u(c[1]));
    rep.cov("table_controllers_produced", J::u(c[2]));
    rep.cov("table_controller_kind_probed", J::u(c[3]));
  }

  // ================================================================ (b') tables on loaded cores
  {
    // ROM selector: 12 defined codes + 3 undefined ones (file = 8 MiB for those)
    let rom_sel: Vec<u8> = {
      let mut v = DEFINED_ROM_CODES.to_vec();
      v.extend_from_slice(&[0x09, 0x51, 0xFF]);
      v
    };
    let ram_codes: Vec<u8> = if thorough { (0..=31u8).chain([0x7F, 0x80, 0xFE, 0xFF].iter().copied()).collect() } else { vec![0, 1, 2, 3, 4, 5, 6, 0xFF] };
    // a full load costs a code cache (8 MiB mapping, several mprotect calls) even when the
    // type is refused: the quick tier takes the 7 supported types and 9 unsupported ones
    // (the stage above takes create_cart_state through all 256), the thorough tier all 256
    let types: Vec<u8> = if thorough { (0..=255u8).collect() } else { vec![0x00, 0x01, 0x02, 0x03, 0x11, 0x12, 0x13, 0x04, 0x05, 0x08, 0x0F, 0x10, 0x14, 0x19, 0x80, 0xFF] };
    let n_sel = rom_sel.len() as u64;
    let n_cases = types.len() as u64 * n_sel;
    let opts = PoolOpts { chunk: 8, bitmap_bits: 1 << 12, ..PoolOpts::default() };
    let dir2 = dir.clone();
    let r = run_pool(
      n_cases,
      &opts,
      |slot| (SizedFiles::new(&dir2, "bl", slot), head(0, 0, 0, &[0x18, 0xFE])),
      |wb, case, ctx| {
        let (w, base) = (&mut wb.0, &mut wb.1);
        let t = types[(case / n_sel) as usize];
        let si = (case % n_sel) as usize;
        let romc = rom_sel[si];
        let want_rom = r9_rom_bytes(romc);
        let want_ctl = r9_controller(t);
        for &ramc in ram_codes.iter() {
          if want_ctl.is_none() && !thorough && ramc != 0x03 {
            // quick tier: a type that must be refused is loaded with one RAM code only
            continue;
          }
          ctx.count(0, 1);
          let want_ram = r9_ram_bytes(ramc);
          base[0x147] = t;
          base[0x148] = romc;
          base[0x149] = ramc;
          base[0x14D] = r9_checksum(&base[0x134..0x14D]);
          let fi = w.put(romc, &base[0x100..0x150]);
          let path = w.files[fi].0.clone();
          let case_json = || {
            J::obj()
              .set("cart_type", J::s(format!("0x{:02X}", t)))
              .set("rom_code", J::s(format!("0x{:02X}", romc)))
              .set("ram_code", J::s(format!("0x{:02X}", ramc)))
              .set("file_length", J::u(want_rom.map(|b| b as u64).unwrap_or(BIG)))
              .set("how", J::s("sparse file of exactly the declared size (8 MiB for undefined ROM codes), valid checksum, last byte 0xA5; load_rom sequence; compare buffer sizes; select last bank and read 0x7FFF"))
          };
          let mut l = try_load(&path);
          let (k, _) = load_kind(&l);
          ctx.class((want_ctl.map(|c| c as u64 + 1).unwrap_or(0)) << 6 | (want_rom.is_some() as u64) << 5 | (want_ram.is_some() as u64) << 4 | k);
          match (&mut l, want_ctl) {
            (Load::Accepted(_), None) => {
              ctx.violation("C19 case=table field=type code=unsupported kind=accepted", || J::obj().set("case", case_json()).set("expected", J::s("rejected at load (message or catchable panic)")).set("observed", J::s("load sequence returned a core")));
            },
            (Load::Accepted(core), Some(ctl)) => {
              ctx.count(1, 1);
              let (rom_len, ram_len) = (core.memory.rom.len(), core.memory.cart_ram.len());
              if let Some(wr) = want_rom {
                if rom_len != wr {
                  ctx.violation(&format!("C19 case=table field=rom code=0x{:02X}", romc), || J::obj().set("case", case_json()).set("expected", J::obj().set("rom_bytes", J::u(wr as u64))).set("observed", J::obj().set("core.memory.rom.len", J::u(rom_len as u64))));
                }
              }
              if let Some(wr) = want_ram {
                if ram_len != wr {
                  ctx.violation(&format!("C19 case=table field=ram code=0x{:02X}", ramc), || J::obj().set("case", case_json()).set("expected", J::obj().set("ram_bytes", J::u(wr as u64))).set("observed", J::obj().set("core.memory.cart_ram.len", J::u(ram_len as u64))));
                }
              }
              // the controller of the machine the load path built is the one the header tables
              // give: both driven with the same register writes
              if let Ok(h) = crate::world::read_header_of(&path) {
                let probe = catch_unwind(AssertUnwindSafe(|| {
                  let mut want = h.create_cart_state();
                  let mut diff: Option<(u16, u8, (usize, usize), (usize, usize))> = None;
                  for (a, v) in [(0x0100u16, 0x0Au8), (0x2100, 2), (0x2100, 3), (0x4100, 1), (0x6100, 1), (0x2100, 0x25), (0x4100, 2), (0x6100, 0), (0x2100, 0), (0x2100, 4)].iter() {
                    core.memory.cart_state.write_rom(*a, *v);
                    want.write_rom(*a, *v);
                    let g = (core.memory.cart_state.get_rom_bank(), core.memory.cart_state.get_ram_bank());
                    let w2 = (want.get_rom_bank(), want.get_ram_bank());
                    if g != w2 && diff.is_none() {
                      diff = Some((*a, *v, g, w2));
                    }
                  }
                  // back to the power-on mapping for what follows
                  for (a, v) in [(0x6100u16, 0u8), (0x4100, 0), (0x2100, 1), (0x0100, 0)].iter() {
                    core.memory.cart_state.write_rom(*a, *v);
                  }
                  diff
                }));
                if let Ok(Some((a, v, g, w2))) = probe {
                  ctx.violation(&format!("C19 case=table field=type code=0x{:02X} kind=loaded-machine-has-another-controller", t), || {
                    J::obj()
                      .set("case", case_json())
                      .set("probe", J::s("the loaded machine's controller and Header::create_cart_state() driven with the same register writes"))
                      .set("first_difference_after_write", J::s(format!("{:04X}<-{:02X}", a, v)))
                      .set("observed", J::obj().set("rom_bank", J::u(g.0 as u64)).set("ram_bank", J::u(g.1 as u64)))
                      .set("expected", J::obj().set("controller", J::s(ctl_name(Some(ctl)))).set("rom_bank", J::u(w2.0 as u64)).set("ram_bank", J::u(w2.1 as u64)))
                  });
                }
              }
              // last ROM byte through the bus (file is at least as long as any mapping ≤ 8 MiB)
              if rom_len as u64 <= BIG && rom_len >= 0x8000 {
                let banks = rom_len / 0x4000;
                match touch_last(core, ctl, banks) {
                  Some((v, Some(off))) => {
                    ctx.count(4, 1);
                    if want_rom.is_some() && v != MARK {
                      ctx.violation(&format!("C19 case=table field=rom code=0x{:02X} kind=content", romc), || J::obj().set("case", case_json()).set("expected", J::obj().set("byte_at_offset", J::u(off as u64)).set("value", J::u(MARK as u64))).set("observed", J::obj().set("value", J::u(v as u64))));
                    }
                  },
                  _ => ctx.count(5, 1),
                }
              }
            },
            (Load::Msg(_), Some(_)) | (Load::Panic(_), Some(_)) => {
              if want_rom.is_some() && want_ram.is_some() {
                ctx.violation(&format!("C19 case=table field=type code=0x{:02X} kind=refused", t), || J::obj().set("case", case_json()).set("expected", J::obj().set("decision", J::s("accepted")).set("controller", J::s(ctl_name(want_ctl)))).set("observed", load_json(&l)));
              }
            },
            (Load::Msg(_), None) => ctx.count(3, 1),
            (Load::Panic(m), None) => {
              ctx.count(2, 1);
              if m.is_empty() {
                ctx.violation("C19 case=table field=type code=unsupported kind=panic-without-message", || J::obj().set("case", case_json()).set("expected", J::s("panic carrying a message")).set("observed", J::s("payload is not a string / empty")));
              }
            },
          }
        }
        if t == 0x03 && romc == 0x06 {
          ctx.sample(|| J::obj().set("stage", J::s("table-load")).set("cart_type", J::s("0x03")).set("rom_code", J::s("0x06")).set("expected", J::s("accepted; rom 2 MiB; MBC1; bank 127 selected, byte 0x1FFFFF = A5 read at 0x7FFF")));
        }
      },
      |case, how| (format!("C19 case=table field=load code=any kind=crash={}", how), J::obj().set("case", J::obj().set("cart_type", J::s(format!("0x{:02X}", types[(case / 15) as usize]))).set("rom_selector_index", J::u(case % 15)).set("rom_selectors", J::s("00..08,52,53,54,09,51,FF")).set("ram_code", J::s("one of the tier's RAM codes")))),
    );
    let crashes = r.crashes;
    let space = if thorough { "all 256 types x {12 defined ROM codes, 09, 51, FF} x RAM codes {0..31, 7F, 80, FE, FF}, files of exactly the declared size, whole load sequence" } else { "(7 supported types x RAM codes {0..6, 0xFF} + unsupported types {04,05,08,0F,10,14,19,80,FF} x RAM code 03) x {12 defined ROM codes, 09, 51, FF}, files of exactly the declared size, whole load sequence" };
    let c = rep.add_stage("table-load", space, r);
    evaluations += c[0] + crashes;
    rep.cov("table_load_cases", J::u(c[0]));
    rep.cov("table_load_accepted", J::u(c[1]));
    rep.cov("table_load_refused_by_panic", J::u(c[2]));
    rep.cov("table_load_refused_by_message", J::u(c[3]));
    rep.cov("table_load_last_byte_reads", J::u(c[4]));
    rep.cov("table_load_last_bank_not_reachable", J::u(c[5]));
  }

  // ================================================================ (c) lengths
  let lcases = len_cases(thorough);
  {
    let opts = PoolOpts { chunk: 1, bitmap_bits: 1 << 10, ..PoolOpts::default() };
    let r = run_pool(
      lcases.len() as u64,
      &opts,
      |_| (),
      |_, case, ctx| {
        let c = lcases[case as usize];
        let path = format!("{}/c1_{}.gb", dir, case);
        c.build(&path, &[0x18, 0xFE]);
        let l = try_load(&path);
        rm(&path);
        ctx.count(0, 1);
        let (len, d) = (c.len(), c.declared());
        let (k, _) = load_kind(&l);
        let lc = len_class(len, d);
        ctx.class((match lc { "lt-0x150" => 0, "short" => 1, "declared" => 2, _ => 3 }) << 4 | ((d != 0x8000) as u64) << 3 | k);
        ctx.count(1 + k as usize, 1);
        let detail = |want: &str| J::obj().set("case", c.json()).set("expected", J::s(want)).set("observed", load_json(&l));
        match (&l, lc) {
          (Load::Accepted(_), "lt-0x150") | (Load::Accepted(_), "short") => {
            ctx.count(4, 1);
            ctx.violation(&format!("C19 case=length len={} declared={} kind=accepted-short", lc, declared_class(d)), || detail("rejected at load time (message or controlled termination): the file is smaller than its declared size"));
          },
          (Load::Msg(m), "lt-0x150") | (Load::Msg(m), "short") => {
            if m.is_empty() {
              ctx.violation(&format!("C19 case=length len={} declared={} kind=rejected-without-message", lc, declared_class(d)), || detail("a message"));
            }
          },
          (Load::Accepted(core), "declared") => {
            if core.memory.rom.len() as u64 != d {
              ctx.violation(&format!("C19 case=table field=rom code=0x{:02X}", c.rom_code), || detail("rom buffer of the declared size"));
            }
          },
          (_, "declared") => {
            ctx.violation(&format!("C19 case=length len=declared declared={} kind=rejected-good", declared_class(d)), || detail("accepted: valid checksum, supported type, file of exactly the declared size"));
          },
          _ => {},
        }
        if case == 8 * 3 {
          ctx.sample(|| J::obj().set("stage", J::s("length")).set("case", c.json()).set("observed", load_json(&l)));
        }
      },
      |case, how| {
        let c = lcases[case as usize];
        (format!("C19 case=length len={} declared={} kind=load-crash={}", len_class(c.len(), c.declared()), declared_class(c.declared()), how), J::obj().set("case", c.json()).set("expected", J::s("load decision without a fault")))
      },
    );
    let crashes = r.crashes;
    let space = if thorough { "16 file lengths {0,1,0xFF,0x100,0x101,0x14F,0x150,0x151,0x1000,0x4000,declared/2,declared-4097,declared-4096,declared-1,declared,declared+1} x 12 declared sizes (all defined ROM codes) x 7 supported types: load decision" } else { "12 file lengths {0,1,0xFF,0x100,0x101,0x14F,0x150,0x151,declared-4096,declared-1,declared,declared+1} x declared {32K,64K,1M} x types {00,01,13}: load decision" };
    let c = rep.add_stage("length", space, r);
    evaluations += c[0] + crashes;
    rep.cov("length_cases", J::u(c[0]));
    rep.cov("length_accepted", J::u(c[1]));
    rep.cov("length_rejected_with_message", J::u(c[2]));
    rep.cov("length_refused_by_panic", J::u(c[3]));
    rep.cov("length_short_files_accepted", J::u(c[4]));
  }
  {
    let opts = PoolOpts { chunk: 1, bitmap_bits: 1 << 10, max_crashes: 4096, ..PoolOpts::default() };
    let r = run_pool(
      lcases.len() as u64,
      &opts,
      |_| (),
      |_, case, ctx| {
        let c = lcases[case as usize];
        // per-process name: a dying worker leaves its file behind, replays make their own
        let path = format!("{}/c2_{}_{}.gb", dir, case, unsafe { libc::getpid() });
        c.build(&path, &[0x18, 0xFE]);
        let mut l = try_load(&path);
        let (len, d) = (c.len(), c.declared());
        let lc = len_class(len, d);
        let mut outcome = 0u64; // 0 not accepted, 1 read last byte, 2 read other byte, 3 nothing readable
        if let Load::Accepted(core) = &mut l {
          // a worker death here is the verdict "fault during later execution"
          match touch_last(core, c.ctl(), c.banks()) {
            Some((v, Some(off))) => {
              outcome = 1;
              ctx.count(1, 1);
              if len > off as u64 {
                ctx.count(2, 1);
                if v != MARK {
                  ctx.violation(&format!("C19 case=length len={} declared={} kind=content", lc, declared_class(d)), || J::obj().set("case", c.json()).set("expected", J::obj().set("byte_at_offset", J::u(off as u64)).set("value", J::u(MARK as u64))).set("observed", J::obj().set("value", J::u(v as u64))));
                }
              }
            },
            Some((_, None)) => {
              outcome = 2;
              ctx.count(3, 1);
            },
            None => {
              outcome = 3;
              ctx.count(4, 1);
            },
          }
        }
        drop(l);
        rm(&path);
        ctx.count(0, 1);
        ctx.class((match lc { "lt-0x150" => 0, "short" => 1, "declared" => 2, _ => 3 }) << 4 | ((d != 0x8000) as u64) << 3 | outcome);
        if case == 8 * 3 + 2 {
          ctx.sample(|| J::obj().set("stage", J::s("length-touch")).set("case", c.json()).set("survived", J::Bool(true)));
        }
      },
      |case, how| {
        let c = lcases[case as usize];
        (
          format!("C19 case=length len={} declared={} kind=crash={}", len_class(c.len(), c.declared()), declared_class(c.declared()), how),
          J::obj().set("case", c.json()).set("expected", J::s("rejected at load time, or accepted and the last declared ROM byte readable")).set("observed", J::s("the load sequence accepted the file; the worker was killed reading the last declared ROM byte through memory_read_byte")),
        )
      },
    );
    // files of workers that died
    if let Ok(rd) = std::fs::read_dir(&dir) {
      for e in rd.flatten() {
        if e.file_name().to_string_lossy().starts_with("c2_") {
          let _ = std::fs::remove_file(e.path());
        }
      }
    }
    let crashes = r.crashes;
    let c = rep.add_stage("length-touch", "the same (length, declared, type) files, one per crash-isolated pool case: load sequence, then bank-select and read the last declared ROM byte through memory_read_byte", r);
    evaluations += c[0] + crashes;
    rep.cov("length_touch_survived", J::u(c[0]));
    rep.cov("length_touch_workers_killed", J::u(crashes));
    rep.cov("length_touch_last_byte_reads_completed", J::u(c[1]));
    rep.cov("length_touch_last_byte_content_verified", J::u(c[2]));
    rep.cov("length_touch_last_bank_not_reachable", J::u(c[3] + c[4]));
  }

  // ================================================================ (d) E2E
  let bin = std::env::var("GBMC_REPO_BIN_NOJIT").unwrap_or_default();
  if bin.is_empty() || !std::path::Path::new(&bin).is_file() {
    rep.cov("e2e", J::s(if bin.is_empty() { "not run: GBMC_REPO_BIN_NOJIT is not set".to_string() } else { format!("not run: {} does not exist", bin) }));
  } else {
    let mut cases: Vec<E2e> = Vec::new();
    for c in len_cases(false) {
      cases.push(E2e::Length(c));
    }
    if thorough {
      // the larger declared sizes with the page-granular lengths
      for &rom_code in [0x02u8, 0x06, 0x08, 0x52].iter() {
        for &len_idx in [7usize, 8, 9, 10].iter() {
          for &cart_type in [0x01u8, 0x11].iter() {
            cases.push(E2e::Length(LenCase { len_idx, rom_code, cart_type }));
          }
        }
      }
    }
    for &p in [200usize, 201, 202, 0, 7, 12 * 8 + 3, 24 * 8, 24 * 8 + 7, 19 * 8, 19 * 8 + 2].iter() {
      for &delta in [0u8, 1, 0xFF, 0x80].iter() {
        cases.push(E2e::Checksum(p, delta));
      }
    }
    const CLASSES: [&str; 6] = ["running", "rejected-message", "panic", "fault=SIGBUS", "fault=SIGSEGV", "fault=SIGABRT"];
    let opts = PoolOpts { chunk: 1, bitmap_bits: 1 << 10, samples_per_child: 1, ..PoolOpts::default() };
    let r = run_pool(
      cases.len() as u64,
      &opts,
      |_| (),
      |_, case, ctx| {
        let path = format!("{}/d_{}_{}.gb", dir, case, unsafe { libc::getpid() });
        let (ctl, banks, cj) = match cases[case as usize] {
          E2e::Length(c) => {
            c.build(&path, &touch_prog(c.ctl(), c.banks()));
            (c.ctl(), c.banks(), c.json().set("program", J::s("bank-select writes, LD A,(0x7FFF), JR -2")))
          },
          E2e::Checksum(p, delta) => {
            let pat = pattern(p);
            let mut h = head(0, 0, 0, &touch_prog(Ctl::Flat, 2));
            h[0x134..0x14D].copy_from_slice(&pat);
            h[0x14D] = r9_checksum(&pat).wrapping_add(delta);
            let len = SizedFiles::len_of(size_index(pat[0x14]));
            drop(make_file(&path, len, &[(0, &h[..]), (0x7FFF, &[MARK])]));
            (
              Ctl::Flat,
              2,
              J::obj().set("pattern_0x134_0x14C", J::s(pattern_name(p))).set("byte_0x14D", J::s(format!("R9 checksum + 0x{:02X}", delta))).set("file_length", J::u(len)).set("program", J::s("LD A,(0x7FFF), JR -2")),
            )
          },
        };
        let inproc = inproc_class(&path, ctl, banks);
        let scratch = format!("{}/d_{}_{}", dir, case, unsafe { libc::getpid() });
        let mut b = run_binary(&bin, &path, &scratch, Duration::from_millis(300));
        if b.class != inproc && !b.class.starts_with("machinery") {
          // more patience before calling it a mismatch
          ctx.count(2, 1);
          b = run_binary(&bin, &path, &scratch, Duration::from_millis(2500));
        }
        rm(&path);
        ctx.count(0, 1);
        if b.class.starts_with("machinery") || inproc == "fork-failed" {
          ctx.count(3, 1);
          return;
        }
        let ci = CLASSES.iter().position(|c| *c == b.class).unwrap_or(CLASSES.len());
        ctx.count(10 + ci, 1);
        ctx.class((matches!(cases[case as usize], E2e::Length(_)) as u64) << 4 | ci as u64);
        if b.class == inproc {
          ctx.count(1, 1);
        } else {
          ctx.violation(&format!("C19 case=e2e kind=mismatch inproc={} binary={}", inproc, b.class), || {
            J::obj().set("case", cj.clone()).set("expected", J::obj().set("in_process_decision", J::s(inproc.as_str()))).set("observed", J::obj().set("binary", J::s(b.class.as_str())).set("stdout", J::s(b.stdout.as_str())).set("stderr", J::s(b.stderr.as_str())))
          });
        }
        if case == 8 * 3 + 2 {
          ctx.sample(|| J::obj().set("stage", J::s("e2e")).set("case", cj.clone()).set("in_process", J::s(inproc.as_str())).set("binary", J::s(b.class.as_str())).set("stdout", J::s(b.stdout.as_str())).set("stderr", J::s(b.stderr.as_str())));
        }
      },
      |case, how| (format!("C19 case=e2e kind=harness-crash={}", how), J::obj().set("case", J::u(case))),
    );
    let c = rep.add_stage("e2e", "the quick-tier (length, declared, type) files with a program that reads the last declared byte, and 10 checksum patterns x checksum {good, +1, -1, +0x80}, through the real gb-dynarec executable (300 ms after the load decision line, then SIGKILL) against the in-process decision of the same file", r);
    evaluations += c[0];
    if c[3] > 0 {
      rep.machinery_error(format!("e2e: {} case(s) could not be run (spawn/fork/no decision line)", c[3]));
    }
    let mut o = J::obj();
    for (i, name) in CLASSES.iter().enumerate() {
      o.put(*name, J::u(c[10 + i]));
    }
    o.put("other", J::u(c[10 + CLASSES.len()]));
    rep.cov("e2e", J::obj().set("binary", J::s(bin.as_str())).set("files_run", J::u(c[0])).set("classification_equal_to_in_process", J::u(c[1])).set("reruns_with_longer_grace", J::u(c[2])).set("binary_outcomes", o));
  }

  let _ = std::fs::remove_dir_all(&dir);
  rep.evaluations = evaluations;
  rep.cov("rule", J::s("evaluations = headers judged (direct and via load) + (type,ROM,RAM) triples on Headers + loads of declared-size files + (length,declared,type) load decisions + the same in crash-isolated touch workers (killed workers included) + files through the real executable; an outcome class is (sub-check, decision kind, defined/undefined or length class)"));
  rep.finish()
}
