//! C13 — DIV/TIMA follow the divider and are independent of catch-up batching.
//!
//! E2b on the real `devices::timer::Timer` (and, on a subset, through `devices::io::IO`:
//! `set_byte(0xFF04..=0xFF07)`, `get_byte`, `run_clock_cycles`, IF bit 2) against R5, a
//! clock-by-clock reference written from the property text / Pan Docs ("Timer obscure
//! behaviour"): state (div16, tima, tma, tac); `sig = tac.2 && div16 & sel[tac&3]`;
//! TIMA ticks on every 1->0 change of `sig` (clock or TAC write); on overflow TIMA is
//! reloaded from TMA in the same clock and the timer interrupt is requested (the
//! statement describes an immediate reload, so the 4-clock reload delay of real hardware
//! is deliberately not modelled).
//!
//! Stages (each a fork pool, one case = one divider phase):
//!  1. one-step      every state (ALL 65536 phases, both tiers, x TAC 0..7 + "TAC never
//!                   written" x TIMA{00,01,FE,FF} x TMA{00,7F,FF}) x every action (TAC<-0..7,F9,FC,
//!                   DIV<-, TIMA<-{00,FF}, TMA<-{00,AB}, elapse d for 19 short d)
//!  2. tima-all      the same actions with TIMA in all 256 values; thorough: the 20480 phases
//!                   within +-2 clocks of a falling edge of divider bit 3 (= of any
//!                   selectable bit); quick: the 1280 phases within +-2 clocks of a falling edge of
//!                   divider bit 7
//!  3. long-elapse   d in {4096, 65532, 65536, 65540, 131076} from phases {64k-1,64k,64k+1}
//!                   (quick: every 4th k)
//!  4. io            the one-step relation through `IO` (bus addresses, IF bit 2) on 24
//!                   offsets of every (quick: every 8th) 1024-clock block
//!  5. batching      every composition of N <= 10 units (unit in {4,60,252} clocks) vs a
//!                   single `run_cycles(total)` vs R5, on the enabled loop and the
//!                   disabled fast path, and with a TAC write in every gap (3 schemes,
//!                   n <= 8; quick 2 schemes, n <= 6); phase stride 7 (quick 257)
//!
//! Keys: `C13 tac=<0..7|poweron> action=<construct|tac-write|div-write|tima-write|tma-write|
//! elapse|split|split-tacwrite> field=<phase|div|tima|tma|tac|irq>[ via=io]`.  `tac` is the
//! TAC of the state the failing action starts from.  A failing sequence is reduced to its
//! first diverging step; `split`/`split-tacwrite` are used only when that step is right on
//! its own (history dependence).  `via=io` only when the bare Timer is right.
//!
//! The state abstraction (phase, tac, tima, tma) is complete for `Timer`: the hidden
//! fields `enabled_mask`/`timer_clock_mask` are overwritten by every `set_timer_control`
//! and so are a function of the last TAC write; the only other hidden state is "TAC never
//! written since `Timer::new()`", enumerated as the ninth TAC configuration ("poweron").

use crate::devices::io::IO;
use crate::devices::timer::Timer;
use crate::timing::ClockCycles;
use crate::util::json::J;
use crate::util::pool::{run_pool, Ctx, PoolOpts};
use crate::util::report::Report;

// ---------------------------------------------------------------------------------------
// R5: the reference timer, one clock at a time
// ---------------------------------------------------------------------------------------

/// selected divider bit for TAC & 3 = 0,1,2,3: periods 1024, 16, 64, 256 clocks
const SEL_BIT: [u32; 4] = [9, 3, 5, 7];

#[derive(Clone, Copy)]
struct R5 {
  div16: u16,
  tima: u8,
  tma: u8,
  tac: u8,
  // instrumentation for the non-vacuity classes only (never compared with the subject)
  ticks: u32,
  overflows: u32,
}

impl R5 {
  fn new(phase: u32, tac: u8, tima: u8, tma: u8) -> R5 {
    R5 { div16: phase as u16, tima, tma, tac: tac & 7, ticks: 0, overflows: 0 }
  }
  fn sig(&self) -> bool {
    self.tac & 4 != 0 && (self.div16 >> SEL_BIT[(self.tac & 3) as usize]) & 1 != 0
  }
  /// one TIMA tick; true = overflow (reload from TMA + interrupt request)
  fn tick(&mut self) -> bool {
    self.ticks += 1;
    if self.tima == 0xFF {
      self.tima = self.tma;
      self.overflows += 1;
      true
    } else {
      self.tima += 1;
      false
    }
  }
  fn clock(&mut self) -> bool {
    let before = self.sig();
    self.div16 = self.div16.wrapping_add(1);
    if before && !self.sig() {
      self.tick()
    } else {
      false
    }
  }
  fn elapse(&mut self, clocks: u32) -> bool {
    let mut irq = false;
    for _ in 0..clocks {
      irq |= self.clock();
    }
    irq
  }
  fn write_tac(&mut self, v: u8) -> bool {
    let before = self.sig();
    self.tac = v & 7;
    if before && !self.sig() {
      self.tick()
    } else {
      false
    }
  }
  /// DIV write, outcome without an induced falling edge
  fn write_div_plain(&mut self) {
    self.div16 = 0;
  }
  /// DIV write, outcome with the falling edge the reset of the divider induces on hardware
  fn write_div_edge(&mut self) -> bool {
    let before = self.sig();
    self.div16 = 0;
    if before {
      self.tick()
    } else {
      false
    }
  }
  fn obs(&self, irq: bool) -> Obs {
    Obs { phase: self.div16 as u32, div: (self.div16 >> 8) as u8, tima: self.tima, tma: self.tma, tac: self.tac & 7, irq: if irq { 4 } else { 0 } }
  }
}

// ---------------------------------------------------------------------------------------
// observations
// ---------------------------------------------------------------------------------------

#[derive(Clone, Copy, PartialEq, Eq)]
struct Obs {
  /// low 16 bits of the divider phase (hook H2)
  phase: u32,
  div: u8,
  tima: u8,
  tma: u8,
  /// TAC bits 0-2
  tac: u8,
  /// Timer API: the returned InterruptFlag byte (4 = timer); IO: IF & 4
  irq: u8,
}

const F_PHASE: u32 = 1;
const F_DIV: u32 = 2;
const F_TIMA: u32 = 4;
const F_TMA: u32 = 8;
const F_TAC: u32 = 16;
const F_IRQ: u32 = 32;
const FIELDS: [(u32, &str); 6] = [(F_PHASE, "phase"), (F_DIV, "div"), (F_TIMA, "tima"), (F_TMA, "tma"), (F_TAC, "tac"), (F_IRQ, "irq")];

impl Obs {
  fn json(&self) -> J {
    J::obj()
      .set("phase", J::u(self.phase as u64))
      .set("div", J::u(self.div as u64))
      .set("tima", J::u(self.tima as u64))
      .set("tma", J::u(self.tma as u64))
      .set("tac", J::u(self.tac as u64))
      .set("irq", J::u(self.irq as u64))
  }
}

/// fields of `got` that differ from `exp`.  DIV is not reported on its own when the phase
/// already differs and DIV is consistent with the observed phase (one cause, one key).
fn diff(exp: &Obs, got: &Obs) -> u32 {
  let mut m = 0;
  if exp.phase != got.phase {
    m |= F_PHASE;
  }
  if exp.div != got.div && !(exp.phase != got.phase && got.div as u32 == got.phase >> 8) {
    m |= F_DIV;
  }
  if exp.tima != got.tima {
    m |= F_TIMA;
  }
  if exp.tma != got.tma {
    m |= F_TMA;
  }
  if exp.tac != got.tac {
    m |= F_TAC;
  }
  if exp.irq != got.irq {
    m |= F_IRQ;
  }
  m
}

// ---------------------------------------------------------------------------------------
// the two subjects: bare Timer, and Timer behind the IO bus
// ---------------------------------------------------------------------------------------

struct World {
  vram: Box<[u8]>,
  oam: Box<[u8]>,
}

fn make_world(_slot: usize) -> World {
  World { vram: vec![0u8; 0x2000].into_boxed_slice(), oam: vec![0u8; 0xa0].into_boxed_slice() }
}

/// `tac = None`: TAC is never written after `Timer::new()` (power-on configuration)
fn build_timer(phase: u32, tac: Option<u8>, tima: u8, tma: u8) -> (Timer, u8) {
  let mut t = Timer::new();
  t.reset_divider();
  let mut f = 0u8;
  if phase != 0 {
    // the timer is disabled here: fast path, O(1)
    f |= t.run_cycles(ClockCycles(phase as usize)).as_u8();
  }
  if let Some(v) = tac {
    // TAC before TIMA: the TAC write itself may tick TIMA
    f |= t.set_timer_control(v).as_u8();
  }
  t.set_counter(tima);
  t.set_modulo(tma);
  (t, f)
}

fn obs_timer(t: &Timer, irq: u8, hi: &mut u64) -> Obs {
  let raw = t.verif_cycle_count();
  if raw > 0xFFFF {
    *hi += 1;
  }
  Obs { phase: raw & 0xFFFF, div: t.get_divider(), tima: t.get_counter(), tma: t.get_modulo(), tac: t.get_timer_control() & 7, irq }
}

fn build_io(phase: u32, tac: Option<u8>, tima: u8, tma: u8) -> IO {
  let mut io = IO::new();
  io.set_byte(0xFF04, 0x5A);
  if phase != 0 {
    // directly on the timer (pub field): the PPU does not have to be walked to the phase
    let _ = io.timer.run_cycles(ClockCycles(phase as usize));
  }
  if let Some(v) = tac {
    io.set_byte(0xFF07, v);
  }
  io.set_byte(0xFF05, tima);
  io.set_byte(0xFF06, tma);
  io.set_byte(0xFF0F, 0);
  io
}

fn obs_io(io: &IO, hi: &mut u64) -> Obs {
  let raw = io.timer.verif_cycle_count();
  if raw > 0xFFFF {
    *hi += 1;
  }
  Obs {
    phase: raw & 0xFFFF,
    div: io.get_byte(0xFF04),
    tima: io.get_byte(0xFF05),
    tma: io.get_byte(0xFF06),
    tac: io.get_byte(0xFF07) & 7,
    irq: io.get_byte(0xFF0F) & 4,
  }
}

// ---------------------------------------------------------------------------------------
// actions
// ---------------------------------------------------------------------------------------

#[derive(Clone, Copy)]
enum Act {
  Tac(u8),
  Div,
  Tima(u8),
  Tma(u8),
  Elapse(u32),
}

impl Act {
  fn kind(&self) -> &'static str {
    match self {
      Act::Tac(_) => "tac-write",
      Act::Div => "div-write",
      Act::Tima(_) => "tima-write",
      Act::Tma(_) => "tma-write",
      Act::Elapse(_) => "elapse",
    }
  }
  fn desc(&self) -> String {
    match self {
      Act::Tac(v) => format!("TAC<-{}", v),
      Act::Div => "DIV<-".to_string(),
      Act::Tima(v) => format!("TIMA<-{:02X}", v),
      Act::Tma(v) => format!("TMA<-{:02X}", v),
      Act::Elapse(d) => format!("elapse {}", d),
    }
  }
  fn on_timer(&self, t: &mut Timer) -> u8 {
    match *self {
      Act::Tac(v) => t.set_timer_control(v).as_u8(),
      Act::Div => {
        t.reset_divider();
        0
      },
      Act::Tima(v) => {
        t.set_counter(v);
        0
      },
      Act::Tma(v) => {
        t.set_modulo(v);
        0
      },
      Act::Elapse(d) => t.run_cycles(ClockCycles(d as usize)).as_u8(),
    }
  }
  fn on_io(&self, io: &mut IO, w: &World) {
    match *self {
      Act::Tac(v) => io.set_byte(0xFF07, v),
      Act::Div => io.set_byte(0xFF04, 0xC3),
      Act::Tima(v) => io.set_byte(0xFF05, v),
      Act::Tma(v) => io.set_byte(0xFF06, v),
      Act::Elapse(d) => io.run_clock_cycles(ClockCycles(d as usize), &w.vram, &w.oam),
    }
  }
}

const SHORT_D: [u32; 19] = [0, 1, 2, 3, 4, 5, 8, 12, 15, 16, 17, 60, 64, 252, 256, 260, 1020, 1024, 1028];
const LONG_D: [u32; 5] = [4096, 65532, 65536, 65540, 131076];
const TIMA4: [u8; 4] = [0x00, 0x01, 0xFE, 0xFF];
const TMA3: [u8; 3] = [0x00, 0x7F, 0xFF];
const UNITS: [u32; 3] = [4, 60, 252];

fn short_actions() -> Vec<Act> {
  let mut v = Vec::new();
  for t in 0..8u8 {
    v.push(Act::Tac(t));
  }
  // the same with the unused upper bits set
  v.push(Act::Tac(0xF9));
  v.push(Act::Tac(0xFC));
  v.push(Act::Div);
  v.push(Act::Tima(0x00));
  v.push(Act::Tima(0xFF));
  v.push(Act::Tma(0x00));
  v.push(Act::Tma(0xAB));
  for d in SHORT_D.iter() {
    v.push(Act::Elapse(*d)); // ascending: the reference is advanced incrementally
  }
  v
}

/// `IO::run_clock_cycles` also drives the PPU, whose contract is whole machine cycles
/// (multiples of 4 clocks): through the bus only those elapses are applied.
fn io_actions() -> Vec<Act> {
  short_actions()
    .into_iter()
    .filter(|a| match a {
      Act::Elapse(d) => d % 4 == 0,
      _ => true,
    })
    .collect()
}

fn long_actions() -> Vec<Act> {
  LONG_D.iter().map(|d| Act::Elapse(*d)).collect()
}

fn tac_label(tac_i: usize) -> String {
  if tac_i < 8 {
    format!("{}", tac_i)
  } else {
    "poweron".to_string()
  }
}

// counters
const C_TRANS: usize = 0; // transitions executed on the real code and compared
const C_STATES: usize = 1; // start states constructed (this stage)
const C_NEW_STATES: usize = 2; // start states not already enumerated by an earlier stage
const C_IMPL_CLOCKS: usize = 3; // clocks elapsed on the subject
const C_REF_CLOCKS: usize = 4; // clocks stepped by R5
const C_HOOK_HI: usize = 5; // observations where the raw phase hook exceeded 16 bits (informational)
const C_TRACES: usize = 6; // traces (one-step: = transitions; batching: one per batch sequence)
const C_DIV_EDGE: usize = 7; // DIV writes where the subject showed the induced-edge outcome
const C_SKIPPED: usize = 8; // phases/states skipped because their construction already failed (reported)

struct StepCfg<'a> {
  timas: &'a [u8],
  actions: &'a [Act],
  with_io: bool,
  /// is (phase, tima) already enumerated by an earlier stage?
  seen_before: &'a dyn Fn(u32, u8) -> bool,
}

/// The one-step relation from every state of one divider phase.
fn one_step(w: &World, ctx: &mut Ctx, phase: u32, cfg: &StepCfg) {
  let mut hook_hi = 0u64;
  if !walk_ok(ctx, phase, &mut hook_hi) {
    ctx.count(C_SKIPPED, 1);
    return;
  }
  // the byte written to TAC to construct the state carries the five bits that select nothing
  // (3-7) set in every other machine-cycle phase: only bits 0-2 may matter
  let junk: u8 = if phase & 4 != 0 { 0xF8 } else { 0x00 };
  for tac_i in 0..9usize {
    let tac_opt = if tac_i < 8 { Some(tac_i as u8 | junk) } else { None };
    let tac_ref = if tac_i < 8 { tac_i as u8 } else { 0 };
    for &tima in cfg.timas.iter() {
      for &tma in TMA3.iter() {
        let base = R5::new(phase, tac_ref, tima, tma);
        ctx.count(C_STATES, 1);
        if !(cfg.seen_before)(phase, tima) {
          ctx.count(C_NEW_STATES, 1);
        }
        let case_json = |act: &str, via: &str| {
          J::obj()
            .set("via", J::s(via))
            .set("phase", J::u(phase as u64))
            .set("tac", if tac_i < 8 { J::u(tac_i as u64) } else { J::s("never-written") })
            .set("tac_byte_written", if tac_i < 8 { J::u((tac_i as u8 | junk) as u64) } else { J::s("none") })
            .set("tima", J::u(tima as u64))
            .set("tma", J::u(tma as u64))
            .set("action", J::s(act))
        };
        // the constructed state is the intended one, and construction requested nothing;
        // a state that cannot be constructed is reported and its actions are skipped
        let mut io_ok = cfg.with_io;
        {
          let (t, f) = build_timer(phase, tac_opt, tima, tma);
          let got = obs_timer(&t, f, &mut hook_hi);
          let want = base.obs(false);
          let m = diff(&want, &got);
          for (bit, name) in FIELDS.iter() {
            if m & bit != 0 {
              ctx.violation(&format!("C13 tac={} action=construct field={}", tac_label(tac_i), name), || {
                J::obj().set("case", case_json("(none: state construction)", "timer")).set("expected", want.json()).set("observed", got.json())
              });
            }
          }
          if cfg.with_io {
            let io = build_io(phase, tac_opt, tima, tma);
            let got_io = obs_io(&io, &mut hook_hi);
            let m_io = diff(&want, &got_io) & !m;
            if m_io != 0 {
              io_ok = false;
            }
            for (bit, name) in FIELDS.iter() {
              if m_io & bit != 0 {
                ctx.violation(&format!("C13 tac={} action=construct field={} via=io", tac_label(tac_i), name), || {
                  J::obj().set("case", case_json("(none: state construction)", "io")).set("expected", want.json()).set("observed", got_io.json())
                });
              }
            }
          }
          if m != 0 {
            ctx.count(C_SKIPPED, 1);
            continue;
          }
        }
        // elapse actions come in ascending order: one reference walk serves them all
        let mut er = base;
        let mut er_irq = false;
        let mut er_done = 0u32;
        for (ai, act) in cfg.actions.iter().enumerate() {
          // expected outcome(s)
          let (want, want_alt, r_after) = match *act {
            Act::Tac(v) => {
              let mut r = base;
              let i = r.write_tac(v);
              (r.obs(i), None, r)
            },
            Act::Div => {
              let mut a = base;
              a.write_div_plain();
              let mut b = base;
              let ib = b.write_div_edge();
              (a.obs(false), Some(b.obs(ib)), b)
            },
            Act::Tima(v) => {
              let mut r = base;
              r.tima = v;
              (r.obs(false), None, r)
            },
            Act::Tma(v) => {
              let mut r = base;
              r.tma = v;
              (r.obs(false), None, r)
            },
            Act::Elapse(d) => {
              debug_assert!(d >= er_done);
              let step = d - er_done;
              er_irq |= er.elapse(step);
              er_done = d;
              ctx.count(C_REF_CLOCKS, step as u64);
              (er.obs(er_irq), None, er)
            },
          };
          // outcome class: (TAC configuration, action, how many TIMA ticks, overflow?)
          let tick_cls = match r_after.ticks {
            0 => 0u64,
            1 => 1,
            2..=15 => 2,
            _ => 3,
          };
          ctx.class(((tac_i as u64) << 9) | ((ai as u64) << 3) | (tick_cls << 1) | (r_after.overflows != 0) as u64);

          // the real Timer
          let (mut t, _) = build_timer(phase, tac_opt, tima, tma);
          let f = act.on_timer(&mut t);
          let got = obs_timer(&t, f, &mut hook_hi);
          ctx.count(C_TRANS, 1);
          ctx.count(C_TRACES, 1);
          if let Act::Elapse(d) = *act {
            if tac_ref & 4 != 0 {
              ctx.count(C_IMPL_CLOCKS, d as u64);
            }
          }
          let mut m = diff(&want, &got);
          if m != 0 {
            if let Some(alt) = want_alt {
              let m2 = diff(&alt, &got);
              if m2 == 0 {
                m = 0;
                if diff(&want, &alt) != 0 {
                  ctx.count(C_DIV_EDGE, 1);
                }
              }
            }
          }
          if m != 0 {
            for (bit, name) in FIELDS.iter() {
              if m & bit != 0 {
                ctx.violation(&format!("C13 tac={} action={} field={}", tac_label(tac_i), act.kind(), name), || {
                  let mut d = J::obj().set("case", case_json(&act.desc(), "timer")).set("expected", want.json()).set("observed", got.json());
                  if let Some(alt) = want_alt {
                    d.put("expected_alternative", alt.json());
                  }
                  d
                });
              }
            }
          }
          // the same transition through the IO bus
          if io_ok {
            let mut io = build_io(phase, tac_opt, tima, tma);
            act.on_io(&mut io, w);
            let got_io = obs_io(&io, &mut hook_hi);
            ctx.count(C_TRANS, 1);
            ctx.count(C_TRACES, 1);
            let mut m_io = diff(&want, &got_io);
            if m_io != 0 {
              if let Some(alt) = want_alt {
                if diff(&alt, &got_io) == 0 {
                  m_io = 0;
                }
              }
            }
            // a fault of the Timer itself is reported once, under the Timer key
            m_io &= !m;
            for (bit, name) in FIELDS.iter() {
              if m_io & bit != 0 {
                ctx.violation(&format!("C13 tac={} action={} field={} via=io", tac_label(tac_i), act.kind(), name), || {
                  let mut d = J::obj().set("case", case_json(&act.desc(), "io")).set("expected", want.json()).set("observed", got_io.json()).set("observed_bare_timer", got.json());
                  if let Some(alt) = want_alt {
                    d.put("expected_alternative", alt.json());
                  }
                  d
                });
              }
            }
          }
        }
      }
    }
  }
  ctx.count(C_HOOK_HI, hook_hi);
}

// ---------------------------------------------------------------------------------------
// batching invariance
// ---------------------------------------------------------------------------------------

struct BatchCfg {
  /// compositions of n <= max_n units without a write in between
  max_n: usize,
  /// compositions of n <= max_n_w units with a TAC write in every gap
  max_n_w: usize,
  /// number of TAC write schemes (see `next_tac`)
  schemes: usize,
}

/// the TAC value written in a gap, given the current TAC
fn next_tac(scheme: usize, cur: u8) -> u8 {
  match scheme {
    0 => cur ^ 4,                          // toggle the enable: loop and fast path alternate
    1 => (cur & 4) | (cur.wrapping_add(1) & 3), // change the selected bit (glitch ticks)
    _ => cur.wrapping_add(3) & 7,         // walk all eight values
  }
}
const SCHEME_NAME: [&str; 3] = ["toggle-enable", "rotate-select", "walk-all"];

/// parts (in units) of the composition of `n` described by cut mask `m` (bit i = cut after unit i+1)
fn parts_of(n: usize, m: u32, out: &mut [u32; 10]) -> usize {
  let mut k = 0;
  let mut run = 0u32;
  for i in 0..n {
    run += 1;
    if i + 1 == n || m & (1 << i) != 0 {
      out[k] = run;
      k += 1;
      run = 0;
    }
  }
  k
}

/// the disabled-timer walk that every state construction starts with: `Timer::new()`,
/// `reset_divider()`, `run_cycles(phase)`.  It is itself an elapse from the power-on state;
/// if it fails nothing built on it can be judged, so the caller skips the phase.
fn walk_ok(ctx: &mut Ctx, phase: u32, hook_hi: &mut u64) -> bool {
  let (t, f) = build_timer(phase, None, 0, 0);
  let got = obs_timer(&t, f, hook_hi);
  let want = R5::new(phase, 0, 0, 0).obs(false);
  let m = diff(&want, &got);
  for (bit, name) in FIELDS.iter() {
    if m & bit != 0 {
      ctx.violation(&format!("C13 tac=poweron action=elapse field={}", name), || {
        J::obj()
          .set("case", J::obj().set("via", J::s("timer")).set("phase", J::u(0)).set("tac", J::s("never-written")).set("tima", J::u(0)).set("tma", J::u(0)).set("action", J::s(format!("elapse {}", phase))))
          .set("expected", want.json())
          .set("observed", got.json())
      });
    }
  }
  m == 0
}

#[derive(Clone, Copy)]
enum Step {
  E(u32),
  W(u8),
}

fn seq_string(steps: &[Step]) -> String {
  let v: Vec<String> = steps
    .iter()
    .map(|s| match s {
      Step::E(d) => format!("elapse {}", d),
      Step::W(v) => format!("TAC<-{}", v),
    })
    .collect();
  v.join("; ")
}

fn run_steps(phase: u32, tac: u8, tima: u8, tma: u8, steps: &[Step], hook_hi: &mut u64) -> Obs {
  let (mut t, _) = build_timer(phase, Some(tac), tima, tma);
  let mut f = 0u8;
  for s in steps.iter() {
    f |= match *s {
      Step::E(d) => t.run_cycles(ClockCycles(d as usize)).as_u8(),
      Step::W(v) => t.set_timer_control(v).as_u8(),
    };
  }
  obs_timer(&t, f, hook_hi)
}

/// A sequence whose end state differs from R5 (or from the single batch) is replayed prefix
/// by prefix to its first diverging step.  If that step also fails when executed alone from
/// a freshly constructed copy of the reference state before it, the fault is a one-step
/// fault and is reported under the one-step key (`elapse` / `tac-write`); otherwise the
/// subject's behaviour depends on the history/split itself and is reported as `seq_kind`.
fn diagnose(ctx: &mut Ctx, seq_kind: &str, phase: u32, tac: u8, tima: u8, tma: u8, steps: &[Step], end_want: &Obs, end_got: &Obs, end_mask: u32, single: Option<&Obs>, hook_hi: &mut u64) {
  let base = R5::new(phase, tac, tima, tma);
  let mut r = base;
  let mut r_irq = false;
  for j in 0..steps.len() {
    let before = r;
    r_irq |= match steps[j] {
      Step::E(d) => r.elapse(d),
      Step::W(v) => r.write_tac(v),
    };
    let got = run_steps(phase, tac, tima, tma, &steps[..=j], hook_hi);
    if diff(&r.obs(r_irq), &got) != 0 {
      // the step alone, from the reference state before it
      let mut one = R5::new(before.div16 as u32, before.tac, before.tima, before.tma);
      let (mut t, _) = build_timer(before.div16 as u32, Some(before.tac), before.tima, before.tma);
      let (f, i, kind, desc) = match steps[j] {
        Step::E(d) => (t.run_cycles(ClockCycles(d as usize)).as_u8(), one.elapse(d), "elapse", format!("elapse {}", d)),
        Step::W(v) => (t.set_timer_control(v).as_u8(), one.write_tac(v), "tac-write", format!("TAC<-{}", v)),
      };
      let got1 = obs_timer(&t, f, hook_hi);
      let want1 = one.obs(i);
      let m1 = diff(&want1, &got1);
      if m1 != 0 {
        for (bit, name) in FIELDS.iter() {
          if m1 & bit != 0 {
            ctx.violation(&format!("C13 tac={} action={} field={}", before.tac, kind, name), || {
              J::obj()
                .set(
                  "case",
                  J::obj()
                    .set("via", J::s("timer"))
                    .set("phase", J::u(before.div16 as u64))
                    .set("tac", J::u(before.tac as u64))
                    .set("tima", J::u(before.tima as u64))
                    .set("tma", J::u(before.tma as u64))
                    .set("action", J::s(desc.as_str())),
                )
                .set("expected", want1.json())
                .set("observed", got1.json())
                .set("found_as_step", J::u(j as u64 + 1))
                .set("found_in_sequence", J::obj().set("phase", J::u(phase as u64)).set("tac", J::u(tac as u64)).set("tima", J::u(tima as u64)).set("tma", J::u(tma as u64)).set("sequence", J::s(seq_string(steps))))
            });
          }
        }
        return;
      }
      break;
    }
  }
  // every step is right on its own from the reference state: the sequence as such is judged
  for (bit, name) in FIELDS.iter() {
    if end_mask & bit != 0 {
      ctx.violation(&format!("C13 tac={} action={} field={}", tac, seq_kind, name), || {
        let mut d = J::obj()
          .set(
            "case",
            J::obj()
              .set("via", J::s("timer"))
              .set("phase", J::u(phase as u64))
              .set("tac", J::u(tac as u64))
              .set("tima", J::u(tima as u64))
              .set("tma", J::u(tma as u64))
              .set("action", J::s(seq_kind))
              .set("sequence", J::s(seq_string(steps))),
          )
          .set("expected", end_want.json())
          .set("observed", end_got.json());
        if let Some(sg) = single {
          d.put("observed_single_batch", sg.json());
        }
        d
      });
    }
  }
}

fn batching(ctx: &mut Ctx, phase: u32, cfg: &BatchCfg) {
  let mut hook_hi = 0u64;
  if !walk_ok(ctx, phase, &mut hook_hi) {
    ctx.count(C_SKIPPED, 1);
    return;
  }
  let mut parts = [0u32; 10];
  let mut steps: Vec<Step> = Vec::with_capacity(20);
  for tac in 0..8u8 {
    let enabled = tac & 4 != 0;
    for &tima in [0xFEu8, 0xFF].iter() {
      for &tma in TMA3.iter() {
        for (ui, &unit) in UNITS.iter().enumerate() {
          let base = R5::new(phase, tac, tima, tma);
          ctx.count(C_STATES, 1);
          // R5 after k units (clock by clock: by construction independent of any split)
          let mut refs = [base.obs(false); 11];
          let mut ovf = [false; 11];
          {
            let mut r = base;
            let mut irq = false;
            for k in 1..=cfg.max_n {
              irq |= r.elapse(unit);
              refs[k] = r.obs(irq);
              ovf[k] = r.overflows != 0;
            }
            ctx.count(C_REF_CLOCKS, (cfg.max_n as u64) * unit as u64);
          }
          // single batches (each is an `elapse` action from this state)
          let mut single = [base.obs(false); 11];
          for n in 1..=cfg.max_n {
            let total = n as u32 * unit;
            steps.clear();
            steps.push(Step::E(total));
            single[n] = run_steps(phase, tac, tima, tma, &steps, &mut hook_hi);
            ctx.count(C_TRANS, 1);
            ctx.count(C_TRACES, 1);
            if enabled {
              ctx.count(C_IMPL_CLOCKS, total as u64);
            }
            ctx.class(((tac as u64) << 9) | ((ui as u64) << 7) | ((n as u64) << 3) | ((ovf[n] as u64) << 2));
            let m = diff(&refs[n], &single[n]);
            if m != 0 {
              diagnose(ctx, "elapse", phase, tac, tima, tma, &steps, &refs[n], &single[n], m, None, &mut hook_hi);
            }
          }
          // every composition with at least two parts: equal to R5 and to the single batch
          for n in 2..=cfg.max_n {
            for m in 1u32..(1u32 << (n - 1)) {
              let k = parts_of(n, m, &mut parts);
              steps.clear();
              for p in parts[..k].iter() {
                steps.push(Step::E(p * unit));
              }
              let got = run_steps(phase, tac, tima, tma, &steps, &mut hook_hi);
              ctx.count(C_TRANS, k as u64);
              ctx.count(C_TRACES, 1);
              if enabled {
                ctx.count(C_IMPL_CLOCKS, n as u64 * unit as u64);
              }
              ctx.class(((tac as u64) << 9) | ((ui as u64) << 7) | ((n as u64) << 3) | ((ovf[n] as u64) << 2) | 1);
              // (a single batch that is itself wrong has been reported above as `elapse`)
              let single_ok = diff(&refs[n], &single[n]) == 0;
              let dm = diff(&refs[n], &got) | if single_ok { diff(&single[n], &got) } else { 0 };
              if dm != 0 {
                diagnose(ctx, "split", phase, tac, tima, tma, &steps, &refs[n], &got, dm, Some(&single[n]), &mut hook_hi);
              }
            }
          }
          // compositions with a TAC write in every gap: compared with R5 run in the same split
          for scheme in 0..cfg.schemes {
            for n in 2..=cfg.max_n_w {
              for m in 1u32..(1u32 << (n - 1)) {
                let k = parts_of(n, m, &mut parts);
                steps.clear();
                let mut r = base;
                let mut r_irq = false;
                let mut cur = tac;
                for (pi, p) in parts[..k].iter().enumerate() {
                  let d = p * unit;
                  if cur & 4 != 0 {
                    ctx.count(C_IMPL_CLOCKS, d as u64);
                  }
                  steps.push(Step::E(d));
                  r_irq |= r.elapse(d);
                  if pi + 1 < k {
                    cur = next_tac(scheme, cur);
                    steps.push(Step::W(cur));
                    r_irq |= r.write_tac(cur);
                  }
                }
                ctx.count(C_REF_CLOCKS, n as u64 * unit as u64);
                let got = run_steps(phase, tac, tima, tma, &steps, &mut hook_hi);
                let want = r.obs(r_irq);
                ctx.count(C_TRANS, (2 * k - 1) as u64);
                ctx.count(C_TRACES, 1);
                ctx.class(((tac as u64) << 9) | ((ui as u64) << 7) | ((n as u64) << 3) | (((r.overflows != 0) as u64) << 2) | (2 + (scheme as u64 & 1)) | (((scheme as u64) >> 1) << 13));
                let dm = diff(&want, &got);
                if dm != 0 {
                  diagnose(ctx, "split-tacwrite", phase, tac, tima, tma, &steps, &want, &got, dm, None, &mut hook_hi);
                }
              }
            }
          }
        }
      }
    }
  }
  ctx.count(C_HOOK_HI, hook_hi);
}

// ---------------------------------------------------------------------------------------
// phase sets
// ---------------------------------------------------------------------------------------

/// within +-2 clocks of a falling edge of divider bit `bit` (the edge is the step onto a
/// multiple of 2^(bit+1)): phases = M-2, M-1, 0, 1, 2 (mod M)
fn near_falling_edge(p: u32, bit: u32) -> bool {
  let m = 1u32 << (bit + 1);
  (p + 2) % m <= 4
}

/// Stage deadlines only bound the run on a loaded machine (sum: thorough 20 min, quick 11 min);
/// on 16 idle cores every stage finishes well inside its deadline.  A stage that hits it is
/// reported as capped and the run is not called exhaustive.
fn secs(thorough: bool, t: u64, q: u64) -> std::time::Duration {
  // (the figures at the call sites are the original budgets; they proved too tight when all
  // twenty checks run side by side and are scaled here)
  std::time::Duration::from_secs(if thorough { 4 * t } else { 30 * q })
}

fn gcd(a: usize, b: usize) -> usize {
  if b == 0 {
    a
  } else {
    gcd(b, a % b)
  }
}

/// Deterministic re-ordering (index i -> element i*K mod n, K ~ 0.618 n coprime to n) so that
/// every prefix of the case list is spread evenly over the divider phases: a stage that hits
/// its deadline has then still covered a uniform subset.
fn spread(v: Vec<u32>) -> Vec<u32> {
  let n = v.len();
  if n < 3 {
    return v;
  }
  let mut k = (n as u64 * 618 / 1000) as usize | 1;
  while gcd(k, n) != 1 {
    k += 2;
  }
  (0..n).map(|i| v[((i as u64 * k as u64) % n as u64) as usize]).collect()
}

fn crash<'a>(stage: &'static str, phases: &'a [u32]) -> impl Fn(u64, &str) -> (String, J) + 'a {
  move |case, how| (format!("C13 stage={} crash={}", stage, how), J::obj().set("case", J::obj().set("phase", J::u(phases[case as usize] as u64)).set("stage", J::s(stage))))
}

pub fn run(tier: &str) -> i32 {
  let mut rep = Report::new("C13", tier, "model_checking");
  let thorough = rep.thorough();
  rep.assume("R5 written from the property text and Pan Docs: sig = TAC.2 && div16 bit {9,3,5,7}[TAC&3]; TIMA ticks on every 1->0 change of sig, by a clock or by a TAC write");
  rep.assume("overflow: TIMA is reloaded from TMA and IF.2 requested in the clock of the overflow, as the statement says (the 4-clock reload delay of hardware is not modelled)");
  rep.assume("DIV write: both outcomes accepted (with or without the TIMA tick the divider reset induces on hardware); the statement is silent on it");
  rep.assume("Timer::new() counts as a DIV write at clock 0 (the post-boot-ROM DIV value is outside the statement)");
  rep.assume("the phase hook is compared modulo 65536: bits above 15 have no observable effect on DIV/TIMA/IF (the subject masks them everywhere); observations with such bits are counted in hook_above_16_bits");
  rep.assume("several overflows inside one batch are one request (IF.2 is a level): the returned flag is compared with the OR over the clocks of the batch");
  rep.assume("TAC bits 3-7 on read-back are not judged");
  rep.assume("through IO::run_clock_cycles only elapses of whole machine cycles (multiples of 4 clocks) are applied: the call also drives the PPU, whose loop requires that (not a C13 matter); the bare Timer is exercised with every listed d");

  // ----- phase sets ---------------------------------------------------------------------
  // stage 1: all 65536 divider phases, in both tiers (measured: about 1 s on 16 cores)
  let s1: Vec<u32> = spread((0..65536u32).collect());
  let mut in_s1 = vec![false; 65536];
  for p in s1.iter() {
    in_s1[*p as usize] = true;
  }
  // stage 2 (TIMA all 256): thorough = the 20480 phases within +-2 clocks of a falling edge of
  // divider bit 3 (these contain every falling edge of bits 5, 7 and 9); quick = the 1280 phases within +-2
  // clocks of a falling edge of divider bit 7 (each of them is also a falling edge of bits 3
  // and 5, every 4th of bit 9)
  let s2: Vec<u32> = spread((0..65536u32).filter(|p| near_falling_edge(*p, if thorough { 3 } else { 7 })).collect());
  // stage 3 (long elapses): phases 64k-1, 64k, 64k+1; quick: every 4th k
  let kstep = if thorough { 1 } else { 4 };
  let mut s3: Vec<u32> = Vec::new();
  for k in (0..1024u32).step_by(kstep) {
    for off in [65535u32, 0, 1].iter() {
      s3.push((64 * k + off) & 0xFFFF);
    }
  }
  let s3 = spread(s3);
  // stage 4 (IO): listed offsets inside 1024-clock blocks; quick: every 8th block
  const IO_OFFS: [u32; 24] = [0, 1, 2, 7, 8, 9, 15, 16, 17, 31, 32, 33, 63, 64, 127, 128, 255, 256, 511, 512, 513, 1021, 1022, 1023];
  let mut s4: Vec<u32> = Vec::new();
  for b in (0..64u32).step_by(if thorough { 1 } else { 8 }) {
    for o in IO_OFFS.iter() {
      s4.push(b * 1024 + o);
    }
  }
  let s4 = spread(s4);
  // stage 5 (batching): phase stride
  let (stride5, bcfg) = if thorough {
    (BATCH_STRIDE_THOROUGH, BatchCfg { max_n: 10, max_n_w: 8, schemes: 3 })
  } else {
    (BATCH_STRIDE_QUICK, BatchCfg { max_n: 10, max_n_w: 6, schemes: 2 })
  };
  let s5: Vec<u32> = spread((0..65536u32).step_by(stride5).collect());

  let shorts = short_actions();
  let io_acts = io_actions();
  let longs = long_actions();
  let all256: Vec<u8> = (0..=255u8).collect();
  let mut totals = [0u64; 9];
  let mut add = |c: &[u64; crate::util::pool::NCOUNTERS]| {
    for i in 0..9 {
      totals[i] += c[i];
    }
  };

  // ----- stage 1 ------------------------------------------------------------------------
  {
    let never = |_: u32, _: u8| false;
    let cfg = StepCfg { timas: &TIMA4, actions: &shorts, with_io: false, seen_before: &never };
    let opts = PoolOpts { chunk: 64, bitmap_bits: 1 << 14, deadline: Some(secs(thorough, 15, 5)), ..PoolOpts::default() };
    let r = run_pool(
      s1.len() as u64,
      &opts,
      make_world,
      |w, case, ctx| {
        let phase = s1[case as usize];
        ctx.sample(|| J::obj().set("stage", J::s("one-step")).set("phase", J::u(phase as u64)).set("states", J::s("TAC 0..7 (written with bits 3-7 set where phase bit 2 is set) + never-written x TIMA {00,01,FE,FF} x TMA {00,7F,FF}")).set("actions", J::s("TAC<-0..7,F9,FC, DIV<-, TIMA<-{00,FF}, TMA<-{00,AB}, elapse {0,1,2,3,4,5,8,12,15,16,17,60,64,252,256,260,1020,1024,1028}")));
        one_step(w, ctx, phase, &cfg);
      },
      crash("one-step", &s1),
    );
    let space = format!("all {} divider phases x (TAC 0..7, written with bits 3-7 set where phase bit 2 is set, + never-written) x TIMA {{00,01,FE,FF}} x TMA {{00,7F,FF}} x {} actions", s1.len(), shorts.len());
    let c = rep.add_stage("one-step", &space, r);
    add(&c);
  }
  // ----- stage 2 ------------------------------------------------------------------------
  {
    let seen = |p: u32, tima: u8| in_s1[p as usize] && TIMA4.contains(&tima);
    let cfg = StepCfg { timas: &all256, actions: &shorts, with_io: false, seen_before: &seen };
    // measured on 16 idle cores: thorough about 15 s, quick about 1 s; the deadline only bounds a loaded machine
    let deadline = secs(thorough, 50, 6);
    let opts = PoolOpts { chunk: 4, bitmap_bits: 1 << 14, deadline: Some(deadline), ..PoolOpts::default() };
    let r = run_pool(
      s2.len() as u64,
      &opts,
      make_world,
      |w, case, ctx| {
        let phase = s2[case as usize];
        ctx.sample(|| J::obj().set("stage", J::s("tima-all")).set("phase", J::u(phase as u64)).set("states", J::s("TAC 0..7 (written with bits 3-7 set where phase bit 2 is set) + never-written x TIMA 00..FF x TMA {00,7F,FF}")).set("actions", J::s("as one-step")));
        one_step(w, ctx, phase, &cfg);
      },
      crash("tima-all", &s2),
    );
    let space = format!(
      "{} x (TAC 0..7, written with bits 3-7 set where phase bit 2 is set, + never-written) x TIMA all 256 x TMA {{00,7F,FF}} x {} actions",
      if thorough { format!("{} phases within +-2 clocks of a falling edge of divider bit 3 (contains every falling edge of bits 5, 7, 9)", s2.len()) } else { format!("{} phases within +-2 clocks of a falling edge of divider bit 7 (each also an edge of bits 3 and 5, every 4th of bit 9)", s2.len()) },
      shorts.len()
    );
    let c = rep.add_stage("tima-all", &space, r);
    add(&c);
  }
  // ----- stage 3 ------------------------------------------------------------------------
  {
    let seen = |p: u32, _tima: u8| in_s1[p as usize];
    let cfg = StepCfg { timas: &TIMA4, actions: &longs, with_io: false, seen_before: &seen };
    let opts = PoolOpts { chunk: 2, bitmap_bits: 1 << 14, deadline: Some(secs(thorough, 15, 3)), ..PoolOpts::default() };
    let r = run_pool(
      s3.len() as u64,
      &opts,
      make_world,
      |w, case, ctx| {
        let phase = s3[case as usize];
        ctx.sample(|| J::obj().set("stage", J::s("long-elapse")).set("phase", J::u(phase as u64)).set("actions", J::s("elapse {4096,65532,65536,65540,131076}")));
        one_step(w, ctx, phase, &cfg);
      },
      crash("long-elapse", &s3),
    );
    let space = format!("{} phases (64k-1, 64k, 64k+1 for every {} k) x (TAC 0..7, written with bits 3-7 set where phase bit 2 is set, + never-written) x TIMA {{00,01,FE,FF}} x TMA {{00,7F,FF}} x elapse {{4096,65532,65536,65540,131076}}", s3.len(), if thorough { "" } else { "4th" });
    let c = rep.add_stage("long-elapse", &space, r);
    add(&c);
  }
  // ----- stage 4 ------------------------------------------------------------------------
  {
    let always = |_: u32, _: u8| true;
    let cfg = StepCfg { timas: &TIMA4, actions: &io_acts, with_io: true, seen_before: &always };
    let opts = PoolOpts { chunk: 4, bitmap_bits: 1 << 14, deadline: Some(secs(thorough, 25, 3)), ..PoolOpts::default() };
    let r = run_pool(
      s4.len() as u64,
      &opts,
      make_world,
      |w, case, ctx| {
        let phase = s4[case as usize];
        ctx.sample(|| J::obj().set("stage", J::s("io")).set("phase", J::u(phase as u64)).set("via", J::s("IO::set_byte(FF04..FF07), get_byte, run_clock_cycles, IF bit 2; each transition also on the bare Timer")));
        one_step(w, ctx, phase, &cfg);
      },
      crash("io", &s4),
    );
    let space = format!("{} phases (offsets {{0,1,2,7,8,9,15,16,17,31,32,33,63,64,127,128,255,256,511,512,513,1021,1022,1023}} of every {}1024-clock block) x 9 TAC configurations x TIMA {{00,01,FE,FF}} x TMA {{00,7F,FF}} x {} actions (writes + elapses that are whole machine cycles) x {{Timer, IO bus}}", s4.len(), if thorough { "" } else { "8th " }, io_acts.len());
    let c = rep.add_stage("io", &space, r);
    // start states of this stage repeat stage-1 states: only transitions/traces are added
    let mut c2 = c;
    c2[C_STATES] = 0;
    c2[C_NEW_STATES] = 0;
    add(&c2);
  }
  // ----- stage 5 ------------------------------------------------------------------------
  let batch_states;
  {
    // measured on 16 idle cores: thorough (stride 7) about 90 s, quick about 2.5 s
    let deadline = secs(thorough, 190, 5);
    let opts = PoolOpts { chunk: 1, bitmap_bits: 1 << 15, deadline: Some(deadline), ..PoolOpts::default() };
    let r = run_pool(
      s5.len() as u64,
      &opts,
      |_| (),
      |_, case, ctx| {
        let phase = s5[case as usize];
        ctx.sample(|| J::obj().set("stage", J::s("batching")).set("phase", J::u(phase as u64)).set("states", J::s("TAC 0..7 x TIMA {FE,FF} x TMA {00,7F,FF}")).set("sequences", J::s("unit {4,60,252}: single batches of 1..10 units, every composition of n<=10 units, compositions with a TAC write in every gap")));
        batching(ctx, phase, &bcfg);
      },
      crash("batching", &s5),
    );
    let space = format!(
      "{} phases (stride {}) x TAC 0..7 x TIMA {{FE,FF}} x TMA {{00,7F,FF}} x unit {{4,60,252}} x (10 single batches + the 1013 compositions of n<=10 units into >=2 batches + {} TAC-write schemes x the {} compositions of n<={} units with a TAC write in every gap)",
      s5.len(),
      stride5,
      bcfg.schemes,
      (1u32 << bcfg.max_n_w) - 1 - bcfg.max_n_w as u32,
      bcfg.max_n_w
    );
    let c = rep.add_stage("batching", &space, r);
    batch_states = c[C_STATES];
    let mut c2 = c;
    c2[C_STATES] = 0;
    c2[C_NEW_STATES] = 0;
    add(&c2);
  }

  // ----- stage 5b: histories ------------------------------------------------------------
  // The one-step relation starts from freshly constructed states; state the implementation
  // keeps for itself (a "just reloaded" flag, a remembered edge) is only reachable through
  // histories.  Every sequence of 3 (thorough 4) actions over a 17-letter alphabet from 128
  // states, every field judged after every action.  A DIV write has two admissible outcomes
  // (with / without the induced edge, section 7): the reference follows the one the subject took.
  {
    let alphabet: Vec<Act> = vec![
      Act::Elapse(4), Act::Elapse(12), Act::Elapse(16), Act::Elapse(64), Act::Elapse(256), Act::Elapse(1024),
      Act::Tima(0x00), Act::Tima(0xA5), Act::Tima(0xFF), Act::Tma(0x00), Act::Tma(0xFE),
      Act::Tac(0), Act::Tac(4), Act::Tac(5), Act::Tac(6), Act::Tac(7), Act::Div,
    ];
    let depth: u32 = if thorough { 4 } else { 3 };
    let na = alphabet.len() as u64;
    let nseq = na.pow(depth);
    let phases: [u32; 8] = [0, 4, 12, 252, 1020, 4092, 0x7FFC, 0xFFFC];
    let n_states = (phases.len() * 8 * 2) as u64;
    let opts = PoolOpts { chunk: 1, bitmap_bits: 1 << 14, samples_per_child: 1, ..PoolOpts::default() };
    let r = run_pool(
      n_states,
      &opts,
      |_| (),
      |_, case, ctx| {
        let phase = phases[(case % 8) as usize];
        let tac = ((case / 8) % 8) as u8;
        let tima: u8 = if (case / 64) % 2 == 0 { 0xFE } else { 0xFF };
        let tma: u8 = 0x7F;
        ctx.sample(|| J::obj().set("stage", J::s("histories")).set("phase", J::u(phase as u64)).set("tac", J::u(tac as u64)).set("tima", J::u(tima as u64)).set("sequences", J::u(nseq)));
        let mut hook_hi = 0u64;
        for h in 0..nseq {
          let mut x = h;
          let mut acts = [0usize; 4];
          for k in (0..depth as usize).rev() {
            acts[k] = (x % na) as usize;
            x /= na;
          }
          let (mut t, _) = build_timer(phase, Some(tac), tima, tma);
          let mut r = R5::new(phase, tac, tima, tma);
          for k in 0..depth as usize {
            let act = alphabet[acts[k]];
            let f = act.on_timer(&mut t);
            let got = obs_timer(&t, f, &mut hook_hi);
            let want = match act {
              Act::Tac(v) => { let i = r.write_tac(v); r.obs(i) },
              Act::Tima(v) => { r.tima = v; r.obs(false) },
              Act::Tma(v) => { r.tma = v; r.obs(false) },
              Act::Elapse(d) => { let i = r.elapse(d); r.obs(i) },
              Act::Div => {
                let mut a = r;
                a.write_div_plain();
                let mut b = r;
                let ib = b.write_div_edge();
                if diff(&b.obs(ib), &got) == 0 { r = b; b.obs(ib) } else { r = a; a.obs(false) }
              },
            };
            ctx.count(C_TRANS, 1);
            if let Act::Elapse(d) = act {
              ctx.count(C_IMPL_CLOCKS, d as u64);
              ctx.count(C_REF_CLOCKS, d as u64);
            }
            let m = diff(&want, &got);
            if m != 0 {
              let name = FIELDS.iter().find(|(bit, _)| m & bit != 0).map(|(_, n)| *n).unwrap_or("?");
              ctx.violation(&format!("C13 tac={} history action={} field={} step={}", tac_label(tac as usize), act.kind(), name, k + 1), || {
                J::obj()
                  .set("case", J::obj().set("via", J::s("timer")).set("phase", J::u(phase as u64)).set("tac", J::u(tac as u64)).set("tima", J::u(tima as u64)).set("tma", J::u(tma as u64)).set("history", J::Arr(acts[..depth as usize].iter().map(|a| J::s(alphabet[*a].desc())).collect())).set("failing_step", J::u(k as u64 + 1)))
                  .set("expected", want.json())
                  .set("observed", got.json())
              });
              break;
            }
          }
          ctx.count(C_TRACES, 1);
        }
        ctx.class(0x80000 | case);
      },
      |case, how| (format!("C13 history crash={}", how), J::obj().set("case", J::u(case))),
    );
    let c = rep.add_stage("histories", &format!("8 phases x TAC 0..7 x TIMA {{FE,FF}} x all {} sequences of {} actions over 17 letters (6 elapses, 3 TIMA writes, 2 TMA writes, 5 TAC writes, DIV write), every field judged after every action", nseq, depth), r);
    let mut c2 = c;
    c2[C_STATES] = 0;
    c2[C_NEW_STATES] = 0;
    add(&c2);
  }

  // ----- stage 6: the timer inside the machine -------------------------------------------
  // DIV/TIMA/IF as the guest sees them through the bus while the other devices are busy: time
  // delivered by MemoryAreas::run_clock_cycles (what the CPU's accounting calls), with an OAM
  // DMA in flight and/or the display running.  What the timer shows may not depend on that.
  {
    const CTX_NAME: [&str; 4] = ["idle", "oam-dma-in-flight", "lcd-on", "dma+lcd"];
    let schedules: Vec<(&str, Vec<u32>)> = vec![
      ("1x2048", vec![2048]),
      ("4x512", vec![512; 4]),
      ("640+1408", vec![640, 1408]),
      ("512x4", vec![4; 512]),
      ("60,252,...", { let mut v = Vec::new(); let mut t = 0; while t + 312 <= 2048 { v.push(60); v.push(252); t += 312; } v.push(2048 - t); v }),
      ("8+632+1408", vec![8, 632, 1408]),
      // batches of a whole divider period and more (a straight-line block filling a ROM bank
      // delivers more than 65536 clocks in one step)
      ("1x65536", vec![65536]),
      ("65540+65532", vec![65540, 65532]),
      ("1x131076", vec![131076]),
      ("256+65536+256", vec![256, 65536, 256]),
    ];
    let ns = schedules.len() as u64;
    let total_cases = 8 * 2 * 4 * ns;
    let opts = PoolOpts { chunk: 4, bitmap_bits: 1 << 12, samples_per_child: 1, ..PoolOpts::default() };
    let r = run_pool(
      total_cases,
      &opts,
      |_| {
        let mut rom = vec![0u8; 0x8000];
        rom[0x100..0x150].copy_from_slice(&crate::world::header_bytes(0x00, 0x00, 0x00)[0x100..0x150]);
        crate::world::flat_core(rom)
      },
      |core, case, ctx| {
        let si = (case % ns) as usize;
        let dctx = ((case / ns) % 4) as usize;
        let tima0: u8 = if (case / ns / 4) % 2 == 0 { 0x00 } else { 0xF0 };
        let tac = (case / ns / 8) as u8 & 7;
        let tma = 0x7Fu8;
        let (sname, sched) = &schedules[si];
        core.memory.io = IO::new();
        core.memory.oam_dma = None;
        let m = &mut core.memory as *mut crate::mem::MemoryAreas;
        let wr = |a: u16, v: u8| crate::mem::memory_write_byte(m, a, v);
        let rd = |a: u16| crate::mem::memory_read_byte(m as *const crate::mem::MemoryAreas, a);
        wr(0xFF04, 0);
        wr(0xFF06, tma);
        wr(0xFF05, tima0);
        wr(0xFF07, tac);
        if dctx & 2 != 0 {
          wr(0xFF40, 0x91);
        }
        if dctx & 1 != 0 {
          wr(0xFF46, 0xC1);
        }
        wr(0xFF0F, 0);
        let mut r5 = R5::new(0, tac, tima0, tma);
        ctx.sample(|| J::obj().set("stage", J::s("in-the-machine")).set("tac", J::u(tac as u64)).set("tima", J::u(tima0 as u64)).set("context", J::s(CTX_NAME[dctx])).set("schedule", J::s(*sname)));
        let mut elapsed = 0u32;
        for (bi, b) in sched.iter().enumerate() {
          core.memory.run_clock_cycles(ClockCycles(*b as usize));
          let irq = r5.elapse(*b);
          elapsed += *b;
          let got = (rd(0xFF04), rd(0xFF05), rd(0xFF0F) & 4 != 0);
          wr(0xFF0F, 0);
          let want = ((r5.div16 >> 8) as u8, r5.tima, irq);
          ctx.count(C_TRANS, 1);
          ctx.count(C_IMPL_CLOCKS, *b as u64);
          ctx.count(C_REF_CLOCKS, *b as u64);
          ctx.class(0x40000 | ((tac as u64) << 8) | ((dctx as u64) << 4) | ((irq as u64) << 3) | (bi.min(7) as u64));
          if got != want {
            let field = if got.0 != want.0 { "div" } else if got.1 != want.1 { "tima" } else { "irq" };
            ctx.violation(&format!("C13 tac={} action=elapse field={} context={}", tac_label(tac as usize), field, CTX_NAME[dctx]), || {
              J::obj()
                .set("case", J::obj().set("via", J::s("bus writes + MemoryAreas::run_clock_cycles")).set("tac", J::u(tac as u64)).set("tima", J::u(tima0 as u64)).set("tma", J::u(tma as u64)).set("context", J::s(CTX_NAME[dctx])).set("schedule", J::s(*sname)).set("batch_index", J::u(bi as u64)).set("clocks_elapsed", J::u(elapsed as u64)))
                .set("expected", J::obj().set("div", J::u(want.0 as u64)).set("tima", J::u(want.1 as u64)).set("irq", J::Bool(want.2)))
                .set("observed", J::obj().set("div", J::u(got.0 as u64)).set("tima", J::u(got.1 as u64)).set("irq", J::Bool(got.2)))
            });
            break;
          }
        }
        ctx.count(C_TRACES, 1);
      },
      |case, how| (format!("C13 action=elapse context-case crash={}", how), J::obj().set("case", J::u(case))),
    );
    let c = rep.add_stage("in-the-machine", "TAC 0..7 x TIMA {00,F0} x device context {idle, OAM DMA in flight, display on, both} x 6 partitions of 2048 clocks and 4 schedules with batches of 65536..131076 clocks: registers set through the bus, time delivered by MemoryAreas::run_clock_cycles, DIV / TIMA / IF bit 2 read through the bus after every batch", r);
    let mut c2 = c;
    c2[C_STATES] = 0;
    c2[C_NEW_STATES] = 0;
    add(&c2);
  }

  rep.evaluations = totals[C_TRANS];
  rep.cov("states", J::u(totals[C_NEW_STATES]));
  rep.cov("states_constructed_incl_repeats", J::u(totals[C_STATES]));
  rep.cov("batching_start_states", J::u(batch_states));
  rep.cov("transitions", J::u(totals[C_TRANS]));
  rep.cov("traces_validated_against_impl", J::u(totals[C_TRACES]));
  rep.cov("subject_clocks_looped", J::u(totals[C_IMPL_CLOCKS]));
  rep.cov("reference_clocks_stepped", J::u(totals[C_REF_CLOCKS]));
  rep.cov("hook_above_16_bits", J::u(totals[C_HOOK_HI]));
  rep.cov("div_write_induced_edge_outcomes", J::u(totals[C_DIV_EDGE]));
  rep.cov("skipped_after_failed_construction", J::u(totals[C_SKIPPED]));
  rep.cov(
    "rule",
    J::s("a state is (divider phase, TAC configuration incl. never-written, TIMA, TMA); every enumerated state is constructed on the real Timer through its public API and every action is executed from it; DIV, TIMA, TMA, TAC bits 0-2, the 16-bit phase (hook) and the returned InterruptFlag (IO: IF bit 2) are compared with R5 stepped one clock at a time; a transition is one register write or one elapsed batch; a trace is one compared sequence (one-step: one transition; batching: one sequence of batches/writes); an outcome class is (TAC configuration, action, number of TIMA ticks 0/1/2-15/16+, overflow) resp. (TAC, unit, n, overflow, kind of split)"),
  );
  rep.finish()
}

const BATCH_STRIDE_THOROUGH: usize = 7;
const BATCH_STRIDE_QUICK: usize = 257;

