//! C12 — MBC1/MBC3 bank selection follows the controller's register protocol.
//!
//! E2c + E2b (+ a small E2a): for every cartridge configuration a real `Core` is loaded
//! from a generated ROM file whose banks carry their own index (ROM: offsets 0/1 and
//! 0x3FFE/F of every 16 KiB bank; cartridge RAM: offsets 0/1 and the last two bytes of
//! every 8 KiB bank).  The reference controller R3 (Pan Docs, written from the property
//! text) is closed breadth-first from the power-on state under the alphabet "write any
//! of 256 values to one of 8 addresses covering the four register windows".  Every
//! reachable reference state is reached on the real controller (a) by replaying the
//! shortest write path on a power-on controller and (b) by the canonical <= 4 register
//! writes, and from it every one of the 2048 actions is executed; after each transition
//! the visible banks are read *through the bus helpers* and compared with R3.
//!
//! A bank number the implementation would use beyond the ROM/RAM buffer makes the bus
//! helper panic inside `extern "sysv64"` (process abort).  To keep that cheap the read is
//! guarded: the index the helper would compute is derived from `get_rom_bank()` /
//! `get_ram_bank()` and the buffer length, an out-of-buffer index is recorded as
//! `kind=bank-out-of-range` without performing the read, and a final stage executes the
//! recorded case of every such key for real in an isolated worker (it must die).

use crate::cart::Header;
use crate::emulator::Core;
use crate::mem::{memory_read_byte, memory_write_byte, MemoryAreas};
use crate::util::json::J;
use crate::util::pool::{run_pool, Ctx, PoolOpts};
use crate::util::report::Report;
use crate::world::{header_bytes, load_like_main, ram_bytes_for_code, read_header_of, rom_banks_for_code, write_sparse_rom_file};

const ADDRS: [u16; 8] = [0x0000, 0x1FFF, 0x2000, 0x3FFF, 0x4000, 0x5FFF, 0x6000, 0x7FFF];
const WIN: [&str; 4] = ["ramen", "romb", "ramb", "mode"];
const N_ACTIONS: u64 = 8 * 256;
/// MBC3 RAM-bank register after a value 4-0xFF: mapping unspecified until the next value <= 3
const RB_UNSPEC: u8 = 4;

// counters
const K_TRANS: usize = 0;
const K_STATES: usize = 1;
const K_ROM_JUDGED: usize = 2;
const K_RAM_JUDGED: usize = 3;
const K_ROM_OOR: usize = 4;
const K_RAM_OOR: usize = 5;
const K_ROM_UNJUDGED: usize = 6;
const K_HIST: usize = 7;
const K_RW: usize = 8;
const K_CONFIRM_SURVIVED: usize = 9;
const K_CONFIRM_RUN: usize = 10;
const K_SETVALUED: usize = 11;
const K_DECODE: usize = 12;

// ------------------------------------------------------------------ reference R3

#[derive(Clone, Copy, PartialEq, Eq, Debug)]
enum Ctl {
  None,
  Mbc1,
  Mbc3,
}

fn ctl_of(typ: u8) -> Ctl {
  match typ {
    0x00 => Ctl::None,
    0x01 | 0x02 | 0x03 => Ctl::Mbc1,
    _ => Ctl::Mbc3,
  }
}

fn ctl_name(c: Ctl) -> &'static str {
  match c {
    Ctl::None => "rom-only",
    Ctl::Mbc1 => "mbc1",
    Ctl::Mbc3 => "mbc3",
  }
}

fn ctl_idx(c: Ctl) -> usize {
  match c {
    Ctl::None => 0,
    Ctl::Mbc1 => 1,
    Ctl::Mbc3 => 2,
  }
}

/// Reference controller registers.  MBC1: hi in 0..=3, mode in 0..=1.  MBC3: hi = RAM bank
/// register 0..=3 or RB_UNSPEC, mode always 0.  ROM-only: the single state.
#[derive(Clone, Copy, PartialEq, Eq, Debug)]
struct RState {
  en: bool,
  lo: u8,
  hi: u8,
  mode: u8,
}

/// Power-on: RAM disabled, bank 1 visible, RAM bank 0, mode 0.  Whether the ROM-bank register
/// holds 0 or 1 at power-on is not observable under R3 (both show bank 1 in every future);
/// 1 is used so that a state with lo = 0 is always reached by an explicit write of 0.
const POWER_ON: RState = RState { en: false, lo: 1, hi: 0, mode: 0 };

impl RState {
  fn pack(&self) -> usize {
    (self.en as usize) | ((self.lo as usize) << 1) | ((self.hi as usize) << 8) | ((self.mode as usize) << 11)
  }
  fn json(&self) -> J {
    J::obj().set("en", J::Bool(self.en)).set("lo", J::u(self.lo as u64)).set("hi", if self.hi == RB_UNSPEC { J::s("unspecified(rtc)") } else { J::u(self.hi as u64) }).set("mode", J::u(self.mode as u64))
  }
}

fn ref_write(ctl: Ctl, s: RState, addr: u16, v: u8) -> RState {
  let mut n = s;
  match ctl {
    Ctl::None => {},
    Ctl::Mbc1 => match addr >> 13 {
      0 => n.en = (v & 0x0F) == 0x0A,
      1 => n.lo = v & 0x1F,
      2 => n.hi = v & 3,
      _ => n.mode = v & 1,
    },
    Ctl::Mbc3 => match addr >> 13 {
      0 => n.en = (v & 0x0F) == 0x0A,
      1 => n.lo = v & 0x7F,
      2 => n.hi = if v <= 3 { v } else { RB_UNSPEC },
      _ => {},
    },
  }
  n
}

/// Reduction to the cartridge's size; None where the statement does not say (N not a power
/// of two and the number out of range).
fn reduce(b: usize, n: usize) -> Option<usize> {
  if n.is_power_of_two() {
    Some(b & (n - 1))
  } else if b < n {
    Some(b)
  } else {
    None
  }
}

/// Allowed visible ROM banks at 0x4000 (two entries, possibly equal); None = not judged.
fn ref_rom(ctl: Ctl, s: &RState, n: usize) -> Option<(usize, usize)> {
  let lo1 = if s.lo == 0 { 1usize } else { s.lo as usize };
  match ctl {
    Ctl::None => Some((1, 1)),
    Ctl::Mbc1 => {
      let full = ((s.hi as usize) << 5) | lo1;
      if s.mode == 0 {
        reduce(full, n).map(|b| (b, b))
      } else {
        match (reduce(lo1, n), reduce(full, n)) {
          (Some(a), Some(b)) => Some((a, b)),
          _ => None,
        }
      }
    },
    Ctl::Mbc3 => reduce(lo1, n).map(|b| (b, b)),
  }
}

/// Visible RAM bank; None = not judged (no RAM, disabled, mapping unspecified).
fn ref_ram(ctl: Ctl, s: &RState, m: usize) -> Option<usize> {
  if m == 0 || !s.en {
    return None;
  }
  match ctl {
    Ctl::None => None,
    Ctl::Mbc1 => {
      if s.mode == 0 {
        Some(0)
      } else {
        reduce(s.hi as usize, m)
      }
    },
    Ctl::Mbc3 => {
      if s.hi == RB_UNSPEC {
        None
      } else {
        reduce(s.hi as usize, m)
      }
    },
  }
}

/// The <= 4 writes that construct a reference state on any controller (every register is
/// fully overwritten by a write to its window).
fn canon_writes(ctl: Ctl, s: &RState) -> Vec<(u16, u8)> {
  match ctl {
    Ctl::None => vec![],
    Ctl::Mbc1 => vec![(0x0000, if s.en { 0x0A } else { 0x00 }), (0x2000, s.lo), (0x4000, s.hi), (0x6000, s.mode)],
    Ctl::Mbc3 => vec![(0x0000, if s.en { 0x0A } else { 0x00 }), (0x2000, s.lo), (0x4000, if s.hi == RB_UNSPEC { 0x08 } else { s.hi })],
  }
}

/// Breadth-first closure of the reference controller from power-on under the alphabet.
/// Returns the states in discovery order with (parent index, write) back pointers.
struct Closure {
  states: Vec<RState>,
  parent: Vec<Option<(usize, (u16, u8))>>,
  edges: u64,
}

impl Closure {
  fn build(ctl: Ctl) -> Closure {
    let mut index = vec![usize::MAX; 1 << 12];
    let mut states = vec![POWER_ON];
    let mut parent: Vec<Option<(usize, (u16, u8))>> = vec![None];
    index[POWER_ON.pack()] = 0;
    let mut head = 0;
    let mut edges = 0u64;
    while head < states.len() {
      let s = states[head];
      for &a in ADDRS.iter() {
        for v in 0..=255u8 {
          let n = ref_write(ctl, s, a, v);
          edges += 1;
          if index[n.pack()] == usize::MAX {
            index[n.pack()] = states.len();
            states.push(n);
            parent.push(Some((head, (a, v))));
          }
        }
      }
      head += 1;
    }
    Closure { states, parent, edges }
  }
  fn path(&self, mut i: usize) -> Vec<(u16, u8)> {
    let mut p = Vec::new();
    while let Some((pi, w)) = self.parent[i] {
      p.push(w);
      i = pi;
    }
    p.reverse();
    p
  }
}

// ------------------------------------------------------------------ configurations / worlds

#[derive(Clone, Copy)]
struct Cfg {
  typ: u8,
  rom_code: u8,
  ram_code: u8,
  n: usize,
  ram_bytes: usize,
  ctl: Ctl,
}

impl Cfg {
  fn new(typ: u8, rom_code: u8, ram_code: u8) -> Cfg {
    Cfg { typ, rom_code, ram_code, n: rom_banks_for_code(rom_code).unwrap(), ram_bytes: ram_bytes_for_code(ram_code).unwrap(), ctl: ctl_of(typ) }
  }
  /// RAM banks (2 KiB counts as one partial bank)
  fn m(&self) -> usize {
    if self.ram_bytes == 0 {
      0
    } else if self.ram_bytes < 0x2000 {
      1
    } else {
      self.ram_bytes / 0x2000
    }
  }
  /// bytes of the 0xA000 window backed by storage
  fn span(&self) -> usize {
    self.ram_bytes.min(0x2000)
  }
  fn name(&self) -> String {
    format!("{:02X}/{}banks/{}ram", self.typ, self.n, self.ram_bytes)
  }
  fn json(&self) -> J {
    J::obj()
      .set("cart_type", J::s(format!("{:02X}", self.typ)))
      .set("rom_code", J::s(format!("{:02X}", self.rom_code)))
      .set("ram_code", J::s(format!("{:02X}", self.ram_code)))
      .set("rom_banks", J::u(self.n as u64))
      .set("ram_bytes", J::u(self.ram_bytes as u64))
  }
  fn rom_class(&self) -> String {
    match self.ctl {
      Ctl::None => "rom-only".to_string(),
      c => format!("{}/{}", ctl_name(c), if self.n < 128 { "small-rom" } else { "full-rom" }),
    }
  }
  fn ram_class(&self) -> String {
    match self.ctl {
      Ctl::None => "rom-only".to_string(),
      c => format!("{}/{}", ctl_name(c), if self.m() < 4 { "small-ram" } else { "full-ram" }),
    }
  }
}

fn rom_marker(b: usize) -> [u8; 4] {
  let a = (b as u16) ^ 0x5AA5;
  let c = (b as u16) ^ 0xC33C;
  [a as u8, (a >> 8) as u8, c as u8, (c >> 8) as u8]
}

fn ram_marker(b: usize) -> [u8; 4] {
  let a = (b as u16) ^ 0x6996;
  let c = (b as u16) ^ 0x9669;
  [a as u8, (a >> 8) as u8, c as u8, (c >> 8) as u8]
}

fn decode(bytes: [u8; 4], x1: u16, x2: u16) -> Option<usize> {
  let a = (bytes[0] as u16 | ((bytes[1] as u16) << 8)) ^ x1;
  let c = (bytes[2] as u16 | ((bytes[3] as u16) << 8)) ^ x2;
  if a == c {
    Some(a as usize)
  } else {
    None
  }
}

/// A ROM file of cfg.n banks (sparse), valid header, every bank marked with its index.
fn build_rom_file(cfg: &Cfg) -> String {
  let hdr = header_bytes(cfg.typ, cfg.rom_code, cfg.ram_code);
  let mut parts: Vec<(u64, Vec<u8>)> = Vec::with_capacity(1 + 2 * cfg.n);
  for b in 0..cfg.n {
    let m = rom_marker(b);
    parts.push(((b * 0x4000) as u64, m[0..2].to_vec()));
    parts.push(((b * 0x4000 + 0x3FFE) as u64, m[2..4].to_vec()));
  }
  parts.push((0x100, hdr[0x100..0x150].to_vec()));
  let refs: Vec<(u64, &[u8])> = parts.iter().map(|(o, b)| (*o, b.as_slice())).collect();
  write_sparse_rom_file((cfg.n * 0x4000) as u64, &refs)
}

fn fill_ram(core: &mut Core) {
  let len = core.memory.cart_ram.len();
  if len == 0 {
    return;
  }
  let span = len.min(0x2000);
  let banks = (len / 0x2000).max(1);
  for b in 0..banks {
    let mk = ram_marker(b);
    let base = b * 0x2000;
    core.memory.cart_ram[base] = mk[0];
    core.memory.cart_ram[base + 1] = mk[1];
    core.memory.cart_ram[base + span - 2] = mk[2];
    core.memory.cart_ram[base + span - 1] = mk[3];
  }
}

struct Worker {
  cur: usize,
  core: Option<Box<Core>>,
  header: Option<Header>,
  path: String,
}

impl Worker {
  fn new() -> Worker {
    Worker { cur: usize::MAX, core: None, header: None, path: String::new() }
  }
  fn ensure(&mut self, idx: usize, paths: &[String]) {
    if self.cur == idx && self.core.is_some() {
      return;
    }
    self.core = None;
    let mut core = load_like_main(&paths[idx]).expect("generated ROM must load");
    fill_ram(&mut core);
    self.header = Some(read_header_of(&paths[idx]).expect("header"));
    self.path = paths[idx].clone();
    self.core = Some(core);
    self.cur = idx;
  }
  /// power-on controller: the one the real load path (open, header, checksum,
  /// `Core::from_rom_file`) installs for this file - taken from a freshly loaded machine, not
  /// rebuilt from the header, so that what the loader does with the header is part of the subject
  fn reset_controller(&mut self) {
    let cs = self.header.as_ref().unwrap().create_cart_state();
    self.core.as_mut().unwrap().memory.cart_state = cs;
  }

  /// The controller the real load path installed for this file (taken once, right after
  /// loading) must be the controller the header tables give: both are driven with the same
  /// 4 x 72 register writes and must show the same banks after every one.  (Every other stage
  /// re-creates the power-on controller from the header, which is only legitimate if this holds.)
  fn loader_probe(&mut self) -> Option<(u16, u8, (usize, usize), (usize, usize))> {
    let mut fresh = load_like_main(&self.path).expect("generated ROM must load");
    let mut want = self.header.as_ref().unwrap().create_cart_state();
    let got = &mut fresh.memory.cart_state;
    let vals: [u8; 18] = [0, 1, 2, 3, 4, 5, 7, 8, 0x0A, 0x10, 0x1F, 0x20, 0x21, 0x3F, 0x40, 0x7F, 0x80, 0xFF];
    for round in 0..4usize {
      for (i, v) in vals.iter().enumerate() {
        for (k, base) in [0x0000u16, 0x2000, 0x4000, 0x6000].iter().enumerate() {
          let a = base + (((i * 4 + k + round) as u16 * 0x155) & 0x1FFF);
          let v = v.wrapping_add(round as u8 * 3);
          got.write_rom(a, v);
          want.write_rom(a, v);
          let g = (got.get_rom_bank(), got.get_ram_bank());
          let w = (want.get_rom_bank(), want.get_ram_bank());
          if g != w {
            return Some((a, v, g, w));
          }
        }
      }
    }
    None
  }
}

#[inline]
fn wr(core: &mut Core, a: u16, v: u8) {
  memory_write_byte(&mut core.memory as *mut MemoryAreas, a, v);
}

#[inline]
fn rd(core: &Core, a: u16) -> u8 {
  memory_read_byte(&core.memory as *const MemoryAreas, a)
}

// ------------------------------------------------------------------ observation and verdict

#[derive(Clone, Copy, PartialEq, Debug)]
enum Seen {
  NotRead,
  Bank(usize),
  Raw([u8; 4]),
  /// the bus helper would index beyond the buffer (read not performed)
  Oor { bank: usize, len: usize },
}

impl Seen {
  fn json(&self) -> J {
    match self {
      Seen::NotRead => J::s("not read"),
      Seen::Bank(b) => J::obj().set("bank", J::u(*b as u64)),
      Seen::Raw(r) => J::obj().set("bytes_not_a_bank_marker", J::s(crate::world::hex(r))),
      Seen::Oor { bank, len } => J::obj()
        .set("implementation_bank_number", J::u(*bank as u64))
        .set("buffer_len", J::u(*len as u64))
        .set("note", J::s("the bus helper would index beyond the buffer: slice-index panic inside extern \"sysv64\" -> process abort; read not performed here, executed for real in stage crash-confirm")),
    }
  }
}

fn see_rom(core: &Core) -> Seen {
  let bank = core.memory.cart_state.get_rom_bank();
  let len = core.memory.rom.len();
  match bank.checked_mul(0x4000) {
    Some(x) if x + 0x3FFF < len => {},
    _ => return Seen::Oor { bank, len },
  }
  let bytes = [rd(core, 0x4000), rd(core, 0x4001), rd(core, 0x7FFE), rd(core, 0x7FFF)];
  match decode(bytes, 0x5AA5, 0xC33C) {
    Some(b) => Seen::Bank(b),
    None => Seen::Raw(bytes),
  }
}

fn see_bank0(core: &Core) -> Seen {
  let bytes = [rd(core, 0x0000), rd(core, 0x0001), rd(core, 0x3FFE), rd(core, 0x3FFF)];
  match decode(bytes, 0x5AA5, 0xC33C) {
    Some(b) => Seen::Bank(b),
    None => Seen::Raw(bytes),
  }
}

fn see_ram(core: &Core, span: usize) -> Seen {
  let len = core.memory.cart_ram.len();
  if len == 0 || span < 4 {
    return Seen::NotRead;
  }
  let bank = core.memory.cart_state.get_ram_bank();
  match bank.checked_mul(0x2000) {
    Some(x) if x + span - 1 < len => {},
    _ => return Seen::Oor { bank, len },
  }
  let top = 0xA000u16 + span as u16;
  let bytes = [rd(core, 0xA000), rd(core, 0xA001), rd(core, top - 2), rd(core, top - 1)];
  match decode(bytes, 0x6996, 0x9669) {
    Some(b) => Seen::Bank(b),
    None => Seen::Raw(bytes),
  }
}

#[derive(Clone, Copy, PartialEq, Debug)]
enum St {
  Unjudged,
  Ok,
  Bad(&'static str),
}

#[derive(Clone, Copy)]
struct Fj {
  st: St,
  seen: Seen,
  exp: Option<(usize, usize)>,
}

#[derive(Clone, Copy)]
struct Judg {
  rom: Fj,
  bank0: Fj,
  ram: Fj,
}

impl Judg {
  fn any_bad(&self) -> bool {
    matches!(self.rom.st, St::Bad(_)) || matches!(self.bank0.st, St::Bad(_)) || matches!(self.ram.st, St::Bad(_))
  }
}

fn verdict(seen: Seen, exp: Option<(usize, usize)>) -> St {
  match exp {
    None => St::Unjudged,
    Some((a, b)) => match seen {
      Seen::Bank(x) if x == a || x == b => St::Ok,
      Seen::Oor { .. } => St::Bad("bank-out-of-range"),
      Seen::NotRead => St::Unjudged,
      _ => St::Bad("wrong-bank"),
    },
  }
}

/// Read the three windows through the bus and judge them against R3 in state `s`.
/// `ram0`: for ROM-only cartridges with RAM, the power-on observation of the RAM window
/// (the writes must not change it).
fn judge(core: &Core, cfg: &Cfg, s: &RState, ram0: Option<Seen>) -> Judg {
  let rom_exp = ref_rom(cfg.ctl, s, cfg.n);
  let rom_seen = see_rom(core);
  let rom = Fj { st: verdict(rom_seen, rom_exp), seen: rom_seen, exp: rom_exp };
  let b0_seen = see_bank0(core);
  let bank0 = Fj { st: verdict(b0_seen, Some((0, 0))), seen: b0_seen, exp: Some((0, 0)) };
  let ram = if cfg.ctl == Ctl::None {
    match ram0 {
      Some(first) if cfg.m() > 0 => {
        let seen = see_ram(core, cfg.span());
        let st = if seen == first { St::Ok } else { St::Bad("changed-by-write") };
        Fj { st, seen, exp: if let Seen::Bank(b) = first { Some((b, b)) } else { None } }
      },
      _ => Fj { st: St::Unjudged, seen: Seen::NotRead, exp: None },
    }
  } else {
    match ref_ram(cfg.ctl, s, cfg.m()) {
      // not judged; the (guarded) observation is kept only to tell later whether a write that
      // makes the window judged also changed what is visible there
      None => Fj { st: St::Unjudged, seen: if cfg.m() > 0 { see_ram(core, cfg.span()) } else { Seen::NotRead }, exp: None },
      Some(b) => {
        let seen = see_ram(core, cfg.span());
        Fj { st: verdict(seen, Some((b, b))), seen, exp: Some((b, b)) }
      },
    }
  };
  Judg { rom, bank0, ram }
}

/// Class of the written value relative to the field being reported.
fn value_class(cfg: &Cfg, win: usize, v: u8, field_is_ram: bool) -> &'static str {
  if cfg.ctl == Ctl::None {
    return "any";
  }
  match win {
    0 => {
      if (v & 0x0F) == 0x0A {
        "enable"
      } else {
        "disable"
      }
    },
    1 => {
      let masked = (v & if cfg.ctl == Ctl::Mbc1 { 0x1F } else { 0x7F }) as usize;
      if masked == 0 {
        "zero"
      } else if masked < cfg.n {
        "in-range"
      } else {
        "over-size"
      }
    },
    2 => {
      if cfg.ctl == Ctl::Mbc1 {
        let hi = (v & 3) as usize;
        if hi == 0 {
          "zero"
        } else if (field_is_ram && hi < cfg.m()) || (!field_is_ram && (hi << 5) < cfg.n) {
          "in-range"
        } else {
          "over-size"
        }
      } else if v > 3 {
        "rtc"
      } else if v == 0 {
        "zero"
      } else if (v as usize) < cfg.m() {
        "in-range"
      } else {
        "over-size"
      }
    },
    _ => {
      if cfg.ctl == Ctl::Mbc3 {
        "any"
      } else if v & 1 == 0 {
        "zero"
      } else {
        "one"
      }
    },
  }
}

fn vclass_code(c: &str) -> u64 {
  match c {
    "zero" | "disable" | "any" => 0,
    "in-range" | "enable" | "one" => 1,
    "over-size" => 2,
    _ => 3,
  }
}

fn writes_json(w: &[(u16, u8)]) -> J {
  J::Arr(w.iter().map(|(a, v)| J::s(format!("{:04X}<-{:02X}", a, v))).collect())
}

fn exp_json(f: &Fj) -> J {
  match f.exp {
    None => J::s("not judged"),
    Some((a, b)) if a == b => J::obj().set("bank", J::u(a as u64)),
    Some((a, b)) => J::obj().set("bank_any_of", J::Arr(vec![J::u(a as u64), J::u(b as u64)])),
  }
}

/// Report every Bad field of `post`.  `pre` is the verdict in the state before the last
/// write (None for the power-on observation itself); `seq` is the minimal write sequence
/// from power-on whose last element is the judged write.
fn report_bad(
  w: &mut Worker,
  ctx: &mut Ctx,
  cfg: &Cfg,
  stage: &str,
  s_pre: &RState,
  s_post: &RState,
  last: Option<(u16, u8)>,
  pre: Option<&Judg>,
  post: &Judg,
  seq: &dyn Fn() -> Vec<(u16, u8)>,
  ram0: Option<Seen>,
) {
  let fields: [(&str, &Fj, Option<&Fj>, bool); 3] = [
    ("rom", &post.rom, pre.map(|p| &p.rom), false),
    ("bank0", &post.bank0, pre.map(|p| &p.bank0), false),
    ("ram", &post.ram, pre.map(|p| &p.ram), true),
  ];
  for (fname, f, pf, is_ram) in fields.iter() {
    let kind = match f.st {
      St::Bad(k) => k,
      _ => continue,
    };
    let class = if *is_ram { cfg.ram_class() } else { cfg.rom_class() };
    let wpart = match last {
      None => "power-on".to_string(),
      Some((a, v)) => {
        // the same discrepancy was already visible before the write: the write is not the cause
        if pf.map(|p| p.st == St::Bad(kind)).unwrap_or(false) {
          "write=none:state-already-wrong".to_string()
        } else if pf.map(|p| p.st == St::Unjudged && p.seen == f.seen && p.seen != Seen::NotRead).unwrap_or(false) {
          // same bytes visible before the write, but the window was not judged there (RAM
          // disabled / bank number beyond a non-power-of-two ROM): the write only made it judged
          "write=none:became-judged".to_string()
        } else {
          let win = (a >> 13) as usize;
          format!("write={}:{}", WIN[win], value_class(cfg, win, v, *is_ram))
        }
      },
    };
    let key = format!("C12 cfg={} mode={} {} field={} kind={}", class, s_post.mode, wpart, fname, kind);
    if ctx.has_key(&key) {
      ctx.violation(&key, || J::Null);
      continue;
    }
    // first occurrence in this worker: re-execute the minimal sequence alone from power-on
    let writes = seq();
    w.reset_controller();
    {
      let core = w.core.as_mut().unwrap();
      for (a, v) in writes.iter() {
        wr(core, *a, *v);
      }
    }
    let again = judge(w.core.as_ref().unwrap(), cfg, s_post, ram0);
    let again_f = match *fname {
      "rom" => again.rom,
      "bank0" => again.bank0,
      _ => again.ram,
    };
    let reproduces = again_f.st == f.st && again_f.seen == f.seen;
    let read_addr = match *fname {
      "rom" => "4000,4001,7FFE,7FFF",
      "bank0" => "0000,0001,3FFE,3FFF",
      _ => "A000,A001 and the last two bytes of the RAM window",
    };
    ctx.violation(&key, || {
      J::obj()
        .set("case", cfg.json().set("writes_from_power_on", writes_json(&writes)).set("then_read", J::s(read_addr)).set("field", J::s(*fname)).set("stage", J::s(stage)))
        .set("reference_state_before_last_write", s_pre.json())
        .set("reference_state_after", s_post.json())
        .set("expected", exp_json(f))
        .set("observed", f.seen.json())
        .set("minimal_sequence_reproduces", J::Bool(reproduces))
    });
  }
}

fn count_judg(ctx: &mut Ctx, j: &Judg) {
  match j.rom.st {
    St::Unjudged => ctx.count(K_ROM_UNJUDGED, 1),
    _ => ctx.count(K_ROM_JUDGED, 1),
  }
  if let Seen::Oor { .. } = j.rom.seen {
    ctx.count(K_ROM_OOR, 1);
  }
  if j.ram.st != St::Unjudged {
    ctx.count(K_RAM_JUDGED, 1);
  }
  if let (Seen::Oor { .. }, true) = (j.ram.seen, j.ram.st != St::Unjudged) {
    ctx.count(K_RAM_OOR, 1);
  }
  if let Some((a, b)) = j.rom.exp {
    if a != b {
      ctx.count(K_SETVALUED, 1);
    }
  }
}

fn st_code(s: St) -> u64 {
  match s {
    St::Unjudged => 0,
    St::Ok => 1,
    St::Bad("bank-out-of-range") => 2,
    St::Bad(_) => 3,
  }
}

fn bank_cat(e: Option<(usize, usize)>) -> u64 {
  match e {
    None => 0,
    Some((0, _)) => 1,
    Some((1, _)) => 2,
    Some((a, _)) if a < 32 => 3,
    Some((a, _)) if a < 64 => 4,
    Some(_) => 5,
  }
}

// ------------------------------------------------------------------ stage: closure x alphabet

/// One case = one (configuration, reachable reference state): reach it from power-on by
/// the shortest path, then execute all 2048 actions from it.
fn run_state_case(w: &mut Worker, ctx: &mut Ctx, cfg: &Cfg, cl: &Closure, sidx: usize) {
  let s = cl.states[sidx];
  let path = cl.path(sidx);
  let canon = canon_writes(cfg.ctl, &s);
  w.reset_controller();
  // ROM-only with RAM: the RAM window as first seen at power-on
  let ram0 = if cfg.ctl == Ctl::None && cfg.m() > 0 { Some(see_ram(w.core.as_ref().unwrap(), cfg.span())) } else { None };
  {
    let core = w.core.as_mut().unwrap();
    for (a, v) in path.iter() {
      wr(core, *a, *v);
    }
  }
  let pre = judge(w.core.as_ref().unwrap(), cfg, &s, ram0);
  let pre_regs = {
    let core = w.core.as_ref().unwrap();
    (core.memory.cart_state.get_rom_bank(), core.memory.cart_state.get_ram_bank())
  };
  ctx.count(K_STATES, 1);
  if sidx == 0 {
    count_judg(ctx, &pre);
    if pre.any_bad() {
      report_bad(w, ctx, cfg, "closure", &s, &s, None, None, &pre, &|| Vec::new(), ram0);
    }
  }
  ctx.sample(|| {
    J::obj()
      .set("cfg", J::s(cfg.name()))
      .set("state", s.json())
      .set("path_from_power_on", writes_json(&path))
      .set("actions", J::s("256 values x {0000,1FFF,2000,3FFF,4000,5FFF,6000,7FFF}; after each: bus reads 4000/4001/7FFE/7FFF, 0000/0001/3FFE/3FFF, A000/A001/BFFE/BFFF"))
  });
  for (ai, &addr) in ADDRS.iter().enumerate() {
    for v in 0..=255u8 {
      // construct the state by the canonical register writes (history: whatever came before)
      {
        let core = w.core.as_mut().unwrap();
        for (a, x) in canon.iter() {
          wr(core, *a, *x);
        }
        let regs = (core.memory.cart_state.get_rom_bank(), core.memory.cart_state.get_ram_bank());
        // (MBC3 after an RTC select: the RAM mapping is unspecified, hence may depend on history)
        let ram_free = cfg.ctl == Ctl::Mbc3 && s.hi == RB_UNSPEC;
        if regs.0 != pre_regs.0 || (!ram_free && regs.1 != pre_regs.1) {
          let key = format!("C12 cfg={} kind=state-depends-on-history", ctl_name(cfg.ctl));
          ctx.violation(&key, || {
            J::obj()
              .set("case", cfg.json().set("state", s.json()).set("path_from_power_on", writes_json(&path)).set("canonical_writes", writes_json(&canon)).set("previous_action", J::s(format!("{:04X}<-{:02X} (one before this)", addr, v))))
              .set("expected", J::obj().set("rom_bank_number", J::u(pre_regs.0 as u64)).set("ram_bank_number", J::u(pre_regs.1 as u64)))
              .set("observed", J::obj().set("rom_bank_number", J::u(regs.0 as u64)).set("ram_bank_number", J::u(regs.1 as u64)))
          });
        }
        wr(core, addr, v);
      }
      let next = ref_write(cfg.ctl, s, addr, v);
      let post = judge(w.core.as_ref().unwrap(), cfg, &next, ram0);
      ctx.count(K_TRANS, 1);
      count_judg(ctx, &post);
      let win = ai / 2;
      let vc = vclass_code(value_class(cfg, win, v, false));
      let cls = (ctl_idx(cfg.ctl) as u64)
        | ((win as u64) << 2)
        | (vc << 4)
        | ((next.mode as u64) << 6)
        | (bank_cat(post.rom.exp) << 7)
        | (bank_cat(post.ram.exp) << 10)
        | (st_code(post.rom.st) << 13)
        | (st_code(post.ram.st) << 15)
        | (((next != s) as u64) << 17);
      ctx.class(cls);
      if post.any_bad() {
        let p2 = path.clone();
        report_bad(
          w,
          ctx,
          cfg,
          "closure",
          &s,
          &next,
          Some((addr, v)),
          Some(&pre),
          &post,
          &move || {
            let mut q = p2.clone();
            q.push((addr, v));
            q
          },
          ram0,
        );
      }
    }
  }
}

// ------------------------------------------------------------------ stage: short histories (E2a)

const H_ADDRS: [u16; 4] = [0x1FFF, 0x2000, 0x5FFF, 0x6000];
const H_VALS: [u8; 12] = [0x00, 0x01, 0x02, 0x03, 0x0A, 0x1F, 0x20, 0x21, 0x40, 0x60, 0x7F, 0xFF];
const H_SYMS: usize = 48;

fn h_sym(i: usize) -> (u16, u8) {
  (H_ADDRS[i / 12], H_VALS[i % 12])
}

fn run_history(w: &mut Worker, ctx: &mut Ctx, cfg: &Cfg, seq: &[(u16, u8)], ram0: Option<Seen>) {
  w.reset_controller();
  let mut s = POWER_ON;
  let mut s_prev = POWER_ON;
  {
    let core = w.core.as_mut().unwrap();
    for (a, v) in seq.iter() {
      wr(core, *a, *v);
      s_prev = s;
      s = ref_write(cfg.ctl, s, *a, *v);
    }
  }
  let post = judge(w.core.as_ref().unwrap(), cfg, &s, ram0);
  ctx.count(K_HIST, 1);
  let cls = (1u64 << 18) | (ctl_idx(cfg.ctl) as u64) | ((s.mode as u64) << 2) | (bank_cat(post.rom.exp) << 3) | (bank_cat(post.ram.exp) << 6) | (st_code(post.rom.st) << 9) | (st_code(post.ram.st) << 11) | ((seq.len() as u64) << 13);
  ctx.class(cls);
  if post.any_bad() {
    // verdict of the prefix (for attributing the discrepancy to the last write or not)
    w.reset_controller();
    {
      let core = w.core.as_mut().unwrap();
      for (a, v) in seq[..seq.len() - 1].iter() {
        wr(core, *a, *v);
      }
    }
    let pre = judge(w.core.as_ref().unwrap(), cfg, &s_prev, ram0);
    let owned: Vec<(u16, u8)> = seq.to_vec();
    report_bad(w, ctx, cfg, "histories", &s_prev, &s, seq.last().copied(), Some(&pre), &post, &move || owned.clone(), ram0);
  }
}

fn extend_history(w: &mut Worker, ctx: &mut Ctx, cfg: &Cfg, seq: &mut Vec<(u16, u8)>, depth: usize, ram0: Option<Seen>) {
  run_history(w, ctx, cfg, seq, ram0);
  if seq.len() < depth {
    for s in 0..H_SYMS {
      seq.push(h_sym(s));
      extend_history(w, ctx, cfg, seq, depth, ram0);
      seq.pop();
    }
  }
}

/// One case = the first two symbols; all continuations up to `depth` are enumerated inside.
fn run_history_case(w: &mut Worker, ctx: &mut Ctx, cfg: &Cfg, s1: usize, s2: usize, depth: usize) {
  w.reset_controller();
  let ram0 = if cfg.ctl == Ctl::None && cfg.m() > 0 { Some(see_ram(w.core.as_ref().unwrap(), cfg.span())) } else { None };
  let a = h_sym(s1);
  let b = h_sym(s2);
  if s2 == 0 {
    run_history(w, ctx, cfg, &[a], ram0);
  }
  let mut seq = vec![a, b];
  extend_history(w, ctx, cfg, &mut seq, depth.max(2), ram0);
}

// ------------------------------------------------------------------ stage: complete address decode

const D_VALS: [u8; 8] = [0x00, 0x01, 0x03, 0x0A, 0x1F, 0x20, 0x7F, 0xFF];
const D_BLOCK: usize = 64;

fn decode_states(ctl: Ctl) -> Vec<RState> {
  match ctl {
    Ctl::None => vec![POWER_ON],
    Ctl::Mbc1 => vec![RState { en: true, lo: 5, hi: 2, mode: 1 }, RState { en: false, lo: 0x12, hi: 1, mode: 0 }],
    Ctl::Mbc3 => vec![RState { en: true, lo: 0x45, hi: 2, mode: 0 }, RState { en: false, lo: 3, hi: 1, mode: 0 }],
  }
}

/// One case = 64 consecutive addresses of 0x0000-0x7FFF: from two register states, 8 values
/// written to each address; the window that reacts must be the one R3 decodes.
fn run_decode_case(w: &mut Worker, ctx: &mut Ctx, cfg: &Cfg, block: usize) {
  w.reset_controller();
  let ram0 = if cfg.ctl == Ctl::None && cfg.m() > 0 { Some(see_ram(w.core.as_ref().unwrap(), cfg.span())) } else { None };
  for s in decode_states(cfg.ctl) {
    let canon = canon_writes(cfg.ctl, &s);
    w.reset_controller();
    {
      let core = w.core.as_mut().unwrap();
      for (a, x) in canon.iter() {
        wr(core, *a, *x);
      }
    }
    let pre = judge(w.core.as_ref().unwrap(), cfg, &s, ram0);
    for addr in (block * D_BLOCK)..((block + 1) * D_BLOCK) {
      let addr = addr as u16;
      for &v in D_VALS.iter() {
        {
          let core = w.core.as_mut().unwrap();
          for (a, x) in canon.iter() {
            wr(core, *a, *x);
          }
          wr(core, addr, v);
        }
        let next = ref_write(cfg.ctl, s, addr, v);
        let post = judge(w.core.as_ref().unwrap(), cfg, &next, ram0);
        ctx.count(K_DECODE, 1);
        ctx.class((3u64 << 18) | (ctl_idx(cfg.ctl) as u64) | (((addr >> 10) as u64) << 2) | (((next != s) as u64) << 7) | (st_code(post.rom.st) << 8) | (st_code(post.ram.st) << 10) | (bank_cat(post.rom.exp) << 12));
        if post.any_bad() {
          let c2 = canon.clone();
          report_bad(
            w,
            ctx,
            cfg,
            "address-decode",
            &s,
            &next,
            Some((addr, v)),
            Some(&pre),
            &post,
            &move || {
              let mut q = c2.clone();
              q.push((addr, v));
              q
            },
            ram0,
          );
        }
      }
    }
  }
}

// ------------------------------------------------------------------ stage: RAM banks are independent stores

fn rw_violation(ctx: &mut Ctx, cfg: &Cfg, kind: &str, a: usize, b: usize, k: usize, mode_desc: &str, expected: J, observed: J) {
  let key = format!("C12 cfg={} field=ram kind={}", cfg.ram_class(), kind);
  ctx.violation(&key, || {
    J::obj()
      .set("case", cfg.json().set("select", J::s(mode_desc)).set("bank_a", J::u(a as u64)).set("bank_b", J::u(b as u64)).set("offset", J::u(k as u64)).set("stage", J::s("ram-rw")))
      .set("expected", expected)
      .set("observed", observed)
  });
}

fn select_ram(core: &mut Core, cfg: &Cfg, bank: usize) {
  wr(core, 0x4000, bank as u8);
}

fn run_rw_case(w: &mut Worker, ctx: &mut Ctx, cfg: &Cfg) {
  w.reset_controller();
  let span = cfg.span();
  let reach = cfg.m().min(4);
  let offs: Vec<usize> = [0usize, 1, 0x3FF, 0x400, 0x7FE, 0x7FF, 0x800, 0x0FFF, 0x1000, 0x1FFE, 0x1FFF].iter().copied().filter(|k| *k < span).collect();
  let snapshot: Vec<u8> = w.core.as_ref().unwrap().memory.cart_ram.to_vec();
  let core = w.core.as_mut().unwrap();
  if cfg.ctl != Ctl::None {
    wr(core, 0x0000, 0x0A);
  }
  // which selection protocols: (description, mode write)
  let protos: Vec<(&str, Option<u8>)> = match cfg.ctl {
    Ctl::None => vec![("rom-only: no selection", None)],
    Ctl::Mbc1 => vec![("mbc1 mode 1: 6000<-01, 4000<-bank", Some(1)), ("mbc1 mode 0: 6000<-00, 4000<-bank (RAM bank stays 0)", Some(0))],
    Ctl::Mbc3 => vec![("mbc3: 4000<-bank", None)],
  };
  for (desc, mode) in protos.iter() {
    if let Some(mv) = mode {
      wr(core, 0x6000, *mv);
    }
    let banked = cfg.ctl == Ctl::Mbc3 || *mode == Some(1);
    let na = if cfg.ctl == Ctl::None { 1 } else { reach };
    for a in 0..na {
      for b in 0..na {
        if a == b && na > 1 {
          continue;
        }
        for &k in offs.iter() {
          let eff_a = if banked { a } else { 0 };
          let eff_b = if banked { b } else { 0 };
          let orig_a = snapshot[eff_a * 0x2000 + k];
          let orig_b = snapshot[eff_b * 0x2000 + k];
          let val = *[0x5Au8, 0xC3, 0x3C].iter().find(|x| **x != orig_a && **x != orig_b).unwrap();
          let addr = 0xA000u16 + k as u16;
          if cfg.ctl != Ctl::None {
            select_ram(core, cfg, a);
          }
          // guard (out-of-range selections are the closure stage's finding)
          let ib = core.memory.cart_state.get_ram_bank();
          if ib * 0x2000 + span - 1 >= core.memory.cart_ram.len() {
            continue;
          }
          memory_write_byte(&mut core.memory as *mut MemoryAreas, addr, val);
          let r1 = rd(core, addr);
          ctx.count(K_RW, 1);
          if r1 != val {
            rw_violation(ctx, cfg, "write-not-read-back", a, b, k, desc, J::u(val as u64), J::u(r1 as u64));
          }
          if cfg.ctl != Ctl::None {
            select_ram(core, cfg, b);
            let ib = core.memory.cart_state.get_ram_bank();
            if ib * 0x2000 + span - 1 < core.memory.cart_ram.len() {
              let r2 = rd(core, addr);
              let want = if eff_a == eff_b { val } else { orig_b };
              if r2 != want {
                rw_violation(ctx, cfg, if eff_a == eff_b { "lost-after-reselect" } else { "visible-in-other-bank" }, a, b, k, desc, J::u(want as u64), J::u(r2 as u64));
              }
            }
            select_ram(core, cfg, a);
            let r3 = rd(core, addr);
            if r3 != val {
              rw_violation(ctx, cfg, "lost-after-switching-away-and-back", a, b, k, desc, J::u(val as u64), J::u(r3 as u64));
            }
          }
          // the store itself: exactly one byte of the reference bank changed
          let mut stray: Option<usize> = None;
          for (i, (x, y)) in core.memory.cart_ram.iter().zip(snapshot.iter()).enumerate() {
            let want = if i == eff_a * 0x2000 + k { val } else { *y };
            if *x != want {
              stray = Some(i);
              break;
            }
          }
          if let Some(i) = stray {
            rw_violation(ctx, cfg, "store-landed-elsewhere", a, b, k, desc, J::obj().set("only_changed_index", J::u((eff_a * 0x2000 + k) as u64)), J::obj().set("first_differing_index", J::u(i as u64)));
          }
          ctx.class((2u64 << 18) | (ctl_idx(cfg.ctl) as u64) | ((banked as u64) << 2) | ((a as u64) << 3) | ((b as u64) << 5) | (((r1 == val) as u64) << 7) | ((stray.is_some() as u64) << 8));
          core.memory.cart_ram.copy_from_slice(&snapshot);
        }
      }
    }
  }
}

// ------------------------------------------------------------------ driver

fn parse_writes(j: &J) -> Vec<(u16, u8)> {
  let mut out = Vec::new();
  if let Some(arr) = j.as_arr() {
    for e in arr {
      if let Some(s) = e.as_str() {
        let mut it = s.split("<-");
        if let (Some(a), Some(v)) = (it.next(), it.next()) {
          if let (Ok(a), Ok(v)) = (u16::from_str_radix(a, 16), u8::from_str_radix(v, 16)) {
            out.push((a, v));
          }
        }
      }
    }
  }
  out
}

pub fn run(tier: &str) -> i32 {
  let mut rep = Report::new("C12", tier, "model_checking");
  let thorough = rep.thorough();
  rep.assume("R3 written from Pan Docs / the property text: MBC1 lo=v&0x1F, hi=v&3, mode=v&1, en=(v&0x0F)==0x0A; MBC3 lo=v&0x7F, RAM bank = last value <= 3; lo'=(lo==0?1:lo); reduction = mod N (ROM banks) / mod M (RAM banks)");
  rep.assume("set-valued: MBC1 mode 1 accepts either lo' mod N or ((hi<<5)|lo') mod N at 0x4000 (identical for N <= 32)");
  rep.assume("not judged: RAM window while the model says RAM disabled, no RAM, or (MBC3) after a RAM-bank write of 4-0xFF until the next value <= 3; bank numbers >= N when N is not a power of two (codes 52-54)");
  rep.assume("ROM-only (type 00): ROM 0x4000 must show bank 1 after every write; a RAM window, if any, must be unchanged by the writes");
  rep.assume("2 KiB RAM (code 1) is one partial bank: only offsets < 0x800 of the window are read");
  rep.assume("the implementation has no register read-back hook; the implementation half of a state is (get_rom_bank(), get_ram_bank()) plus the bus-visible banks, and every state is reached both by its shortest path from a power-on controller and by the canonical register writes after arbitrary history");

  // configurations
  let (types, rom_codes, ram_codes): (Vec<u8>, Vec<u8>, Vec<u8>) = if thorough {
    (vec![0x00, 0x01, 0x02, 0x03, 0x11, 0x12, 0x13], vec![0, 1, 2, 3, 4, 5, 6, 7, 8, 0x52, 0x53, 0x54], vec![0, 1, 2, 3, 4, 5])
  } else {
    (vec![0x00, 0x01, 0x03, 0x11, 0x13], vec![0, 1, 2, 4, 5, 6, 0x52], vec![0, 2, 3])
  };
  let closures = [Closure::build(Ctl::None), Closure::build(Ctl::Mbc1), Closure::build(Ctl::Mbc3)];
  rep.cov("reference_states_reachable", J::obj().set("rom-only", J::u(closures[0].states.len() as u64)).set("mbc1", J::u(closures[1].states.len() as u64)).set("mbc3", J::u(closures[2].states.len() as u64)));
  rep.cov("reference_closure_edges", J::u(closures.iter().map(|c| c.edges).sum()));

  let mut total_states = 0u64;
  let mut total_trans = 0u64;
  let mut total_cfgs = 0u64;
  let mut counters_sum = [0u64; crate::util::pool::NCOUNTERS];

  // ---- stage 1: closure x alphabet, one pool per cartridge type
  for &typ in types.iter() {
    // quick: the battery-backed MBC1 and the plain MBC3 type codes construct the same controller
    // as 01 / 13 and get a reduced size set
    let (rcs, mcs): (Vec<u8>, Vec<u8>) = match (thorough, typ) {
      (false, 0x03) => (vec![1, 5], vec![2, 3]),
      (false, 0x11) => (vec![0, 6], vec![0, 3]),
      _ => (rom_codes.clone(), ram_codes.clone()),
    };
    let mut cfgs: Vec<Cfg> = Vec::new();
    for &rc in rcs.iter() {
      for &mc in mcs.iter() {
        cfgs.push(Cfg::new(typ, rc, mc));
      }
    }
    let paths: Vec<String> = cfgs.iter().map(build_rom_file).collect();
    let cl = &closures[ctl_idx(ctl_of(typ))];
    let per = cl.states.len() as u64;
    let n_cases = per * cfgs.len() as u64;
    let opts = PoolOpts { chunk: if per == 1 { 1 } else { 8 }, bitmap_bits: 1 << 20, max_crashes: 64, ..PoolOpts::default() };
    let r = run_pool(
      n_cases,
      &opts,
      |_| Worker::new(),
      |w, case, ctx| {
        let ci = (case / per) as usize;
        let si = (case % per) as usize;
        w.ensure(ci, &paths);
        if si == 0 {
          if let Some((a, v, g, wnt)) = w.loader_probe() {
            ctx.violation(&format!("C12 cfg={} kind=loaded-machine-has-another-controller", ctl_name(cfgs[ci].ctl)), || {
              J::obj()
                .set("case", cfgs[ci].json().set("how", J::s("file loaded the way main.rs does; the controller of the loaded machine and Header::create_cart_state() driven with the same register writes")))
                .set("first_difference_after_write", J::s(format!("{:04X}<-{:02X}", a, v)))
                .set("loaded_machine", J::s(format!("rom bank {} ram bank {}", g.0, g.1)))
                .set("header_tables", J::s(format!("rom bank {} ram bank {}", wnt.0, wnt.1)))
            });
          }
        }
        run_state_case(w, ctx, &cfgs[ci], cl, si);
      },
      |case, how| {
        let ci = (case / per) as usize;
        let si = (case % per) as usize;
        (
          format!("C12 cfg={} kind=crash={} (unguarded)", ctl_name(cfgs[ci].ctl), how),
          J::obj().set("case", cfgs[ci].json().set("state", cl.states[si].json()).set("path_from_power_on", writes_json(&cl.path(si))).set("then", J::s("all 2048 actions from the state"))),
        )
      },
    );
    for p in paths.iter() {
      let _ = std::fs::remove_file(p);
    }
    let c = rep.add_stage(
      &format!("closure-type-{:02X}", typ),
      &format!("type {:02X}: {} configurations (ROM codes x RAM codes) x {} reachable controller states x 2048 writes", typ, cfgs.len(), per),
      r,
    );
    for i in 0..c.len() {
      counters_sum[i] += c[i];
    }
    total_states += c[K_STATES];
    total_trans += c[K_TRANS];
    total_cfgs += cfgs.len() as u64;
  }

  // ---- stage 2: all short histories from power-on over a reduced alphabet (hidden state)
  // (configuration, maximal history length)
  let hplan: Vec<(Cfg, usize)> = if thorough {
    vec![(Cfg::new(0x01, 6, 3), 5), (Cfg::new(0x13, 6, 3), 5), (Cfg::new(0x00, 0, 0), 4), (Cfg::new(0x03, 5, 3), 4), (Cfg::new(0x01, 2, 2), 4), (Cfg::new(0x11, 1, 0), 4), (Cfg::new(0x13, 4, 2), 4), (Cfg::new(0x02, 0x54, 3), 4)]
  } else {
    vec![(Cfg::new(0x01, 6, 3), 3), (Cfg::new(0x13, 6, 3), 3), (Cfg::new(0x00, 0, 0), 3), (Cfg::new(0x03, 5, 3), 3)]
  };
  let hcfgs: Vec<Cfg> = hplan.iter().map(|p| p.0).collect();
  let mut hist_total = 0u64;
  {
    let paths: Vec<String> = hcfgs.iter().map(build_rom_file).collect();
    let per = (H_SYMS * H_SYMS) as u64;
    let opts = PoolOpts { chunk: 16, bitmap_bits: 1 << 20, max_crashes: 64, samples_per_child: 0, ..PoolOpts::default() };
    let r = run_pool(
      per * hcfgs.len() as u64,
      &opts,
      |_| Worker::new(),
      |w, case, ctx| {
        let ci = (case / per) as usize;
        let r = (case % per) as usize;
        w.ensure(ci, &paths);
        run_history_case(w, ctx, &hcfgs[ci], r / H_SYMS, r % H_SYMS, hplan[ci].1);
      },
      |case, how| {
        let ci = (case / per) as usize;
        let r = (case % per) as usize;
        (
          format!("C12 cfg={} kind=crash={} (unguarded, histories)", ctl_name(hcfgs[ci].ctl), how),
          J::obj().set("case", hcfgs[ci].json().set("prefix", writes_json(&[h_sym(r / H_SYMS), h_sym(r % H_SYMS)])).set("then", J::s(format!("all continuations to length {}", hplan[ci].1)))),
        )
      },
    );
    for p in paths.iter() {
      let _ = std::fs::remove_file(p);
    }
    let c = rep.add_stage("histories", &format!("all write sequences over 4 windows x 12 values, each from a power-on controller, for (configuration: maximal length) {}", hplan.iter().map(|p| format!("{}: {}", p.0.name(), p.1)).collect::<Vec<_>>().join(", ")), r);
    hist_total = c[K_HIST];
  }

  // ---- stage 2b: every address of 0x0000-0x7FFF decodes to the window R3 says
  let mut decode_total = 0u64;
  {
    let cfgs: Vec<Cfg> = if thorough {
      vec![Cfg::new(0x01, 6, 3), Cfg::new(0x02, 6, 3), Cfg::new(0x03, 6, 3), Cfg::new(0x11, 6, 3), Cfg::new(0x12, 6, 3), Cfg::new(0x13, 6, 3), Cfg::new(0x00, 1, 2)]
    } else {
      vec![Cfg::new(0x01, 6, 3), Cfg::new(0x13, 6, 3), Cfg::new(0x00, 1, 2)]
    };
    let paths: Vec<String> = cfgs.iter().map(build_rom_file).collect();
    let per = (0x8000 / D_BLOCK) as u64;
    let opts = PoolOpts { chunk: 16, bitmap_bits: 1 << 20, max_crashes: 64, samples_per_child: 0, ..PoolOpts::default() };
    let r = run_pool(
      per * cfgs.len() as u64,
      &opts,
      |_| Worker::new(),
      |w, case, ctx| {
        let ci = (case / per) as usize;
        w.ensure(ci, &paths);
        run_decode_case(w, ctx, &cfgs[ci], (case % per) as usize);
      },
      |case, how| {
        let ci = (case / per) as usize;
        (
          format!("C12 cfg={} kind=crash={} (unguarded, address-decode)", ctl_name(cfgs[ci].ctl), how),
          J::obj().set("case", cfgs[ci].json().set("addresses_from", J::s(format!("{:04X}", (case % per) as usize * D_BLOCK)))),
        )
      },
    );
    for p in paths.iter() {
      let _ = std::fs::remove_file(p);
    }
    let c = rep.add_stage("address-decode", &format!("{} configurations x 2 register states x all 32768 addresses 0x0000-0x7FFF x 8 values", cfgs.len()), r);
    decode_total = c[K_DECODE];
  }

  // ---- stage 3: RAM banks are independent stores (write, switch away, switch back)
  let mut rw_total = 0u64;
  {
    let mut cfgs: Vec<Cfg> = Vec::new();
    for &typ in types.iter() {
      for &mc in ram_codes.iter() {
        if mc != 0 {
          cfgs.push(Cfg::new(typ, 2, mc));
        }
      }
    }
    let paths: Vec<String> = cfgs.iter().map(build_rom_file).collect();
    let opts = PoolOpts { chunk: 1, bitmap_bits: 1 << 20, max_crashes: 64, samples_per_child: 0, ..PoolOpts::default() };
    let r = run_pool(
      cfgs.len() as u64,
      &opts,
      |_| Worker::new(),
      |w, case, ctx| {
        w.ensure(case as usize, &paths);
        run_rw_case(w, ctx, &cfgs[case as usize]);
      },
      |case, how| (format!("C12 cfg={} field=ram kind=crash={} (unguarded, ram-rw)", cfgs[case as usize].ram_class(), how), J::obj().set("case", cfgs[case as usize].json())),
    );
    for p in paths.iter() {
      let _ = std::fs::remove_file(p);
    }
    let c = rep.add_stage("ram-rw", "every type with RAM x every RAM size: for each ordered pair of reachable in-range banks and 11 offsets: write, read back, select the other bank, read, select back, read; whole RAM buffer compared", r);
    rw_total = c[K_RW];
  }

  // ---- stage 4: execute for real the recorded case of every bank-out-of-range key
  let mut confirm: Vec<(String, Cfg, Vec<(u16, u8)>, bool, J)> = Vec::new();
  for v in rep.violations.iter() {
    if !v.key.ends_with("kind=bank-out-of-range") {
      continue;
    }
    if let Some(case) = v.detail.get("case") {
      let typ = u8::from_str_radix(&case.str_of("cart_type"), 16).unwrap_or(0);
      let rc = u8::from_str_radix(&case.str_of("rom_code"), 16).unwrap_or(0);
      let mc = u8::from_str_radix(&case.str_of("ram_code"), 16).unwrap_or(0);
      let writes = case.get("writes_from_power_on").map(parse_writes).unwrap_or_default();
      let is_ram = case.str_of("field") == "ram";
      confirm.push((v.key.clone(), Cfg::new(typ, rc, mc), writes, is_ram, case.clone()));
    }
  }
  let mut confirmed: Vec<J> = Vec::new();
  if !confirm.is_empty() {
    let cfgs: Vec<Cfg> = confirm.iter().map(|c| c.1).collect();
    let paths: Vec<String> = cfgs.iter().map(build_rom_file).collect();
    let opts = PoolOpts { chunk: 1, bitmap_bits: 64, max_crashes: 4096, samples_per_child: 0, ..PoolOpts::default() };
    let r = run_pool(
      confirm.len() as u64,
      &opts,
      |_| Worker::new(),
      |w, case, ctx| {
        let (_, _, writes, is_ram, _) = &confirm[case as usize];
        w.ensure(case as usize, &paths);
        w.reset_controller();
        let core = w.core.as_mut().unwrap();
        for (a, v) in writes.iter() {
          wr(core, *a, *v);
        }
        ctx.count(K_CONFIRM_RUN, 1);
        // the unguarded read
        let x = rd(core, if *is_ram { 0xA000 } else { 0x4000 });
        std::hint::black_box(x);
        ctx.count(K_CONFIRM_SURVIVED, 1);
      },
      |case, how| {
        let (key, _, _, _, cj) = &confirm[case as usize];
        (key.clone(), J::obj().set("case", cj.clone()).set("confirmation", J::s("the guarded read executed for real in an isolated worker")))
      },
    );
    for p in paths.iter() {
      let _ = std::fs::remove_file(p);
    }
    let crashed: Vec<String> = r.violations.iter().map(|v| v.key.clone()).collect();
    for (key, cfg, writes, is_ram, _) in confirm.iter() {
      let died = crashed.iter().any(|k| k == key);
      confirmed.push(J::obj().set("key", J::s(key.as_str())).set("cfg", J::s(cfg.name())).set("writes", writes_json(writes)).set("read", J::s(if *is_ram { "A000" } else { "4000" })).set("worker_died_reproducibly", J::Bool(died)));
      if !died {
        rep.machinery_error(format!("guard predicted an out-of-buffer index for key '{}' but the real read did not kill the worker", key));
      }
    }
    let c = rep.add_stage("crash-confirm", "the recorded case of every bank-out-of-range key, the read performed without the guard, one isolated worker each", r);
    if c[K_CONFIRM_SURVIVED] != 0 {
      rep.machinery_soft(format!("{} guarded reads survived when executed for real", c[K_CONFIRM_SURVIVED]));
    }
  }
  rep.cov("out_of_range_keys_confirmed_by_real_abort", J::Arr(confirmed));

  // ---- evidence
  if total_trans != total_states * N_ACTIONS && rep.capped.is_empty() && rep.machinery.is_empty() {
    rep.machinery_soft(format!("transition count {} is not states {} x 2048", total_trans, total_states));
  }
  rep.evaluations = total_trans + hist_total + decode_total + rw_total;
  rep.cov("configurations", J::u(total_cfgs));
  rep.cov("states", J::u(total_states));
  rep.cov("transitions", J::u(total_trans));
  rep.cov("traces_validated_against_impl", J::u(total_trans + hist_total + decode_total));
  rep.cov("address_decode_transitions", J::u(decode_total));
  rep.cov("histories_from_power_on", J::u(hist_total));
  rep.cov("ram_write_read_cases", J::u(rw_total));
  rep.cov("rom_window_judged", J::u(counters_sum[K_ROM_JUDGED]));
  rep.cov("rom_window_not_judged_non_power_of_two", J::u(counters_sum[K_ROM_UNJUDGED]));
  rep.cov("rom_window_set_valued", J::u(counters_sum[K_SETVALUED]));
  rep.cov("ram_window_judged", J::u(counters_sum[K_RAM_JUDGED]));
  rep.cov("rom_reads_guarded_out_of_buffer", J::u(counters_sum[K_ROM_OOR]));
  rep.cov("ram_reads_guarded_out_of_buffer", J::u(counters_sum[K_RAM_OOR]));
  rep.cov(
    "rule",
    J::s("states = reachable reference-controller states summed over configurations, each reached on the real controller by its shortest path from power-on; transitions = (state, write) pairs executed on the real bus with all three windows read back; a class is (controller, window, value class, mode, expected ROM/RAM bank category, verdicts, state changed) and is counted once"),
  );
  rep.finish()
}
