//! C14 — LCD line/mode schedule: 70224-clock frame, VBlank/STAT requests.
//! E2b on `devices::video::VideoState`, organised as stride walks (a `VideoState` cannot
//! be cloned): for every batch size b and every start offset o one fresh PPU is advanced
//! by o and stepped by b across three frames; after every batch LY, mode, STAT and the
//! returned request flags are compared with R6 (closed form, below).
//!
//! Judging uses only the public API (`get_ly`, `get_current_mode`, `get_lcd_status`, the
//! returned `InterruptFlag`).  The hook `verif_position()` is used for two things that are
//! not verdicts: (1) measuring which (position, batch) pairs were really executed and
//! (2) re-synchronising the reference after a reported state divergence, so that one
//! root cause does not make every later batch of the walk mismatch and a second,
//! independent defect later in the same walk is still reported under its own key.
//! The reference is also realigned (silently, counted) when the public state agreed after a
//! batch but the hidden dot counter did not: every batch is thereby judged as a transition
//! from a synchronised (position, batch) pair, and the walk whose sample point falls on
//! the instant where the public state differs reports the defect with the right class.
//! While the PPU sits at a position that is not on the R6 schedule at all (e.g. line 144
//! in mode 2) the walk is "lost": nothing is judged until the position is on the
//! schedule again (the divergence that caused it has already been reported).
//! Absolute-time facts (frame period, VBlank instants, line and mode durations) are
//! measured separately in the b = 4 whole-run stage with no re-synchronisation.

use crate::devices::video::VideoState;
use crate::timing::ClockCycles;
use crate::util::json::J;
use crate::util::pool::{run_pool, Ctx, PoolOpts};
use crate::util::report::Report;

// ---------------------------------------------------------------------------------------
// R6: reference schedule (written from the property text / Pan Docs, not from the subject)
// ---------------------------------------------------------------------------------------

const LINE: u64 = 456;
const LINES: u64 = 154;
const FRAME: u64 = LINE * LINES; // 70224
const T0: u64 = 144 * LINE; // power-on position: LY 144, dot 0
const SLOTS: u64 = FRAME / 4; // 17556 four-clock positions

/// t -> (LY, mode); t = 0 is dot 0 of line 0
fn r6_state(t: u64) -> (u8, u8) {
  let p = t % FRAME;
  let ly = p / LINE;
  let d = p % LINE;
  let mode = if ly >= 144 {
    1
  } else if d < 80 {
    2
  } else if d < 268 {
    3
  } else {
    0
  };
  (ly as u8, mode)
}

/// STAT bits 0-6 at time t
fn r6_stat(t: u64, mask: u8, lyc: u8) -> u8 {
  let (ly, mode) = r6_state(t);
  (mask & 0x78) | (if ly == lyc { 4 } else { 0 }) | mode
}

// expected request kinds (event x class of the instant it belongs to)
const E_VBLANK: u16 = 1 << 0; // LY becomes 144
const E_M1: u16 = 1 << 1; // mode 1 entered (LY becomes 144)
const E_M2_L0: u16 = 1 << 2; // mode 2 entered at 153->0
const E_M2_VIS: u16 = 1 << 3; // mode 2 entered at n->n+1, n in 0..142
const E_M0: u16 = 1 << 4; // mode 0 entered at dot 268 of a visible line
const E_LYC_L0: u16 = 1 << 5; // LY becomes LYC = 0
const E_LYC_VIS: u16 = 1 << 6; // LY becomes LYC in 1..143
const E_LYC_144: u16 = 1 << 7; // LY becomes LYC = 144
const E_LYC_VBL: u16 = 1 << 8; // LY becomes LYC in 145..153
const E_STAT_ALL: u16 = 0x1fe;
const E_NAMES: [(&str, &str); 9] = [
  ("vblank", "143->144"),
  ("stat-mode1", "143->144"),
  ("stat-mode2", "153->0"),
  ("stat-mode2", "visible:n->n+1"),
  ("stat-mode0", "visible:mode3->0"),
  ("lyc", "153->0"),
  ("lyc", "visible:n->n+1"),
  ("lyc", "143->144"),
  ("lyc", "vblank:n->n+1"),
];

// schedule boundaries inside a window, used only to name the class of a finding
const B_143_144: u8 = 1;
const B_153_0: u8 = 2;
const B_VBL_LINE: u8 = 4;
const B_VIS_LINE: u8 = 8;
const B_2_3: u8 = 16;
const B_3_0: u8 = 32;

/// R6 events at instants T with t < T <= t+n, and the boundaries the window contains
fn r6_events(t: u64, n: u64, mask: u8, lyc: u8) -> (u16, u8) {
  let t2 = t + n;
  let mut ev = 0u16;
  let mut bounds = 0u8;
  let mut k = t / LINE;
  while k * LINE <= t2 {
    let ly = k % LINES;
    let start = k * LINE;
    if start > t && start <= t2 {
      if ly == 144 {
        bounds |= B_143_144;
        ev |= E_VBLANK;
        if mask & 0x10 != 0 {
          ev |= E_M1;
        }
      } else if ly == 0 {
        bounds |= B_153_0;
        if mask & 0x20 != 0 {
          ev |= E_M2_L0;
        }
      } else if ly < 144 {
        bounds |= B_VIS_LINE;
        if mask & 0x20 != 0 {
          ev |= E_M2_VIS;
        }
      } else {
        bounds |= B_VBL_LINE;
      }
      if mask & 0x40 != 0 && ly == lyc as u64 {
        ev |= if ly == 0 {
          E_LYC_L0
        } else if ly < 144 {
          E_LYC_VIS
        } else if ly == 144 {
          E_LYC_144
        } else {
          E_LYC_VBL
        };
      }
    }
    if ly < 144 {
      let m3 = start + 80;
      if m3 > t && m3 <= t2 {
        bounds |= B_2_3;
      }
      let m0 = start + 268;
      if m0 > t && m0 <= t2 {
        bounds |= B_3_0;
        if mask & 0x08 != 0 {
          ev |= E_M0;
        }
      }
    }
    k += 1;
  }
  (ev, bounds)
}

fn line_class(ly: u8) -> &'static str {
  if ly < 144 {
    "visible"
  } else if ly == 144 {
    "144"
  } else if ly <= 153 {
    "145-153"
  } else {
    "ly>153"
  }
}

const CLASS_NAMES: [&str; 11] = [
  "143->144",
  "153->0",
  "vblank:n->n+1",
  "visible:n->n+1",
  "visible:mode2->3",
  "visible:mode3->0",
  "144",
  "145-153",
  "visible:mode2",
  "visible:mode3",
  "visible:mode0",
];

/// class of a window: the most significant schedule boundary it contains, else the steady
/// segment the reference is in at its end.  A 4-clock window contains one instant, so its
/// class is exact.
fn window_class_id(bounds: u8, t2: u64) -> usize {
  if bounds & B_143_144 != 0 {
    0
  } else if bounds & B_153_0 != 0 {
    1
  } else if bounds & B_VBL_LINE != 0 {
    2
  } else if bounds & B_VIS_LINE != 0 {
    3
  } else if bounds & B_2_3 != 0 {
    4
  } else if bounds & B_3_0 != 0 {
    5
  } else {
    match r6_state(t2) {
      (144, _) => 6,
      (ly, _) if ly > 144 => 7,
      (_, 2) => 8,
      (_, 3) => 9,
      _ => 10,
    }
  }
}

fn window_class(bounds: u8, t2: u64) -> &'static str {
  CLASS_NAMES[window_class_id(bounds, t2)]
}

/// hook position -> position on the R6 schedule (clocks into the frame), if it is one
fn schedule_position(pos: (u8, u8, usize)) -> Option<u64> {
  let (line, mode, dots) = pos;
  let dots = dots as u64;
  let line = line as u64;
  if line < 144 {
    match mode {
      2 if dots < 80 => Some(line * LINE + dots),
      3 if dots < 188 => Some(line * LINE + 80 + dots),
      0 if dots < 188 => Some(line * LINE + 268 + dots),
      _ => None,
    }
  } else if line < LINES && mode == 1 && dots < LINE {
    Some(line * LINE + dots)
  } else {
    None
  }
}

/// signed distance from reference time t to frame position p, in (-FRAME/2, FRAME/2]
fn slip_to(p: u64, t: u64) -> i64 {
  let d = (p + FRAME - t % FRAME) % FRAME;
  if d > FRAME / 2 {
    d as i64 - FRAME as i64
  } else {
    d as i64
  }
}

// ---------------------------------------------------------------------------------------
// counters
// ---------------------------------------------------------------------------------------
const C_BATCH: usize = 0; // batches executed on the real PPU
const C_ITER: usize = 1; // four-clock iterations executed
const C_WALK: usize = 2;
const C_JUDGED: usize = 3; // batches compared against R6
const C_LOST: usize = 4; // batches executed while off the schedule (not judged)
const C_RESYNC: usize = 5;
const C_SILENT: usize = 6; // public state agreed, hidden dot counter did not: reference realigned
const C_EXP: usize = 8; // 8..17: batches in which R6 expects event kind i
const C_OBS_VBLANK: usize = 20;
const C_OBS_STAT: usize = 21;
const C_STATE_OK: usize = 22;

#[derive(Clone, Copy)]
struct Cfg {
  mask: u8,
  lyc: u8,
}

struct Bufs {
  vram: Box<[u8]>,
  oam: Box<[u8]>,
}

fn bufs() -> Bufs {
  Bufs { vram: vec![0u8; 0x2000].into_boxed_slice(), oam: vec![0u8; 0xa0].into_boxed_slice() }
}

fn fresh(cfg: Cfg) -> VideoState {
  let mut v = VideoState::new();
  v.set_lcd_control(0x91);
  let _ = v.set_lcd_status(cfg.mask); // write-time requests are not judged
  let _ = v.set_ly_compare(cfg.lyc);
  v
}

/// Map of the 4-clock transition relation for one configuration: entry p/4 describes the
/// 4-clock batch executed from schedule position p: bits 0-3 = class of its instant,
/// D_STATE = LY/mode/STAT (or the hidden dot counter) after it differ from R6,
/// D_VBLANK / D_STAT = that returned bit differs from R6.  It is used only to *name*
/// findings of batches larger than 4 clocks after the 4-clock transition that first goes
/// wrong inside them, so that one root cause keeps one class whatever the batch size; a
/// finding in a window without any such transition is marked `batching=dependent`.
const D_STATE: u8 = 0x10;
const D_VBLANK: u8 = 0x20;
const D_STAT: u8 = 0x40;

fn build_dmap(cfg: Cfg, bufs: &Bufs) -> Vec<u8> {
  let mut v = fresh(cfg);
  let mut d = vec![0u8; SLOTS as usize];
  for _ in 0..(FRAMES * FRAME / 4) {
    let pre = schedule_position(v.verif_position());
    let fl = v.run_clock_cycles(ClockCycles(4), &bufs.vram, &bufs.oam).as_u8();
    if let Some(p) = pre {
      let (ev, bounds) = r6_events(p, 4, cfg.mask, cfg.lyc);
      let exp_fl = (if ev & E_VBLANK != 0 { 1u8 } else { 0 }) | (if ev & E_STAT_ALL != 0 { 2 } else { 0 });
      let (ely, emode) = r6_state(p + 4);
      let mut bits = 0u8;
      if v.get_ly() != ely
        || v.get_current_mode() != emode
        || v.get_lcd_status() & 0x7f != r6_stat(p + 4, cfg.mask, cfg.lyc)
        || schedule_position(v.verif_position()) != Some((p + 4) % FRAME)
      {
        bits |= D_STATE;
      }
      if (fl ^ exp_fl) & 1 != 0 {
        bits |= D_VBLANK;
      }
      if (fl ^ exp_fl) & 2 != 0 {
        bits |= D_STAT;
      }
      if bits != 0 {
        d[(p / 4) as usize] |= bits | window_class_id(bounds, p + 4) as u8;
      }
    }
  }
  d
}

struct Worker {
  bufs: Bufs,
  dmaps: Vec<Option<Vec<u8>>>,
}

impl Worker {
  fn new(ncfg: usize) -> Worker {
    Worker { bufs: bufs(), dmaps: (0..ncfg).map(|_| None).collect() }
  }
  fn prepare(&mut self, ci: usize, cfg: Cfg) {
    if self.dmaps[ci].is_none() {
      self.dmaps[ci] = Some(build_dmap(cfg, &self.bufs));
    }
  }
}

/// whole-run measurements (b = 4 only), public observations against elapsed time
struct Whole {
  ly_prev: u8,
  mode_prev: u8,
  line_start: u64,
  run_start: u64,
  ly144_times: Vec<u64>,
  ly0_times: Vec<u64>,
  vblank_times: Vec<u64>,
}

struct Walker<'a> {
  v: VideoState,
  bufs: &'a Bufs,
  cfg: Cfg,
  stage: &'static str,
  b: u64,
  o: u64,
  t: u64, // reference time (frame origin = line 0 dot 0)
  elapsed: u64,
  nbatch: u64,
  lost: bool,
  slip_total: i64,
  whole: Option<Whole>,
  dmap: Option<&'a [u8]>,
}

impl<'a> Walker<'a> {
  fn new(cfg: Cfg, bufs: &'a Bufs, dmap: Option<&'a [u8]>, stage: &'static str, b: u64, o: u64) -> Walker<'a> {
    Walker { v: fresh(cfg), bufs, cfg, stage, b, o, t: T0, elapsed: 0, nbatch: 0, lost: false, slip_total: 0, whole: None, dmap }
  }

  /// class of the first 4-clock transition inside the window (t1, t1+n] that is wrong in one
  /// of the `want` respects when executed alone
  fn root_class(&self, t1: u64, n: u64, want: u8) -> Option<&'static str> {
    let d = self.dmap?;
    let mut s = ((t1 % FRAME) / 4) as usize;
    for _ in 0..(n / 4) {
      if d[s] & want != 0 {
        return Some(CLASS_NAMES[(d[s] & 0x0f) as usize]);
      }
      s = (s + 1) % SLOTS as usize;
    }
    None
  }

  fn case(&self, n: u64) -> J {
    J::obj()
      .set("stage", J::s(self.stage))
      .set("lcdc", J::u(0x91))
      .set("stat_written", J::u(self.cfg.mask as u64))
      .set("lyc", J::u(self.cfg.lyc as u64))
      .set("batch", J::u(self.b))
      .set("start_offset", J::u(self.o))
      .set("this_batch_clocks", J::u(n))
      .set("batches_before", J::u(self.nbatch))
      .set("clocks_before", J::u(self.elapsed - n))
      .set("how", J::s("VideoState::new(); set_lcd_control(0x91); set_lcd_status(stat_written); set_ly_compare(lyc); run start_offset clocks (if > 0), then batches of `batch` clocks; the judged batch starts after clocks_before clocks"))
  }

  /// execute one batch of n clocks and judge it
  fn step(&mut self, n: u64, mark: Option<u64>, ctx: &mut Ctx) {
    let ly0 = self.v.get_ly();
    let mode0 = self.v.get_current_mode();
    let pre = schedule_position(self.v.verif_position());
    let fl = self.v.run_clock_cycles(ClockCycles(n as usize), &self.bufs.vram, &self.bufs.oam).as_u8();
    let ly = self.v.get_ly();
    let mode = self.v.get_current_mode();
    let stat = self.v.get_lcd_status();
    ctx.count(C_BATCH, 1);
    ctx.count(C_ITER, n / 4);
    if let (Some(p), Some(bi)) = (pre, mark) {
      ctx.class((p / 4) + SLOTS * bi);
    }
    if fl & 1 != 0 {
      ctx.count(C_OBS_VBLANK, 1);
    }
    if fl & 2 != 0 {
      ctx.count(C_OBS_STAT, 1);
    }
    let t1 = self.t;
    let t2 = t1 + n;
    let e1 = self.elapsed;
    self.elapsed += n;
    if self.whole.is_some() {
      self.whole_step(e1 + n, ly, mode, fl, ctx);
    }

    if self.lost {
      ctx.count(C_LOST, 1);
      self.t = t2;
      if let Some(p) = schedule_position(self.v.verif_position()) {
        let s = slip_to(p, t2);
        self.t = (t2 as i64 + s) as u64;
        self.slip_total += s;
        self.lost = false;
        ctx.count(C_RESYNC, 1);
      }
      self.nbatch += 1;
      return;
    }

    ctx.count(C_JUDGED, 1);
    let (ev, bounds) = r6_events(t1, n, self.cfg.mask, self.cfg.lyc);
    for i in 0..9 {
      if ev & (1 << i) != 0 {
        ctx.count(C_EXP + i, 1);
      }
    }
    let (ely, emode) = r6_state(t2);
    let estat = r6_stat(t2, self.cfg.mask, self.cfg.lyc);
    let wcls = window_class(bounds, t2);
    let exp_fl = (if ev & E_VBLANK != 0 { 1u8 } else { 0 }) | (if ev & E_STAT_ALL != 0 { 2 } else { 0 });

    let detail = |w: &Walker, what: &str| {
      let mut evs: Vec<J> = Vec::new();
      for i in 0..9 {
        if ev & (1 << i) != 0 {
          evs.push(J::s(format!("{}@{}", E_NAMES[i].0, E_NAMES[i].1)));
        }
      }
      J::obj()
        .set("case", w.case(n))
        .set("reference_time_before", J::s(format!("frame clock {} (LY {}, dot {})", t1 % FRAME, (t1 % FRAME) / LINE, (t1 % FRAME) % LINE)))
        .set("resynchronised_slip_so_far", J::Int(w.slip_total))
        .set("before", J::obj().set("ly", J::u(ly0 as u64)).set("mode", J::u(mode0 as u64)))
        .set(
          "expected",
          J::obj()
            .set("ly", J::u(ely as u64))
            .set("mode", J::u(emode as u64))
            .set("stat_bits0_6", J::u(estat as u64))
            .set("flags", J::u(exp_fl as u64))
            .set("r6_events_in_window", J::Arr(evs)),
        )
        .set(
          "observed",
          J::obj()
            .set("ly", J::u(ly as u64))
            .set("mode", J::u(mode as u64))
            .set("stat_bits0_6", J::u((stat & 0x7f) as u64))
            .set("flags", J::u(fl as u64))
            .set("hook_position_line_mode_dots", J::s(format!("{:?}", w.v.verif_position()))),
        )
        .set("what", J::s(what))
    };

    // --- findings of this batch: (event, class of its own instant / of the window, key suffix, what)
    // A STAT request mismatch in a batch whose LY/mode also diverge is the same finding as the
    // divergence (the PPU entered the wrong mode, so it asked for the wrong mode's interrupt);
    // it is listed in that finding's detail and not keyed separately.
    let bad_state = ly != ely || mode != emode;
    let mut finds: Vec<(String, &'static str, String, &'static str)> = Vec::new();
    if fl & !3 != 0 {
      ctx.violation("C14 event=flags at=any kind=foreign-bits", || detail(self, "run_clock_cycles returned bits other than VBlank/STAT"));
    }
    if ev & E_VBLANK != 0 && fl & 1 == 0 {
      finds.push(("vblank".to_string(), "143->144", " kind=missed".to_string(), "LY becomes 144 inside the batch but no VBlank request was returned"));
    }
    if ev & E_VBLANK == 0 && fl & 1 != 0 {
      finds.push(("vblank".to_string(), wcls, " kind=spurious".to_string(), "VBlank request returned by a batch in which LY does not become 144"));
    }
    if !bad_state && ev & E_STAT_ALL != 0 && fl & 2 == 0 {
      for i in 1..9 {
        if ev & (1 << i) != 0 {
          finds.push((E_NAMES[i].0.to_string(), E_NAMES[i].1, " kind=missed".to_string(), "an enabled STAT source fires inside the batch but no STAT request was returned"));
        }
      }
    }
    if !bad_state && ev & E_STAT_ALL == 0 && fl & 2 != 0 {
      // name the source from the public observations if they single one out
      let en = |m: u8| match m {
        0 => self.cfg.mask & 0x08 != 0,
        1 => self.cfg.mask & 0x10 != 0,
        2 => self.cfg.mask & 0x20 != 0,
        _ => false,
      };
      let src = if mode != mode0 && en(mode) {
        format!("stat-mode{}", mode)
      } else if ly != ly0 && ly == self.cfg.lyc && self.cfg.mask & 0x40 != 0 {
        "lyc".to_string()
      } else {
        "stat".to_string()
      };
      finds.push((src, wcls, " kind=spurious".to_string(), "STAT request returned by a batch in which no enabled R6 source fires"));
    }
    // state after the batch
    if ly != ely {
      finds.push(("ly".to_string(), wcls, String::new(), "LY after the batch differs from the closed form"));
    }
    if mode != emode {
      finds.push(("mode".to_string(), wcls, String::new(), "mode after the batch differs from the closed form"));
    }
    if stat & 0x7f != estat {
      // a STAT value that merely repeats an already reported LY/mode error is the same finding
      let derived = (self.cfg.mask & 0x78) | (if ly == self.cfg.lyc { 4 } else { 0 }) | (mode & 3);
      if !(bad_state && stat & 0x7f == derived) {
        let diff = (stat & 0x7f) ^ estat;
        let grp = if diff & 0x78 != 0 {
          "enables"
        } else if diff & 0x04 != 0 {
          "coincidence"
        } else {
          "mode"
        };
        finds.push(("stat-bits".to_string(), wcls, format!(" bits={}", grp), "STAT read-back differs from enables | (LY==LYC)<<2 | mode"));
      }
    }
    if !finds.is_empty() {
      // b = 4: the window is one instant and its class is exact.  b > 4: name the finding
      // after the first 4-clock transition inside the window that is wrong on its own.
      let exact = n == 4 || self.dmap.is_none();
      for (evn, own, suffix, what) in finds.iter() {
        // a request finding is explained by a wrong state transition or by the same request
        // bit going wrong on its own; a state finding only by a wrong state transition
        let want = match evn.as_str() {
          "vblank" => D_STATE | D_VBLANK,
          "ly" | "mode" | "stat-bits" => D_STATE,
          _ => D_STATE | D_STAT,
        };
        let root = if exact { None } else { self.root_class(t1, n, want) };
        let dep = if exact || root.is_some() { "" } else { " batching=dependent" };
        let key = format!("C14 event={} at={}{}{}", evn, root.unwrap_or(*own), suffix, dep);
        ctx.violation(&key, || {
          detail(self, *what).set(
            "class_named_after",
            J::s(if n == 4 {
              "the single instant of the 4-clock batch"
            } else if root.is_some() {
              "the first 4-clock transition inside the batch that is wrong when executed alone (same configuration)"
            } else {
              "the batch window; every 4-clock transition inside it is right when executed alone"
            }),
          )
        });
      }
    }
    if !bad_state {
      ctx.count(C_STATE_OK, 1);
    }

    // Every batch is judged from a synchronised position: align the reference with the PPU
    // position.  After a reported divergence this is the re-synchronisation; when the public
    // state agreed but the hidden dot counter moved differently (possible only with b > 4:
    // the public difference lies strictly inside the batch) it is silent here, and the walk
    // whose sample point falls on the differing instant reports it with the right class.
    self.t = t2;
    match schedule_position(self.v.verif_position()) {
      Some(p) => {
        let s = slip_to(p, t2);
        if s != 0 || bad_state {
          self.t = (t2 as i64 + s) as u64;
          self.slip_total += s;
          ctx.count(if bad_state { C_RESYNC } else { C_SILENT }, 1);
        }
      },
      None => self.lost = true,
    }
    self.nbatch += 1;
  }

  fn whole_step(&mut self, e: u64, ly: u8, mode: u8, fl: u8, ctx: &mut Ctx) {
    let cfg = self.cfg;
    let w = self.whole.as_mut().unwrap();
    let case = || {
      J::obj()
        .set("stage", J::s("whole-run"))
        .set("lcdc", J::u(0x91))
        .set("stat_written", J::u(cfg.mask as u64))
        .set("lyc", J::u(cfg.lyc as u64))
        .set("batch", J::u(4))
        .set("clocks_since_power_on", J::u(e))
        .set("how", J::s("VideoState::new(); set_lcd_control(0x91); set_lcd_status; set_ly_compare; run_clock_cycles(4) repeatedly, observing get_ly/get_current_mode and the returned flags after each"))
    };
    if fl & 1 != 0 {
      w.vblank_times.push(e);
    }
    let line_changed = ly != w.ly_prev;
    if line_changed || mode != w.mode_prev {
      // a (LY, mode) run ended
      if w.ly_prev < 144 {
        let len = e - w.run_start;
        let want = match w.mode_prev {
          2 => 80,
          3 => 188,
          0 => 188,
          _ => 0,
        };
        if want == 0 {
          ctx.violation("C14 event=mode at=whole-run:visible kind=mode1-on-visible-line", || J::obj().set("case", case()).set("observed", J::obj().set("ly", J::u(w.ly_prev as u64)).set("mode", J::u(w.mode_prev as u64))));
        } else if len != want {
          ctx.violation(&format!("C14 event=mode at=whole-run:visible kind=duration-mode{}", w.mode_prev), || {
            J::obj().set("case", case()).set("line", J::u(w.ly_prev as u64)).set("expected", J::u(want)).set("observed", J::u(len))
          });
        }
      }
      w.run_start = e;
    }
    if line_changed {
      let len = e - w.line_start;
      if len != LINE {
        ctx.violation(&format!("C14 event=ly at=whole-run:{} kind=line-duration", line_class(w.ly_prev)), || {
          J::obj().set("case", case()).set("line", J::u(w.ly_prev as u64)).set("expected", J::u(LINE)).set("observed", J::u(len))
        });
      }
      if ly as u64 != (w.ly_prev as u64 + 1) % LINES {
        ctx.violation(&format!("C14 event=ly at=whole-run:{} kind=sequence", line_class(w.ly_prev)), || {
          J::obj().set("case", case()).set("expected", J::u((w.ly_prev as u64 + 1) % LINES)).set("observed", J::u(ly as u64)).set("previous", J::u(w.ly_prev as u64))
        });
      }
      w.line_start = e;
      if ly == 144 {
        w.ly144_times.push(e);
      }
      if ly == 0 {
        w.ly0_times.push(e);
      }
    }
    if ly >= 144 && mode != 1 {
      ctx.violation(&format!("C14 event=mode at=whole-run:{} kind=not-mode1", line_class(ly)), || {
        J::obj().set("case", case()).set("expected", J::obj().set("mode", J::u(1))).set("observed", J::obj().set("ly", J::u(ly as u64)).set("mode", J::u(mode as u64)))
      });
    }
    w.ly_prev = ly;
    w.mode_prev = mode;
  }

  fn whole_finish(&mut self, frames: u64, ctx: &mut Ctx) {
    let cfg = self.cfg;
    let w = self.whole.as_ref().unwrap();
    let list = |v: &Vec<u64>| J::Arr(v.iter().map(|x| J::u(*x)).collect());
    let diffs = |v: &Vec<u64>| J::Arr(v.windows(2).map(|p| J::u(p[1] - p[0])).collect());
    let case = J::obj()
      .set("stage", J::s("whole-run"))
      .set("lcdc", J::u(0x91))
      .set("stat_written", J::u(cfg.mask as u64))
      .set("lyc", J::u(cfg.lyc as u64))
      .set("batch", J::u(4))
      .set("clocks", J::u(frames * FRAME))
      .set("how", J::s("fresh VideoState, LCDC=0x91, run_clock_cycles(4) for 3 x 70224 clocks; times are clocks since power-on (LY 144, dot 0)"));
    // exactly one VBlank per 70224 clocks, at the instant LY becomes 144
    let want144: Vec<u64> = (1..=frames).map(|k| k * FRAME).collect();
    if w.vblank_times != want144 || w.ly144_times != want144 {
      let mut offs: Vec<J> = Vec::new();
      for vt in w.vblank_times.iter() {
        match w.ly144_times.iter().filter(|x| **x <= *vt).last() {
          Some(l) => offs.push(J::u(vt - l)),
          None => offs.push(J::s("no LY->144 before it")),
        }
      }
      ctx.violation("C14 event=vblank at=whole-run kind=not-once-per-frame-at-ly144", || {
        J::obj()
          .set("case", case.clone())
          .set("expected", J::obj().set("vblank_request_times", list(&want144)).set("ly_becomes_144_times", list(&want144)).set("vblank_period", J::u(FRAME)).set("vblank_clocks_after_ly_becomes_144", J::u(0)))
          .set(
            "observed",
            J::obj()
              .set("vblank_request_times", list(&w.vblank_times))
              .set("ly_becomes_144_times", list(&w.ly144_times))
              .set("vblank_periods", diffs(&w.vblank_times))
              .set("vblank_clocks_after_ly_becomes_144", J::Arr(offs)),
          )
      });
    }
    // frame period measured on LY returning to 0
    let want0: Vec<u64> = (0..frames).map(|k| 10 * LINE + k * FRAME).collect();
    if w.ly0_times != want0 {
      ctx.violation("C14 event=ly at=whole-run kind=frame-period", || {
        J::obj()
          .set("case", case.clone())
          .set("expected", J::obj().set("ly_becomes_0_times", list(&want0)).set("frame_period", J::u(FRAME)))
          .set("observed", J::obj().set("ly_becomes_0_times", list(&w.ly0_times)).set("frame_periods", diffs(&w.ly0_times)))
      });
    }
  }

  /// one giant batch from the current (synchronised) position
  fn giant(&mut self, g: u64, gi: u64, ctx: &mut Ctx) {
    if self.lost {
      return;
    }
    let pre = schedule_position(self.v.verif_position());
    let fl = self.v.run_clock_cycles(ClockCycles(g as usize), &self.bufs.vram, &self.bufs.oam).as_u8();
    let ly = self.v.get_ly();
    let mode = self.v.get_current_mode();
    let stat = self.v.get_lcd_status();
    ctx.count(C_BATCH, 1);
    ctx.count(C_ITER, g / 4);
    ctx.count(C_JUDGED, 1);
    self.elapsed += g;
    if let Some(p) = pre {
      ctx.class((p / 4) + SLOTS * gi);
    }
    let t1 = self.t;
    let t2 = t1 + g;
    let (ev, _) = r6_events(t1, g, self.cfg.mask, self.cfg.lyc);
    for i in 0..9 {
      if ev & (1 << i) != 0 {
        ctx.count(C_EXP + i, 1);
      }
    }
    let (ely, emode) = r6_state(t2);
    let estat = r6_stat(t2, self.cfg.mask, self.cfg.lyc);
    let exp_fl = (if ev & E_VBLANK != 0 { 1u8 } else { 0 }) | (if ev & E_STAT_ALL != 0 { 2 } else { 0 });
    let hook = self.v.verif_position();
    let slip = schedule_position(hook).map(|p| slip_to(p, t2));
    let detail = |w: &Walker, what: &str| {
      J::obj()
        .set("case", w.case(g))
        .set("reference_time_before", J::s(format!("frame clock {} (LY {}, dot {})", t1 % FRAME, (t1 % FRAME) / LINE, (t1 % FRAME) % LINE)))
        .set("expected", J::obj().set("ly", J::u(ely as u64)).set("mode", J::u(emode as u64)).set("stat_bits0_6", J::u(estat as u64)).set("flags", J::u(exp_fl as u64)))
        .set(
          "observed",
          J::obj()
            .set("ly", J::u(ly as u64))
            .set("mode", J::u(mode as u64))
            .set("stat_bits0_6", J::u((stat & 0x7f) as u64))
            .set("flags", J::u(fl as u64))
            .set("hook_position_line_mode_dots", J::s(format!("{:?}", hook)))
            .set("position_minus_reference_clocks", match slip { Some(s) => J::Int(s), None => J::s("not on the schedule") }),
        )
        .set("what", J::s(what))
    };
    if fl & !3 != 0 {
      ctx.violation("C14 event=flags at=any kind=foreign-bits", || detail(self, "run_clock_cycles returned bits other than VBlank/STAT"));
    }
    // request keys are those of the stride walks (named after the R6 instant), so that the
    // same missing request is one finding whatever the batch size; when the position after
    // the batch is wrong, request differences are part of that finding (see its detail)
    let bad_state = ly != ely || mode != emode;
    if !bad_state && ev & E_VBLANK != 0 && fl & 1 == 0 {
      ctx.violation("C14 event=vblank at=143->144 kind=missed", || detail(self, "LY becomes 144 inside the giant batch but no VBlank request was returned"));
    }
    if !bad_state && ev & E_VBLANK == 0 && fl & 1 != 0 {
      ctx.violation("C14 event=vblank at=giant kind=spurious", || detail(self, "VBlank request returned by a giant batch in which LY does not become 144"));
    }
    if !bad_state && ev & E_STAT_ALL != 0 && fl & 2 == 0 {
      for i in 1..9 {
        if ev & (1 << i) != 0 {
          ctx.violation(&format!("C14 event={} at={} kind=missed", E_NAMES[i].0, E_NAMES[i].1), || detail(self, "an enabled STAT source fires inside the giant batch but no STAT request was returned"));
        }
      }
    }
    if !bad_state && ev & E_STAT_ALL == 0 && fl & 2 != 0 {
      ctx.violation("C14 event=stat at=giant kind=spurious", || detail(self, "STAT request returned although no enabled R6 source fires inside the giant batch"));
    }
    if bad_state {
      // slip = PPU position minus reference position, classed by direction and by whether
      // it is a whole number of lines (exact figure in the detail)
      let key = match slip {
        Some(s) => format!(
          "C14 giant event=position slip={}:{}",
          if s < 0 { "behind" } else if s > 0 { "ahead" } else { "none" },
          if s % (LINE as i64) == 0 { "whole-lines" } else { "fraction-of-line" }
        ),
        None => format!("C14 giant event=position slip=off-schedule at={}", line_class(hook.0)),
      };
      ctx.violation(&key, || detail(self, "LY/mode after a giant batch differ from the closed form; slip = PPU position minus reference position"));
    } else {
      ctx.count(C_STATE_OK, 1);
    }
    if stat & 0x7f != estat {
      let derived = (self.cfg.mask & 0x78) | (if ly == self.cfg.lyc { 4 } else { 0 }) | (mode & 3);
      if !(bad_state && stat & 0x7f == derived) {
        ctx.violation("C14 giant event=stat-bits", || detail(self, "STAT read-back differs from enables | (LY==LYC)<<2 | mode"));
      }
    }
    self.t = t2;
    self.nbatch += 1;
  }
}

const FRAMES: u64 = 3;
const GIANTS: [u64; 4] = [70220, 70224, 70228, 140448];

fn walk(cfg: Cfg, bufs: &Bufs, dmap: Option<&[u8]>, stage: &'static str, b: u64, o: u64, whole: bool, ctx: &mut Ctx) {
  let mut w = Walker::new(cfg, bufs, dmap, stage, b, o);
  ctx.count(C_WALK, 1);
  if whole {
    // power-on state
    let (ly, mode, stat) = (w.v.get_ly(), w.v.get_current_mode(), w.v.get_lcd_status() & 0x7f);
    let est = r6_stat(T0, cfg.mask, cfg.lyc);
    if ly != 144 || mode != 1 || stat != est {
      ctx.violation("C14 event=power-on at=144", || {
        J::obj()
          .set("case", J::obj().set("stat_written", J::u(cfg.mask as u64)).set("lyc", J::u(cfg.lyc as u64)).set("how", J::s("VideoState::new(); set_lcd_control(0x91); set_lcd_status; set_ly_compare; read LY, mode, STAT")))
          .set("expected", J::obj().set("ly", J::u(144)).set("mode", J::u(1)).set("stat_bits0_6", J::u(est as u64)))
          .set("observed", J::obj().set("ly", J::u(ly as u64)).set("mode", J::u(mode as u64)).set("stat_bits0_6", J::u(stat as u64)))
      });
    }
    w.whole = Some(Whole { ly_prev: ly, mode_prev: mode, line_start: 0, run_start: 0, ly144_times: Vec::new(), ly0_times: Vec::new(), vblank_times: Vec::new() });
  }
  if o > 0 {
    w.step(o, Some(o / 4 - 1), ctx);
  }
  while w.elapsed < FRAMES * FRAME {
    w.step(b, Some(b / 4 - 1), ctx);
  }
  if whole {
    w.whole_finish(FRAMES, ctx);
  }
}

pub fn run(tier: &str) -> i32 {
  let mut rep = Report::new("C14", tier, "model_checking");
  let thorough = rep.thorough();
  // quick: no enable, each single enable (so that every STAT source is judged on its own), all enables
  // written STAT bytes: the enable masks, and bytes that also carry the read-only bits 0-2 and bit 7
  // (what a guest's read-modify-write of STAT stores)
  let masks: Vec<u8> = if thorough { (0..16u8).map(|m| m << 3).chain((0..16u8).map(|m| (m << 3) | 0x87)).chain([0x01u8, 0x02, 0x04, 0x45, 0x43].iter().cloned()).collect() } else { vec![0x00, 0x08, 0x10, 0x20, 0x40, 0x78, 0x45, 0xFF] };
  let lycs: Vec<u8> = if thorough { vec![0, 1, 76, 143, 144, 153, 200] } else { vec![0, 144] };
  let bmax: u64 = if thorough { 912 } else { 460 };
  let mut cfgs: Vec<Cfg> = Vec::new();
  for m in masks.iter() {
    for l in lycs.iter() {
      cfgs.push(Cfg { mask: *m, lyc: *l });
    }
  }
  let ncfg = cfgs.len() as u64;

  rep.assume("R6 written from the property text: t0 = 144*456 at power-on; p = t mod 70224, LY = p div 456, d = p mod 456; mode 1 on lines 144-153, else 2 (d<80), 3 (d<268), 0; VBlank at LY->144; STAT sources: mode 2 at d=0 of lines 0-143, mode 0 at d=268, mode 1 at LY->144, LYC at d=0 of line LYC (all 154 lines, including LY becoming 0)");
  rep.assume("returned flags are a bit set: several R6 STAT sources inside one batch are indistinguishable from one; the batch is judged on VBlank bit == 'LY becomes 144 in (t,t+b]' and STAT bit == 'some enabled source fires in (t,t+b]'");
  rep.assume("STAT and LYC are written before time starts and the flag returned by the setters is ignored (write-time requests are not judged); STAT bit 7 is not judged; LCDC = 0x91, VRAM and OAM all zero in the device-level stages; stage in-the-machine repeats everything with LCDC = 0xF7, 40 objects, a window and non-zero video RAM");
  rep.assume("batches are multiples of 4 clocks (run_clock_cycles subtracts 4 per iteration)");
  rep.assume("each batch is judged as a transition from a synchronised position: if after a batch the public state agrees but the hook shows a different dot count, the reference is realigned silently (silent_realignments; 0 on a conforming PPU) and the defect is reported by the walk that samples the differing instant; a STAT request mismatch in a batch whose LY/mode also diverge is folded into that divergence finding");
  rep.assume("after a reported LY/mode divergence the reference is re-synchronised to the PPU position read through the verif_position() hook; while the PPU is at a (line, mode, dots) triple that does not exist on the schedule, batches are executed but not judged (counted as lost_batches); absolute-time facts are measured without re-synchronisation in the whole-run stage");

  // ---- stage A: b = 4, whole run; one worker so that the recorded details are the smallest cases
  let cfgs_a = cfgs.clone();
  let opts_a = PoolOpts { workers: 1, chunk: 1, bitmap_bits: (SLOTS * 228) as usize, ..PoolOpts::default() };
  let ra = run_pool(
    ncfg,
    &opts_a,
    |_| bufs(),
    |bufs, case, ctx| {
      let cfg = cfgs_a[case as usize];
      if case == 0 {
        ctx.sample(|| J::obj().set("stage", J::s("whole-run")).set("stat_written", J::u(cfg.mask as u64)).set("lyc", J::u(cfg.lyc as u64)).set("batch", J::u(4)).set("clocks", J::u(FRAMES * FRAME)));
      }
      walk(cfg, bufs, None, "whole-run", 4, 0, true, ctx);
    },
    |case, how| (format!("C14 crash={} stage=whole-run", how), J::obj().set("config_index", J::u(case))),
  );
  let ca = rep.add_stage("whole-run-b4", "every (STAT mask, LYC) x one walk of 4-clock batches over 3 frames: per-batch R6 comparison plus VBlank instants, frame period, line and mode durations", ra);
  let pairs_a = rep.distinct;

  // ---- stage B: stride walks, b = 8..bmax, every start offset
  let nb = bmax / 4 - 1; // batch sizes 8, 12, ..., bmax
  let cfgs_b = cfgs.clone();
  let opts_b = PoolOpts { chunk: 1, bitmap_bits: (SLOTS * 228) as usize, ..PoolOpts::default() };
  let rb = run_pool(
    ncfg * nb,
    &opts_b,
    |_| Worker::new(ncfg as usize),
    |wk, case, ctx| {
      // large batch sizes (most walks) first, configuration varies fastest
      let ci = (case % ncfg) as usize;
      let cfg = cfgs_b[ci];
      wk.prepare(ci, cfg);
      let (bufs, dmap) = (&wk.bufs, wk.dmaps[ci].as_deref());
      let b = (nb - case / ncfg + 1) * 4;
      if case == 0 {
        ctx.sample(|| J::obj().set("stage", J::s("stride")).set("stat_written", J::u(cfg.mask as u64)).set("lyc", J::u(cfg.lyc as u64)).set("batch", J::u(b)).set("start_offsets", J::s(format!("0,4,..,{}", b - 4))));
      }
      let mut o = 0;
      while o < b {
        walk(cfg, bufs, dmap, "stride", b, o, false, ctx);
        o += 4;
      }
    },
    |case, how| (format!("C14 crash={} stage=stride", how), J::obj().set("config_index", J::u(case % ncfg)).set("batch", J::u((nb - case / ncfg + 1) * 4))),
  );
  let space_b = format!("every (STAT mask, LYC) x batch size b in 8,12,..,{} x start offset o in 0,4,..,b-4: fresh PPU, o clocks, then batches of b over 3 frames", bmax);
  let cb = rep.add_stage("stride-walks", &space_b, rb);
  let pairs_b = rep.distinct - pairs_a;

  // ---- stage C: giant batches from every 19th position
  let cfgs_c = cfgs.clone();
  let opts_c = PoolOpts { chunk: 1, bitmap_bits: (SLOTS * 4) as usize, ..PoolOpts::default() };
  let rc = run_pool(
    ncfg * 4,
    &opts_c,
    |_| Worker::new(ncfg as usize),
    |wk, case, ctx| {
      let ci = (case / 4) as usize;
      let cfg = cfgs_c[ci];
      wk.prepare(ci, cfg);
      let (bufs, dmap) = (&wk.bufs, wk.dmaps[ci].as_deref());
      let gi = case % 4;
      let g = GIANTS[gi as usize];
      if case == 0 {
        ctx.sample(|| J::obj().set("stage", J::s("giant")).set("stat_written", J::u(cfg.mask as u64)).set("lyc", J::u(cfg.lyc as u64)).set("batch", J::u(g)).set("start_offsets", J::s("76*k, k = 0..923")));
      }
      for k in 0..(SLOTS / 19) {
        let o = 76 * k;
        let mut w = Walker::new(cfg, bufs, dmap, "giant", g, o);
        ctx.count(C_WALK, 1);
        if o > 0 {
          w.step(o, None, ctx);
        }
        w.giant(g, gi, ctx);
      }
    },
    |case, how| (format!("C14 crash={} stage=giant", how), J::obj().set("config_index", J::u(case / 4)).set("giant", J::u(GIANTS[(case % 4) as usize]))),
  );
  let cc = rep.add_stage("giant-batches", "every (STAT mask, LYC) x batch in {70220, 70224, 70228, 140448} x every 19th four-clock position of the frame (924 positions)", rc);
  let pairs_c = rep.distinct - pairs_a - pairs_b;

  let sum = |i: usize| ca[i] + cb[i] + cc[i];
  let transitions = sum(C_BATCH);
  // ---- the LCD controller inside the machine ---------------------------------------------
  // LY / STAT / IF as the guest sees them through the bus, time delivered by
  // MemoryAreas::run_clock_cycles (what the CPU's accounting calls) while the other devices are
  // busy: an OAM DMA in flight and/or the timer running.  The schedule may not depend on that.
  let mut machine_transitions = 0u64;
  {
    const CTX_NAME: [&str; 4] = ["idle", "oam-dma-in-flight", "timer-on", "dma+timer"];
    let schedules: Vec<(&str, Vec<u32>)> = vec![
      ("4-clock steps", vec![4; 456 * 3 / 4]),
      ("one line at a time", vec![456; 160]),
      ("640 then lines", { let mut v = vec![640u32]; v.extend(vec![456u32; 160]); v }),
      ("8+632 then 1000s", { let mut v = vec![8u32, 632]; v.extend(vec![1000u32; 72]); v }),
      ("whole frames", vec![70224, 70224]),
      ("60/252 alternating", { let mut v = Vec::new(); for _ in 0..240 { v.push(60); v.push(252); } v }),
      ("to line 0, then 4-clock steps", { let mut v = vec![4560u32]; v.extend(vec![4u32; 456 * 3 / 4]); v }),
    ];
    let ns = schedules.len() as u64;
    let cfg_masks: [u8; 3] = [0x00, 0x78, 0x45];
    // what is on the screen: nothing (LCDC = 0x91, video RAM and OAM zero), or every feature
    // switched on with 40 objects spread over the first lines, a window and a scrolled
    // background — the schedule of the statement does not depend on it
    const SCENE_NAME: [&str; 2] = ["", "+objects-and-window"];
    let total_cases = ns * 4 * cfg_masks.len() as u64 * 2 * 2;
    let opts = PoolOpts { chunk: 2, bitmap_bits: 1 << 12, samples_per_child: 1, ..PoolOpts::default() };
    let r = run_pool(
      total_cases,
      &opts,
      |_| {
        let mut rom = vec![0u8; 0x8000];
        rom[0x100..0x150].copy_from_slice(&crate::world::header_bytes(0x00, 0x00, 0x00)[0x100..0x150]);
        crate::world::flat_core(rom)
      },
      |core, case, ctx| {
        let si = (case % ns) as usize;
        let dctx = ((case / ns) % 4) as usize;
        let mask = cfg_masks[((case / ns / 4) % cfg_masks.len() as u64) as usize];
        let lyc: u8 = if (case / ns / 4 / cfg_masks.len() as u64) % 2 == 0 { 0 } else { 144 };
        let scene = ((case / ns / 4 / cfg_masks.len() as u64 / 2) % 2) as usize;
        let cname = format!("{}{}", CTX_NAME[dctx], SCENE_NAME[scene]);
        let (sname, sched) = &schedules[si];
        core.memory.io = crate::devices::io::IO::new();
        core.memory.oam_dma = None;
        let m = &mut core.memory as *mut crate::mem::MemoryAreas;
        let wr = |a: u16, v: u8| crate::mem::memory_write_byte(m, a, v);
        let rd = |a: u16| crate::mem::memory_read_byte(m as *const crate::mem::MemoryAreas, a);
        for i in 0..0xA0u16 {
          // object i: Y = 16 + 4 * (i / 4) (four objects start every fourth line), X = 8 + 4 i
          let v = if scene == 0 { 0 } else { match i % 4 { 0 => 16 + 4 * (i / 16) as u8, 1 => 8 + (i / 4) as u8 * 4, 2 => (i / 4) as u8, _ => ((i / 4) as u8) << 5 } };
          wr(0xFE00 + i, v);
          wr(0xC100 + i, v); // the page the DMA contexts copy from
        }
        for a in 0x8000..0xA000u16 {
          wr(a, if scene == 0 { 0 } else { (a as u8).wrapping_mul(7) ^ (a >> 8) as u8 });
        }
        wr(0xFF40, if scene == 0 { 0x91 } else { 0xF7 });
        wr(0xFF43, if scene == 0 { 0 } else { 5 });
        wr(0xFF4A, if scene == 0 { 0 } else { 8 });
        wr(0xFF4B, if scene == 0 { 0 } else { 60 });
        wr(0xFF41, mask);
        wr(0xFF45, lyc);
        if dctx & 2 != 0 {
          wr(0xFF06, 0x10);
          wr(0xFF07, 0x05);
        }
        if dctx & 1 != 0 {
          wr(0xFF46, 0xC1);
        }
        wr(0xFF0F, 0);
        ctx.sample(|| J::obj().set("stage", J::s("in-the-machine")).set("stat_written", J::u(mask as u64)).set("lyc", J::u(lyc as u64)).set("context", J::s(cname.as_str())).set("schedule", J::s(*sname)));
        let mut t = T0;
        for (bi, b) in sched.iter().enumerate() {
          core.memory.run_clock_cycles(crate::timing::ClockCycles(*b as usize));
          let (ev, _) = r6_events(t, *b as u64, mask, lyc);
          t += *b as u64;
          let (ely, _) = r6_state(t);
          let estat = r6_stat(t, mask, lyc);
          let ifl = rd(0xFF0F);
          wr(0xFF0F, 0);
          let got = (rd(0xFF44), rd(0xFF41) & 0x7f, ifl & 1 != 0, ifl & 2 != 0);
          let want = (ely, estat, ev & E_VBLANK != 0, ev & E_STAT_ALL != 0);
          ctx.count(C_JUDGED, 1);
          ctx.class(0x100000 | ((dctx as u64) << 12) | ((ely as u64) << 4) | ((want.2 as u64) << 1) | want.3 as u64);
          if got != want {
            let field = if got.0 != want.0 { "ly" } else if got.1 != want.1 { "stat-bits" } else if got.2 != want.2 { "vblank" } else { "stat-request" };
            ctx.violation(&format!("C14 event={} via=machine context={}", field, cname), || {
              J::obj()
                .set("case", J::obj().set("via", J::s("bus writes + MemoryAreas::run_clock_cycles")).set("stat_written", J::u(mask as u64)).set("lyc", J::u(lyc as u64)).set("context", J::s(cname.as_str())).set("schedule", J::s(*sname)).set("batch_index", J::u(bi as u64)).set("clocks_since_power_on", J::u(t - T0)))
                .set("expected", J::obj().set("ly", J::u(want.0 as u64)).set("stat", J::u(want.1 as u64)).set("vblank_request", J::Bool(want.2)).set("stat_request", J::Bool(want.3)))
                .set("observed", J::obj().set("ly", J::u(got.0 as u64)).set("stat", J::u(got.1 as u64)).set("vblank_request", J::Bool(got.2)).set("stat_request", J::Bool(got.3)))
            });
            break;
          }
        }
      },
      |case, how| (format!("C14 via=machine crash={}", how), J::obj().set("case", J::u(case))),
    );
    let cm = rep.add_stage("in-the-machine", "STAT byte {00,78,45} x LYC {0,144} x device context {idle, OAM DMA in flight, timer on, both} x screen content {blank with LCDC=91, every LCDC feature on with 40 objects / window / scroll} x 7 batch schedules over 1..2 frames: registers set through the bus, time delivered by MemoryAreas::run_clock_cycles, LY / STAT / IF read through the bus after every batch", r);
    machine_transitions += cm[C_JUDGED];
  }
  let transitions = transitions + machine_transitions;
  rep.evaluations = transitions;
  rep.cov("states", J::u(rep.distinct));
  rep.cov("transitions", J::u(transitions));
  rep.cov("traces_validated_against_impl", J::u(transitions));
  rep.cov(
    "position_batch_pairs",
    J::obj()
      .set("b4", J::u(pairs_a))
      .set("b4_possible", J::u(SLOTS))
      .set("stride", J::u(pairs_b))
      .set("stride_possible", J::u(SLOTS * nb + 1))
      .set("giant", J::u(pairs_c))
      .set("giant_possible", J::u(SLOTS / 19 * 4)),
  );
  rep.cov("four_clock_iterations", J::u(sum(C_ITER)));
  rep.cov("walks", J::u(sum(C_WALK)));
  rep.cov("batches_judged", J::u(sum(C_JUDGED)));
  rep.cov("batches_state_agreed", J::u(sum(C_STATE_OK)));
  rep.cov("lost_batches_not_judged", J::u(sum(C_LOST)));
  rep.cov("resynchronisations", J::u(sum(C_RESYNC)));
  rep.cov("silent_realignments_public_state_agreed", J::u(sum(C_SILENT)));
  let mut exp = J::obj();
  for i in 0..9 {
    exp.put(format!("{}@{}", E_NAMES[i].0, E_NAMES[i].1), J::u(sum(C_EXP + i)));
  }
  rep.cov("batches_in_which_r6_expects", exp);
  rep.cov("observed_flags", J::obj().set("vblank", J::u(sum(C_OBS_VBLANK))).set("stat", J::u(sum(C_OBS_STAT))));
  rep.cov("configs", J::obj().set("stat_masks", J::Arr(masks.iter().map(|m| J::u(*m as u64)).collect())).set("lyc", J::Arr(lycs.iter().map(|m| J::u(*m as u64)).collect())).set("max_batch", J::u(bmax)));
  rep.cov("rule", J::s("a state is a (PPU position on the 17556-slot frame schedule, batch size) pair actually executed from that position on the real VideoState (position read through the hook before the batch); every batch is a transition compared with R6 on LY, mode, STAT bits 0-6 and the returned VBlank/STAT bits"));
  if !thorough {
    rep.assume("quick tier: STAT bytes written {0x00, 0x08, 0x10, 0x20, 0x40, 0x78, 0x45, 0xFF}, LYC {0, 144}, batch sizes 4..460 (thorough: all 16 masks, the same with bits 0-2 and 7 set, and 0x01 0x02 0x04 0x43 0x45, LYC {0,1,76,143,144,153,200}, batch sizes 4..912)");
  }
  rep.finish()
}
