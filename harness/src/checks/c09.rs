//! C09 — emulated time is conserved between the CPU and the devices.
//! E2a/E3 on the generated program family (C04's alphabet) in three stepping regimes:
//! non-jit instruction-stepped (`update()`), non-jit block-stepped (`run_code_block()`),
//! jit block-stepped.  Delivered device time is observed on two independent clocks that the
//! devices keep themselves: the timer's 16-bit divider phase (hook H2) and the PPU position
//! (hook H6, a point of the 70224-clock frame).  Per step k:
//!
//!   delta_k = 4 * (machine cycles of the instructions executed in step k          [R1]
//!                  + 5 if step k-1 ended with an interrupt dispatch
//!                  + 1 if step k was spent halted or stopped)
//!
//! plus: delta_k >= 4; a request that is pending and enabled after the step's catch-up was
//! dispatched (or woke the CPU) in that same step; `run_frame()` returns within two frame
//! periods plus one block.

use crate::checks::c04;
use crate::cpustep::Overlay;
use crate::emulator::{Core, InterruptState, RunState};
use crate::gen;
use crate::mem::{memory_read_byte, MemoryAreas};
use crate::progrun;
use crate::refm::r1::{self, Cpu};
use crate::util::json::J;
use crate::util::pool::{run_pool, Ctx, PoolOpts, PoolResult};
use crate::util::report::Report;
use crate::world;

pub const STEPS: u64 = 3000;
pub const FRAME: u64 = 70224;

#[derive(Clone, Copy, PartialEq, Debug)]
pub enum Regime {
  InstrStepped,
  BlockStepped,
}

fn regime_name(r: Regime) -> &'static str {
  match (r, progrun::this_build()) {
    (Regime::InstrStepped, b) => if b == "jit" { "jit-update" } else { "nojit-instr" },
    (Regime::BlockStepped, b) => if b == "jit" { "jit-block" } else { "nojit-block" },
  }
}

fn ppu_clock(core: &Core) -> u64 {
  let (line, mode, dots) = core.memory.io.video.verif_position();
  let d = match mode {
    2 => dots,
    3 => 80 + dots,
    0 => 268 + dots,
    _ => dots,
  } as u64;
  (line as u64 * 456 + d) % FRAME
}

fn div_clock(core: &Core) -> u64 {
  (core.memory.io.timer.verif_cycle_count() & 0xffff) as u64
}

fn cpu_of(core: &Core) -> Cpu {
  let r = &core.registers;
  let (af, bc, de, hl, sp, ip) = ({ r.af }, { r.bc }, { r.de }, { r.hl }, { r.sp }, { r.ip });
  Cpu { a: (af >> 8) as u8, f: af as u8, b: (bc >> 8) as u8, c: bc as u8, d: (de >> 8) as u8, e: de as u8, h: (hl >> 8) as u8, l: hl as u8, sp: sp as u16, pc: ip as u16 }
}

/// R1's machine cycles for the instructions the next step will execute (one instruction, or
/// a block up to and including its terminator / the 0x4000 boundary), run on a copy-on-write
/// overlay of the real bus.  Returns (cycles, final pc, instructions, wrote DIV, trustworthy).
fn predict(core: &Core, block: bool) -> (u32, u16, u32, bool, bool, bool) {
  let mut ov = Overlay { mem: &core.memory as *const MemoryAreas, writes: Vec::new(), olds: Vec::new() };
  let mut cpu = cpu_of(core);
  let start = cpu.pc;
  let mut cycles = 0u32;
  let mut n = 0u32;
  let mut trust = true;
  loop {
    match r1::step(&mut cpu, &mut ov) {
      Ok(o) => {
        cycles += o.cycles;
        n += 1;
        if !block || o.block_end || (start < 0x4000 && cpu.pc >= 0x4000) || n > 20000 {
          break;
        }
      },
      Err(_) => {
        trust = false;
        break;
      },
    }
  }
  let wrote_div = ov.writes.iter().any(|(a, _)| *a == 0xFF04);
  let wrote_dma = ov.writes.iter().any(|(a, _)| *a == 0xFF46);
  (cycles, cpu.pc, n, wrote_div, trust, wrote_dma)
}

fn check_program(core: &mut Core, regime: Regime, name: &str, ctx: &mut Ctx) {
  let mut prev_dispatch = false;
  let mut clock_lost = false;
  for step in 0..STEPS {
    let run_before = world::run_code(&core.run_state);
    if run_before == 0 && !pc_executable({ core.registers.ip } as u16) || run_before == 0 && (0xE000..0xFE00).contains(&({ core.registers.ip } as u16)) {
      // the program has jumped out of ROM / work RAM / high RAM (echo RAM, OAM, I/O): what the
      // CPU fetches there is outside every property (C06 and C10 name the three regions), and
      // the cycle prediction, which reads instruction bytes through the bus, has no basis
      ctx.count(6, 1);
      return;
    }
    let ime_before = world::ime_code(&core.interrupts_enabled);
    let (p0, d0) = (ppu_clock(core), div_clock(core));
    let sp_before = { core.registers.sp } as u16;
    let halted = run_before != 0;
    let block = regime == Regime::BlockStepped || cfg!(feature = "jit");
    let (want_cycles, want_pc, _n, wrote_div, trust, wrote_dma) = if halted { (1, { core.registers.ip } as u16, 0, false, true, false) } else { predict(core, block) };
    let dma0 = core.memory.verif_dma_state();
    let stepped = std::panic::catch_unwind(std::panic::AssertUnwindSafe(|| match regime {
      Regime::InstrStepped => core.update(),
      Regime::BlockStepped => progrun::step(core),
    }));
    if let Err(e) = stepped {
      let msg = crate::jitstep::panic_text(e);
      if msg.starts_with("TRIED TO EXECUTE") || !pc_executable({ core.registers.ip } as u16) {
        // the generated program returned into non-executable memory (e.g. a handler ran with
        // SP on I/O registers): the guest left the domain of the property; stop this program
        ctx.count(6, 1);
        return;
      }
      ctx.violation(&format!("C09 regime={} kind=panic", regime_name(regime)), || {
        J::obj().set("case", J::obj().set("program", J::s(name)).set("step", J::u(step))).set("panic", J::s(msg.as_str()))
      });
      return;
    }
    let (p1, d1) = (ppu_clock(core), div_clock(core));
    let dp = (p1 + FRAME - p0) % FRAME;
    let dd = (d1 + 65536 - d0) % 65536;
    // did this step end with a dispatch? (observable effects: IME dropped to Disabled, PC at a
    // vector or 0x0000, SP two below where the instructions left it)
    let pc_after = { core.registers.ip } as u16;
    let charged = { core.registers.cycles };
    let at_vector = matches!(pc_after, 0x0000 | 0x0040 | 0x0048 | 0x0050 | 0x0058 | 0x0060);
    let dispatched = charged == 5;
    let want = 4 * (want_cycles as u64 + if prev_dispatch { 5 } else { 0 });
    ctx.count(1, 1);
    ctx.class(((halted as u64) << 6) | ((prev_dispatch as u64) << 5) | ((dispatched as u64) << 4) | (want_cycles.min(15) as u64));
    let pc_ok = dispatched || halted || pc_after == want_pc;
    if trust && pc_ok {
      if dp != want {
        clock_lost = true;
        let key = format!("C09 regime={} clock=ppu kind={}", regime_name(regime), if halted { "halted-step" } else if prev_dispatch { "after-dispatch" } else { "run-step" });
        ctx.violation(&key, || {
          J::obj()
            .set("case", J::obj().set("program", J::s(name)).set("step", J::u(step)).set("regime", J::s(regime_name(regime))))
            .set("expected_clocks", J::u(want))
            .set("observed_ppu_clocks", J::u(dp))
            .set("observed_div_clocks", J::u(dd))
            .set("r1_cycles", J::u(want_cycles as u64))
            .set("prev_step_dispatched", J::Bool(prev_dispatch))
            .set("last_block_cycle_length", J::u(core.last_block_cycle_length as u64))
        });
      }
      if !wrote_div && dd != want % 65536 {
        let key = format!("C09 regime={} clock=div kind={}", regime_name(regime), if halted { "halted-step" } else if prev_dispatch { "after-dispatch" } else { "run-step" });
        ctx.violation(&key, || {
          J::obj()
            .set("case", J::obj().set("program", J::s(name)).set("step", J::u(step)).set("regime", J::s(regime_name(regime))))
            .set("expected_clocks", J::u(want))
            .set("observed_div_clocks", J::u(dd))
            .set("observed_ppu_clocks", J::u(dp))
        });
      }
      // third device clock: an OAM DMA in flight copies one byte per machine cycle delivered
      if let Some((_, off0)) = dma0 {
        if !wrote_dma {
          let exp_off = (off0 as u64 + want / 4).min(160);
          let got_off = match core.memory.verif_dma_state() {
            Some((_, o)) => o as u64,
            None => 160,
          };
          ctx.count(7, 1);
          if got_off != exp_off {
            let key = format!("C09 regime={} clock=dma kind={}", regime_name(regime), if halted { "halted-step" } else if prev_dispatch { "after-dispatch" } else { "run-step" });
            ctx.violation(&key, || {
              J::obj()
                .set("case", J::obj().set("program", J::s(name)).set("step", J::u(step)).set("regime", J::s(regime_name(regime))))
                .set("dma_progress_before", J::u(off0 as u64))
                .set("expected_progress_after", J::u(exp_off))
                .set("observed_progress_after", J::u(got_off))
                .set("expected_clocks", J::u(want))
            });
          }
        }
      }
      ctx.count(2, 1);
    } else {
      ctx.count(3, 1);
    }
    // every step advances time by at least one machine cycle
    if dp < 4 {
      ctx.violation(&format!("C09 regime={} kind=step-without-time", regime_name(regime)), || {
        J::obj().set("case", J::obj().set("program", J::s(name)).set("step", J::u(step))).set("observed_ppu_clocks", J::u(dp))
      });
    }
    // devices are caught up before interrupts are sampled: nothing enabled may stay pending
    // with IME on, and a halted/stopped CPU may not sleep over a pending enabled request
    let pending = core.memory.io.interrupt_flag.as_u8() & core.memory.io.interrupt_mask & 0x1f;
    let ime_after = world::ime_code(&core.interrupts_enabled);
    let run_after = world::run_code(&core.run_state);
    if pending != 0 && (ime_after == 1 || run_after != 0) {
      ctx.violation(&format!("C09 regime={} kind=pending-not-sampled", regime_name(regime)), || {
        J::obj()
          .set("case", J::obj().set("program", J::s(name)).set("step", J::u(step)))
          .set("pending", J::u(pending as u64))
          .set("ime_after", J::u(ime_after as u64))
          .set("run_after", J::u(run_after as u64))
      });
    }
    // a dispatch is charged five machine cycles and happens only with IME on
    if at_vector && ime_after == 0 && (ime_before == 1 || ime_before == 2) && !halted && { core.registers.sp } as u16 == sp_before.wrapping_sub(2) && !dispatched && want_pc != pc_after {
      ctx.violation(&format!("C09 regime={} kind=dispatch-not-charged", regime_name(regime)), || {
        J::obj().set("case", J::obj().set("program", J::s(name)).set("step", J::u(step))).set("cycles_field", J::u(charged as u64))
      });
    }
    prev_dispatch = dispatched;
  }
  // run_frame terminates within two frame periods plus one block (not asked of a program
  // whose LCD clock has already been reported as wrong: run_frame polls that clock)
  if clock_lost {
    return;
  }
  let (p0, d0) = (ppu_clock(core), div_clock(core));
  unsafe { libc::alarm(10) };
  let framed = std::panic::catch_unwind(std::panic::AssertUnwindSafe(|| core.run_frame()));
  unsafe { libc::alarm(0) };
  if let Err(e) = framed {
    let msg = crate::jitstep::panic_text(e);
    if !(msg.starts_with("TRIED TO EXECUTE") || !pc_executable({ core.registers.ip } as u16)) {
      ctx.violation(&format!("C09 regime={} kind=panic", regime_name(regime)), || J::obj().set("case", J::obj().set("program", J::s(name)).set("step", J::s("run_frame"))).set("panic", J::s(msg.as_str())));
    }
    ctx.count(6, 1);
    return;
  }
  let (p1, d1) = (ppu_clock(core), div_clock(core));
  // elapsed clocks from the two device clocks by the Chinese remainder theorem
  // (gcd(65536, 70224) = 16; both deltas are multiples of 4)
  let dp = (p1 + FRAME - p0) % FRAME;
  let dd = (d1 + 65536 - d0) % 65536;
  let mut elapsed: Option<u64> = None;
  let mut t = dp;
  while t < 5 * FRAME {
    if t % 65536 == dd {
      elapsed = Some(t);
      break;
    }
    t += FRAME;
  }
  ctx.count(4, 1);
  let longest_block = 4 * 20000u64;
  match elapsed {
    Some(e) => {
      if e > 2 * FRAME + longest_block {
        ctx.violation(&format!("C09 regime={} kind=run-frame-too-long", regime_name(regime)), || {
          J::obj().set("case", J::obj().set("program", J::s(name))).set("elapsed_clocks", J::u(e))
        });
      }
      let m = core.memory.io.video.get_current_mode();
      if m == 1 {
        ctx.violation(&format!("C09 regime={} kind=run-frame-ends-in-vblank", regime_name(regime)), || {
          J::obj().set("case", J::obj().set("program", J::s(name))).set("elapsed_clocks", J::u(e))
        });
      }
    },
    None => {
      // the program rewrote DIV during the frame: only the PPU clock is usable (< 1 frame granularity)
      ctx.count(5, 1);
    },
  }
}


// ---------------------------------------------------------------- dispatch accounting from every state
//
// The generated programs only dispatch from ordinary stack positions.  This stage constructs
// the state directly: IF x IE x SP (incl. the stack positions where the push lands on IE / IF
// and cancels or redirects the dispatch) x PC high byte x {running, halted}, executes two
// steps and compares the device time of each with 4 x (cycles executed + 5 for a dispatch at
// the end of the first step).

const ACC_SPS: [u16; 8] = [0xDFF0, 0x0000, 0x0001, 0xFF10, 0xFF11, 0xFFFF, 0xC001, 0xFF80];
const ACC_PCS: [u16; 4] = [0x0150, 0x1F50, 0x0250, 0x0050];

fn acc_rom() -> Vec<u8> {
  let mut rom = vec![0u8; 0x8000];
  for g in 0..(0x8000 / 8) {
    rom[g * 8 + 6] = 0x18; // JR -2 (spins on itself)
    rom[g * 8 + 7] = 0xFE;
  }
  rom
}

pub fn run_accounting(regime: Regime, workers: usize) -> PoolResult {
  let total = 32u64 * 32; // case = (IF, IE); inner: SP x PC x halted x IME
  let opts = PoolOpts { workers, chunk: 8, bitmap_bits: 1 << 12, samples_per_child: 1, max_crashes: 4, ..PoolOpts::default() };
  run_pool(
    total,
    &opts,
    |_| world::flat_core(acc_rom()),
    |core, case, ctx| {
      let iflag = (case & 31) as u8;
      let ie = ((case >> 5) & 31) as u8;
      for sp in ACC_SPS.iter() {
        for pc in ACC_PCS.iter() {
          for halted in [false, true].iter() {
            for ime_on in [true, false].iter() {
              // fresh devices (the PPU raises VBlank once per frame on its own), state in place
              core.memory.io = crate::devices::io::IO::new();
              core.memory.oam_dma = None;
              let mp = &mut core.memory as *mut MemoryAreas;
              crate::mem::memory_write_byte(mp, 0xFFFF, ie);
              crate::mem::memory_write_byte(mp, 0xFF0F, iflag);
              world::set_regs(core, 0x0100, 0, 0, 0xC100, *sp, *pc);
              // an OAM DMA is in flight during both steps (third device clock)
              crate::mem::memory_write_byte(mp, 0xFF46, 0xC1);
              core.interrupts_enabled = if *ime_on { InterruptState::Enabled } else { InterruptState::Disabled };
              core.run_state = if *halted { RunState::Halt } else { RunState::Run };
              let block = regime == Regime::BlockStepped || cfg!(feature = "jit");
              // step 1
              let (c1, _, _, _, _, _) = if *halted { (1, 0, 0, false, true, false) } else { predict(core, block) };
              let (p0, d0) = (ppu_clock(core), div_clock(core));
              match regime {
                Regime::InstrStepped => core.update(),
                Regime::BlockStepped => progrun::step(core),
              }
              let (p1, d1) = (ppu_clock(core), div_clock(core));
              let pending = iflag & ie & 0x1f;
              let dispatched = *ime_on && pending != 0;
              let woke = pending != 0;
              // step 2
              let still_halted = *halted && !woke;
              let (c2, _, _, _, _, _) = if still_halted { (1, 0, 0, false, true, false) } else { predict(core, block) };
              match regime {
                Regime::InstrStepped => core.update(),
                Regime::BlockStepped => progrun::step(core),
              }
              let (p2, d2) = (ppu_clock(core), div_clock(core));
              let want1 = 4 * c1 as u64;
              let want2 = 4 * (c2 as u64 + if dispatched { 5 } else { 0 });
              let got1 = ((p1 + FRAME - p0) % FRAME, (d1 + 65536 - d0) % 65536);
              let got2 = ((p2 + FRAME - p1) % FRAME, (d2 + 65536 - d1) % 65536);
              // a push that lands on DIV (none of these SPs) would reset the divider; here both clocks apply
              ctx.count(1, 2);
              ctx.count(2, 2);
              let spc = match *sp {
                0x0000 => "high-on-IE",
                0x0001 => "low-on-IE",
                0xFF10 => "high-on-IF",
                0xFF11 => "low-on-IF",
                _ => "ram",
              };
              ctx.class(((dispatched as u64) << 8) | ((*halted as u64) << 7) | ((woke as u64) << 6) | ((c2.min(15) as u64) << 2) | (got2.0 == want2) as u64);
              let dma_got = match core.memory.verif_dma_state() {
                Some((_, o)) => o as u64,
                None => 160,
              };
              let dma_want = ((want1 + want2) / 4).min(160);
              if dma_got != dma_want {
                ctx.violation(&format!("C09 regime={} accounting=dma-progress sp={} {} {}", regime_name(regime), spc, if *halted { "halted" } else { "running" }, if dispatched { "dispatch" } else { "no-dispatch" }), || {
                  J::obj()
                    .set("case", J::obj().set("if", J::u(iflag as u64)).set("ie", J::u(ie as u64)).set("sp", J::s(format!("{:04X}", sp))).set("pc", J::s(format!("{:04X}", pc))).set("halted", J::Bool(*halted)).set("ime", J::Bool(*ime_on)).set("regime", J::s(regime_name(regime))))
                    .set("expected_dma_bytes", J::u(dma_want))
                    .set("observed_dma_bytes", J::u(dma_got))
                });
              }
              if got1.0 != want1 || got1.1 != want1 % 65536 || got2.0 != want2 || got2.1 != want2 % 65536 {
                let which = if got1.0 != want1 || got1.1 != want1 % 65536 { "first-step" } else { "step-after-dispatch" };
                ctx.violation(&format!("C09 regime={} accounting={} sp={} {}", regime_name(regime), which, spc, if dispatched { "dispatch" } else { "no-dispatch" }), || {
                  J::obj()
                    .set("case", J::obj().set("if", J::u(iflag as u64)).set("ie", J::u(ie as u64)).set("sp", J::s(format!("{:04X}", sp))).set("pc", J::s(format!("{:04X}", pc))).set("halted", J::Bool(*halted)).set("ime", J::Bool(*ime_on)).set("regime", J::s(regime_name(regime))))
                    .set("expected_clocks", J::Arr(vec![J::u(want1), J::u(want2)]))
                    .set("observed_ppu_clocks", J::Arr(vec![J::u(got1.0), J::u(got2.0)]))
                    .set("observed_div_clocks", J::Arr(vec![J::u(got1.1), J::u(got2.1)]))
                    .set("dispatch_expected", J::Bool(dispatched))
                });
              }
            }
          }
        }
      }
      ctx.count(0, 1);
      ctx.sample(|| J::obj().set("accounting_state", J::s(format!("IF={:02X} IE={:02X} x 8 SP x 4 PC x halted x IME", iflag, ie))).set("regime", J::s(regime_name(regime))));
    },
    |case, how| (format!("C09 regime={} accounting crash={}", regime_name(regime), how), J::obj().set("case", J::obj().set("if_ie_case", J::u(case)))),
  )
}

pub fn run_regime(image: &str, tier: &str, stage: usize, regime: Regime, workers: usize) -> (c04::Plan, PoolResult) {
  let pl = c04::plan(tier, stage);
  let opts = PoolOpts { workers, chunk: 4, bitmap_bits: 1 << 12, samples_per_child: 1, max_crashes: 4, ..PoolOpts::default() };
  let img = image.to_string();
  let r = run_pool(
    pl.total,
    &opts,
    |_| (),
    |_, case, ctx| {
      let seq = gen::nth_sequence(pl.alpha.len(), pl.k, case).unwrap();
      let prog = gen::assemble(&pl.alpha, &seq);
      let mut core = progrun::fresh_core(&img).expect("image loads");
      progrun::patch_program(&mut core, gen::PROG_ORG, &prog);
      let name = gen::seq_name(&pl.alpha, &seq);
      check_program(&mut core, regime, &name, ctx);
      ctx.count(0, 1);
      ctx.sample(|| J::obj().set("program", J::s(name.as_str())).set("regime", J::s(regime_name(regime))).set("steps", J::u(STEPS)));
    },
    |case, how| {
      let seq = gen::nth_sequence(pl.alpha.len(), pl.k, case).unwrap_or_default();
      let kind = if how == "SIG14" { "run-frame-does-not-return".to_string() } else { format!("crash={}", how) };
      (
        format!("C09 regime={} kind={}", regime_name(regime), kind),
        J::obj().set("case", J::obj().set("program", J::s(gen::seq_name(&pl.alpha, &seq)))),
      )
    },
  );
  (pl, r)
}

fn meta_of(r: &PoolResult) -> J {
  let viol = J::Arr(r.violations.iter().map(|v| J::obj().set("key", J::s(v.key.as_str())).set("count", J::u(v.count)).set("detail", v.detail.clone())).collect());
  J::obj()
    .set("cases_done", J::u(r.cases_done))
    .set("cases_total", J::u(r.cases_total))
    .set("distinct", J::u(r.distinct))
    .set("steps", J::u(r.counters[1]))
    .set("judged", J::u(r.counters[2]))
    .set("unjudged", J::u(r.counters[3]))
    .set("frames", J::u(r.counters[4]))
    .set("violations", viol)
    .set("machinery", J::Arr(r.machinery_errors.iter().map(|m| J::s(m.as_str())).collect()))
}

/// `gbmc C09 --worker run <tier> <stage> <image> <out.json>` (jit build: block-stepped regime)
pub fn worker(args: &[String]) -> i32 {
  if args.len() >= 5 && args[0] == "run" {
    let stage: usize = args[2].parse().unwrap_or(0);
    let (_pl, r) = run_regime(&args[3], &args[1], stage, Regime::BlockStepped, crate::util::pool::default_workers());
    if std::fs::write(&args[4], meta_of(&r).to_string()).is_err() {
      return 2;
    }
    return 0;
  }
  if args.len() >= 2 && args[0] == "accounting" {
    let r = run_accounting(Regime::BlockStepped, 3);
    if std::fs::write(&args[1], meta_of(&r).to_string()).is_err() {
      return 2;
    }
    return 0;
  }
  eprintln!("C09 worker: bad arguments {:?}", args);
  2
}

/// where the guest may fetch instructions from: ROM, work RAM, high RAM.  A program that
/// returns anywhere else has left the domain of the property; the emulator refuses to go on
/// (by a panic whose wording is not relied upon here)
fn pc_executable(pc: u16) -> bool {
  pc < 0x8000 || (0xC000..0xE000).contains(&pc) || (0xFF80..0xFFFF).contains(&pc)
}

pub fn run(tier: &str) -> i32 {
  let mut rep = Report::new("C09", tier, "model_checking");
  rep.assume("instruction cycle counts come from R1 (independent SM83 table) run on a copy-on-write overlay of the real bus; a step whose predicted end PC differs from the implementation's (I/O written and re-read inside one block) is counted as unjudged, not alarmed");
  rep.assume("device time is read from two device-side clocks: the timer divider phase (hook) and the PPU frame position (hook); after a guest write to DIV only the PPU clock is used until the next step");
  let image = world::write_rom_file(&gen::base_image());
  let tmp = crate::util::pool::tmp_dir();
  let jit_bin = match std::env::var("GBMC_JIT_BIN") {
    Ok(b) => b,
    Err(_) => {
      rep.machinery_error("GBMC_JIT_BIN not set (run through bin/check)".to_string());
      return rep.finish();
    },
  };
  let mut steps = 0u64;
  let mut judged = 0u64;
  let mut progs = 0u64;
  let mut frames = 0u64;
  for stage in 0..2usize {
    let out = format!("{}/c09_jit_{}.json", tmp, stage);
    let child = std::process::Command::new(&jit_bin).args(&["C09", "--worker", "run", tier, &stage.to_string(), &image, &out]).env("GBMC_WORKERS", "4").spawn();
    let child = match child {
      Ok(c) => c,
      Err(e) => {
        rep.machinery_error(format!("cannot start jit worker: {}", e));
        return rep.finish();
      },
    };
    for regime in [Regime::InstrStepped, Regime::BlockStepped].iter() {
      let (pl, r) = run_regime(&image, tier, stage, *regime, 6);
      progs += r.cases_done;
      let c = rep.add_stage(
        &format!("{}-stage{}", regime_name(*regime), stage),
        &format!("all sequences of length <= {} over {} fragments x {} steps, regime {}", pl.k, pl.alpha.len(), STEPS, regime_name(*regime)),
        r,
      );
      steps += c[1];
      judged += c[2];
      frames += c[4];
    }
    match child.wait_with_output() {
      Ok(o) if o.status.success() => {},
      other => {
        rep.machinery_error(format!("jit worker failed: {:?}", other.map(|o| o.status)));
        continue;
      },
    }
    match progrun::parse_json_file(&out) {
      Ok(meta) => {
        if let Some(vs) = meta.get("violations").and_then(|v| v.as_arr()) {
          for v in vs {
            for _ in 0..v.int_of("count").max(1).min(1) {
              rep.add_violation(&v.str_of("key"), v.get("detail").cloned().unwrap_or(J::Null));
            }
          }
        }
        if let Some(ms) = meta.get("machinery").and_then(|v| v.as_arr()) {
          for m in ms {
            rep.machinery_error(format!("jit worker: {}", m.as_str().unwrap_or("")));
          }
        }
        steps += meta.int_of("steps") as u64;
        judged += meta.int_of("judged") as u64;
        frames += meta.int_of("frames") as u64;
        progs += meta.int_of("cases_done") as u64;
        rep.stages.push(J::obj().set("stage", J::s(format!("jit-block-stage{}", stage))).set("cases", J::u(meta.int_of("cases_done") as u64)).set("steps", J::u(meta.int_of("steps") as u64)).set("distinct_outcome_classes", J::u(meta.int_of("distinct") as u64)));
        rep.distinct += meta.int_of("distinct") as u64;
      },
      Err(e) => rep.machinery_error(e),
    }
  }
  // ---- dispatch accounting from constructed states, all three regimes
  {
    let out = format!("{}/c09_jit_acc.json", tmp);
    let child = std::process::Command::new(&jit_bin).args(&["C09", "--worker", "accounting", &out]).spawn();
    for regime in [Regime::InstrStepped, Regime::BlockStepped].iter() {
      let r = run_accounting(*regime, 6);
      let c = rep.add_stage(&format!("{}-dispatch-accounting", regime_name(*regime)), "IF (32) x IE (32) x SP in {DFF0, 0000, 0001, FF10, FF11, FFFF, C001, FF80} x PC in {0150, 1F50, 0250, 0050} x {running, halted} x IME {on, off}: two steps each, device time vs 4 x (cycles + 5 per dispatch)", r);
      steps += c[1];
      judged += c[2];
    }
    match child {
      Ok(ch) => match ch.wait_with_output() {
        Ok(o) if o.status.success() => match progrun::parse_json_file(&out) {
          Ok(meta) => {
            if let Some(vs) = meta.get("violations").and_then(|v| v.as_arr()) {
              for v in vs {
                rep.add_violation(&v.str_of("key"), v.get("detail").cloned().unwrap_or(J::Null));
              }
            }
            if let Some(ms) = meta.get("machinery").and_then(|v| v.as_arr()) {
              for m in ms {
                rep.machinery_error(format!("jit worker: {}", m.as_str().unwrap_or("")));
              }
            }
            steps += meta.int_of("steps") as u64;
            judged += meta.int_of("judged") as u64;
            rep.stages.push(J::obj().set("stage", J::s("jit-block-dispatch-accounting")).set("steps", J::u(meta.int_of("steps") as u64)).set("distinct_outcome_classes", J::u(meta.int_of("distinct") as u64)));
            rep.distinct += meta.int_of("distinct") as u64;
          },
          Err(e) => rep.machinery_error(e),
        },
        other => rep.machinery_error(format!("jit accounting worker failed: {:?}", other.map(|o| o.status))),
      },
      Err(e) => rep.machinery_error(format!("cannot start jit worker: {}", e)),
    }
  }
  let _ = std::fs::remove_file(&image);
  rep.evaluations = steps;
  rep.cov("states", J::u(progs));
  rep.cov("transitions", J::u(steps));
  rep.cov("traces_validated_against_impl", J::u(judged));
  rep.cov("run_frame_calls", J::u(frames));
  rep.cov("rule", J::s("a transition is one emulator step (instruction, block or halted tick) of a generated program in one of three regimes; its device-time delta on both device clocks is compared with 4 x (R1 cycles + 5 per preceding dispatch + 1 per halted step); an outcome class is (halted, after-dispatch, dispatched, cycles)"));
  rep.finish()
}
