//! C04 — enabling the recompiler does not change what a guest program computes.
//! E3: every program over the fragment alphabet up to a length bound is assembled into the
//! fixed MBC1 image, loaded through the real loader path and stepped block by block in the
//! `jit` build and in the non-`jit` build of the same sources; the chained per-step digests
//! (registers, IME, run state, IF/IE, timer incl. divider phase, PPU registers and position,
//! serial registers, DMA progress, banks; all RAM and both frame buffers every 64 steps and
//! at the end) must agree.  A mismatching program is re-run in detail mode in both builds to
//! name the first differing step and field.

use crate::gen;
use crate::progrun;
use crate::util::json::J;
use crate::util::pool::{run_pool, PoolOpts, PoolResult};
use crate::util::report::Report;
use crate::world;

pub const STEPS: u64 = 5000;

pub struct Plan {
  pub alpha: Vec<gen::Letter>,
  /// (alphabet is full?, max length) stages; program index space is the concatenation
  pub k: usize,
  pub total: u64,
}

pub fn plan(tier: &str, stage: usize) -> Plan {
  // stage 0: full parameterised alphabet, short sequences; stage 1: base alphabet, longer sequences
  let (full, k) = match (tier, stage) {
    ("quick", 0) => (false, 2),
    ("quick", _) => (true, 1),
    (_, 0) => (true, 3),
    (_, _) => (false, 3),
  };
  let alpha = gen::alphabet(full);
  let total = gen::count_sequences(alpha.len(), k);
  Plan { alpha, k, total }
}

// ---- stage 2: long-running programs that fill the translation area several times over

pub const PRESSURE_STEPS: u64 = 600;
const SLED_AT: usize = 0x0100; // offset in each switchable bank
const SLED_LEN: usize = 0x3000;
const PRESSURE_ORDERS: [&[u8]; 6] = [&[2, 1], &[3, 1], &[1, 2, 1], &[2, 3, 1], &[3, 2, 1], &[2, 1, 3, 1]];
/// entry points called per mapped bank.  The translation area is emptied every five to six
/// sled translations; a contiguous range longer than that period puts the bank switch at every
/// distance after an emptying (what an emptying leaves behind lives until the next one)
const PRESSURE_ENTRIES: [usize; 8] = [5, 6, 7, 8, 9, 10, 11, 12];

/// the base image with, in every switchable bank, a 12 KiB sled of `INC (HL)` (a large
/// template: each entry point translates to most of a megabyte of host code) that ends by
/// logging the bank's number at (DE++) and returning
pub fn pressure_image() -> Vec<u8> {
  let mut img = gen::base_image();
  for b in 1..4usize {
    let base = b * 0x4000 + SLED_AT;
    for i in 0..SLED_LEN {
      img[base + i] = 0x34;
    }
    let tail = [0x3E, (b as u8) * 0x11, 0x12, 0x13, 0xC9]; // LD A,b*11; LD (DE),A; INC DE; RET
    img[base + SLED_LEN..base + SLED_LEN + tail.len()].copy_from_slice(&tail);
  }
  let h = world::header_bytes(0x03, 0x01, 0x02);
  img[0x104..0x150].copy_from_slice(&h[0x104..0x150]);
  img
}

pub fn pressure_count(tier: &str) -> u64 {
  let _ = tier;
  (PRESSURE_ORDERS.len() * PRESSURE_ENTRIES.len()) as u64
}

/// program i: for every bank of the order, map it and call successive entry points of the sled
/// from a loop (entry pointer in BC, `CALL tramp` with tramp = `PUSH BC; RET`), so that after a
/// loop's second iteration the sled entries are the only blocks still being translated and it
/// is a switchable-bank translation that finds the translation area full
pub fn pressure_program(i: u64) -> (String, Vec<u8>) {
  let order = PRESSURE_ORDERS[(i as usize) / PRESSURE_ENTRIES.len()];
  let entries = PRESSURE_ENTRIES[(i as usize) % PRESSURE_ENTRIES.len()];
  let mut p: Vec<u8> = gen::PROLOGUE.to_vec();
  p.extend_from_slice(&[0x11, 0x00, 0xC4]); // LD DE,C400 (the log)
  let tramp = gen::PROG_ORG + p.len() + order.len() * 17 + gen::EPILOGUE.len();
  for (j, b) in order.iter().enumerate() {
    // every other bank walks the entry points downwards, so that the addresses translated
    // last under one bank are the first to be looked up under the next
    let down = j % 2 == 1;
    let first = 0x4000 + SLED_AT + if down { entries - 1 } else { 0 };
    let stop = if down { 0x4000 + SLED_AT - 1 } else { 0x4000 + SLED_AT + entries };
    p.extend_from_slice(&[0x3E, *b, 0xEA, 0x00, 0x21]); // LD A,b; LD (2100),A
    p.extend_from_slice(&[0x01, (first & 0xff) as u8, (first >> 8) as u8]); // LD BC,first
    p.extend_from_slice(&[0xCD, (tramp & 0xff) as u8, (tramp >> 8) as u8]); // L: CALL tramp
    p.push(if down { 0x0B } else { 0x03 }); // DEC BC / INC BC
    p.extend_from_slice(&[0x79, 0xFE, (stop & 0xff) as u8]); // LD A,C; CP stop
    p.extend_from_slice(&[0x20, 0xF7]); // JR NZ,L
  }
  p.extend_from_slice(&gen::EPILOGUE);
  assert_eq!(gen::PROG_ORG + p.len(), tramp);
  p.extend_from_slice(&[0xC5, 0xC9]); // tramp: PUSH BC; RET
  assert!(p.len() < gen::SUBS - gen::PROG_ORG);
  let name = format!("pressure(banks={},entries-per-bank={})", order.iter().map(|b| b.to_string()).collect::<Vec<_>>().join(">"), entries);
  (name, p)
}

pub fn run_pressure(image: &str, tier: &str, workers: usize) -> PoolResult {
  let total = pressure_count(tier);
  let opts = PoolOpts { workers, chunk: 1, bitmap_bits: 1 << 12, result_words: total as usize, samples_per_child: 1, ..PoolOpts::default() };
  let img = image.to_string();
  run_pool(
    total,
    &opts,
    |_| (),
    |_, case, ctx| {
      let (name, prog) = pressure_program(case);
      let mut core = progrun::fresh_core(&img).expect("image loads");
      progrun::patch_program(&mut core, gen::PROG_ORG, &prog);
      let d = progrun::run_digest(&mut core, PRESSURE_STEPS, false);
      ctx.result(case, d);
      ctx.count(0, PRESSURE_STEPS);
      // outcome class: the log of bank numbers written by the sled tails
      let mut h = world::Fx::new();
      h.bytes(&core.memory.work_ram[0x400..0x440]);
      ctx.class(h.get());
      ctx.sample(|| J::obj().set("program", J::s(name.as_str())).set("steps", J::u(PRESSURE_STEPS)).set("log_at_C400", J::s(world::hex(&core.memory.work_ram[0x400..0x430]))));
    },
    |case, how| {
      let (name, _) = pressure_program(case);
      (format!("C04 build={} prog={} crash={}", progrun::this_build(), name, how), J::obj().set("case", J::obj().set("program", J::s(name.as_str())).set("build", J::s(progrun::this_build()))))
    },
  )
}

pub fn run_stage(image: &str, tier: &str, stage: usize, workers: usize) -> (Plan, PoolResult) {
  if stage == 2 {
    let r = run_pressure(image, tier, workers);
    return (Plan { alpha: Vec::new(), k: 0, total: pressure_count(tier) }, r);
  }
  let pl = plan(tier, stage);
  let opts = PoolOpts { workers, chunk: 4, bitmap_bits: 1 << 16, result_words: pl.total as usize, samples_per_child: 1, ..PoolOpts::default() };
  let img = image.to_string();
  let r = run_pool(
    pl.total,
    &opts,
    |_| (),
    |_, case, ctx| {
      let seq = gen::nth_sequence(pl.alpha.len(), pl.k, case).unwrap();
      let prog = gen::assemble(&pl.alpha, &seq);
      let mut core = progrun::fresh_core(&img).expect("image loads");
      progrun::patch_program(&mut core, gen::PROG_ORG, &prog);
      let d = progrun::run_digest(&mut core, STEPS, false);
      ctx.result(case, d);
      ctx.count(0, STEPS);
      // outcome class: (final run state, IF, rom bank, frames progressed)
      let st = world::small_state(&core);
      let get = |n: &str| st.iter().find(|e| e.0 == n).map(|e| e.1).unwrap_or(0);
      ctx.class((get("run") << 12) | (get("if") << 7) | (get("rom_bank") << 4) | (get("ime") << 2) | (get("ly") > 0) as u64);
      ctx.sample(|| J::obj().set("program", J::s(gen::seq_name(&pl.alpha, &seq))).set("bytes", J::s(world::hex(&prog))).set("steps", J::u(STEPS)));
    },
    |case, how| {
      let seq = gen::nth_sequence(pl.alpha.len(), pl.k, case).unwrap_or_default();
      (
        format!("C04 build={} prog={} crash={}", progrun::this_build(), gen::seq_name(&pl.alpha, &seq), how),
        J::obj().set("case", J::obj().set("program", J::s(gen::seq_name(&pl.alpha, &seq))).set("build", J::s(progrun::this_build()))),
      )
    },
  );
  (pl, r)
}

/// worker entry: `gbmc C04 --worker run <tier> <stage> <image> <out-prefix>` and
/// `gbmc C04 --worker detail <tier> <stage> <image> <index> <out.json>`
pub fn worker(args: &[String]) -> i32 {
  if args.len() >= 5 && args[0] == "run" {
    let stage: usize = args[2].parse().unwrap_or(0);
    let (_pl, r) = run_stage(&args[3], &args[1], stage, worker_count());
    if let Err(e) = progrun::write_u64s(&format!("{}.u64", args[4]), &r.results) {
      eprintln!("{}", e);
      return 2;
    }
    let viol = J::Arr(r.violations.iter().map(|v| J::obj().set("key", J::s(v.key.as_str())).set("count", J::u(v.count)).set("detail", v.detail.clone())).collect());
    let meta = J::obj()
      .set("cases_done", J::u(r.cases_done))
      .set("cases_total", J::u(r.cases_total))
      .set("distinct", J::u(r.distinct))
      .set("violations", viol)
      .set("machinery", J::Arr(r.machinery_errors.iter().map(|m| J::s(m.as_str())).collect()));
    if std::fs::write(format!("{}.json", args[4]), meta.to_string()).is_err() {
      return 2;
    }
    return 0;
  }
  if args.len() >= 6 && args[0] == "detail" {
    let stage: usize = args[2].parse().unwrap_or(0);
    let index: u64 = args[4].parse().unwrap_or(0);
    let prog = if stage == 2 {
      pressure_program(index).1
    } else {
      let pl = plan(&args[1], stage);
      let seq = gen::nth_sequence(pl.alpha.len(), pl.k, index).unwrap();
      gen::assemble(&pl.alpha, &seq)
    };
    let mut core = match progrun::fresh_core(&args[3]) {
      Ok(c) => c,
      Err(e) => {
        eprintln!("{}", e);
        return 2;
      },
    };
    progrun::patch_program(&mut core, gen::PROG_ORG, &prog);
    // silence the guest's serial output
    unsafe {
      let devnull = libc::open(b"/dev/null\0".as_ptr() as *const libc::c_char, libc::O_WRONLY);
      libc::dup2(devnull, 1);
    }
    let d = progrun::run_detail(&mut core, if stage == 2 { PRESSURE_STEPS } else { STEPS }, false);
    if std::fs::write(&args[5], d.to_string()).is_err() {
      return 2;
    }
    return 0;
  }
  eprintln!("C04 worker: bad arguments {:?}", args);
  2
}

fn worker_count() -> usize {
  crate::util::pool::default_workers()
}

fn contains(hay: &[usize], needle: &[usize]) -> bool {
  if needle.is_empty() {
    return true;
  }
  hay.windows(needle.len()).any(|w| w == needle)
}

pub fn run(tier: &str) -> i32 {
  let mut rep = Report::new("C04", tier, "translation_validation");
  rep.assume("programs are sequences of fragments from the fixed alphabet of DESIGN.md Appendix C, executed for a fixed budget of steps from the post-boot state");
  rep.assume("all RAM and both frame buffers are folded into the digest every 64 steps and at the end; registers and device registers after every step");
  let base_image = world::write_rom_file(&gen::base_image());
  let pressure_image_path = world::write_rom_file(&pressure_image());
  let tmp = crate::util::pool::tmp_dir();
  let mut programs = 0u64;
  let mut disagreements = 0u64;
  let mut steps_total = 0u64;
  for stage in 0..3usize {
    let image = if stage == 2 { pressure_image_path.clone() } else { base_image.clone() };
    let prefix = format!("{}/c04_jit_{}", tmp, stage);
    // the jit build runs as a separate process (a different compilation of emulator.rs)
    let jit_bin = match std::env::var("GBMC_JIT_BIN") {
      Ok(b) => b,
      Err(_) => {
        rep.machinery_error("GBMC_JIT_BIN not set (run through bin/check)".to_string());
        return rep.finish();
      },
    };
    let child = std::process::Command::new(&jit_bin)
      .args(&["C04", "--worker", "run", tier, &stage.to_string(), &image, &prefix])
      .env("GBMC_WORKERS", "6")
      .spawn();
    let child = match child {
      Ok(c) => c,
      Err(e) => {
        rep.machinery_error(format!("cannot start jit worker: {}", e));
        return rep.finish();
      },
    };
    let (pl, r) = run_stage(&image, tier, stage, if stage == 2 { 6 } else { 10 });
    let out = child.wait_with_output();
    match out {
      Ok(o) if o.status.success() => {},
      Ok(o) => {
        rep.machinery_error(format!("jit worker failed: {:?}", o.status));
        return rep.finish();
      },
      Err(e) => {
        rep.machinery_error(format!("jit worker: {}", e));
        return rep.finish();
      },
    }
    let jit_res = match progrun::read_u64s(&format!("{}.u64", prefix)) {
      Ok(v) => v,
      Err(e) => {
        rep.machinery_error(e);
        return rep.finish();
      },
    };
    let jit_meta = progrun::parse_json_file(&format!("{}.json", prefix)).unwrap_or(J::obj());
    if let Some(vs) = jit_meta.get("violations").and_then(|v| v.as_arr()) {
      for v in vs {
        rep.add_violation(&v.str_of("key"), v.get("detail").cloned().unwrap_or(J::Null));
      }
    }
    if let Some(ms) = jit_meta.get("machinery").and_then(|v| v.as_arr()) {
      for m in ms {
        rep.machinery_error(format!("jit worker: {}", m.as_str().unwrap_or("")));
      }
    }
    let nojit_res = r.results.clone();
    let total = pl.total;
    let counters = if stage == 2 {
      rep.add_stage(
        "pressure-programs",
        &format!("{} long-running programs: bank orders {{2>1, 3>1, 1>2>1, 2>3>1, 3>2>1, 2>1>3>1}} x {:?} successive entry points into a 12 KiB INC (HL) sled per mapped bank (about 1.2 MiB of host code per entry: the 8 MiB translation area is emptied every five to six entries, several times per program) x {} steps, jit build vs non-jit build", total, PRESSURE_ENTRIES, PRESSURE_STEPS),
        r,
      )
    } else {
      rep.add_stage(
        if stage == 0 { "programs-stage0" } else { "programs-stage1" },
        &format!("all sequences of length <= {} over {} fragments ({} programs) x {} steps, jit build vs non-jit build", pl.k, pl.alpha.len(), total, STEPS),
        r,
      )
    };
    steps_total += counters[0];
    programs += total;
    if jit_res.len() != nojit_res.len() {
      rep.machinery_error(format!("result streams differ in length: jit {} nojit {}", jit_res.len(), nojit_res.len()));
      continue;
    }
    // mismatches, shortest program first; report only programs that do not contain an
    // already reported failing program as a contiguous subsequence (minimal counterexamples)
    let mut reported: Vec<Vec<usize>> = Vec::new();
    for i in 0..total {
      if jit_res[i as usize] == nojit_res[i as usize] {
        continue;
      }
      disagreements += 1;
      let seq = if stage == 2 { vec![i as usize] } else { gen::nth_sequence(pl.alpha.len(), pl.k, i).unwrap() };
      if (stage != 2 && reported.iter().any(|r| contains(&seq, r))) || reported.len() >= 12 {
        continue;
      }
      // detail in both builds
      let dj = format!("{}/c04_detail_jit.json", tmp);
      let dn = format!("{}/c04_detail_nojit.json", tmp);
      let a1 = vec!["C04".to_string(), "--worker".to_string(), "detail".to_string(), tier.to_string(), stage.to_string(), image.clone(), i.to_string(), dj.clone()];
      let mut a2 = a1.clone();
      a2[7] = dn.clone();
      let r1 = progrun::spawn_worker("GBMC_JIT_BIN", &a1);
      let r2 = progrun::spawn_worker("GBMC_NOJIT_BIN", &a2);
      let name = if stage == 2 { pressure_program(i).0 } else { gen::seq_name(&pl.alpha, &seq) };
      let (field, detail) = match (r1, r2) {
        (Ok(_), Ok(_)) => match (progrun::parse_json_file(&dj), progrun::parse_json_file(&dn)) {
          (Ok(a), Ok(b)) => match progrun::first_diff(&b, &a) {
            Some((step, field, vn, vj)) => (
              field.clone(),
              J::obj().set("first_diff_step", J::u(step)).set("field", J::s(field)).set("nojit", J::s(vn)).set("jit", J::s(vj)),
            ),
            None => ("digest-only".to_string(), J::obj().set("note", J::s("chained digests differ but the detailed runs agree"))),
          },
          _ => ("detail-unreadable".to_string(), J::obj()),
        },
        (e1, e2) => ("detail-crashed".to_string(), J::obj().set("jit", J::s(format!("{:?}", e1.err()))).set("nojit", J::s(format!("{:?}", e2.err())))),
      };
      let prog = if stage == 2 { pressure_program(i).1 } else { gen::assemble(&pl.alpha, &seq) };
      rep.add_violation(
        &format!("C04 prog={} first-diff={}", name, field),
        J::obj().set("case", J::obj().set("program", J::s(name.as_str())).set("bytes_at_0150", J::s(world::hex(&prog))).set("steps", J::u(if stage == 2 { PRESSURE_STEPS } else { STEPS }))).set("observed", detail),
      );
      reported.push(seq);
    }
  }
  let _ = std::fs::remove_file(&base_image);
  let _ = std::fs::remove_file(&pressure_image_path);
  rep.evaluations = programs;
  rep.cov("programs", J::u(programs));
  rep.cov("disagreements_checked", J::u(disagreements));
  rep.cov("steps_per_build", J::u(steps_total));
  rep.cov("rule", J::s("a program is one fragment sequence; each is executed for 5000 steps in both builds and counts once; an outcome class is (final run state, IF, ROM bank, IME, LY moved)"));
  rep.finish()
}
