//! C04 — enabling the recompiler does not change what a guest program computes.
//! E3: every program over the fragment alphabet up to a length bound is assembled into the
//! fixed MBC1 image, loaded through the real loader path and stepped block by block in the
//! `jit` build and in the non-`jit` build of the same sources; the chained per-step digests
//! (registers, IME, run state, IF/IE, timer incl. divider phase, PPU registers and position,
//! serial registers, DMA progress, banks; all RAM and both frame buffers every 64 steps and
//! at the end) must agree.  A mismatching program is re-run in detail mode in both builds to
//! name the first differing step and field.

use crate::gen;
use crate::progrun;
use crate::util::json::J;
use crate::util::pool::{run_pool, PoolOpts, PoolResult};
use crate::util::report::Report;
use crate::world;

pub const STEPS: u64 = 5000;

pub struct Plan {
  pub alpha: Vec<gen::Letter>,
  /// (alphabet is full?, max length) stages; program index space is the concatenation
  pub k: usize,
  pub total: u64,
}

pub fn plan(tier: &str, stage: usize) -> Plan {
  // stage 0: full parameterised alphabet, short sequences; stage 1: base alphabet, longer sequences
  let (full, k) = match (tier, stage) {
    ("quick", 0) => (false, 2),
    ("quick", _) => (true, 1),
    (_, 0) => (true, 2),
    (_, _) => (false, 3),
  };
  let alpha = gen::alphabet(full);
  let total = gen::count_sequences(alpha.len(), k);
  Plan { alpha, k, total }
}

pub fn run_stage(image: &str, tier: &str, stage: usize, workers: usize) -> (Plan, PoolResult) {
  let pl = plan(tier, stage);
  let opts = PoolOpts { workers, chunk: 4, bitmap_bits: 1 << 16, result_words: pl.total as usize, samples_per_child: 1, ..PoolOpts::default() };
  let img = image.to_string();
  let r = run_pool(
    pl.total,
    &opts,
    |_| (),
    |_, case, ctx| {
      let seq = gen::nth_sequence(pl.alpha.len(), pl.k, case).unwrap();
      let prog = gen::assemble(&pl.alpha, &seq);
      let mut core = progrun::fresh_core(&img).expect("image loads");
      progrun::patch_program(&mut core, gen::PROG_ORG, &prog);
      let d = progrun::run_digest(&mut core, STEPS, false);
      ctx.result(case, d);
      ctx.count(0, STEPS);
      // outcome class: (final run state, IF, rom bank, frames progressed)
      let st = world::small_state(&core);
      let get = |n: &str| st.iter().find(|e| e.0 == n).map(|e| e.1).unwrap_or(0);
      ctx.class((get("run") << 12) | (get("if") << 7) | (get("rom_bank") << 4) | (get("ime") << 2) | (get("ly") > 0) as u64);
      ctx.sample(|| J::obj().set("program", J::s(gen::seq_name(&pl.alpha, &seq))).set("bytes", J::s(world::hex(&prog))).set("steps", J::u(STEPS)));
    },
    |case, how| {
      let seq = gen::nth_sequence(pl.alpha.len(), pl.k, case).unwrap_or_default();
      (
        format!("C04 build={} prog={} crash={}", progrun::this_build(), gen::seq_name(&pl.alpha, &seq), how),
        J::obj().set("case", J::obj().set("program", J::s(gen::seq_name(&pl.alpha, &seq))).set("build", J::s(progrun::this_build()))),
      )
    },
  );
  (pl, r)
}

/// worker entry: `gbmc C04 --worker run <tier> <stage> <image> <out-prefix>` and
/// `gbmc C04 --worker detail <tier> <stage> <image> <index> <out.json>`
pub fn worker(args: &[String]) -> i32 {
  if args.len() >= 5 && args[0] == "run" {
    let stage: usize = args[2].parse().unwrap_or(0);
    let (_pl, r) = run_stage(&args[3], &args[1], stage, worker_count());
    if let Err(e) = progrun::write_u64s(&format!("{}.u64", args[4]), &r.results) {
      eprintln!("{}", e);
      return 2;
    }
    let viol = J::Arr(r.violations.iter().map(|v| J::obj().set("key", J::s(v.key.as_str())).set("count", J::u(v.count)).set("detail", v.detail.clone())).collect());
    let meta = J::obj()
      .set("cases_done", J::u(r.cases_done))
      .set("cases_total", J::u(r.cases_total))
      .set("distinct", J::u(r.distinct))
      .set("violations", viol)
      .set("machinery", J::Arr(r.machinery_errors.iter().map(|m| J::s(m.as_str())).collect()));
    if std::fs::write(format!("{}.json", args[4]), meta.to_string()).is_err() {
      return 2;
    }
    return 0;
  }
  if args.len() >= 6 && args[0] == "detail" {
    let stage: usize = args[2].parse().unwrap_or(0);
    let pl = plan(&args[1], stage);
    let index: u64 = args[4].parse().unwrap_or(0);
    let seq = gen::nth_sequence(pl.alpha.len(), pl.k, index).unwrap();
    let prog = gen::assemble(&pl.alpha, &seq);
    let mut core = match progrun::fresh_core(&args[3]) {
      Ok(c) => c,
      Err(e) => {
        eprintln!("{}", e);
        return 2;
      },
    };
    progrun::patch_program(&mut core, gen::PROG_ORG, &prog);
    // silence the guest's serial output
    unsafe {
      let devnull = libc::open(b"/dev/null\0".as_ptr() as *const libc::c_char, libc::O_WRONLY);
      libc::dup2(devnull, 1);
    }
    let d = progrun::run_detail(&mut core, STEPS, false);
    if std::fs::write(&args[5], d.to_string()).is_err() {
      return 2;
    }
    return 0;
  }
  eprintln!("C04 worker: bad arguments {:?}", args);
  2
}

fn worker_count() -> usize {
  crate::util::pool::default_workers()
}

fn contains(hay: &[usize], needle: &[usize]) -> bool {
  if needle.is_empty() {
    return true;
  }
  hay.windows(needle.len()).any(|w| w == needle)
}

pub fn run(tier: &str) -> i32 {
  let mut rep = Report::new("C04", tier, "translation_validation");
  rep.assume("programs are sequences of fragments from the fixed alphabet of DESIGN.md Appendix C, executed for a fixed budget of steps from the post-boot state");
  rep.assume("all RAM and both frame buffers are folded into the digest every 64 steps and at the end; registers and device registers after every step");
  let image = world::write_rom_file(&gen::base_image());
  let tmp = crate::util::pool::tmp_dir();
  let mut programs = 0u64;
  let mut disagreements = 0u64;
  let mut steps_total = 0u64;
  for stage in 0..2usize {
    let prefix = format!("{}/c04_jit_{}", tmp, stage);
    // the jit build runs as a separate process (a different compilation of emulator.rs)
    let jit_bin = match std::env::var("GBMC_JIT_BIN") {
      Ok(b) => b,
      Err(_) => {
        rep.machinery_error("GBMC_JIT_BIN not set (run through bin/check)".to_string());
        return rep.finish();
      },
    };
    let child = std::process::Command::new(&jit_bin)
      .args(&["C04", "--worker", "run", tier, &stage.to_string(), &image, &prefix])
      .env("GBMC_WORKERS", "6")
      .spawn();
    let child = match child {
      Ok(c) => c,
      Err(e) => {
        rep.machinery_error(format!("cannot start jit worker: {}", e));
        return rep.finish();
      },
    };
    let (pl, r) = run_stage(&image, tier, stage, 10);
    let out = child.wait_with_output();
    match out {
      Ok(o) if o.status.success() => {},
      Ok(o) => {
        rep.machinery_error(format!("jit worker failed: {:?}", o.status));
        return rep.finish();
      },
      Err(e) => {
        rep.machinery_error(format!("jit worker: {}", e));
        return rep.finish();
      },
    }
    let jit_res = match progrun::read_u64s(&format!("{}.u64", prefix)) {
      Ok(v) => v,
      Err(e) => {
        rep.machinery_error(e);
        return rep.finish();
      },
    };
    let jit_meta = progrun::parse_json_file(&format!("{}.json", prefix)).unwrap_or(J::obj());
    if let Some(vs) = jit_meta.get("violations").and_then(|v| v.as_arr()) {
      for v in vs {
        rep.add_violation(&v.str_of("key"), v.get("detail").cloned().unwrap_or(J::Null));
      }
    }
    if let Some(ms) = jit_meta.get("machinery").and_then(|v| v.as_arr()) {
      for m in ms {
        rep.machinery_error(format!("jit worker: {}", m.as_str().unwrap_or("")));
      }
    }
    let nojit_res = r.results.clone();
    let total = pl.total;
    let counters = rep.add_stage(
      if stage == 0 { "programs-stage0" } else { "programs-stage1" },
      &format!("all sequences of length <= {} over {} fragments ({} programs) x {} steps, jit build vs non-jit build", pl.k, pl.alpha.len(), total, STEPS),
      r,
    );
    steps_total += counters[0];
    programs += total;
    if jit_res.len() != nojit_res.len() {
      rep.machinery_error(format!("result streams differ in length: jit {} nojit {}", jit_res.len(), nojit_res.len()));
      continue;
    }
    // mismatches, shortest program first; report only programs that do not contain an
    // already reported failing program as a contiguous subsequence (minimal counterexamples)
    let mut reported: Vec<Vec<usize>> = Vec::new();
    for i in 0..total {
      if jit_res[i as usize] == nojit_res[i as usize] {
        continue;
      }
      disagreements += 1;
      let seq = gen::nth_sequence(pl.alpha.len(), pl.k, i).unwrap();
      if reported.iter().any(|r| contains(&seq, r)) || reported.len() >= 12 {
        continue;
      }
      // detail in both builds
      let dj = format!("{}/c04_detail_jit.json", tmp);
      let dn = format!("{}/c04_detail_nojit.json", tmp);
      let a1 = vec!["C04".to_string(), "--worker".to_string(), "detail".to_string(), tier.to_string(), stage.to_string(), image.clone(), i.to_string(), dj.clone()];
      let mut a2 = a1.clone();
      a2[7] = dn.clone();
      let r1 = progrun::spawn_worker("GBMC_JIT_BIN", &a1);
      let r2 = progrun::spawn_worker("GBMC_NOJIT_BIN", &a2);
      let name = gen::seq_name(&pl.alpha, &seq);
      let (field, detail) = match (r1, r2) {
        (Ok(_), Ok(_)) => match (progrun::parse_json_file(&dj), progrun::parse_json_file(&dn)) {
          (Ok(a), Ok(b)) => match progrun::first_diff(&b, &a) {
            Some((step, field, vn, vj)) => (
              field.clone(),
              J::obj().set("first_diff_step", J::u(step)).set("field", J::s(field)).set("nojit", J::s(vn)).set("jit", J::s(vj)),
            ),
            None => ("digest-only".to_string(), J::obj().set("note", J::s("chained digests differ but the detailed runs agree"))),
          },
          _ => ("detail-unreadable".to_string(), J::obj()),
        },
        (e1, e2) => ("detail-crashed".to_string(), J::obj().set("jit", J::s(format!("{:?}", e1.err()))).set("nojit", J::s(format!("{:?}", e2.err())))),
      };
      let prog = gen::assemble(&pl.alpha, &seq);
      rep.add_violation(
        &format!("C04 prog={} first-diff={}", name, field),
        J::obj().set("case", J::obj().set("program", J::s(name.as_str())).set("bytes_at_0150", J::s(world::hex(&prog))).set("steps", J::u(STEPS))).set("observed", detail),
      );
      reported.push(seq);
    }
  }
  let _ = std::fs::remove_file(&image);
  rep.evaluations = programs;
  rep.cov("programs", J::u(programs));
  rep.cov("disagreements_checked", J::u(disagreements));
  rep.cov("steps_per_build", J::u(steps_total));
  rep.cov("rule", J::s("a program is one fragment sequence; each is executed for 5000 steps in both builds and counts once; an outcome class is (final run state, IF, ROM bank, IME, LY moved)"));
  rep.finish()
}
