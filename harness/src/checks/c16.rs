//! C16 — OAM DMA copies exactly 160 bytes, one per machine cycle, ascending, reading the
//! source through the normal memory map at the time each byte is copied; touches nothing
//! else; result independent of batching; a new write to 0xFF46 restarts it.
//!
//! E2b + E2a on the real `MemoryAreas` of a `Core` loaded from an MBC3 + 32 KiB RAM image
//! (every source page 0x00-0xFF is readable).  Subject entry points: the bus write
//! `memory_write_byte(ptr, 0xFF46, page)` and `MemoryAreas::run_clock_cycles`.
//!
//! Oracle R8 (written from the property text / Pan Docs, not from mem.rs):
//!   state = (armed page P, next offset n) or idle, plus the 160 OAM bytes;
//!   write P to 0xFF46  -> (P, 0), OAM and everything else unchanged;
//!   elapse b clocks    -> k = min(160 - n, floor(b / 4)) bytes; for i in 0..k
//!                         OAM[n+i] <- bus(P*256 + n + i) as the bus reads *now*; n += k;
//!                         n == 160 -> idle.  Idle: nothing happens.
//! The source value "at the time each byte is copied" is taken with the real bus read
//! immediately before the batch (nothing but the transfer itself runs inside a batch, and
//! the only source the transfer can change is OAM copied onto itself).  Source changes
//! (bus writes, ROM / RAM bank switches) are applied between batches, i.e. at a definite
//! machine cycle of the transfer.
//!
//! Stages
//!   1 transition-relation  every state (page, progress in {idle, 0..159}) x every action
//!                          (elapse b in {0,4,..,700} and 14 long batches 1020..1048576 clocks
//!                          (>= 2^8 .. 2^18 machine cycles: whole translated blocks); re-arm page' in {same,00,C1,FE,FF}
//!                          followed by 8 and 640 clocks; modify source at offset in
//!                          {p-1,p,p+1,159} followed by 4 / 8 / 640 clocks)
//!   2 histories            all histories of length 3 over a 17-letter alphabet from 6
//!                          (quick: 4) progress values per page (restart during restart, modify after
//!                          restart, ...), judged after every action
//!   3 batching             every split of the 640-clock transfer into two and three batches
//!                          at 4-clock granularity, and every composition of 1..8 units of
//!                          {4, 60, 252} clocks (1..6 units on the pages outside the quick
//!                          set), the 160 x 4-clock run, and long batches (1024..1048576
//!                          clocks) first / in the middle / last, against the one-batch run

use crate::devices::io::IO;
use crate::emulator::Core;
use crate::mem::{memory_read_byte, memory_write_byte, MemoryAreas};
use crate::timing::ClockCycles;
use crate::util::json::J;
use crate::util::pool::{run_pool, Ctx, PoolOpts};
use crate::util::report::Report;
use crate::world::{hex, load_like_main, make_image, trace_start, trace_stop, write_rom_file};

const OAM_LEN: usize = 0xA0;
const QUICK_PAGES: [u8; 14] = [0x00, 0x3F, 0x40, 0x7F, 0x80, 0x9F, 0xA0, 0xC0, 0xD0, 0xDF, 0xE0, 0xFD, 0xFE, 0xFF];
/// progress values the history stage starts from (usize::MAX = idle)
const HIST_P0: [usize; 6] = [usize::MAX, 0, 1, 80, 158, 159];
const HIST_P0_QUICK: [usize; 4] = [usize::MAX, 0, 80, 159];
/// history alphabet: 8 batch sizes (two of them longer than 255 machine cycles), 5 re-arms, 4 source modifications
const HIST_ELAPSE: [u32; 8] = [0, 4, 8, 316, 636, 640, 1028, 16388];
/// catch-up batches as long as whole translated blocks (machine-cycle counts around 2^8, 2^9,
/// 2^10, 2^12, 2^14, 2^16 and 2^18): one-step elapse action from every state
const LARGE_ELAPSE: [u32; 14] = [1020, 1024, 1028, 1280, 2044, 2048, 2052, 4096, 16384, 65532, 65536, 65540, 262144, 1048576];
/// large batches placed first / in the middle / last in the batching stage
const LARGE_SPLIT: [u32; 8] = [1024, 1028, 1280, 2048, 4096, 65536, 65540, 1048576];
const COMP_UNITS: [u32; 3] = [4, 60, 252];
/// I/O registers whose write has no effect beyond storing the value (used by "modify" on page FF)
const SAFE_IO: [usize; 9] = [0x05, 0x06, 0x42, 0x43, 0x47, 0x48, 0x49, 0x4A, 0x4B];
/// registers that change with time on their own: DIV, IF, STAT, LY
const VOLATILE_IO: [usize; 4] = [0x04, 0x0F, 0x41, 0x44];

// counters
const C_TRANS: usize = 0; // distinct judged (state/history prefix, action) executions
const C_TRACES: usize = 1; // every judged step whose bus trace was compared (includes repeated set-ups)
const C_STATES: usize = 2; // (page, progress) states constructed and confirmed through the hook
const C_BYTES: usize = 3; // DMA byte copies observed in traces
const C_MODSKIP: usize = 4; // modify actions with no admissible target (no-op)
const C_LEFT_VBLANK: usize = 5; // cases longer than the power-on VBlank (4560 clocks): the PPU renders meanwhile (informational)
const C_UNDO_BAD: usize = 6; // world restore did not reproduce the pristine world
const C_SPLITS: usize = 7; // batch schedules compared with the one-batch run
const C_VOLATILE: usize = 8; // volatile I/O source bytes judged with the set-valued oracle

fn page_class(p: u8) -> (&'static str, u64) {
  match p {
    0x00..=0x3F => ("rom0", 0),
    0x40..=0x7F => ("romN", 1),
    0x80..=0x9F => ("vram", 2),
    0xA0..=0xBF => ("cartram", 3),
    0xC0..=0xDF => ("wram", 4),
    0xE0..=0xFD => ("echo", 5),
    0xFE => ("oam", 6),
    0xFF => ("io-hram", 7),
  }
}

fn rom_fill(bank: usize, o: usize) -> u8 {
  (o * 31 + (o >> 8) * 7 + bank * 0x55 + 0x11) as u8
}

struct Mem4 {
  vram: Vec<u8>,
  cart: Vec<u8>,
  wram: Vec<u8>,
  hram: Vec<u8>,
}

impl Mem4 {
  fn pattern() -> Mem4 {
    Mem4 {
      vram: (0..0x2000usize).map(|i| (i * 29 + (i >> 8) * 3 + 0x80) as u8).collect(),
      cart: (0..0x8000usize).map(|i| (i * 37 + (i >> 8) * 5 + (i >> 13) * 0x33 + 0x21) as u8).collect(),
      wram: (0..0x2000usize).map(|i| (i * 41 + (i >> 8) * 11 + 0xC0) as u8).collect(),
      hram: (0..127usize).map(|i| (i * 43 + 0x0F) as u8).collect(),
    }
  }
  fn capture(m: &MemoryAreas) -> Mem4 {
    Mem4 { vram: m.video_ram.to_vec(), cart: m.cart_ram.to_vec(), wram: m.work_ram.to_vec(), hram: m.high_ram.to_vec() }
  }
  fn store_into(&self, m: &mut MemoryAreas) {
    m.video_ram.copy_from_slice(&self.vram);
    m.cart_ram.copy_from_slice(&self.cart);
    m.work_ram.copy_from_slice(&self.wram);
    m.high_ram.copy_from_slice(&self.hram);
  }
  fn copy_from(&mut self, o: &Mem4) {
    self.vram.copy_from_slice(&o.vram);
    self.cart.copy_from_slice(&o.cart);
    self.wram.copy_from_slice(&o.wram);
    self.hram.copy_from_slice(&o.hram);
  }
  fn sync_from(&mut self, m: &MemoryAreas) {
    self.vram.copy_from_slice(&m.video_ram);
    self.cart.copy_from_slice(&m.cart_ram);
    self.wram.copy_from_slice(&m.work_ram);
    self.hram.copy_from_slice(&m.high_ram);
  }
  /// first difference against the live memory: (region, index, shadow, live)
  fn diff(&self, m: &MemoryAreas) -> Option<(&'static str, usize, u8, u8)> {
    let regions: [(&'static str, &[u8], &[u8]); 4] =
      [("vram", &self.vram, &m.video_ram), ("cart_ram", &self.cart, &m.cart_ram), ("wram", &self.wram, &m.work_ram), ("hram", &self.hram, &m.high_ram)];
    for (name, a, b) in regions.iter() {
      if a != b {
        if a.len() != b.len() {
          return Some((name, a.len().min(b.len()), 0, 0));
        }
        for i in 0..a.len() {
          if a[i] != b[i] {
            return Some((name, i, a[i], b[i]));
          }
        }
      }
    }
    None
  }
}

struct World {
  core: Box<Core>,
  image: Vec<u8>,
  pristine: Mem4,
  shadow: Mem4,
  dirty: bool,
  /// where the LCD controller stands when a case begins: 0 = power-on (display off, start of
  /// VBlank); 1..=3 = display on (LCDC = 0x91), line 5, in mode 2 / mode 3 / mode 0
  lcd_ctx: u8,
  /// how the next cases deliver time (copied into Exec.via_core)
  via_core: Option<bool>,
  /// None: the 0xFF46 write of a (re-)arm is made with `memory_write_byte`.  Some(form): it is
  /// made by the interpreter executing one store instruction of that form from work RAM
  arm_form: Option<usize>,
}

const LCD_CTX_NAME: [&str; 4] = ["power-on", "lcd-on/mode2", "lcd-on/mode3", "lcd-on/mode0"];

fn build_image() -> Vec<u8> {
  // MBC3 + RAM + battery, 4 ROM banks, 32 KiB RAM
  make_image(0x13, 0x01, 0x03, 4, rom_fill)
}

fn make_world(path: &str) -> World {
  let mut core = load_like_main(path).expect("C16 world: image rejected");
  let image = build_image();
  assert!(core.memory.rom.len() == image.len());
  assert!(core.memory.video_ram.len() == 0x2000 && core.memory.cart_ram.len() == 0x8000);
  assert!(core.memory.work_ram.len() == 0x2000 && core.memory.high_ram.len() == 127);
  let pristine = Mem4::pattern();
  pristine.store_into(&mut core.memory);
  let shadow = Mem4::capture(&core.memory);
  World { core, image, pristine, shadow, dirty: false, lcd_ctx: 0, via_core: None, arm_form: None }
}

#[derive(Clone, Copy, PartialEq, Debug)]
enum Act {
  /// run_clock_cycles(b)
  Elapse(u32),
  /// bus write to 0xFF46: 0 same page, 1 -> 00, 2 -> C1, 3 -> FE, 4 -> FF
  Rearm(u8),
  /// change the source: 0 offset p-1, 1 offset p, 2 offset p+1, 3 offset 159
  Modify(u8),
}

#[derive(Clone, Copy)]
enum LogEnt {
  Arm(u8),
  Elapse(u32),
  Write(u16, u8),
  NoModify,
}

fn log_json(log: &[LogEnt]) -> J {
  J::Arr(
    log
      .iter()
      .map(|e| match e {
        LogEnt::Arm(p) => J::s(format!("write FF46<-{:02X}", p)),
        LogEnt::Elapse(b) => J::s(format!("run_clock_cycles({})", b)),
        LogEnt::Write(a, v) => J::s(format!("write {:04X}<-{:02X}", a, v)),
        LogEnt::NoModify => J::s("modify: no admissible target, nothing done"),
      })
      .collect(),
  )
}

struct Fail {
  field: &'static str,
  expected: J,
  observed: J,
}

/// R8 state
struct Ref {
  page: u8,           // last armed page ("same" re-arms this one); the case page before any arm
  dma: Option<usize>, // next offset of the transfer in flight
  oam: [u8; OAM_LEN],
}

struct Exec<'w> {
  w: &'w mut World,
  r: Ref,
  log: Vec<LogEnt>,
  /// clocks elapsed in this case
  clocks: u64,
  /// writes of the last judged step, as traced
  last_writes: Vec<(u16, u8)>,
  /// class bits of the last step (for the non-vacuity bitmap)
  last_class: u64,
  bytes: u64,
  volatile_judged: u64,
  modify_skipped: u64,
  /// lazy: the byte-for-byte comparison of all other memory is made before every source
  /// modification and after the last action of the history instead of after every step (a
  /// stray store cannot be undone by the subject, so nothing is missed; stage 1 is eager)
  lazy: bool,
  final_step: bool,
  /// None: time is delivered by calling `MemoryAreas::run_clock_cycles` directly.
  /// Some(halt?): time passes the way it does while the CPU sleeps: one `Core::update()` per
  /// machine cycle with the CPU in Halt (true) or Stop (false), nothing pending
  via_core: Option<bool>,
  /// (ROM bank, RAM bank, VRAM bank, WRAM bank) as they must stay
  banks: (usize, usize, usize, usize),
}

#[inline]
fn bus_read(core: &Core, addr: u16) -> u8 {
  memory_read_byte(&core.memory as *const MemoryAreas, addr)
}

#[inline]
fn bus_write(core: &mut Core, addr: u16, v: u8) {
  memory_write_byte(&mut core.memory as *mut MemoryAreas, addr, v)
}

const STORE_FORMS: [(&str, &[u8]); 9] = [
  ("LDH (46),A", &[0xE0, 0x46]),
  ("LD (C),A", &[0xE2]),
  ("LD (HL),A", &[0x77]),
  ("LD (FF46),A", &[0xEA, 0x46, 0xFF]),
  ("LD (HL),n", &[0x36, 0x00]),
  ("LD (HL+),A", &[0x22]),
  ("LD (HL-),A", &[0x32]),
  ("LD (DE),A", &[0x12]),
  ("LD (BC),A", &[0x02]),
];

/// the write `0xFF46 <- page` made by the guest: one store instruction of the given form is
/// placed in work RAM (and removed again) and executed by the interpreter
fn store_by_instruction(core: &mut Core, form: usize, page: u8) {
  use crate::cpustep::{peek_raw, poke_raw};
  let at: u16 = 0xDFE0;
  let mut code = STORE_FORMS[form].1.to_vec();
  if form == 4 {
    code[1] = page;
  }
  let saved: Vec<u8> = (0..code.len() as u16).map(|i| peek_raw(&core.memory, at + i)).collect();
  for (i, b) in code.iter().enumerate() {
    poke_raw(&mut core.memory, at + i as u16, *b);
  }
  core.registers.af = (page as u32) << 8;
  core.registers.bc = 0xFF46;
  core.registers.de = 0xFF46;
  core.registers.hl = 0xFF46;
  core.registers.sp = 0xDFD0;
  core.registers.ip = at as u32;
  core.registers.cycles = 0;
  let m = &mut core.memory as *mut MemoryAreas;
  let regs: *mut crate::cpu::Registers = &mut core.registers;
  let _ = crate::interpreter::run_next_op(unsafe { &mut *regs }, m);
  core.registers.cycles = 0;
  for (i, b) in saved.iter().enumerate() {
    poke_raw(&mut core.memory, at + i as u16, *b);
  }
}

fn dma_json(d: Option<(usize, u8)>) -> J {
  match d {
    None => J::s("idle"),
    Some((s, o)) => J::obj().set("source", J::s(format!("{:04X}", s))).set("next_offset", J::u(o as u64)),
  }
}

impl<'w> Exec<'w> {
  /// Put the world into the case's initial state: idle, devices at power-on (PPU at the start
  /// of VBlank, DIV = 0, timer off), banks 1 / 0, pattern memory, and an OAM whose every byte
  /// differs from the byte of `page` at the same offset.
  fn begin(w: &'w mut World, page: u8) -> Exec<'w> {
    if w.dirty {
      w.pristine.store_into(&mut w.core.memory);
      let World { shadow, pristine, .. } = &mut *w;
      shadow.copy_from(pristine);
      bus_write(&mut w.core, 0x2100, 1);
      bus_write(&mut w.core, 0x4100, 0);
      w.dirty = false;
    }
    w.core.memory.io = IO::new();
    w.core.memory.oam_dma = None;
    if w.lcd_ctx != 0 {
      // display on, then idle time until the controller is inside a visible line (no transfer
      // is armed yet, so nothing but the devices runs)
      bus_write(&mut w.core, 0xFF40, 0x91);
      let into_line: u32 = match w.lcd_ctx {
        1 => 8,
        2 => 84,
        _ => 80 + 188 + 20,
      };
      w.core.memory.run_clock_cycles(ClockCycles((4560 + 456 * 5 + into_line) as usize));
    }
    let mut oam = [0u8; OAM_LEN];
    for n in 0..OAM_LEN {
      oam[n] = (0x3C + 3 * n) as u8;
    }
    if page != 0xFE {
      for n in 0..OAM_LEN {
        let s = bus_read(&w.core, ((page as u16) << 8) | n as u16);
        if s == oam[n] {
          oam[n] ^= 0xFF;
        }
      }
    }
    w.core.memory.oam_ram.copy_from_slice(&oam);
    let banks = (w.core.memory.cart_state.get_rom_bank(), w.core.memory.cart_state.get_ram_bank(), w.core.memory.vram_bank, w.core.memory.wram_bank);
    Exec { banks, w, r: Ref { page, dma: None, oam }, log: Vec::with_capacity(8), clocks: 0, last_writes: Vec::with_capacity(OAM_LEN), last_class: 0, bytes: 0, volatile_judged: 0, modify_skipped: 0, lazy: false, final_step: false, via_core: None }
  }

  fn volatile_index(&self, off: usize) -> Option<usize> {
    if self.r.page == 0xFF {
      VOLATILE_IO.iter().position(|o| *o == off)
    } else {
      None
    }
  }

  /// Set-valued oracle for a self-changing I/O source byte.  `start` is the register as the
  /// bus showed it immediately before the batch.  Whatever the length of the batch, the byte is
  /// copied within the first 640 clocks of it, so a correct engine (reading at batch start or
  /// at the exact machine cycle) sees DIV advanced by at most 3, LY by at most 2 lines (mod
  /// 154), and STAT differing only in the mode / coincidence bits.  IF is not judged.
  fn volatile_ok(&self, vi: usize, got: u8, start: u8) -> bool {
    match VOLATILE_IO[vi] {
      0x04 => got.wrapping_sub(start) <= 3,
      0x44 => got == start || (1..=2u16).any(|d| (start as u16 + d) % 154 == got as u16),
      0x41 => (got ^ start) & !0x07 == 0,
      _ => true,
    }
  }

  /// common post-conditions: OAM, progress / completion, every other memory
  fn judge_state(&mut self, fails: &mut Vec<Fail>) {
    let m = &self.w.core.memory;
    // OAM
    if m.oam_ram.len() != OAM_LEN {
      fails.push(Fail { field: "oam", expected: J::s("160 bytes of OAM"), observed: J::u(m.oam_ram.len() as u64) });
    } else if m.oam_ram[..] != self.r.oam[..] {
      let i = (0..OAM_LEN).find(|i| m.oam_ram[*i] != self.r.oam[*i]).unwrap();
      fails.push(Fail {
        field: "oam",
        expected: J::obj().set("first_diff_offset", J::u(i as u64)).set("byte", J::u(self.r.oam[i] as u64)).set("oam", J::s(hex(&self.r.oam))),
        observed: J::obj().set("byte", J::u(m.oam_ram[i] as u64)).set("oam", J::s(hex(&m.oam_ram))),
      });
    }
    // progress through the hook
    let want = self.r.dma.map(|n| ((self.r.page as usize) << 8, n as u8));
    let got = m.verif_dma_state();
    if want != got {
      let field = if want.is_some() != got.is_some() { "complete" } else { "progress" };
      fails.push(Fail { field, expected: dma_json(want), observed: dma_json(got) });
    }
    // all other memory
    if !self.lazy || self.final_step {
      self.judge_other_mem(fails);
    }
    let banks = (m.cart_state.get_rom_bank(), m.cart_state.get_ram_bank(), m.vram_bank, m.wram_bank);
    if banks != self.banks {
      fails.push(Fail {
        field: "other-mem",
        expected: J::s(format!("rom_bank={} ram_bank={} vram_bank={} wram_bank={}", self.banks.0, self.banks.1, self.banks.2, self.banks.3)),
        observed: J::s(format!("rom_bank={} ram_bank={} vram_bank={} wram_bank={}", banks.0, banks.1, banks.2, banks.3)),
      });
    }
  }

  fn judge_other_mem(&self, fails: &mut Vec<Fail>) {
    if let Some((region, i, a, b)) = self.w.shadow.diff(&self.w.core.memory) {
      fails.push(Fail {
        field: "other-mem",
        expected: J::obj().set("region", J::s(region)).set("index", J::u(i as u64)).set("byte", J::u(a as u64)),
        observed: J::obj().set("byte", J::u(b as u64)),
      });
    }
  }

  fn step(&mut self, a: Act) -> Vec<Fail> {
    let mut fails: Vec<Fail> = Vec::new();
    let pclass: u64 = match self.r.dma {
      None => 0,
      Some(0) => 1,
      Some(159) => 3,
      Some(_) => 2,
    };
    match a {
      Act::Elapse(b) => {
        let (n, k) = match self.r.dma {
          Some(n) => (n, (OAM_LEN - n).min(b as usize / 4)),
          None => (0, 0),
        };
        let src = (self.r.page as u16) << 8;
        let mut snap = [0u8; OAM_LEN];
        for i in n..n + k {
          snap[i] = bus_read(&self.w.core, src | i as u16);
        }
        self.log.push(LogEnt::Elapse(b));
        self.clocks += b as u64;
        trace_start();
        match self.via_core {
          None => self.w.core.memory.run_clock_cycles(ClockCycles(b as usize)),
          Some(halt) => {
            for _ in 0..b / 4 {
              self.w.core.run_state = if halt { crate::emulator::RunState::Halt } else { crate::emulator::RunState::Stop };
              self.w.core.interrupts_enabled = crate::emulator::InterruptState::Disabled;
              self.w.core.update();
            }
          },
        }
        let (t, ovf) = trace_stop();
        self.last_writes.clear();
        for e in t.iter() {
          if (*e >> 24) == 1 {
            self.last_writes.push((((*e >> 8) & 0xffff) as u16, (*e & 0xff) as u8));
          }
        }
        self.bytes += self.last_writes.len() as u64;
        // bus trace: exactly k writes, to FE00+n, FE00+n+1, ...
        if ovf || self.last_writes.len() != k {
          fails.push(Fail {
            field: "write-count",
            expected: J::obj().set("writes", J::u(k as u64)).set("progress_before", J::u(n as u64)).set("armed", J::Bool(self.r.dma.is_some())),
            observed: J::obj().set("writes", J::u(self.last_writes.len() as u64)).set("first", J::Arr(self.last_writes.iter().take(4).map(|(a, v)| J::s(format!("{:04X}<-{:02X}", a, v))).collect())),
          });
        }
        if let Some(i) = (0..k.min(self.last_writes.len())).find(|i| self.last_writes[*i].0 as usize != 0xFE00 + n + *i) {
          fails.push(Fail {
            field: "write-addr",
            expected: J::obj().set("write_index", J::u(i as u64)).set("addr", J::s(format!("{:04X}", 0xFE00 + n + i))),
            observed: J::obj().set("addr", J::s(format!("{:04X}", self.last_writes[i].0))),
          });
        } else if self.last_writes.len() > k {
          // surplus writes: anything that is not the next OAM byte is a foreign address
          if let Some((j, (addr, _))) = self.last_writes.iter().enumerate().skip(k).find(|(j, (addr, _))| *addr as usize != 0xFE00 + n + *j || n + *j >= OAM_LEN) {
            fails.push(Fail {
              field: "write-addr",
              expected: J::obj().set("write_index", J::u(j as u64)).set("addr", J::s("no write")),
              observed: J::obj().set("addr", J::s(format!("{:04X}", addr))),
            });
          }
        }
        // reference transition
        for i in n..n + k {
          if let Some(vi) = self.volatile_index(i) {
            self.volatile_judged += 1;
            let got = self.w.core.memory.oam_ram.get(i).copied().unwrap_or(0);
            let ok = self.volatile_ok(vi, got, snap[i]);
            self.r.oam[i] = if ok { got } else { snap[i] };
          } else {
            self.r.oam[i] = snap[i];
          }
        }
        if self.r.dma.is_some() {
          self.r.dma = if n + k >= OAM_LEN { None } else { Some(n + k) };
        }
        let kclass: u64 = if pclass == 0 {
          0
        } else if b / 4 == 0 {
          1
        } else if n + k < OAM_LEN {
          2
        } else if (b as usize / 4) == OAM_LEN - n {
          3
        } else {
          4
        };
        self.last_class = kclass;
      },
      Act::Rearm(kind) => {
        let page = match kind {
          0 => self.r.page,
          1 => 0x00,
          2 => 0xC1,
          3 => 0xFE,
          _ => 0xFF,
        };
        self.log.push(LogEnt::Arm(page));
        trace_start();
        match self.w.arm_form {
          None => bus_write(&mut self.w.core, 0xFF46, page),
          Some(form) => store_by_instruction(&mut self.w.core, form, page),
        }
        let (t, _) = trace_stop();
        self.last_writes.clear();
        // the arming write itself is the one traced access; anything else is foreign
        let extra: Vec<u32> = t.iter().copied().filter(|e| *e != ((1u32 << 24) | (0xFF46u32 << 8) | page as u32)).collect();
        if let Some(e) = extra.iter().find(|e| (**e >> 24) == 1) {
          fails.push(Fail { field: "write-addr", expected: J::s("no bus write besides FF46"), observed: J::s(format!("{:04X}<-{:02X}", (*e >> 8) & 0xffff, *e & 0xff)) });
        }
        self.r.page = page;
        self.r.dma = Some(0);
        self.last_class = 5 + (kind as u64).min(2);
      },
      Act::Modify(kind) => {
        let p = self.r.dma.unwrap_or(0);
        let off: Option<usize> = match kind {
          0 => p.checked_sub(1),
          1 => Some(p),
          2 => {
            if p + 1 < OAM_LEN {
              Some(p + 1)
            } else {
              None
            }
          },
          _ => Some(OAM_LEN - 1),
        };
        let page = self.r.page;
        let mut done = false;
        if let Some(off) = off {
          let addr = ((page as u16) << 8) | off as u16;
          let target: Option<(u16, u8)> = match page {
            // ROM cannot be written: switch the ROM bank instead (changes every byte of a romN page)
            0x00..=0x7F => Some((0x2100, 2 + (off & 1) as u8)),
            // cart RAM: the last offset switches the RAM bank, the others are stored to directly
            0xA0..=0xBF if off == OAM_LEN - 1 => Some((0x4100, 2)),
            0xFF if off < 0x80 && !SAFE_IO.contains(&off) => None,
            _ => Some((addr, bus_read(&self.w.core, addr) ^ 0xFF)),
          };
          if let Some((a, v)) = target {
            if self.lazy {
              self.judge_other_mem(&mut fails);
            }
            bus_write(&mut self.w.core, a, v);
            self.log.push(LogEnt::Write(a, v));
            self.w.dirty = true;
            // bring the bookkeeping in line with the CPU's write (the write itself is C10's business)
            self.w.shadow.sync_from(&self.w.core.memory);
            let m = &self.w.core.memory;
            self.banks = (m.cart_state.get_rom_bank(), m.cart_state.get_ram_bank(), m.vram_bank, m.wram_bank);
            if (0xFE00..0xFEA0).contains(&(a as usize)) {
              self.r.oam[a as usize - 0xFE00] = self.w.core.memory.oam_ram[a as usize - 0xFE00];
            }
            done = true;
          }
        }
        if !done {
          self.modify_skipped += 1;
          self.log.push(LogEnt::NoModify);
        }
        self.last_writes.clear();
        self.last_class = if done { 8 } else { 9 };
      },
    }
    self.judge_state(&mut fails);
    if !fails.is_empty() {
      self.w.dirty = true;
      // a wrong number or address of writes makes OAM / progress / completion differ as a
      // consequence: keep the primary failure only (other-mem is independent and stays)
      if fails.iter().any(|f| f.field == "write-count" || f.field == "write-addr") {
        fails.retain(|f| f.field == "write-count" || f.field == "write-addr" || f.field == "other-mem");
      }
    }
    let (_, pc) = page_class(self.r.page);
    self.last_class |= (pclass << 4) | (pc << 6);
    fails
  }

  /// end-of-case machinery checks: assumptions of the oracle that the harness itself must keep
  fn finish(&mut self, ctx: &mut Ctx) {
    if self.clocks > 4560 {
      ctx.count(C_LEFT_VBLANK, 1);
    }
    ctx.count(C_BYTES, self.bytes);
    ctx.count(C_VOLATILE, self.volatile_judged);
    ctx.count(C_MODSKIP, self.modify_skipped);
    self.modify_skipped = 0;
    self.bytes = 0;
    self.volatile_judged = 0;
  }
}

fn act_name(a: Act) -> &'static str {
  match a {
    Act::Elapse(_) => "elapse",
    Act::Rearm(_) => "rearm",
    Act::Modify(_) => "modify",
  }
}

fn act_json(a: Act) -> J {
  match a {
    Act::Elapse(b) => J::s(format!("elapse {}", b)),
    Act::Rearm(k) => J::s(format!("rearm {}", ["same", "00", "C1", "FE", "FF"][k.min(4) as usize])),
    Act::Modify(k) => J::s(format!("modify {}", ["p-1", "p", "p+1", "159"][k.min(3) as usize])),
  }
}

fn report_fails(ctx: &mut Ctx, x: &Exec, stage: &str, action_label: &str, case_page: u8, p0: Option<usize>, acts: &[Act], step_index: usize, fails: Vec<Fail>) {
  let (cls, _) = page_class(x.r.page);
  // a wrong copied value after the source was changed earlier in this history is filed under
  // the modification (the batch that exposes it is only the messenger)
  let modified = x.log.iter().any(|e| matches!(e, LogEnt::Write(_, _)));
  for f in fails {
    let label = if f.field == "oam" && modified && action_label == "elapse" { "modify" } else { action_label };
    let key = format!("C16 page={} action={} field={}", cls, label, f.field);
    ctx.violation(&key, || {
      J::obj()
        .set(
          "case",
          J::obj()
            .set("stage", J::s(stage))
            .set("page", J::s(format!("{:02X}", case_page)))
            .set("start_progress", match p0 { None => J::s("idle"), Some(p) => J::u(p as u64) })
            .set("actions", J::Arr(acts.iter().map(|a| act_json(*a)).collect()))
            .set("failing_action_index", J::u(step_index as u64))
            .set("executed", log_json(&x.log))
            .set("world", J::s("MBC3+RAM type 0x13, 4 ROM banks, 32 KiB RAM, pattern memory, IO::new(), OAM[n]=(0x3C+3n) (complemented where equal to the source)")),
        )
        .set("active_page", J::s(format!("{:02X}", x.r.page)))
        .set("expected", f.expected)
        .set("observed", f.observed)
    });
  }
}

/// Run `setup` then `acts` from a fresh world; every step is judged.  `count_from[i]` says
/// whether step i of `acts` is a transition not yet counted by an earlier call.
/// Returns false if a step failed (the rest of the history is then abandoned).
fn run_history(w: &mut World, ctx: &mut Ctx, stage: &str, page: u8, p0: Option<usize>, acts: &[Act], counted: &[bool], label_override: Option<&str>, lazy: bool) -> bool {
  let via = w.via_core;
  let mut x = Exec::begin(w, page);
  x.via_core = via;
  x.lazy = lazy;
  let mut ok = true;
  // construct the state: arm, elapse 4p in one batch, confirm through the hook / OAM / trace
  if let Some(p) = p0 {
    for a in [Act::Rearm(0), Act::Elapse(4 * p as u32)].iter() {
      let fails = x.step(*a);
      ctx.count(C_TRACES, 1);
      if !fails.is_empty() {
        let label = label_override.unwrap_or(act_name(*a));
        report_fails(ctx, &x, stage, label, page, p0, acts, 0, fails);
        ok = false;
        break;
      }
    }
  }
  if ok {
    for (i, a) in acts.iter().enumerate() {
      x.final_step = i + 1 == acts.len();
      let fails = x.step(*a);
      ctx.count(C_TRACES, 1);
      if counted[i] {
        ctx.count(C_TRANS, 1);
      }
      ctx.class(x.last_class);
      if lazy && fails.iter().any(|f| f.field == "other-mem") {
        // noticed late: run the same history again with the comparison after every step so
        // that the failure is filed under the action that caused it
        x.finish(ctx);
        return run_history(w, ctx, stage, page, p0, acts, &[false; 8][..acts.len()], label_override, false);
      }
      if !fails.is_empty() {
        let label = label_override.unwrap_or(act_name(*a));
        report_fails(ctx, &x, stage, label, page, p0, acts, i, fails);
        ok = false;
        break;
      }
    }
  }
  x.finish(ctx);
  ok
}

fn pages_of(tier: &str) -> Vec<u8> {
  if tier == "thorough" {
    (0..=255u8).collect()
  } else {
    QUICK_PAGES.to_vec()
  }
}

fn crash_detail(stage: &'static str, pages: Vec<u8>, per_page: u64) -> impl Fn(u64, &str) -> (String, J) {
  move |case, how| {
    let page = pages[(case / per_page) as usize];
    let (cls, _) = page_class(page);
    (
      format!("C16 page={} action={} crash={}", cls, stage, how),
      J::obj().set("case", J::obj().set("stage", J::s(stage)).set("page", J::s(format!("{:02X}", page))).set("sub_case", J::u(case % per_page))),
    )
  }
}

pub fn run(tier: &str) -> i32 {
  let mut rep = Report::new("C16", tier, "model_checking");
  rep.assume("R8: write P to FF46 -> (P,0); a batch of b clocks copies k=min(160-n, floor(b/4)) bytes OAM[n+i] <- bus(P*256+n+i), ascending; n=160 -> idle; nothing else changes");
  rep.assume("the bus map itself is C10/C11's subject: the value of a source byte 'at the time it is copied' is taken with the real memory_read_byte immediately before the batch (echo/unused/I-O pages read whatever the bus returns)");
  rep.assume("batches are multiples of 4 clocks (every SM83 instruction and interrupt dispatch is); b in {0,4,..,700} and {1020,1024,1028,1280,2044,2048,2052,4096,16384,65532,65536,65540,262144,1048576}");
  rep.assume("devices at power-on (IO::new()): PPU at the start of VBlank, LCDC = 0, timer disabled, DIV phase 0.  Long batches run the PPU through whole frames: it only reads VRAM/OAM and writes its own LCD buffers, which are not memory in the sense of the statement; VRAM, cart RAM, WRAM, HRAM and the bank numbers are still compared byte for byte.  IF (raised by the PPU) is not judged");
  rep.assume("source page FF: the self-changing registers DIV, STAT, LY are judged set-valued relative to the bus value immediately before the batch (DIV +0..3, LY +0..2 lines mod 154, STAT free in bits 0-2: what an engine reading at batch start or at the exact machine cycle within the 640-clock copy window can see; with long batches these registers vary in most cases), IF is not judged; 'modify' on page FF only writes TIMA, TMA, SCY, SCX, BGP, OBP0, OBP1, WY, WX and HRAM");
  rep.assume("'modify' on ROM pages is an MBC3 ROM-bank switch (0x2100 <- 2|3), on cart RAM offset 159 a RAM-bank switch (0x4100 <- 2), elsewhere a bus write of the complemented byte; it takes effect between two batches");
  rep.assume("CPU bus conflicts during the transfer (only HRAM accessible) are outside the statement and not modelled");

  let pages = pages_of(tier);
  let image = build_image();
  let path = write_rom_file(&image);
  let npages = pages.len() as u64;

  // ------------------------------------------------------------------ stage 1: E2b
  let mut elapse_sizes: Vec<u32> = (0..=175u32).map(|i| i * 4).collect();
  elapse_sizes.extend_from_slice(&LARGE_ELAPSE);
  let opts = PoolOpts { chunk: 4, bitmap_bits: 1 << 12, ..PoolOpts::default() };
  let r1 = run_pool(
    npages * 161,
    &opts,
    |_| make_world(&path),
    |w: &mut World, case, ctx: &mut Ctx| {
      let page = pages[(case / 161) as usize];
      let ps = (case % 161) as usize;
      let p0 = if ps == 0 { None } else { Some(ps - 1) };
      let mut all_ok = true;
      for b in elapse_sizes.iter() {
        all_ok &= run_history(w, ctx, "transition-relation", page, p0, &[Act::Elapse(*b)], &[true], None, false);
      }
      for k in 0..5u8 {
        let acts = [Act::Rearm(k), Act::Elapse(8), Act::Elapse(640)];
        all_ok &= run_history(w, ctx, "transition-relation", page, p0, &acts, &[true, true, true], None, false);
      }
      // modify: distinct admissible offsets only
      let p = p0.unwrap_or(0);
      let mut seen: Vec<usize> = Vec::new();
      for k in 0..4u8 {
        let off = match k {
          0 => p.checked_sub(1),
          1 => Some(p),
          2 => if p + 1 < OAM_LEN { Some(p + 1) } else { None },
          _ => Some(OAM_LEN - 1),
        };
        match off {
          Some(o) if !seen.contains(&o) => seen.push(o),
          _ => continue,
        }
        for b in [4u32, 8, 640].iter() {
          let acts = [Act::Modify(k), Act::Elapse(*b)];
          all_ok &= run_history(w, ctx, "transition-relation", page, p0, &acts, &[true, true], None, false);
        }
      }
      if all_ok {
        ctx.count(C_STATES, 1);
      }
      {
        // make sure the restore really reproduces the pristine world; the ROM must never change
        let x = Exec::begin(w, page);
        if x.w.pristine.diff(&x.w.core.memory).is_some() || x.banks != (1, 0, 0, 1) {
          ctx.count(C_UNDO_BAD, 1);
        }
        if x.w.core.memory.rom[..] != x.w.image[..] {
          let (cls, _) = page_class(page);
          ctx.violation(&format!("C16 page={} action=elapse field=other-mem", cls), || {
            J::obj().set("case", J::obj().set("stage", J::s("transition-relation")).set("page", J::s(format!("{:02X}", page))).set("start_progress", J::u(ps as u64))).set("expected", J::s("ROM image unchanged after all actions of this state")).set("observed", J::s("ROM buffer differs from the image"))
          });
        }
      }
      if case % 161 == 0 {
        ctx.sample(|| J::obj().set("state", J::s(format!("page={:02X} progress=idle", page))).set("actions", J::s("elapse 0..700 step 4 and 14 batches of 1020..1048576 clocks; rearm {same,00,C1,FE,FF} then 8, 640 clocks; modify {0,159} then 4/8/640 clocks")));
      }
    },
    crash_detail("elapse", pages.clone(), 161),
  );
  let c1 = rep.add_stage("transition-relation", "pages x progress {idle,0..159} x (176 + 14 large batch sizes + 5 re-arms x 3 steps + <=4 source modifications x 3 batch sizes x 2 steps)", r1);

  // ------------------------------------------------------------------ stage 1b: display on
  // the same one-step relation with the LCD controller switched on and standing inside a
  // visible line (OAM search / pixel transfer / HBlank) when the case begins
  let p0s: [Option<usize>; 5] = [None, Some(0), Some(1), Some(80), Some(159)];
  let per_page1b = (p0s.len() * 3) as u64;
  let opts = PoolOpts { chunk: 2, bitmap_bits: 1 << 12, ..PoolOpts::default() };
  let r1b = run_pool(
    npages * per_page1b,
    &opts,
    |_| make_world(&path),
    |w: &mut World, case, ctx: &mut Ctx| {
      let page = pages[(case / per_page1b) as usize];
      let sub = (case % per_page1b) as usize;
      let p0 = p0s[sub / 3];
      w.lcd_ctx = 1 + (sub % 3) as u8;
      let label = format!("elapse@{}", LCD_CTX_NAME[w.lcd_ctx as usize]);
      for b in elapse_sizes.iter() {
        run_history(w, ctx, "transition-relation-lcd-on", page, p0, &[Act::Elapse(*b)], &[true], Some(label.as_str()), false);
      }
      for k in 0..5u8 {
        let acts = [Act::Rearm(k), Act::Elapse(8), Act::Elapse(640)];
        run_history(w, ctx, "transition-relation-lcd-on", page, p0, &acts, &[true, true, true], Some(label.as_str()), false);
      }
      // splits of a whole transfer: 160 x 4 clocks, and 2 batches at every 4-clock point
      if p0 == Some(0) {
        let unit = [Act::Elapse(4); 8];
        let _ = unit;
        for cut in (4..640u32).step_by(4) {
          run_history(w, ctx, "transition-relation-lcd-on", page, p0, &[Act::Elapse(cut), Act::Elapse(640 - cut)], &[true, true], Some(label.as_str()), false);
        }
      }
      w.lcd_ctx = 0;
    },
    crash_detail("elapse@lcd-on", pages.clone(), per_page1b),
  );
  let c1b = rep.add_stage("transition-relation-lcd-on", "pages x progress {idle,0,1,80,159} x LCD controller on and inside line 5 in {mode 2, mode 3, mode 0} x (176 + 14 large batch sizes + 5 re-arms x 3 steps; from progress 0 also every split of the transfer into two batches)", r1b);

  // ------------------------------------------------------------------ stage 1c: CPU asleep
  // the transfer must go on while the CPU is halted or stopped: time is delivered by
  // Core::update(), one machine cycle per call
  let p0c: [Option<usize>; 4] = [None, Some(0), Some(80), Some(159)];
  let per_page1c = (p0c.len() * 2) as u64;
  let opts = PoolOpts { chunk: 2, bitmap_bits: 1 << 12, ..PoolOpts::default() };
  let r1c = run_pool(
    npages * per_page1c,
    &opts,
    |_| make_world(&path),
    |w: &mut World, case, ctx: &mut Ctx| {
      let page = pages[(case / per_page1c) as usize];
      let sub = (case % per_page1c) as usize;
      let p0 = p0c[sub / 2];
      let halt = sub % 2 == 0;
      w.via_core = Some(halt);
      let label = if halt { "elapse@cpu-halted" } else { "elapse@cpu-stopped" };
      for b in [4u32, 8, 40, 316, 636, 640, 700].iter() {
        run_history(w, ctx, "cpu-asleep", page, p0, &[Act::Elapse(*b)], &[true], Some(label), false);
      }
      for k in 0..5u8 {
        let acts = [Act::Rearm(k), Act::Elapse(8), Act::Elapse(640)];
        run_history(w, ctx, "cpu-asleep", page, p0, &acts, &[true, true, true], Some(label), false);
      }
      w.via_core = None;
    },
    crash_detail("elapse@cpu-asleep", pages.clone(), per_page1c),
  );
  let c1c = rep.add_stage("cpu-asleep", "pages x progress {idle,0,80,159} x CPU {halted, stopped} x time delivered by Core::update(), one machine cycle per call: 7 durations up to 700 clocks and 5 re-arms x 3 steps", r1c);

  // ------------------------------------------------------------------ stage 1d: armed by the guest
  // the transfer is started (and restarted) by whatever store instruction the guest uses
  let per_page1d = (STORE_FORMS.len() * 2) as u64;
  let opts = PoolOpts { chunk: 2, bitmap_bits: 1 << 12, ..PoolOpts::default() };
  let r1d = run_pool(
    npages * per_page1d,
    &opts,
    |_| make_world(&path),
    |w: &mut World, case, ctx: &mut Ctx| {
      let page = pages[(case / per_page1d) as usize];
      let sub = (case % per_page1d) as usize;
      let form = sub / 2;
      let p0 = if sub % 2 == 0 { None } else { Some(80) };
      w.arm_form = Some(form);
      let label = format!("rearm-by {}", STORE_FORMS[form].0);
      let acts = [Act::Rearm(0), Act::Elapse(8), Act::Elapse(640)];
      run_history(w, ctx, "armed-by-instruction", page, p0, &acts, &[true, true, true], Some(label.as_str()), false);
      w.arm_form = None;
    },
    crash_detail("rearm-by-instruction", pages.clone(), per_page1d),
  );
  let c1d = rep.add_stage("armed-by-instruction", "pages x progress {idle, 80} x 9 store forms (LDH (n),A; LD (C),A; LD (HL),A; LD (nn),A; LD (HL),n; LD (HL+),A; LD (HL-),A; LD (DE),A; LD (BC),A) executed by the interpreter from work RAM: the write to 0xFF46, then 8 and 640 clocks", r1d);

  // ------------------------------------------------------------------ stage 2: histories
  let mut alphabet: Vec<Act> = Vec::new();
  for b in HIST_ELAPSE.iter() {
    alphabet.push(Act::Elapse(*b));
  }
  for k in 0..5u8 {
    alphabet.push(Act::Rearm(k));
  }
  for k in 0..4u8 {
    alphabet.push(Act::Modify(k));
  }
  let na = alphabet.len() as u64;
  let hist_p0: Vec<usize> = if tier == "thorough" { HIST_P0.to_vec() } else { HIST_P0_QUICK.to_vec() };
  let per_page2 = hist_p0.len() as u64 * na;
  let opts = PoolOpts { chunk: 2, bitmap_bits: 1 << 12, ..PoolOpts::default() };
  let r2 = run_pool(
    npages * per_page2,
    &opts,
    |_| make_world(&path),
    |w: &mut World, case, ctx: &mut Ctx| {
      let page = pages[(case / per_page2) as usize];
      let sub = case % per_page2;
      let p0v = hist_p0[(sub / na) as usize];
      let p0 = if p0v == usize::MAX { None } else { Some(p0v) };
      let a0 = alphabet[(sub % na) as usize];
      for (i1, a1) in alphabet.iter().enumerate() {
        for (i2, a2) in alphabet.iter().enumerate() {
          let acts = [a0, *a1, *a2];
          run_history(w, ctx, "histories", page, p0, &acts, &[i1 == 0 && i2 == 0, i2 == 0, true], None, true);
        }
      }
      if sub == 0 {
        ctx.sample(|| J::obj().set("history_start", J::s(format!("page={:02X} progress=idle", page))).set("alphabet", J::Arr(alphabet.iter().map(|a| act_json(*a)).collect())));
      }
    },
    crash_detail("history", pages.clone(), per_page2),
  );
  let c2 = rep.add_stage("histories", "pages x start progresses {idle,0,1,80,158,159} (quick: {idle,0,80,159}) x all 17^3 histories over {elapse 0,4,8,316,636,640,1028,16388; rearm same,00,C1,FE,FF; modify p-1,p,p+1,159}, judged after every action", r2);

  // ------------------------------------------------------------------ stage 3: batching
  // sub-case 0..=160: first batch of a*4 clocks, second b*4 for every b, third the rest
  // sub-case 161..=169: compositions of units {4,60,252} starting with the two given units
  //                     (161 also runs the three one-unit compositions)
  // sub-case 170: the 4-clock-granular run (160 batches) and long batches placed first, in the
  //               middle and last
  let per_page3 = 171u64;
  let opts = PoolOpts { chunk: 2, bitmap_bits: 1 << 12, ..PoolOpts::default() };
  let r3 = run_pool(
    npages * per_page3,
    &opts,
    |_| make_world(&path),
    |w: &mut World, case, ctx: &mut Ctx| {
      let page = pages[(case / per_page3) as usize];
      let sub = (case % per_page3) as usize;
      // one-batch run of the same world
      let (base_writes, base_oam) = {
        let mut x = Exec::begin(w, page);
        let mut ok = true;
        let acts = [Act::Rearm(0), Act::Elapse(640)];
        let mut writes = Vec::new();
        for (i, a) in acts.iter().enumerate() {
          let fails = x.step(*a);
          ctx.count(C_TRACES, 1);
          if !fails.is_empty() {
            report_fails(ctx, &x, "batching", "split", page, None, &acts, i, fails);
            ok = false;
            break;
          }
          writes = x.last_writes.clone();
        }
        let oam: Vec<u8> = x.w.core.memory.oam_ram.to_vec();
        x.finish(ctx);
        if !ok {
          return;
        }
        (writes, oam)
      };
      let volatile = |off: usize| page == 0xFF && VOLATILE_IO.contains(&off);
      let mut run_schedule = |w: &mut World, ctx: &mut Ctx, sched: &[u32]| {
        let mut acts: Vec<Act> = vec![Act::Rearm(0)];
        acts.extend(sched.iter().map(|b| Act::Elapse(*b)));
        let total: u32 = sched.iter().sum();
        if total < 640 {
          acts.push(Act::Elapse(640 - total));
        }
        let mut x = Exec::begin(w, page);
        x.lazy = true;
        let mut all: Vec<(u16, u8)> = Vec::with_capacity(OAM_LEN);
        let mut ok = true;
        for (i, a) in acts.iter().enumerate() {
          x.final_step = i + 1 == acts.len();
          let fails = x.step(*a);
          ctx.count(C_TRACES, 1);
          ctx.count(C_TRANS, 1);
          ctx.class(x.last_class | (1 << 9));
          if !fails.is_empty() {
            report_fails(ctx, &x, "batching", "split", page, None, &acts, i, fails);
            ok = false;
            break;
          }
          all.extend_from_slice(&x.last_writes);
        }
        if ok {
          ctx.count(C_SPLITS, 1);
          let mut fails: Vec<Fail> = Vec::new();
          if all.len() != base_writes.len() {
            fails.push(Fail { field: "write-count", expected: J::u(base_writes.len() as u64), observed: J::u(all.len() as u64) });
          } else if let Some(i) = (0..all.len()).find(|i| all[*i].0 != base_writes[*i].0) {
            fails.push(Fail {
              field: "write-addr",
              expected: J::obj().set("write_index", J::u(i as u64)).set("addr", J::s(format!("{:04X}", base_writes[i].0))),
              observed: J::obj().set("addr", J::s(format!("{:04X}", all[i].0))),
            });
          } else if let Some(i) = (0..all.len()).find(|i| all[*i].1 != base_writes[*i].1 && !volatile(*i)) {
            fails.push(Fail {
              field: "oam",
              expected: J::obj().set("write_index", J::u(i as u64)).set("value_in_one_batch", J::u(base_writes[i].1 as u64)),
              observed: J::obj().set("value", J::u(all[i].1 as u64)),
            });
          }
          let oam = &x.w.core.memory.oam_ram;
          if let Some(i) = (0..OAM_LEN.min(oam.len())).find(|i| oam[*i] != base_oam[*i] && !volatile(*i)) {
            fails.push(Fail {
              field: "oam",
              expected: J::obj().set("first_diff_offset", J::u(i as u64)).set("one_batch_oam", J::s(hex(&base_oam))),
              observed: J::obj().set("oam", J::s(hex(oam))),
            });
          }
          if x.w.core.memory.verif_dma_state().is_some() {
            fails.push(Fail { field: "complete", expected: J::s("idle after >= 640 clocks"), observed: dma_json(x.w.core.memory.verif_dma_state()) });
          }
          if !fails.is_empty() {
            x.w.dirty = true;
            report_fails(ctx, &x, "batching", "split", page, None, &acts, acts.len() - 1, fails);
          }
        }
        x.finish(ctx);
      };
      if sub == 170 {
        run_schedule(w, ctx, &[4u32; 160]);
        for l in LARGE_SPLIT.iter() {
          run_schedule(w, ctx, &[*l]);
          run_schedule(w, ctx, &[*l, 640]);
          for a in [0u32, 1, 80, 159, 160].iter() {
            run_schedule(w, ctx, &[4 * a, *l]);
            run_schedule(w, ctx, &[4 * a, *l, 640]);
            run_schedule(w, ctx, &[4 * a, 4, *l]);
            run_schedule(w, ctx, &[4 * a, *l, 4, *l]);
          }
        }
      } else if sub <= 160 {
        let a = sub as u32;
        // two batches
        run_schedule(w, ctx, &[4 * a, 640 - 4 * a]);
        // three batches (b = 0 is the two-batch split with an empty middle batch)
        for b in 0..=(160 - a) {
          run_schedule(w, ctx, &[4 * a, 4 * b, 640 - 4 * a - 4 * b]);
        }
      } else {
        let idx = sub - 161;
        let (u0, u1) = (COMP_UNITS[idx / 3], COMP_UNITS[idx % 3]);
        if idx == 0 {
          for u in COMP_UNITS.iter() {
            run_schedule(w, ctx, &[*u]);
          }
        }
        // all extensions of (u0, u1) by 0..=6 further units (0..=4 on the pages that are
        // not region-boundary pages)
        let max_extra = if QUICK_PAGES.contains(&page) { 6u32 } else { 4u32 };
        let mut sched: Vec<u32> = Vec::with_capacity(8);
        for extra in 0..=max_extra {
          let n = 3u32.pow(extra);
          for code in 0..n {
            sched.clear();
            sched.push(u0);
            sched.push(u1);
            let mut c = code;
            for _ in 0..extra {
              sched.push(COMP_UNITS[(c % 3) as usize]);
              c /= 3;
            }
            run_schedule(w, ctx, &sched);
          }
        }
      }
      if sub == 0 {
        ctx.sample(|| J::obj().set("batching", J::s(format!("page={:02X}: FF46 write, then 640 clocks as (0, 4b, 640-4b) for b=0..160; compared with one batch of 640", page))));
      }
    },
    crash_detail("split", pages.clone(), per_page3),
  );
  let c3 = rep.add_stage("batching", "pages x (161 two-batch + 13041 three-batch splits of 640 clocks at 4-clock granularity + all compositions of 1..8 units (9843; on non-boundary pages 1..6 units, 1095) of {4,60,252} clocks, completed to 640 + the 160 x 4-clock run + 176 schedules with a batch of {1024,1028,1280,2048,4096,65536,65540,1048576} clocks first / in the middle / last)", r3);

  let _ = std::fs::remove_file(&path);

  let transitions = c1[C_TRANS] + c1b[C_TRANS] + c1c[C_TRANS] + c1d[C_TRANS] + c2[C_TRANS] + c3[C_TRANS];
  let traces = c1[C_TRACES] + c1b[C_TRACES] + c1c[C_TRACES] + c1d[C_TRACES] + c2[C_TRACES] + c3[C_TRACES];
  let states = c1[C_STATES];
  let left = c1[C_LEFT_VBLANK] + c2[C_LEFT_VBLANK] + c3[C_LEFT_VBLANK];
  rep.cov("cases_running_past_the_power_on_vblank", J::u(left));
  let undo_bad = c1[C_UNDO_BAD] + c2[C_UNDO_BAD] + c3[C_UNDO_BAD];
  if undo_bad != 0 {
    rep.machinery_soft(format!("{} cases: restoring the world did not reproduce the pristine memory", undo_bad));
  }
  if states != npages * 161 && rep.violations.is_empty() && rep.machinery.is_empty() {
    rep.machinery_soft(format!("only {} of {} states were constructed and confirmed although no violation was reported", states, npages * 161));
  }
  rep.evaluations = traces;
  rep.cov("states", J::u(states));
  rep.cov("states_total", J::u(npages * 161));
  rep.cov("transitions", J::u(transitions));
  rep.cov("traces_validated_against_impl", J::u(traces));
  rep.cov("source_pages", J::u(npages));
  rep.cov("dma_byte_copies_traced", J::u(c1[C_BYTES] + c1b[C_BYTES] + c2[C_BYTES] + c3[C_BYTES]));
  rep.cov("batch_schedules_compared_with_one_batch", J::u(c3[C_SPLITS]));
  rep.cov("modify_actions_without_admissible_target", J::u(c1[C_MODSKIP] + c2[C_MODSKIP] + c3[C_MODSKIP]));
  rep.cov("volatile_io_source_bytes_set_valued", J::u(c1[C_VOLATILE] + c2[C_VOLATILE] + c3[C_VOLATILE]));
  rep.cov(
    "rule",
    J::s("every (page, progress) state is built on the real MemoryAreas by arming and elapsing 4p clocks and confirmed through verif_dma_state, OAM and the bus trace; every action of the alphabet is executed from it and judged against R8 on all of OAM, progress/completion, the write trace (addresses ascending from FE00+n, exact count) and a byte-for-byte shadow of VRAM, cart RAM, WRAM, HRAM and the MBC banks; an outcome class is (page class, progress class before, action/outcome kind, stage)"),
  );
  rep.finish()
}
