// Generates the module tree that binds this crate to the repository's sources by absolute
// #[path].  The repository root is /repo unless GBMC_REPO names another checkout (used to
// run a check against a scratch worktree, e.g. with a seeded change applied, without
// touching /repo).
fn main() {
  let repo = std::env::var("GBMC_REPO").unwrap_or_else(|_| "/repo".to_string());
  let out = std::env::var("OUT_DIR").expect("OUT_DIR");
  let mods = [
    ("cache/mod.rs", "cache"),
    ("cart.rs", "cart"),
    ("cpu.rs", "cpu"),
    ("debug/mod.rs", "debug"),
    ("decoder/mod.rs", "decoder"),
    ("devices/mod.rs", "devices"),
    ("emitter/mod.rs", "emitter"),
    ("emulator.rs", "emulator"),
    ("interpreter/mod.rs", "interpreter"),
    ("mem.rs", "mem"),
    ("system/mod.rs", "system"),
    ("timing.rs", "timing"),
  ];
  let mut s = String::new();
  for (file, name) in mods.iter() {
    s.push_str(&format!("#[path = \"{}/src/{}\"]\npub mod {};\n", repo, file, name));
  }
  std::fs::write(format!("{}/repo_mods.rs", out), s).expect("write repo_mods.rs");
  println!("cargo:rerun-if-env-changed=GBMC_REPO");
  println!("cargo:rerun-if-changed=build.rs");
}
