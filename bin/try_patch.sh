#!/bin/bash
# bin/try_patch.sh <patch.diff> <ID> [<ID> ...]     (env TIER=quick|thorough, SLOT=name)
# Runs checks against a scratch worktree of /repo with the patch applied, WITHOUT touching
# /repo or /verif/evidence (GBMC_REPO / GBMC_VERIF_ROOT point at the scratch copies).
# Exit status: 1 if any check reported a violation, 0 if none did, 2 on machinery trouble.
P="$(readlink -f "$1")"; shift
TIER="${TIER:-quick}"; SLOT="${SLOT:-a}"
WT=/tmp/gbmc_try_$SLOT/repo; OUT=/tmp/gbmc_try_$SLOT/out
mkdir -p /tmp/gbmc_try_$SLOT
exec 9>/tmp/gbmc_try_$SLOT/lock; flock 9
if [ ! -d "$WT" ]; then git -C /repo worktree add -q --detach "$WT" HEAD || exit 2; fi
git -C "$WT" checkout -q --detach "$(git -C /repo rev-parse HEAD)" 2>/dev/null
git -C "$WT" checkout -q -- . ; git -C "$WT" clean -fdq -e target
git -C "$WT" apply "$P" || { echo "patch does not apply" >&2; exit 2; }
rm -rf "$OUT"; mkdir -p "$OUT/evidence"; cp /verif/known_findings.txt "$OUT/"
worst=0
for ID in "$@"; do
  GBMC_REPO="$WT" GBMC_VERIF_ROOT="$OUT" GBMC_TMP="/tmp/gbmc_try_$SLOT/tmp" /verif/bin/check "$ID" "$TIER" 2>&1 | grep -E "^(OK|FAIL|ERROR|MACHINERY|VIOLATION|KNOWN|  key)" | head -${LINES_MAX:-8}
  rc=${PIPESTATUS[0]}
  [ $rc -gt $worst ] && worst=$rc
done
git -C "$WT" checkout -q -- .
exit $worst
