#!/usr/bin/env python3
"""store_seeded.py <worktree> <seed-id> <property> <needs> <ran> <caught_by>
Copies a confirmed seeded change (mutation.diff, demo/, REPORT.md) to /verif/seeded/<seed-id>/ with meta.json."""
import sys, os, shutil, json
wt, sid, prop, needs, ran, caught = sys.argv[1:7]
dst = os.path.join('/verif/seeded', sid)
os.makedirs(dst, exist_ok=True)
shutil.copy(os.path.join(wt, 'mutation.diff'), os.path.join(dst, 'patch.diff'))
if os.path.isdir(os.path.join(wt, 'demo')):
    shutil.rmtree(os.path.join(dst, 'demo'), ignore_errors=True)
    shutil.copytree(os.path.join(wt, 'demo'), os.path.join(dst, 'demo'), ignore=shutil.ignore_patterns('target', '*.o', 'gbdemo*', '*.rlib'))
if os.path.exists(os.path.join(wt, 'REPORT.md')):
    shutil.copy(os.path.join(wt, 'REPORT.md'), os.path.join(dst, 'REPORT.md'))
meta = dict(seed=sid, breaks_property=prop, needs_to_manifest=needs, what_was_run=ran, detected_by=caught,
            origin="written by an independent sub-agent given only the property text and a scratch worktree of /repo")
json.dump(meta, open(os.path.join(dst, 'meta.json'), 'w'), indent=1)
print("stored", dst)
