#!/bin/bash
# bin/try_mutant.sh <patch.diff> <ID> [tier]   apply a seeded change to /repo, run the check, undo.
# prints the check's verdict lines; exit status = check's exit status (1 expected for a caught mutant)
P="$1"; ID="$2"; TIER="${3:-quick}"
cd /repo || exit 2
if ! git diff --quiet; then echo "/repo has uncommitted changes" >&2; exit 2; fi
git apply "$P" || { echo "patch does not apply" >&2; exit 2; }
/verif/bin/check "$ID" "$TIER" 2>&1 | grep -E "^(OK|FAIL|ERROR|MACHINERY|VIOLATION|KNOWN|  key)" | head -${LINES_MAX:-12}
rc=${PIPESTATUS[0]}
git -C /repo checkout -- .
# evidence of the unchanged tree must be what stays on disk: rerun is the caller's business
exit $rc
