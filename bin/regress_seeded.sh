#!/bin/bash
# bin/regress_seeded.sh [name-glob]   re-run every stored seeded change against the check of the
# property it breaks (scratch worktree, /repo untouched) and write seeded/RESULTS.tsv:
#   <seed> <property> <check run> <verdict: caught|MISSED|error> <first key>
cd "$(dirname "$0")/.."
export SLOT="${SLOT:-r}"
OUT=seeded/RESULTS.tsv
: > "$OUT.tmp"
for d in seeded/${1:-*}/; do
  n=$(basename "$d"); [ -f "$d/patch.diff" ] || continue
  prop=$(python3 -c "import json;print(json.load(open('$d/meta.json'))['breaks_property'])")
  # two changes are, by design, reported by the property that owns the broken behaviour
  case "$n" in
    C01c-*) chk=C03 ;;
    C04h-*) chk=C01 ;;
    C10b-*|C10c-*) chk=C12 ;;
    C10d-*|C10e-*) chk=C13 ;;
    C18e-*) chk=C03 ;;
    C12d-*|C12e-*) chk=C03 ;;
    *) chk=$prop ;;
  esac
  # first pass with the instrumented builds only; the full check (release-profile rerun,
  # shipping-build stages) only if that did not report it
  res=$(GBMC_FAST=1 LINES_MAX=8 bin/try_patch.sh "$d/patch.diff" "$chk" 2>&1)
  if ! echo "$res" | grep -q "^VIOLATION property=$chk"; then
    res=$(LINES_MAX=8 bin/try_patch.sh "$d/patch.diff" "$chk" 2>&1)
  fi
  if echo "$res" | grep -q "^VIOLATION property=$chk"; then v=caught; elif echo "$res" | grep -q "^OK $chk"; then v=MISSED; else v=error; fi
  key=$(echo "$res" | grep -m1 "^  key:" | sed 's/^  key: //')
  printf "%s\t%s\t%s\t%s\t%s\n" "$n" "$prop" "$chk" "$v" "$key" | tee -a "$OUT.tmp"
done
# merge: rows of this run replace rows of the same seed, all other rows are kept
touch "$OUT"
awk -F'\t' 'NR==FNR { new[$1]=$0; next } !($1 in new) { print }' "$OUT.tmp" "$OUT" > "$OUT.keep"
cat "$OUT.keep" "$OUT.tmp" | sort > "$OUT"; rm -f "$OUT.keep" "$OUT.tmp"
git -C /repo worktree remove --force /tmp/gbmc_try_$SLOT/repo 2>/dev/null; rm -rf /tmp/gbmc_try_$SLOT
