#!/usr/bin/env python3
"""Regenerates /verif/MANIFEST.json from the table below (one entry per property).
A property whose check module is not yet registered in harness/src/checks/mod.rs is listed
under not_applicable with the reason 'not yet implemented' so the manifest is valid at
every commit."""
import json, os, re, sys

ROOT = os.path.dirname(os.path.dirname(os.path.abspath(__file__)))

CHECKS = {
 "C01": dict(cat="translation_validation", engine="E1+E4",
   technique="exhaustive enumeration of blocks x operand states on the real emitter, interpreter as oracle (bounded exhaustive differential execution)",
   text="Every defined opcode encoding is translated by the real emitter and executed as x86-64 code next to interpreter::run_code_block from the same state: complete A x operand x F spaces for 8-bit forms, all 65536 pointer values for memory forms, all ordered pairs of instructions, every terminator kind, ROM placements incl. the banked boundary, and positions behind NOP prefixes; registers, status, the ordered bus-write trace and a digest of all memory must agree and the worker process must survive. Repeated for all single-instruction blocks x pointer-region vectors in a hooks-off build with the repository's release settings under four host-register states at block entry. In the jit build the same bytes are also run by Core::run_code_block from ROM (translated) and from work RAM (interpreted) for ten status-producing blocks x three master-enable states x five request patterns.",
   note="Interpreter is the oracle (itself judged by C05/C06); translated code runs in forked workers; blocks longer than 3 instructions are covered by template representatives and selected long blocks only.", ref="5/C01"),
 "C02": dict(cat="translation_validation", engine="E1+E4",
   technique="exhaustive enumeration of opcode x flag state (both branch outcomes) and block sums on the real emitter vs interpreter",
   text="Registers.cycles after the translated block equals the interpreter's for every defined encoding under all 16 flag states (taken and not-taken of every conditional form), all instruction pairs, long blocks, banked placements, NOP-prefixed positions, the complete operand sweeps of C01, and the hooks-off release-settings build.",
   note="Cycle truth of the interpreter itself is C06's business (independent SM83 table).", ref="5/C02"),
 "C03": dict(cat="model_checking", engine="E2a+E3",
   technique="depth-bounded exhaustive enumeration of block-execution/bank-write histories on the real Core in three configurations (warm cache, cache emptied every step, interpreter build)",
   text="All event histories up to the stated depth over run(addr)/bank-register-write events on multi-bank MBC1 and MBC3 ROM files whose banks differ at the same addresses; per-step state digests of the three configurations must agree. Events include bank switches performed from work RAM and through the bus between blocks, a block on the last address of the switchable bank, a fixed-bank block that ends with an instruction straddling 0x4000, and small images on which bank 0 appears in the switchable window.",
   note="History depth is the bound; banks and addresses are a fixed small alphabet chosen so that every bank holds different code.", ref="5/C03"),
 "C04": dict(cat="translation_validation", engine="E3",
   technique="exhaustive enumeration of generated multi-block programs (fragment sequences up to a length bound) run in jit and non-jit builds, per-step state digests compared",
   text="Every program over the fragment alphabet up to the stated length is assembled into a real ROM file and stepped block by block in both build configurations; registers, memory, IF/IE, timer, LCD, frame buffers, DMA, controller state and serial output must agree after every step. Plus 48 long-running pressure programs (bank orders x 5..12 entry points per bank into a 12 KiB sled) that empty the 8 MiB translation area several times each. Fragments read banked data from fixed-bank code and execute an instruction that straddles 0x3FFF/0x4000 under different banks.",
   note="Program size (fragments from a fixed alphabet) and step budget are the bounds.", ref="5/C04"),
 "C05": dict(cat="exploration", engine="E1",
   technique="exhaustive enumeration of operand/flag spaces on interpreter::run_next_op vs an independent SM83 reference",
   text="All data opcodes over complete (A, operand, F) spaces, all 2^16 values for 16-bit inc/dec, 2^16 x 2^8 for SP-relative forms, all POP AF words, ADD HL,rr boundary product (quick) / all 2^32 pairs (thorough); results, flags and register-pair range compared with R1. The sweeps are repeated in a hooks-off build with the repository's release settings (registers, flags, cycles, status, refusal, bytes at the predicted write addresses).",
   note="R1 is written from the opcode bit-field decomposition and self-tested against arithmetic definitions (decimal add/subtract for DAA).", ref="5/C05"),
 "C06": dict(cat="exploration", engine="E1",
   technique="exhaustive enumeration of encodings x flags x PC/SP placements x targets on interpreter::run_next_op vs independent length/cycle/terminator tables",
   text="All 512 encodings x 16 flag states x PC placements incl. region ends; all 256 JR displacements, all 65536 JP/CALL targets and SP values for stack forms; PC, SP, cycles, stack bytes, block-end flag, and refusal of the 11 undefined opcodes. The sweeps are repeated in a hooks-off build with the repository's release settings (no debug assertions, no overflow checks).",
   note="Instruction bytes are placed in ROM, WRAM and HRAM of a real Core; R1 tables are independent of decoder/mod.rs.", ref="5/C06"),
 "C07": dict(cat="model_checking", engine="E2b",
   technique="one-step conformance of Core::handle_interrupt from every (IF, IE, IME, run state, SP, PC) state against a reference interrupt controller",
   text="Complete IF x IE x IME x run-state product with SP over boundary set (quick) / all 65536 values (thorough), reached directly and through update()/run_interp; every field, the pushed bytes and 'nothing else written' (bus trace) compared with R4. The five charged cycles must reach the devices with the next block in both builds (jit build as a separate process): exactly 20 clocks more than the same update() entered without the charge.",
   note="Where hardware order is unspecified (pushed low byte landing on IF while it is acknowledged) R4 accepts both outcomes.", ref="5/C07"),
 "C08": dict(cat="model_checking", engine="E2a",
   technique="depth-bounded exhaustive enumeration of instruction sequences over the EI/DI/RETI/HALT/STOP alphabet on Core::update, lock-step with a reference state machine",
   text="Every sequence up to the stated length over {EI, DI, RETI, HALT, STOP, NOP, raise request, write IE} from every initial IME/IF/IE state, executed one instruction at a time in the non-jit build; IME, run state, PC, SP, IF after every step must match R1+R4.",
   note="HALT executed with an enabled request already pending is excluded as the property says.", ref="5/C08"),
 "C09": dict(cat="model_checking", engine="E2a+E3",
   technique="exhaustive enumeration of programs/step sequences in three stepping regimes; delivered device time (divider phase hook) checked against CPU cycles per step",
   text="For every generated program and every step: delta of the timer's divider phase = 4 x (machine cycles of the step + 5 per dispatch + 1 per halted step); every step advances time; run_frame terminates within two frames plus a block. The program alphabet switches the display off and on again; DMA progress is a third device clock.",
   note="Instruction cycles come from R1 in the non-jit regimes and from last_block_cycle_length in the jit regime.", ref="5/C09"),
 "C10": dict(cat="exploration", engine="E1",
   technique="exhaustive enumeration of (write address, probe address) pairs on the real bus helpers vs a reference memory map",
   text="For every base set-up, every one of the 65536 write targets x values is applied to the real MemoryAreas and to R2 and all 65536 addresses are read back and compared under the per-address mask; all ordered pairs of writes over the boundary set; fetch view vs data view. Set-ups include ROM sizes that are not a power of two and the display running with the LCD controller standing in mode 2, 3 and 0 of a visible line. For 2 KiB cartridge RAM (which mirrors inside its window) every address of the window is written and read back at the same address.",
   note="I/O read-back is judged only for the 17 registers and bits the property lists.", ref="5/C10"),
 "C11": dict(cat="fault_enumeration", engine="E1+E4",
   technique="exhaustive enumeration of header configurations x controller register states x addresses x access kinds in crash-isolated workers",
   text="Cores built by Core::from_rom_file for every supported (type, ROM size, RAM size) combination; every address x {read, write, word read, word write} at extreme register states and every register state x region-edge addresses; any worker death is a violation. Files shorter than their header declares are offered to the real loader and every accepted one is swept with the last bank selected. Six device states reached by register writes and elapsed time x every I/O address x all byte and word values. Every LCDC value x boundary values of SCY, SCX, WX, WY x three video RAM / OAM contents, followed by a whole frame of time (values that crash the pixel pipeline only in combination and only when time passes). Every configuration x 4 banking-register states x all 256 OAM DMA source pages with time passing.",
   note="Factorisation of the register-state x address product is stated in the evidence.", ref="5/C11"),
 "C12": dict(cat="model_checking", engine="E2c+E2b",
   technique="breadth-first closure of the MBC register state machine on the real bus (all 256 write values per register window) in lock-step with a reference controller",
   text="From power-on, every reachable controller state x every write is executed on a real Core loaded from a ROM file whose banks carry their own index; visible ROM bank, bank 0 and RAM bank compared with R3 after every transition, for every supported type and several sizes. Once per configuration the controller of the machine built by the real load path is compared with the controller the header tables give under the same register writes.",
   note="R3 is set-valued where the statement leaves room (MBC1 mode-1 upper bits on >=64 banks, MBC3 RAM-bank values 4-0xFF, disabled RAM).", ref="5/C12"),
 "C13": dict(cat="model_checking", engine="E2b",
   technique="one-step conformance of Timer from every (divider phase, TAC, TIMA, TMA) state under every action against a clock-by-clock reference, plus exhaustive batching compositions",
   text="All 65536 phases x 8 TAC x boundary TIMA/TMA x {register writes, elapse d}; compositions of N<=10 batches compared with one batch of the same total. All 3-action (thorough 4-action) histories over 17 letters from 128 states; DIV/TIMA/IF through the bus with time delivered by MemoryAreas::run_clock_cycles while a DMA is in flight or the display is on, incl. batches of 65536..131076 clocks.",
   note="DIV write while the selected bit is high: both outcomes accepted (statement leaves it open).", ref="5/C13"),
 "C14": dict(cat="model_checking", engine="E2b",
   technique="stride walks covering every (frame position, batch size) pair on VideoState::run_clock_cycles against a closed-form schedule",
   text="For every batch size and start offset the PPU is stepped across three frames; LY, mode, STAT bits and returned interrupt flags compared with R6 after every batch, for every STAT enable mask and a set of LYC values. Written STAT bytes include the read-only bits 0-2 and bit 7. LY/STAT/IF through the bus with time delivered by MemoryAreas::run_clock_cycles while a DMA is in flight or the timer runs, six batch schedules.",
   note="STAT/LYC write-time requests are not judged.", ref="5/C14"),
 "C15": dict(cat="exploration", engine="E1",
   technique="factor-complete enumeration of scroll/window/object/palette parameters over structured VRAM/OAM images, real PPU frame vs reference pixel function",
   text="Frames rendered through run_clock_cycles for all 256 values of each scroll/window coordinate, all object X/Y positions, attribute combinations, priority pairs and the ten-per-line family are compared pixel by pixel with R7. A scene family changes every single LCDC bit between consecutive frames in both directions with objects on the first and last visible line. Consecutive frames that show the same pixels in other places (one object moved / mirrored over a blank background).",
   note="VRAM/OAM contents are structured images, not all contents; documented hardware glitches (WX=166, WX<7 with fine scroll) not judged.", ref="5/C15"),
 "C16": dict(cat="model_checking", engine="E2b+E2a",
   technique="one-step conformance of the OAM DMA engine from every (progress, source page) state under every batch size/re-arm/source modification, plus depth-3 histories",
   text="All 256 pages x 161 progress values x batch sizes; OAM, progress and the bus-write trace (exactly 0xFE00+n ascending, nothing else) compared with R8. The one-step relation is repeated with the display on and the LCD controller standing in mode 2, 3 and 0 of a visible line. Time delivered by Core::update() with the CPU halted / stopped; the 0xFF46 write made by the interpreter executing nine store forms.",
   note="Source read through the reference bus map at copy time.", ref="5/C16"),
 "C17": dict(cat="model_checking", engine="E2b",
   technique="complete one-step transition relation of the joypad (all states x all actions) against a reference matrix model",
   text="256 button states x 4 selections x (press/release of 8 buttons, all 256 select-write values), through the Joypad API and through IO/IF; P1 & 0x3F, request and once-only reporting compared with R8. All histories of 2 (thorough 4) actions over a 20-letter alphabet from every state, judged after every action. Events delivered to the IO of a real Core followed by one Core::update() with the CPU running, halted and stopped.",
   note="P1 bits 6-7 not judged.", ref="5/C17"),
 "C18": dict(cat="model_checking", engine="E2a+E3+E2E",
   technique="depth-bounded exhaustive enumeration of SB/SC write sequences compiled to ROM programs, captured fd 1 of jit/non-jit workers and of the real binary vs reference",
   text="Every sequence up to the stated length over SB/SC writes x three store forms; bytes captured from standard output must equal SB at each SC write with bit 7, in order, nothing else. Every short sequence is also run under other device activity: OAM DMA in flight, display on, timer running, IE/IF all set. 16-bit stores that land on the serial registers (LD (a16),SP at FF00/FF01/FF02, PUSH at SP=FF03) x 30 byte pairs in both builds.",
   note="End-to-end subset through the real executable in both feature configurations.", ref="5/C18"),
 "C19": dict(cat="fault_enumeration", engine="E1+E4+E2E",
   technique="exhaustive enumeration of checksum byte, (type, ROM-size, RAM-size) triples and file lengths on the loader functions, crash-isolated, plus the real binary",
   text="All 256 checksum values over structured header patterns, all 2^24 type/size triples, file lengths around 0x100/0x150/declared size; accept/reject, decoded sizes and survival of a read of the last declared ROM byte. For every accepted file the controller of the loaded machine is compared with Header::create_cart_state() under the same register writes; the end-to-end stage tells accepted from rejected files by marker bytes the file's own program sends.",
   note="Header bytes outside type/size/checksum are structured patterns (the property's 'random elsewhere' replaced by deterministic enumeration).", ref="5/C19"),
 "C20": dict(cat="exploration", engine="E1",
   technique="exhaustive enumeration of all addresses in both notations, all strings up to a length bound over a hazard alphabet, and all sequences of <=2 complete instructions",
   text="parse_address over all 65536 values x notations and out-of-range numbers; parse_command over every string of length <= 5 over a 17-symbol alphabet vs a reference tokenizer; disassemble tiling vs R1 lengths and decoder. Every 2-byte instruction x all 256 operand bytes and every 3-byte instruction x complete operand bytes (thorough: all 65536 words) through disassemble.",
   note="Line length and instruction-sequence length are the bounds.", ref="5/C20"),
}

def implemented():
    src = open(os.path.join(ROOT, "harness/src/checks/mod.rs")).read()
    return set(re.findall(r'"(C\d\d)" =>', src))

def main():
    impl = implemented()
    checks, na = [], []
    for pid in sorted(CHECKS):
        c = CHECKS[pid]
        if pid not in impl:
            na.append(dict(property_id=pid, reason="check not yet implemented in this commit (planned: DESIGN.md section %s)" % c["ref"]))
            continue
        checks.append(dict(
            property_id=pid,
            quick_cmd="bin/check %s quick" % pid,
            thorough_cmd="bin/check %s thorough" % pid,
            evidence_file="evidence/%s.json" % pid,
            replay_cmd_template="bin/check %s --replay {path}" % pid,
            engine=c["engine"],
            level_claimed=dict(category=c["cat"], text=c["text"], design_ref="DESIGN.md section " + c["ref"]),
            level_note=c["note"],
            technique=c["technique"],
        ))
    hooks = os.popen("git -C /repo log --format=%H --grep='^verif hook' 2>/dev/null").read().split()
    m = dict(
        version=1,
        setup_cmd="bin/check --build",
        hooks=dict(
            guard="gb_dynarec_verif",
            enable="RUSTFLAGS='--cfg gb_dynarec_verif' cargo build (harness crate /verif/harness binds /repo/src by #[path]; bin/check does this)",
            baseline_off_cmd="cd /repo && cargo test --workspace --no-fail-fast --offline",
            source_commits=hooks,
            add_only=True,
        ),
        engines=[
            dict(name="E1 exhaustive input-space sweep", path="harness/src/util/pool.rs", serves_properties=["C01","C02","C05","C06","C10","C11","C15","C19","C20"], kind_free_text="nested-range enumeration of a finite input space on the real code with a reference-model oracle"),
            dict(name="E2 explicit-state exploration", path="harness/src/checks", serves_properties=["C03","C07","C08","C12","C13","C14","C16","C17","C18"], kind_free_text="depth-bounded histories / one-step conformance from every state / BFS closure, reference model in lock-step on every transition"),
            dict(name="E3 cross-configuration scenario streams", path="harness/src/checks", serves_properties=["C03","C04","C09","C18"], kind_free_text="same enumerated scenarios executed in jit and non-jit builds of the same sources; per-step digests compared"),
            dict(name="E4 crash-isolated workers", path="harness/src/util/pool.rs", serves_properties=["C01","C02","C11","C12","C19"], kind_free_text="forked workers publish the current case in shared memory; a death is attributed, replayed twice in isolation and reported as a violation"),
        ],
        checks=checks,
        not_applicable=na,
        notes="All checks are bounded exhaustive enumeration (model-checking family); no sampling. VERIF_SEED is recorded but unused. Every check additionally reruns its quick tier in a release-profile build of the harness (opt-level 3, no overflow checks, no debug assertions) and folds the result in as one more stage. Known findings: known_findings.txt (committed, never written at run time) - one open finding, C03 thorough tier (a translated block in the switchable ROM bank that switches its own bank; DESIGN.md section 9), printed as KNOWN-FINDING with exit 0; all other entries are fixed: records that suppress nothing.",
    )
    json.dump(m, open(os.path.join(ROOT, "MANIFEST.json"), "w"), indent=1)
    print("MANIFEST.json: %d checks, %d not yet implemented" % (len(checks), len(na)))

main()
