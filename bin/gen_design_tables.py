#!/usr/bin/env python3
"""Regenerates the two generated tables of DESIGN.md (between the <!-- gen:... --> markers):
   fixes   from /repo's `fix:` commits and the `fixed:` records of known_findings.txt
   seeded  from seeded/*/meta.json"""
import json, os, re, subprocess, glob
root = os.path.dirname(os.path.dirname(os.path.abspath(__file__)))
design = os.path.join(root, 'DESIGN.md')
text = open(design).read()

def esc(s):
    return s.replace('|', '\\|').replace('\n', ' ')

# ---- fixes
fixed = {}
for line in open(os.path.join(root, 'known_findings.txt')):
    m = re.match(r'fixed: property=(\S+) (\w+) (.*)', line.strip())
    if not m: continue
    prop, commit, rest = m.groups()
    k = re.search(r'\[key: (.*)\]\s*$', rest)
    e = fixed.setdefault(commit, {'props': [], 'key': k.group(1) if k else ''})
    if prop not in e['props']: e['props'].append(prop)
log = subprocess.run(['git', '-C', '/repo', 'log', '--reverse', '--format=%h %s'], capture_output=True, text=True).stdout.splitlines()
rows = ['| commit | property | defect (commit subject) | first violation key |', '|--------|----------|-------------------------|---------------------|']
nfix = 0
for l in log:
    h, s = l.split(' ', 1)
    if not s.startswith('fix:'): continue
    nfix += 1
    e = None
    for c, v in fixed.items():
        if h.startswith(c) or c.startswith(h): e = v
    props = ', '.join(e['props']) if e else '?'
    key = e['key'] if e else ''
    rows.append('| `%s` | %s | %s | `%s` |' % (h, props, esc(s[4:].strip()), esc(key)))
fix_table = '\n'.join(rows)

# ---- seeded
rows = ['| seeded change | property | what it needs to manifest | reported by |', '|---------------|----------|---------------------------|-------------|']
n = 0
for d in sorted(glob.glob(os.path.join(root, 'seeded', '*'))):
    mp = os.path.join(d, 'meta.json')
    if not os.path.exists(mp): continue
    m = json.load(open(mp)); n += 1
    rows.append('| `%s` | %s | %s | %s |' % (m['seed'], m['breaks_property'], esc(m['needs_to_manifest']), esc(m['detected_by'])))
seed_table = '\n'.join(rows)

# ---- per property, from evidence
lines = []
for i in range(1, 21):
    pid = 'C%02d' % i
    ep = os.path.join(root, 'evidence', pid + '.json')
    if not os.path.exists(ep):
        continue
    e = json.load(open(ep))
    cov = e['coverage']
    lines.append('**%s** — tier %s, %s evaluations, %s distinct outcome classes, %.1f s%s' % (
        pid, e['tier'], format(cov['evaluations'], ','), format(cov['distinct_nontrivial'], ','), e['wall_s'],
        '' if cov.get('exhaustive', True) else ' (a cap was hit: %s)' % '; '.join(cov.get('caps_hit', []))))
    lines.append('')
    for st in cov.get('stages', []):
        sp = st.get('space', '')
        lines.append('* `%s` — %s%s cases%s%s' % (
            st['stage'], (esc(sp) + ' — ') if sp else '', format(st.get('cases', 0), ','),
            (', %s classes' % format(st['distinct_outcome_classes'], ',')) if 'distinct_outcome_classes' in st else '',
            (', %.1f s' % st['wall_s']) if 'wall_s' in st else ''))
    lines.append('')
perprop = '\n'.join(lines)

def sub(name, body):
    global text
    pat = re.compile(r'(<!-- gen:%s -->\n).*?(\n<!-- /gen:%s -->)' % (name, name), re.S)
    assert pat.search(text), name
    text = pat.sub(lambda m: m.group(1) + body + m.group(2), text)
sub('fixes', fix_table)
sub('seeded', seed_table)
sub('perprop', perprop)
open(design, 'w').write(text)
print('fix commits:', nfix, 'seeded changes:', n)
