#!/bin/bash
# bin/confirm_seed.sh <agent-worktree> '<demo command run inside the worktree>' <ID> [<ID>...]
# Confirms a seeded change before it is kept:
#   1. mutation.diff alone applies to /repo's HEAD (scratch worktree), builds in both feature sets,
#      and the unchanged test suite reports 98 passed;
#   2. the demonstration fails with the change and passes without it (run in the agent's worktree);
#   3. runs the named checks against the scratch worktree (bin/try_patch.sh) and prints their verdicts.
WT="$1"; DEMO="$2"; shift 2
SLOT="${SLOT:-a}"
S=/tmp/gbmc_try_$SLOT/repo
mkdir -p /tmp/gbmc_try_$SLOT
[ -d "$S" ] || git -C /repo worktree add -q --detach "$S" HEAD || exit 2
git -C "$S" checkout -q --detach "$(git -C /repo rev-parse HEAD)"; git -C "$S" checkout -q -- .; git -C "$S" clean -fdq -e target
git -C "$S" apply "$WT/mutation.diff" || { echo "CONFIRM: mutation.diff does not apply to HEAD"; exit 2; }
echo "CONFIRM diffstat: $(git -C "$S" diff --shortstat)"
( cd "$S" && export CARGO_NET_OFFLINE=true CARGO_TARGET_DIR=/tmp/gbmc_try_$SLOT/ctarget
  cargo build --offline 2>&1 | grep -E "^error|Finished" | head -3
  cargo build --offline --features jit 2>&1 | grep -E "^error|Finished" | head -3
  cargo test --workspace --no-fail-fast --offline 2>&1 | grep -E "^test result|FAILED|panicked" | head -5 )
git -C "$S" checkout -q -- .
if [ -n "$DEMO" ]; then
  ( cd "$WT" && export CARGO_NET_OFFLINE=true
    echo "--- demo WITH change (expect failure):"; bash -c "$DEMO" 2>&1 | grep -E "test result|FAIL|PASS|panicked|assert|ok$|passed|failed|mismatch|differ" | head -8
    git apply -R mutation.diff || { echo "CONFIRM: cannot revert mutation in agent worktree"; exit 2; }
    echo "--- demo WITHOUT change (expect pass):"; bash -c "$DEMO" 2>&1 | grep -E "test result|FAIL|PASS|panicked|assert|ok$|passed|failed|mismatch|differ" | head -8
    git apply mutation.diff )
fi
[ $# -gt 0 ] && SLOT=$SLOT LINES_MAX=${LINES_MAX:-6} /verif/bin/try_patch.sh "$WT/mutation.diff" "$@"
