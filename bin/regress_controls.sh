#!/bin/bash
# bin/regress_controls.sh [control-glob]   run every check (quick) against every negative control
# under controls/ (scratch worktree, /repo untouched) and write controls/RESULTS.tsv:
#   <control> <check> <verdict: silent|ALARM|error>
# env CHECKS="C01 C07 ..." restricts the checks; rows of this run replace rows of the same
# (control, check), all other rows are kept.
cd "$(dirname "$0")/.."
export SLOT="${SLOT:-c}"
OUT=controls/RESULTS.tsv
CHECKS="${CHECKS:-C01 C02 C03 C04 C05 C06 C07 C08 C09 C10 C11 C12 C13 C14 C15 C16 C17 C18 C19 C20}"
: > "$OUT.tmp"
for d in controls/${1:-*}/; do
  n=$(basename "$d"); [ -f "$d/refactor.diff" ] || continue
  res=$(LINES_MAX=8 bin/try_patch.sh "$d/refactor.diff" $CHECKS 2>&1)
  for c in $CHECKS; do
    if echo "$res" | grep -q "^OK $c "; then v=silent; elif echo "$res" | grep -q "^VIOLATION property=$c"; then v=ALARM; else v=error; fi
    printf "%s\t%s\t%s\n" "$n" "$c" "$v" >> "$OUT.tmp"
  done
  echo "$n: $(grep -c "^OK " <<< "$res") silent of $(wc -w <<< "$CHECKS")"
done
touch "$OUT"
awk -F'\t' 'NR==FNR { new[$1 FS $2]=1; next } !(($1 FS $2) in new) { print }' "$OUT.tmp" "$OUT" > "$OUT.keep"
cat "$OUT.keep" "$OUT.tmp" | sort > "$OUT"; rm -f "$OUT.keep" "$OUT.tmp"
git -C /repo worktree remove --force /tmp/gbmc_try_$SLOT/repo 2>/dev/null; rm -rf /tmp/gbmc_try_$SLOT
