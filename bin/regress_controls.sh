#!/bin/bash
# bin/regress_controls.sh   run every check (quick) against every negative control under controls/
# (scratch worktree, /repo untouched) and write controls/RESULTS.tsv: <control> <check> <verdict>
cd "$(dirname "$0")/.."
export SLOT="${SLOT:-c}"
OUT=controls/RESULTS.tsv
: > "$OUT.tmp"
for d in controls/*/; do
  n=$(basename "$d"); [ -f "$d/refactor.diff" ] || continue
  res=$(LINES_MAX=2 bin/try_patch.sh "$d/refactor.diff" C01 C02 C03 C04 C05 C06 C07 C08 C09 C10 C11 C12 C13 C14 C15 C16 C17 C18 C19 C20 2>&1)
  for i in 01 02 03 04 05 06 07 08 09 10 11 12 13 14 15 16 17 18 19 20; do
    if echo "$res" | grep -q "^OK C$i "; then v=silent; elif echo "$res" | grep -q "^VIOLATION property=C$i"; then v=ALARM; else v=error; fi
    printf "%s\tC%s\t%s\n" "$n" "$i" "$v" >> "$OUT.tmp"
  done
  echo "$n: $(grep -c "^OK " <<< "$res") silent"
done
mv "$OUT.tmp" "$OUT"
git -C /repo worktree remove --force /tmp/gbmc_try_$SLOT/repo 2>/dev/null; rm -rf /tmp/gbmc_try_$SLOT
